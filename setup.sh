#!/bin/bash
# Builds the checker from files on disk only (module cache; no network).
set -e
cd "$(dirname "$0")"
export PATH=/opt/veriftools/go1.26.8/bin:$PATH GOTOOLCHAIN=local GOFLAGS=-mod=mod GOPROXY=off GOSUMDB=off
unset GOWORK
mkdir -p bin evidence
(cd checker && go build -o ../bin/mlrlint .)
echo "built bin/mlrlint"
