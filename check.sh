#!/bin/bash
# usage: check.sh <Cnn> [quick|thorough]   |   check.sh --explain <violations.json>
# Static check of one property against /repo's current working tree.
cd "$(dirname "$0")"
export PATH=/opt/veriftools/go1.26.8/bin:$PATH GOTOOLCHAIN=local GOFLAGS=-mod=mod GOPROXY=off GOSUMDB=off
unset GOWORK
need_build=0
[ -x bin/mlrlint ] || need_build=1
if [ $need_build = 0 ] && [ -n "$(find checker -name '*.go' -newer bin/mlrlint 2>/dev/null | head -1)" ]; then need_build=1; fi
if [ $need_build = 1 ]; then ./setup.sh >/dev/null || { echo "cannot build checker"; exit 2; }; fi
if [ "$1" = "--explain" ]; then exec ./bin/mlrlint -explain "$2"; fi
exec ./bin/mlrlint -prop "$1" -tier "${2:-quick}" -repo "${VERIF_REPO:-/repo}" -verif "$(pwd)"
