#!/bin/bash
# Runs every registered quick check against /repo's working tree and prints one line per property.
cd "$(dirname "$0")/.."
for id in $(./bin/mlrlint -list); do
  out=$(./check.sh $id ${1:-quick} 2>&1); rc=$?
  echo "$id rc=$rc $(echo "$out" | grep -m1 "obligations")"
  if [ $rc -ne 0 ]; then echo "$out" | grep -E "FAIL|VIOLATION|UNDECIDED" | head -5; fi
done
