#!/bin/bash
# Runs every property's rules on every seeded change (as an in-memory overlay; /repo is not touched)
# and prints which rules fire. Output: one line per (seeded id, property) with the reported rule ids.
cd "$(dirname "$0")/.."
export PATH=/opt/veriftools/go1.26.8/bin:$PATH GOTOOLCHAIN=local GOFLAGS=-mod=mod GOPROXY=off GOSUMDB=off
unset GOWORK
out=${1:-/tmp/matrix}
mkdir -p $out
props=$(./bin/mlrlint -list)
run() {
  s=$1; p=$2; out=$3
  ./bin/mlrlint -child -prop $p -repo ${VERIF_REPO:-/repo} -verif "$(pwd)" -patch seeded/$s/patch.diff 2>&1 | grep '^CHILD-RESULT' | sed 's/^CHILD-RESULT //' > $out/$s.$p.json
}
export -f run
for s in $(ls seeded); do for p in $props; do echo "$s $p $out"; done; done | xargs -P 8 -L 1 bash -c 'run $0 $1 $2'
python3 - "$out" <<'PY'
import json,sys,glob,os
out=sys.argv[1]
rows={}
for f in sorted(glob.glob(out+'/*.json')):
    s,p=os.path.basename(f)[:-5].split('.')
    try: d=json.load(open(f))
    except Exception as e: rows.setdefault(s,{})[p]='ERR'; continue
    if d['status']!='ok': rows.setdefault(s,{})[p]=d['status']; continue
    rules=sorted(set(v.split('|')[0] for v in d['violations'] if v.endswith('|violation')))
    und=sorted(set(v.split('|')[0] for v in d['violations'] if v.endswith('|undecided')))
    if rules or und: rows.setdefault(s,{})[p]=','.join(rules)+(' undecided:'+','.join(und) if und else '')
    else: rows.setdefault(s,{})
for s in sorted(rows):
    print(s, '; '.join(f'{p}: {r}' for p,r in sorted(rows[s].items())) or '-')
PY
