#!/bin/bash
# Runs every property's rules on seeded changes (as in-memory overlays; /repo is not touched)
# and prints which rules report. usage: detection_matrix.sh <outdir> [seeded-id-glob]
# SEEDED_DIR (default: seeded) names the directory of <id>/patch.diff to run, relative to /verif or absolute.
cd "$(dirname "$0")/.."
export PATH=/opt/veriftools/go1.26.8/bin:$PATH GOTOOLCHAIN=local GOFLAGS=-mod=mod GOPROXY=off GOSUMDB=off
unset GOWORK
out=${1:-/tmp/matrix}; glob=${2:-*}
mkdir -p $out
props=$(${MLRLINT:-./bin/mlrlint} -list)
run() {
  s=$1; p=$2; out=$3
  ${MLRLINT:-./bin/mlrlint} -child -prop $p -repo ${VERIF_REPO:-/repo} -verif "$(pwd)" -patch ${SEEDED_DIR:-seeded}/$s/patch.diff 2>&1 | grep '^CHILD-RESULT' | sed 's/^CHILD-RESULT //' > $out/$s.$p.json
}
export -f run
for d in ${SEEDED_DIR:-seeded}/$glob; do s=$(basename $d); for p in $props; do echo "$s $p $out"; done; done | xargs -P ${MATRIX_JOBS:-6} -L 1 bash -c 'run $0 $1 $2'
python3 - "$out" <<'PY'
import json,sys,glob,os
out=sys.argv[1]
rows={}
for f in sorted(glob.glob(out+'/*.json')):
    s,p=os.path.basename(f)[:-5].split('.')
    rows.setdefault(s,{})
    try: d=json.load(open(f))
    except Exception as e: rows[s][p]='ERR'; continue
    if d['status']!='ok': rows[s][p]=d['status']+':'+d.get('detail','')[:80]; continue
    vs=d.get('violations') or []
    rules=sorted(set(v.split('|')[0] for v in vs if v.endswith('|violation')))
    und=sorted(set(v.split('|')[0] for v in vs if v.endswith('|undecided')))
    if rules or und: rows[s][p]=','.join(rules)+(' undecided:'+','.join(und) if und else '')
for s in sorted(rows):
    print(s, '; '.join(f'{p}: {r}' for p,r in sorted(rows[s].items())) or '-')
PY
