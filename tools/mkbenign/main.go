// mkbenign rewrites one function of a Go file with a behaviour-preserving
// transformation and prints the new file to stdout. Used to author the benign
// self-test variants (the output is diffed against the original).
//
//	mkbenign -file f.go -func Name -kind invert-if   [-nth 1]
//	mkbenign -file f.go -func Name -kind rename -from old -to new
//	mkbenign -file f.go -func Name -kind hoist-cond  [-nth 1]   // c := cond; if c {…}
package main

import (
	"bytes"
	"flag"
	"fmt"
	"go/ast"
	"go/format"
	"go/parser"
	"go/token"
	"os"
)

func main() {
	file := flag.String("file", "", "")
	fn := flag.String("func", "", "function or Type.Method")
	kind := flag.String("kind", "invert-if", "")
	nth := flag.Int("nth", 1, "")
	from := flag.String("from", "", "")
	to := flag.String("to", "", "")
	flag.Parse()
	fset := token.NewFileSet()
	f, err := parser.ParseFile(fset, *file, nil, parser.ParseComments)
	if err != nil {
		fmt.Fprintln(os.Stderr, err)
		os.Exit(1)
	}
	var target *ast.FuncDecl
	for _, d := range f.Decls {
		fd, ok := d.(*ast.FuncDecl)
		if !ok {
			continue
		}
		name := fd.Name.Name
		if fd.Recv != nil && len(fd.Recv.List) == 1 {
			t := fd.Recv.List[0].Type
			if s, ok := t.(*ast.StarExpr); ok {
				t = s.X
			}
			if id, ok := t.(*ast.Ident); ok {
				name = id.Name + "." + name
			}
		}
		if name == *fn {
			target = fd
		}
	}
	if target == nil || target.Body == nil {
		fmt.Fprintln(os.Stderr, "function not found")
		os.Exit(1)
	}
	done := false
	switch *kind {
	case "invert-if":
		k := 0
		ast.Inspect(target.Body, func(n ast.Node) bool {
			ifs, ok := n.(*ast.IfStmt)
			if !ok || done || ifs.Init != nil {
				return true
			}
			eb, ok := ifs.Else.(*ast.BlockStmt)
			if !ok {
				return true
			}
			k++
			if k != *nth {
				return true
			}
			ifs.Cond = &ast.UnaryExpr{Op: token.NOT, X: &ast.ParenExpr{X: ifs.Cond}}
			ifs.Body, ifs.Else = eb, ifs.Body
			done = true
			return false
		})
	case "rename":
		ast.Inspect(target.Body, func(n ast.Node) bool {
			if id, ok := n.(*ast.Ident); ok && id.Name == *from && id.Obj != nil && id.Obj.Kind == ast.Var {
				id.Name = *to
				done = true
			}
			return true
		})
	case "hoist-cond":
		k := 0
		var walk func(list []ast.Stmt) []ast.Stmt
		walk = func(list []ast.Stmt) []ast.Stmt {
			var out []ast.Stmt
			for _, st := range list {
				if ifs, ok := st.(*ast.IfStmt); ok && !done && ifs.Init == nil {
					k++
					if k == *nth {
						name := "hoistedCond"
						out = append(out, &ast.AssignStmt{Lhs: []ast.Expr{ast.NewIdent(name)}, Tok: token.DEFINE, Rhs: []ast.Expr{ifs.Cond}})
						ifs.Cond = ast.NewIdent(name)
						done = true
					}
				}
				out = append(out, st)
			}
			return out
		}
		target.Body.List = walk(target.Body.List)
	}
	if !done {
		fmt.Fprintln(os.Stderr, "nothing transformed")
		os.Exit(1)
	}
	var buf bytes.Buffer
	if err := format.Node(&buf, fset, f); err != nil {
		fmt.Fprintln(os.Stderr, err)
		os.Exit(1)
	}
	os.Stdout.Write(buf.Bytes())
}
