module mkbenign

go 1.23
