#!/bin/bash
# usage: tools/try_seeded.sh <seeded-id> <Cnn> [<Cnn>...]
# Applies /verif/seeded/<id>/patch.diff to /repo, runs the given checks, restores /repo.
id=$1; shift
cd /repo || exit 2
if ! git diff --quiet; then echo "/repo has uncommitted changes"; exit 2; fi
if ! git apply --3way /verif/seeded/$id/patch.diff 2>/tmp/apply.err; then echo "patch does not apply: $(tail -2 /tmp/apply.err)"; git reset -q --hard HEAD; exit 3; fi
git reset -q
for p in "$@"; do
  out=$(cd /verif && ./check.sh $p quick 2>&1)
  rc=$?
  echo "== $id vs $p: exit=$rc"
  echo "$out" | grep "FAIL\|VIOLATION" | head -8
done
git checkout -q -- .
git status --short | head -3
