package main

// R07.10: the one signed quotient that does not fit. In Go, math.MinInt64 / -1
// does not panic: it wraps to math.MinInt64. For the operators whose integer
// results are exact or become floats (/ // roundm …) the kernel therefore has
// to set that operand pair apart before it divides. Decided per path: every
// path from the function entry to a signed 64-bit QUO of two payload ints
// passes an edge on which the divisor is known not to be -1 or the dividend
// not to be the minimum. The (INT,INT) kernel of './' is out of scope: the
// dot operators are 64-bit modular by definition.

import (
	"fmt"
	"go/constant"
	"go/token"
	"go/types"
	"math"
	"strings"

	"golang.org/x/tools/go/ssa"
)

// payloadInt: v is an int64 read from a value's payload (AcquireIntValue,
// GetIntValue, an assertion to int64), possibly through phis.
func payloadInt(v ssa.Value, seen map[ssa.Value]bool, depth int) bool {
	if depth > 6 || seen[v] {
		return false
	}
	seen[v] = true
	switch x := v.(type) {
	case *ssa.Call:
		nm := CalleeName(&x.Call)
		return strings.HasSuffix(nm, ".AcquireIntValue")
	case *ssa.Extract:
		if call, ok := x.Tuple.(*ssa.Call); ok {
			return strings.HasSuffix(CalleeName(&call.Call), ".GetIntValue") && x.Index == 0
		}
		if ta, ok := x.Tuple.(*ssa.TypeAssert); ok {
			return isInt64(ta.AssertedType) && x.Index == 0
		}
	case *ssa.TypeAssert:
		return isInt64(x.AssertedType)
	case *ssa.Phi:
		for _, e := range x.Edges {
			if !payloadInt(e, seen, depth+1) {
				return false
			}
		}
		return len(x.Edges) > 0
	}
	return false
}

// edgeExcludes: on the edge cond==pol, is v known to differ from n?
func edgeExcludes(cond ssa.Value, pol bool, v ssa.Value, n int64) bool {
	cond, pol = stripNot(cond, pol)
	bo, ok := cond.(*ssa.BinOp)
	if !ok {
		return false
	}
	x, y, op := bo.X, bo.Y, bo.Op
	if !(x == v || sameValue(x, v)) {
		if !(y == v || sameValue(y, v)) {
			return false
		}
		x, y = y, x
		op = mirrorTok(op)
	}
	_ = x
	k, isK := y.(*ssa.Const)
	if !isK || k.Value == nil || k.Value.Kind() != constant.Int {
		return false
	}
	c, exact := constant.Int64Val(k.Value)
	if !exact {
		return false
	}
	if !pol { // negate the relation
		switch op {
		case token.EQL:
			op = token.NEQ
		case token.NEQ:
			op = token.EQL
		case token.LSS:
			op = token.GEQ
		case token.GEQ:
			op = token.LSS
		case token.GTR:
			op = token.LEQ
		case token.LEQ:
			op = token.GTR
		default:
			return false
		}
	}
	switch op {
	case token.EQL: // v == c
		return c != n
	case token.NEQ: // v != c
		return c == n
	case token.LSS: // v < c
		return n >= c
	case token.LEQ:
		return n > c
	case token.GTR: // v > c
		return n <= c
	case token.GEQ:
		return n < c
	}
	return false
}

func c07UnfitQuotient(c *Ctx, r *Report, dotKernel *types.Func) {
	r.Rule("R07.10", "the one quotient that does not fit: a signed 64-bit division of two payload ints (AcquireIntValue / GetIntValue / .(int64)) is reached only along paths on which the divisor has been tested not to be -1 or the dividend not to be the minimum int — Go wraps math.MinInt64 / -1 silently. Out of scope: the (INT,INT) kernel of './', modular by definition")
	n := 0
	for _, fn := range c.ModuleFunctions() {
		if !scopeForCrashRules(fn) || fn.Blocks == nil {
			continue
		}
		if dotKernel != nil && fn.Object() == dotKernel {
			continue
		}
		var sites []*ssa.BinOp
		for _, b := range fn.Blocks {
			for _, in := range b.Instrs {
				bo, ok := in.(*ssa.BinOp)
				if !ok || bo.Op != token.QUO || !isInt64(bo.X.Type()) {
					continue
				}
				if _, isK := bo.Y.(*ssa.Const); isK {
					continue
				}
				if !payloadInt(bo.X, map[ssa.Value]bool{}, 0) || !payloadInt(bo.Y, map[ssa.Value]bool{}, 0) {
					continue
				}
				sites = append(sites, bo)
			}
		}
		for i, bo := range sites {
			n++
			key := fmt.Sprintf("%s: int64 quotient #%d", SSAName(fn), i+1)
			bad := false
			pr := &PathRule{Fn: fn, Init: Facts{}}
			pr.Branch = func(f Facts, cond ssa.Value, pol bool, iff *ssa.If) (Facts, bool) {
				if f.Has("safe") {
					return f, true
				}
				if edgeExcludes(cond, pol, bo.Y, -1) || edgeExcludes(cond, pol, bo.X, math.MinInt64) {
					return f.With("safe"), true
				}
				return f, true
			}
			pr.Transfer = func(f Facts, in ssa.Instruction, deferred bool) []Facts {
				if in == ssa.Instruction(bo) && !f.Has("safe") {
					bad = true
				}
				return nil
			}
			pr.Run()
			if pr.Overflow {
				r.Undecided("R07.10", key, c.Rel(bo.Pos()), "too many path states")
				continue
			}
			r.Check(!bad, "R07.10", key, c.Rel(bo.Pos()), "every path excludes (minimum int, -1)",
				fmt.Sprintf("%s divides two payload ints on a path with no test that sets math.MinInt64 / -1 apart: Go wraps that quotient to math.MinInt64 instead of 2^63", SSAName(fn)))
		}
	}
	r.Floor("R07.10", "signed divisions of two payload ints", n, 3)
}
