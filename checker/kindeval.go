package main

// Analysis H/B(part): a small abstract interpreter that evaluates tiny,
// loop-free functions for *given kinds of their Mlrval arguments* by
// enumerating CFG paths. It is used to derive, from the bodies in package
// mlrval, the meaning of the kind predicates (IsInt, IsNumeric, IsLegit …),
// the kinds on which the typed accessors abort (Acquire*Value), and the truth
// tables of the is_* built-ins. No arithmetic or string reasoning: anything
// value-dependent evaluates to "unknown" and both branches are explored.

import (
	"fmt"
	"go/constant"
	"go/token"
	"go/types"
	"sort"
	"strings"

	"golang.org/x/tools/go/ssa"
)

const K_PENDING = 12 // bit index for "type not yet inferred"

// kinds an un-inferred data value can resolve to (scan.* inferrers produce
// only these; checked by R06 rules).
var pendingResolvesTo = []int{K_INT, K_FLOAT, K_VOID, K_STRING}

type AV struct {
	T    byte   // 0 unknown, 'i' small-int set, 'b' bool set, 'm' *Mlrval, 'a' address of a field of an mlrval, 'u' tuple
	I    uint64 // bit (v+1) set for int value v in -1..62
	B    uint8  // 1 = may be true, 2 = may be false
	MK   int    // 'm': the (single) kind, or -1 if unknown
	Pend bool   // 'm': value is still MT_PENDING (will resolve to MK on Type())
	Src  ssa.Value
	Toks TokSet // 'm': identity tokens (TRUE, FALSE, ARGk, kind names)
	Fld  *types.Var
	Base *AV
	Tup  []AV
}

func avUnknownFor(t types.Type) AV {
	if b, ok := t.Underlying().(*types.Basic); ok && b.Info()&types.IsBoolean != 0 {
		return AV{T: 'b', B: 3}
	}
	if isMlrvalPtr(t) {
		return AV{T: 'm', MK: -1}
	}
	if tup, ok := t.(*types.Tuple); ok {
		out := AV{T: 'u'}
		for i := 0; i < tup.Len(); i++ {
			out.Tup = append(out.Tup, avUnknownFor(tup.At(i).Type()))
		}
		return out
	}
	return AV{}
}

func avBool(b bool) AV {
	if b {
		return AV{T: 'b', B: 1}
	}
	return AV{T: 'b', B: 2}
}

func avInt(v int64) AV {
	if v < -1 || v > 62 {
		return AV{}
	}
	return AV{T: 'i', I: 1 << uint(v+1)}
}

func (a AV) key() string {
	switch a.T {
	case 'i':
		return fmt.Sprintf("i%x", a.I)
	case 'b':
		return fmt.Sprintf("b%d", a.B)
	case 'm':
		tv := ""
		if a.Toks.Has("TRUE") {
			tv += "T"
		}
		if a.Toks.Has("FALSE") {
			tv += "F"
		}
		return fmt.Sprintf("m%d,%v%s", a.MK, a.Pend, tv)
	}
	return "?"
}

type EvalResult struct {
	Results []AV // joined over paths
	Abort   bool // some path reaches an assertion failure / panic / failing type assertion
	AbortAt string
	Bailed  bool // analysis gave up (loop, too many steps): results unknown, Abort conservatively true
	Exits   bool // some path calls os.Exit
	Returns bool // some path returns normally
}

type KindEval struct {
	// InvokeOracle, when set, gives the abstract result of an interface call
	// (used to feed operand kinds into interpreter nodes that evaluate their
	// children through IEvaluable).
	InvokeOracle func(x *ssa.Call) (AV, bool)
	c            *Ctx
	rs       *RetSum
	memo     map[string]*EvalResult
	active   map[string]bool
	steps    int
	intfType map[int]string
	mvFields map[string]*types.Var
}

func NewKindEval(c *Ctx, rs *RetSum) *KindEval {
	ke := &KindEval{c: c, rs: rs, memo: map[string]*EvalResult{}, active: map[string]bool{}, mvFields: map[string]*types.Var{}}
	// Go dynamic type of Mlrval.intf per kind (verified against the
	// constructors by rule R18.1b).
	ke.intfType = map[int]string{K_INT: "int64", K_FLOAT: "float64", K_BOOL: "bool", K_BYTES: "[]byte",
		K_ARRAY: "[]*" + modPath + "/pkg/mlrval.Mlrval", K_MAP: "*" + modPath + "/pkg/mlrval.Mlrmap"}
	if mp := c.Pkg("pkg/mlrval"); mp != nil {
		if tn, ok := mp.Types.Scope().Lookup("Mlrval").(*types.TypeName); ok {
			st := tn.Type().Underlying().(*types.Struct)
			for i := 0; i < st.NumFields(); i++ {
				ke.mvFields[st.Field(i).Name()] = st.Field(i)
			}
		}
	}
	return ke
}

func joinAV(a, b AV) AV {
	if a.T == 0 && a.Src == nil && a.I == 0 && a.B == 0 && a.Toks == nil && a.Tup == nil && a.MK == 0 && !a.Pend {
		// "bottom" marker is encoded by T==255; zero AV means unknown. keep simple:
	}
	if a.T != b.T {
		return AV{}
	}
	switch a.T {
	case 'i':
		return AV{T: 'i', I: a.I | b.I}
	case 'b':
		return AV{T: 'b', B: a.B | b.B}
	case 'm':
		out := AV{T: 'm', MK: a.MK, Pend: a.Pend || b.Pend}
		if a.MK != b.MK {
			out.MK = -1
		}
		out.Toks = TokSet{}
		out.Toks.AddAll(a.Toks)
		out.Toks.AddAll(b.Toks)
		return out
	case 'u':
		if len(a.Tup) != len(b.Tup) {
			return AV{}
		}
		out := AV{T: 'u'}
		for i := range a.Tup {
			out.Tup = append(out.Tup, joinAV(a.Tup[i], b.Tup[i]))
		}
		return out
	}
	return AV{}
}

type evalPath struct {
	env   map[ssa.Value]AV
	pend  map[ssa.Value]bool // mlrval values resolved on this path (Type() called)
	visit map[*ssa.BasicBlock]int
}

func (p *evalPath) clone() *evalPath {
	q := &evalPath{env: make(map[ssa.Value]AV, len(p.env)), pend: map[ssa.Value]bool{}, visit: map[*ssa.BasicBlock]int{}}
	for k, v := range p.env {
		q.env[k] = v
	}
	for k, v := range p.pend {
		q.pend[k] = v
	}
	for k, v := range p.visit {
		q.visit[k] = v
	}
	return q
}

// Eval evaluates fn on abstract arguments.
func (ke *KindEval) Eval(fn *ssa.Function, args []AV) *EvalResult {
	return ke.eval(fn, args, 0)
}

func (ke *KindEval) eval(fn *ssa.Function, args []AV, depth int) *EvalResult {
	keyParts := []string{fn.String()}
	for _, a := range args {
		keyParts = append(keyParts, a.key())
	}
	key := strings.Join(keyParts, "|")
	if r, ok := ke.memo[key]; ok {
		return r
	}
	bail := func() *EvalResult {
		res := &EvalResult{Abort: true, Bailed: true, AbortAt: "analysis bailed in " + SSAName(fn)}
		sig := fn.Signature
		for i := 0; i < sig.Results().Len(); i++ {
			res.Results = append(res.Results, avUnknownFor(sig.Results().At(i).Type()))
		}
		return res
	}
	if fn.Blocks == nil || depth > 8 || ke.active[key] || len(fn.Blocks) > 60 {
		r := bail()
		if !ke.active[key] {
			ke.memo[key] = r
		}
		return r
	}
	ke.active[key] = true
	defer delete(ke.active, key)

	res := &EvalResult{}
	p := &evalPath{env: map[ssa.Value]AV{}, pend: map[ssa.Value]bool{}, visit: map[*ssa.BasicBlock]int{}}
	for i, prm := range fn.Params {
		if i < len(args) {
			a := args[i]
			a.Src = prm
			if a.T == 'm' && a.Toks == nil {
				a.Toks = tokset(ke.rs.paramToken(fn, prm))
			}
			p.env[prm] = a
		} else {
			p.env[prm] = avUnknownFor(prm.Type())
		}
	}
	steps := 0
	var first = true
	var run func(b *ssa.BasicBlock, prev *ssa.BasicBlock, p *evalPath) bool
	run = func(b *ssa.BasicBlock, prev *ssa.BasicBlock, p *evalPath) bool {
		p.visit[b]++
		if p.visit[b] > 1 {
			// back edge: the loop body was explored once with every loop-carried
			// value unknown (see below), so further iterations add nothing
			return true
		}
		header := false
		for _, pr := range b.Preds {
			if b.Dominates(pr) {
				header = true
			}
		}
		for _, in := range b.Instrs {
			steps++
			if steps > 40000 {
				return false
			}
			switch x := in.(type) {
			case *ssa.Phi:
				if header {
					// loop-carried: havoc
					p.env[x] = avUnknownFor(x.Type())
					continue
				}
				for i, pr := range b.Preds {
					if pr == prev {
						p.env[x] = ke.val(x.Edges[i], p)
					}
				}
			case *ssa.If:
				cv := ke.val(x.Cond, p)
				if cv.T != 'b' {
					cv = AV{T: 'b', B: 3}
				}
				ok := true
				if cv.B&1 != 0 && cv.B&2 != 0 {
					q := p.clone()
					ok = run(b.Succs[0], b, q) && ok
					ok = run(b.Succs[1], b, p) && ok
				} else if cv.B&1 != 0 {
					ok = run(b.Succs[0], b, p)
				} else {
					ok = run(b.Succs[1], b, p)
				}
				return ok
			case *ssa.Jump:
				return run(b.Succs[0], b, p)
			case *ssa.Return:
				res.Returns = true
				for i, rv := range x.Results {
					v := ke.val(rv, p)
					if v.T == 'm' && len(v.Toks) == 0 {
						v.Toks = ke.rs.eval(rv, fn, map[ssa.Value]bool{})
					}
					if first {
						res.Results = append(res.Results, v)
					} else if i < len(res.Results) {
						res.Results[i] = joinAV(res.Results[i], v)
					}
				}
				first = false
				return true
			case *ssa.Panic:
				res.Abort = true
				if res.AbortAt == "" {
					res.AbortAt = "panic at " + ke.c.Rel(x.Pos())
				}
				return true
			case *ssa.Call:
				cont, ok := ke.call(x, p, res, depth)
				if !ok {
					return false
				}
				if !cont {
					return true // path ends (exit / certain assertion failure)
				}
			case *ssa.TypeAssert:
				ke.typeAssert(x, p, res)
			case *ssa.RunDefers:
			case *ssa.Defer, *ssa.Go:
			case *ssa.Store, *ssa.MapUpdate, *ssa.DebugRef, *ssa.Send:
			case ssa.Value:
				// evaluated lazily by val()
			}
		}
		return true
	}
	if !run(fn.Blocks[0], nil, p) {
		r := bail()
		ke.memo[key] = r
		return r
	}
	if first {
		// no path returns
		sig := fn.Signature
		for i := 0; i < sig.Results().Len(); i++ {
			res.Results = append(res.Results, AV{T: 255})
		}
	}
	ke.memo[key] = res
	return res
}

func (ke *KindEval) typeAssert(x *ssa.TypeAssert, p *evalPath, res *EvalResult) {
	if x.CommaOk {
		return
	}
	src := ke.val(x.X, p)
	// is X a load of <mlrval>.intf ?
	u, ok := x.X.(*ssa.UnOp)
	if !ok || u.Op != token.MUL {
		return
	}
	fa, ok := u.X.(*ssa.FieldAddr)
	if !ok {
		return
	}
	_ = src
	base := ke.val(fa.X, p)
	if base.T != 'm' {
		return
	}
	st, ok := fa.X.Type().Underlying().(*types.Pointer).Elem().Underlying().(*types.Struct)
	if !ok || st.Field(fa.Field) != ke.mvFields["intf"] {
		return
	}
	want := types.TypeString(x.AssertedType, nil)
	if base.MK < 0 {
		res.Abort = true
		if res.AbortAt == "" {
			res.AbortAt = fmt.Sprintf("unchecked intf.(%s) on a value of unknown kind at %s", want, ke.c.Rel(x.Pos()))
		}
		return
	}
	have, known := ke.intfType[base.MK]
	pendingNow := base.Pend && !p.pend[base.Src]
	if known && have == want && want == "bool" && len(base.Toks) > 0 {
		// the payload of a boolean whose truth value is known
		if base.Toks.Has("TRUE") && !base.Toks.Has("FALSE") {
			p.env[x] = avBool(true)
		} else if base.Toks.Has("FALSE") && !base.Toks.Has("TRUE") {
			p.env[x] = avBool(false)
		}
	}
	if !known || have != want || pendingNow {
		res.Abort = true
		if res.AbortAt == "" {
			res.AbortAt = fmt.Sprintf("intf.(%s) on kind %s at %s", want, kindName(base.MK, pendingNow), ke.c.Rel(x.Pos()))
		}
	}
}

func kindName(k int, pend bool) string {
	if pend {
		return "PENDING"
	}
	if k < 0 || k >= K_DIM {
		return "?"
	}
	return kindNames[k]
}

// call handles a call instruction; returns (continuePath, ok).
func (ke *KindEval) call(x *ssa.Call, p *evalPath, res *EvalResult, depth int) (bool, bool) {
	com := &x.Call
	if com.IsInvoke() && ke.InvokeOracle != nil {
		if av, ok := ke.InvokeOracle(x); ok {
			p.env[x] = av
			return true, true
		}
	}
	name := CalleeName(com)
	switch {
	case name == "os.Exit":
		res.Exits = true
		return false, true
	case name == "pkg/lib.InternalCodingErrorIf" || name == "pkg/lib.InternalCodingErrorWithMessageIf":
		cv := ke.val(com.Args[0], p)
		if cv.T != 'b' {
			cv = AV{T: 'b', B: 3}
		}
		if cv.B&1 != 0 {
			res.Abort = true
			if res.AbortAt == "" {
				res.AbortAt = "InternalCodingErrorIf at " + ke.c.Rel(x.Pos())
			}
			if cv.B == 1 {
				return false, true
			}
		}
		p.env[x] = AV{}
		return true, true
	case name == "pkg/lib.InternalCodingErrorPanic":
		res.Abort = true
		return false, true
	case name == "pkg/mlrval.Mlrval.Type" && len(com.Args) == 1:
		a := ke.val(com.Args[0], p)
		if a.T == 'm' && a.MK >= 0 {
			if a.Src != nil {
				p.pend[a.Src] = true
			}
			p.env[x] = avInt(int64(a.MK))
		} else {
			p.env[x] = AV{T: 'i', I: (1 << 13) - 2} // any of 0..11
		}
		return true, true
	}
	callee := com.StaticCallee()
	if callee != nil && IsModuleFunc(callee) && callee.Blocks != nil {
		args := make([]AV, len(com.Args))
		interesting := false
		for i, a := range com.Args {
			args[i] = ke.val(a, p)
			if args[i].T == 'm' && args[i].Pend && p.pend[args[i].Src] {
				args[i].Pend = false
			}
			if args[i].T != 0 {
				interesting = true
			}
		}
		if interesting || len(com.Args) == 0 {
			r := ke.eval(callee, args, depth+1)
			if r.Abort {
				res.Abort = true
				if res.AbortAt == "" {
					res.AbortAt = r.AbortAt + " via " + SSAName(callee)
				}
			}
			if r.Exits {
				res.Exits = true
			}
			// a callee that resolves the type of our value
			for i, a := range args {
				if a.T == 'm' && a.Pend && a.Src != nil && ke.callsType(callee, i) {
					p.pend[a.Src] = true
				}
			}
			if !r.Returns && !r.Bailed {
				return false, true
			}
			switch len(r.Results) {
			case 0:
				p.env[x] = AV{}
			case 1:
				p.env[x] = ke.rebase(r.Results[0], callee, args)
			default:
				t := AV{T: 'u'}
				for _, e := range r.Results {
					t.Tup = append(t.Tup, ke.rebase(e, callee, args))
				}
				p.env[x] = t
			}
			return true, true
		}
	}
	p.env[x] = avUnknownFor(x.Type())
	return true, true
}

// callsType: does callee call Type() on its i-th parameter on every path
// before anything else? Approximated by: the entry block calls Type() on it.
func (ke *KindEval) callsType(callee *ssa.Function, i int) bool {
	if callee.Blocks == nil || i >= len(callee.Params) {
		return false
	}
	for _, in := range callee.Blocks[0].Instrs {
		if c, ok := in.(*ssa.Call); ok && CalleeName(&c.Call) == "pkg/mlrval.Mlrval.Type" && c.Call.Args[0] == callee.Params[i] {
			return true
		}
	}
	return false
}

// rebase maps a callee result that is one of its own parameters back to the
// caller's argument value.
func (ke *KindEval) rebase(v AV, callee *ssa.Function, args []AV) AV {
	if v.T == 255 {
		return AV{}
	}
	if v.T == 'm' && v.Src != nil {
		for i, prm := range callee.Params {
			if prm == v.Src && i < len(args) {
				return args[i]
			}
		}
		v.Src = nil
	}
	return v
}

func (ke *KindEval) val(v ssa.Value, p *evalPath) AV {
	if a, ok := p.env[v]; ok {
		return a
	}
	var out AV
	switch x := v.(type) {
	case *ssa.Const:
		if x.Value == nil {
			out = AV{}
		} else if x.Value.Kind() == constant.Bool {
			out = avBool(constant.BoolVal(x.Value))
		} else if x.Value.Kind() == constant.Int {
			if n, ok := constant.Int64Val(x.Value); ok {
				out = avInt(n)
			}
		}
	case *ssa.UnOp:
		switch x.Op {
		case token.NOT:
			a := ke.val(x.X, p)
			if a.T == 'b' {
				nb := uint8(0)
				if a.B&1 != 0 {
					nb |= 2
				}
				if a.B&2 != 0 {
					nb |= 1
				}
				out = AV{T: 'b', B: nb}
			} else {
				out = AV{T: 'b', B: 3}
			}
		case token.MUL:
			if g, ok := x.X.(*ssa.Global); ok {
				if tok, ok := ke.rs.globals[g]; ok {
					out = AV{T: 'm', MK: tokKind(tok), Toks: tokset(tok)}
					break
				}
			}
			if fa, ok := x.X.(*ssa.FieldAddr); ok {
				base := ke.val(fa.X, p)
				if base.T == 'm' {
					if st, ok := fa.X.Type().Underlying().(*types.Pointer).Elem().Underlying().(*types.Struct); ok && st.Field(fa.Field) == ke.mvFields["printrepValid"] && base.Pend {
						// invariant of deferred-type values: the original text is valid
						out = avBool(true)
						break
					}
					if st, ok := fa.X.Type().Underlying().(*types.Pointer).Elem().Underlying().(*types.Struct); ok && st.Field(fa.Field) == ke.mvFields["mvtype"] {
						if base.MK >= 0 {
							if base.Pend && !p.pend[base.Src] {
								out = avInt(-1)
							} else {
								out = avInt(int64(base.MK))
							}
						} else {
							out = AV{T: 'i', I: (1 << 14) - 1}
						}
						break
					}
				}
			}
			out = avUnknownFor(x.Type())
		default:
			out = avUnknownFor(x.Type())
		}
	case *ssa.BinOp:
		a, b := ke.val(x.X, p), ke.val(x.Y, p)
		out = avUnknownFor(x.Type())
		if x.Op == token.EQL || x.Op == token.NEQ {
			// <mlrval>.printrep == "" : for a value whose type is pending this
			// is exactly "resolves to VOID" (the scanner maps the empty
			// string, and only it, to VOID); true for an MT_VOID value.
			if base, ok := ke.fieldLoadBase(x.X, "printrep", p); ok {
				if s, isStr := constString(x.Y); isStr && s == "" && base.MK >= 0 {
					if base.Pend || base.MK == K_VOID {
						eq := base.MK == K_VOID
						if x.Op == token.NEQ {
							eq = !eq
						}
						out = avBool(eq)
						break
					}
				}
			}
		}
		if a.T == 'i' && b.T == 'i' && a.I != 0 && b.I != 0 {
			var rb uint8
			for i := 0; i < 64; i++ {
				if a.I&(1<<uint(i)) == 0 {
					continue
				}
				for j := 0; j < 64; j++ {
					if b.I&(1<<uint(j)) == 0 {
						continue
					}
					var r, ok = false, true
					switch x.Op {
					case token.EQL:
						r = i == j
					case token.NEQ:
						r = i != j
					case token.LSS:
						r = i < j
					case token.LEQ:
						r = i <= j
					case token.GTR:
						r = i > j
					case token.GEQ:
						r = i >= j
					default:
						ok = false
					}
					if !ok {
						rb = 3
					} else if r {
						rb |= 1
					} else {
						rb |= 2
					}
				}
			}
			if _, isBool := x.Type().Underlying().(*types.Basic); isBool && x.Type().Underlying().(*types.Basic).Info()&types.IsBoolean != 0 {
				out = AV{T: 'b', B: rb}
			}
		} else if a.T == 'b' && b.T == 'b' {
			switch x.Op {
			case token.EQL, token.NEQ:
				if (a.B == 1 || a.B == 2) && (b.B == 1 || b.B == 2) {
					eq := a.B == b.B
					if x.Op == token.NEQ {
						eq = !eq
					}
					out = avBool(eq)
				}
			}
		}
	case *ssa.Convert:
		a := ke.val(x.X, p)
		if a.T == 'i' {
			out = a
		} else {
			out = avUnknownFor(x.Type())
		}
	case *ssa.ChangeType:
		out = ke.val(x.X, p)
	case *ssa.Extract:
		t := ke.val(x.Tuple, p)
		if t.T == 'u' && x.Index < len(t.Tup) {
			out = t.Tup[x.Index]
		} else {
			out = avUnknownFor(x.Type())
		}
	case *ssa.Alloc:
		if isMlrvalPtr(x.Type()) {
			out = AV{T: 'm', MK: -1, Src: x}
		} else {
			out = AV{}
		}
	case *ssa.Call:
		// calls are evaluated in order by run(); reaching here means the
		// value is used before evaluation (cannot happen) – unknown.
		out = avUnknownFor(x.Type())
	default:
		out = avUnknownFor(v.Type())
	}
	p.env[v] = out
	return out
}

// fieldLoadBase: v is a load of <mlrval>.<field>; returns the mlrval's AV.
func (ke *KindEval) fieldLoadBase(v ssa.Value, field string, p *evalPath) (AV, bool) {
	u, ok := v.(*ssa.UnOp)
	if !ok || u.Op != token.MUL {
		return AV{}, false
	}
	fa, ok := u.X.(*ssa.FieldAddr)
	if !ok {
		return AV{}, false
	}
	st, ok := fa.X.Type().Underlying().(*types.Pointer).Elem().Underlying().(*types.Struct)
	if !ok || st.Field(fa.Field) != ke.mvFields[field] {
		return AV{}, false
	}
	base := ke.val(fa.X, p)
	if base.T != 'm' {
		return AV{}, false
	}
	return base, true
}

func tokKind(tok string) int {
	switch {
	case tok == "TRUE" || tok == "FALSE":
		return K_BOOL
	case strings.HasPrefix(tok, "INT:"):
		return K_INT
	}
	for i, n := range kindNames {
		if n == tok {
			return i
		}
	}
	return -1
}

// ---- derived facts -------------------------------------------------------

// KindVariant is one concrete assumption about an Mlrval argument.
type KindVariant struct {
	Kind int
	Pend bool
}

func (v KindVariant) String() string {
	if v.Pend {
		return "PENDING→" + kindNames[v.Kind]
	}
	return kindNames[v.Kind]
}

func AllKindVariants(withPending bool) []KindVariant {
	var out []KindVariant
	for k := 0; k < K_DIM; k++ {
		out = append(out, KindVariant{k, false})
	}
	if withPending {
		for _, k := range pendingResolvesTo {
			out = append(out, KindVariant{k, true})
		}
	}
	return out
}

type PredFacts struct {
	Fn       *ssa.Function
	MayTrue  map[KindVariant]bool
	MayFalse map[KindVariant]bool
	Abort    map[KindVariant]string
	Bailed   bool
}

// TrueKinds: kinds (non-pending variants) on which the predicate can be true.
func (pf *PredFacts) kindsWhere(m map[KindVariant]bool) uint16 {
	var out uint16
	for v, b := range m {
		if b {
			if v.Pend {
				out |= 1 << K_PENDING
			} else {
				out |= 1 << uint(v.Kind)
			}
		}
	}
	return out
}

func maskString(m uint16) string {
	var parts []string
	for i := 0; i < K_DIM; i++ {
		if m&(1<<uint(i)) != 0 {
			parts = append(parts, kindNames[i])
		}
	}
	if m&(1<<K_PENDING) != 0 {
		parts = append(parts, "PENDING")
	}
	sort.Strings(parts)
	return "{" + strings.Join(parts, ",") + "}"
}

// UnaryPred evaluates fn (whose parameter pi is an *Mlrval and which returns
// bool as result ri) for every kind variant.
func (ke *KindEval) UnaryPred(fn *ssa.Function, pi int, ri int) *PredFacts {
	pf := &PredFacts{Fn: fn, MayTrue: map[KindVariant]bool{}, MayFalse: map[KindVariant]bool{}, Abort: map[KindVariant]string{}}
	for _, kv := range AllKindVariants(true) {
		args := make([]AV, len(fn.Params))
		for i, prm := range fn.Params {
			args[i] = avUnknownFor(prm.Type())
		}
		args[pi] = AV{T: 'm', MK: kv.Kind, Pend: kv.Pend}
		r := ke.Eval(fn, args)
		if r.Bailed {
			pf.Bailed = true
		}
		if r.Abort {
			pf.Abort[kv] = r.AbortAt
		}
		if ri < len(r.Results) {
			rv := r.Results[ri]
			switch rv.T {
			case 'b':
				pf.MayTrue[kv] = rv.B&1 != 0
				pf.MayFalse[kv] = rv.B&2 != 0
			case 'm':
				t := rv.Toks
				pf.MayTrue[kv] = t.Has("TRUE") || !t.SubsetOf("TRUE", "FALSE")
				pf.MayFalse[kv] = t.Has("FALSE") || !t.SubsetOf("TRUE", "FALSE")
				if len(t) == 0 {
					pf.MayTrue[kv], pf.MayFalse[kv] = true, true
				}
			case 255:
				// never returns on this kind
			default:
				pf.MayTrue[kv], pf.MayFalse[kv] = true, true
			}
		}
	}
	return pf
}
