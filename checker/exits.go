package main

// Who may exit: every os.Exit / log.Fatal / recover site in the module,
// keyed by enclosing function. Shared by C17 (R17.7) and C19 (R19.8).

import (
	"fmt"
	"sort"
	"strings"

	"golang.org/x/tools/go/ssa"
)

// exitKeepList: enclosing functions that are allowed to call os.Exit, with
// the reason. Frozen from plans/exit.md and confirmed by reading each site.
// Keys are SSA function names without the module prefix; anonymous functions
// are attributed to their enclosing named function.
var exitKeepList = map[string]string{
	"pkg/entrypoint.Main":                              "the process entry: auxent dispatch exit code",
	"pkg/entrypoint.exitOnError":                       "the single exit point for errors (plans/exit.md D1)",
	"pkg/lib.InternalCodingErrorIf":                    "internal assertion: prints file/line to stderr, exit 1",
	"pkg/lib.InternalCodingErrorWithMessageIf":         "internal assertion",
	"pkg/lib.InternalCodingErrorPanic":                 "internal assertion",
	"pkg/lib.Invqnorm":                                 "mlrmath: bad-argument/non-convergence message then exit 1",
	"pkg/lib.GetRealSymmetricEigensystem":              "mlrmath: Jacobi non-convergence message then exit 1",
	"pkg/lib.LogisticRegression":                       "mlrmath: non-convergence message then exit 1",
	"pkg/lib.logisticRegressionAux":                    "mlrmath: non-convergence message then exit 1",
	"pkg/lib.CompileMillerRegexOrDie":                  "…OrDie helper: message then exit 1",
	"pkg/bifs.assertingCommon":                         "asserting_* built-ins: abort is their specified behaviour",
	"(*pkg/mlrval.Mlrval).GetNumericToFloatValueOrDie": "…OrDie helper: message then exit 1",
	"(*pkg/mlrval.Mlrval).StrictModeCheck":             "strict mode: message then exit 1 (specified behaviour of -z)",
	"(*pkg/mlrval.Mlrval).setPrintRep":                 "unprintable internal state (pending / dimension kinds): message then exit 1",
	"(*pkg/dsl/cst.IndirectFieldValueNode).Evaluate":   "DSL run-time error 'positional index out of bounds'-style abort (plans/exit.md cluster 4)",
	"(*pkg/dsl/cst.UDFCallsite).Evaluate":              "DSL: user-defined function argument/return type check failure (plans/exit.md cluster 4)",
	"(*pkg/dsl/cst.UDFCallsite).EvaluateWithArguments": "DSL: user-defined function argument/return type check failure (plans/exit.md cluster 4)",
	"pkg/dsl/cst.hashifyLookupTable":                   "init-time duplicate built-in name check",
	// higher-order functions: non-function / wrong-arity / non-boolean comparator aborts (plans/exit.md cluster 4)
	"pkg/dsl/cst.getHOFSpace": "HOF", "pkg/dsl/cst.SortHOF": "HOF", "pkg/dsl/cst.sortAF": "HOF", "pkg/dsl/cst.sortMF": "HOF",
	"pkg/dsl/cst.selectArray": "HOF", "pkg/dsl/cst.selectMap": "HOF", "pkg/dsl/cst.applyArray": "HOF", "pkg/dsl/cst.applyMap": "HOF",
	"pkg/dsl/cst.reduceArray": "HOF", "pkg/dsl/cst.reduceMap": "HOF", "pkg/dsl/cst.foldArray": "HOF", "pkg/dsl/cst.foldMap": "HOF",
	"pkg/dsl/cst.anyArray": "HOF", "pkg/dsl/cst.anyMap": "HOF", "pkg/dsl/cst.everyArray": "HOF", "pkg/dsl/cst.everyMap": "HOF",
	"pkg/dsl/cst.isFunctionOrDie": "HOF", "pkg/dsl/cst.checkArity": "HOF", "pkg/dsl/cst.hofCheckDie": "HOF",
}

type exitSite struct {
	Fn      *ssa.Function // enclosing (named) function
	Site    ssa.CallInstruction
	Kind    string // os.Exit | log.Fatal* | recover
	CodeStr string
	Zero    bool
	Const   bool
}

func enclosingNamed(f *ssa.Function) *ssa.Function {
	for f.Parent() != nil {
		f = f.Parent()
	}
	return f
}

func (c *Ctx) ExitSites() []exitSite {
	var out []exitSite
	for _, fn := range c.ModuleFunctions() {
		for _, b := range fn.Blocks {
			for _, in := range b.Instrs {
				ci, ok := in.(ssa.CallInstruction)
				if !ok {
					continue
				}
				com := ci.Common()
				name := CalleeName(com)
				switch {
				case name == "os.Exit":
					es := exitSite{Fn: enclosingNamed(fn), Site: ci, Kind: "os.Exit"}
					if n, ok := constInt(com.Args[0]); ok {
						es.Const = true
						es.Zero = n == 0
						es.CodeStr = fmt.Sprint(n)
					} else {
						es.CodeStr = "non-constant"
					}
					out = append(out, es)
				case strings.HasPrefix(name, "log.Fatal") || strings.HasPrefix(name, "log.Panic") || strings.HasPrefix(name, "log.Logger.Fatal"):
					out = append(out, exitSite{Fn: enclosingNamed(fn), Site: ci, Kind: name})
				default:
					if b, ok := com.Value.(*ssa.Builtin); ok && b.Name() == "recover" {
						out = append(out, exitSite{Fn: enclosingNamed(fn), Site: ci, Kind: "recover"})
					}
				}
			}
		}
	}
	return out
}

// dataPathPkg: packages whose code runs inside a record stream.
func subEntrypointPkg(path string) bool {
	return strings.Contains(path, "/pkg/auxents") || strings.Contains(path, "/pkg/terminals")
}

// checkExitSites: with reachOnly, only sites reachable from stream.Stream
// are judged (R19.8); otherwise every site outside sub-entrypoints (R17.7).
func checkExitSites(c *Ctx, r *Report, rule string, reachOnly bool) {
	sites := c.ExitSites()
	var reach map[*ssa.Function]bool
	if reachOnly {
		root := c.SSAFunc(c.LookupFunc("pkg/stream", "Stream"))
		if root == nil {
			r.Undecided(rule, "stream.Stream", "", "anchor not found")
			return
		}
		m := Reachable(c.CHA(), []*ssa.Function{root}, nil)
		reach = map[*ssa.Function]bool{}
		for f := range m {
			reach[enclosingNamed(f)] = true
			reach[f] = true
		}
	}
	type agg struct {
		n    int
		pos  string
		bad  []string
		kind string
	}
	byFn := map[string]*agg{}
	var order []string
	for _, s := range sites {
		pk := ""
		if s.Fn.Pkg != nil {
			pk = s.Fn.Pkg.Pkg.Path()
		}
		if subEntrypointPkg(pk) {
			continue
		}
		if reachOnly && !reach[s.Fn] {
			continue
		}
		name := SSAName(s.Fn)
		a := byFn[name]
		if a == nil {
			a = &agg{pos: c.Rel(s.Site.Pos()), kind: s.Kind}
			byFn[name] = a
			order = append(order, name)
		}
		a.n++
		if s.Kind != "os.Exit" {
			a.bad = append(a.bad, fmt.Sprintf("%s at %s", s.Kind, c.Rel(s.Site.Pos())))
		}
	}
	sort.Strings(order)
	for _, name := range order {
		a := byFn[name]
		_, keep := exitKeepList[name]
		if !keep {
			keep = exitKeepPattern(name)
		}
		if len(a.bad) > 0 {
			r.Fail(rule, "exit in "+name, a.pos, "uses "+strings.Join(a.bad, ", ")+": errors must flow to the single exit point")
			continue
		}
		what := "os.Exit outside the keep-list"
		if reachOnly {
			what = "os.Exit reachable from stream.Stream outside the keep-list: an exit here skips in-place cleanup and the error path"
		}
		r.Check(keep, rule, "exit in "+name, a.pos, fmt.Sprintf("%d site(s), on the keep-list", a.n), what)
	}
	r.Floor(rule, "functions with exit sites examined", len(order), 5)
}

// exitKeepPattern: families on the keep-list that are named by convention
// in plans/exit.md (DSL …OrDie helpers in hofs.go/udf.go/evaluable.go).
func exitKeepPattern(name string) bool {
	if !strings.HasPrefix(name, "pkg/dsl/cst.") {
		return false
	}
	base := name[strings.LastIndex(name, ".")+1:]
	if strings.HasSuffix(base, "OrDie") || strings.HasPrefix(base, "hofCheckDie") || strings.HasPrefix(base, "hofCheck") {
		return true
	}
	return false
}
