package main

// Thorough tier: the property's rules are run again
//   (a) on the file sets of other platforms (GOOS / GOARCH), and
//   (b) on in-memory variants of the current tree — breaking ones (a seeded
//       change kept under /verif/seeded, applied as an overlay: the named rule
//       must fire) and benign ones (behaviour-preserving edits: nothing new may
//       fire) — the checker's self-test both ways.
// Each run is a sub-process of this binary (one load each; memory is returned
// to the system in between). /repo itself is never modified.

import (
	"bytes"
	"encoding/json"
	"fmt"
	"os"
	"os/exec"
	"path/filepath"
	"sort"
	"strings"
	"sync"
)

type VariantSpec struct {
	ID       string `json:"id"`
	Property string `json:"property"` // the check that must react
	Kind     string `json:"kind"`     // breaking | benign
	Patch    string `json:"patch"`    // path relative to the verif dir
	Rule     string `json:"rule,omitempty"`
	KeyPart  string `json:"key_contains,omitempty"`
	Note     string `json:"note,omitempty"`
}

type VariantResult struct {
	Spec       VariantSpec `json:"spec"`
	Outcome    string      `json:"outcome"` // fired | silent | skipped | invalid | missed | noisy
	Detail     string      `json:"detail,omitempty"`
	Violations []string    `json:"violations,omitempty"`
}

// ---- unified diff application (in memory) ------------------------------------------

type hunk struct {
	oldStart int
	before   []string // context + removed lines
	after    []string // context + added lines
}

func parseUnifiedDiff(text string) (map[string][]hunk, error) {
	out := map[string][]hunk{}
	var cur string
	var h *hunk
	flush := func() {
		if h != nil && cur != "" {
			out[cur] = append(out[cur], *h)
		}
		h = nil
	}
	for _, line := range strings.Split(text, "\n") {
		switch {
		case strings.HasPrefix(line, "diff --git"):
			flush()
			cur = ""
		case strings.HasPrefix(line, "+++ "):
			flush()
			p := strings.TrimSpace(strings.TrimPrefix(line, "+++ "))
			p = strings.TrimPrefix(p, "b/")
			if i := strings.IndexByte(p, '\t'); i >= 0 {
				p = p[:i]
			}
			cur = p
		case strings.HasPrefix(line, "--- "), strings.HasPrefix(line, "index "), strings.HasPrefix(line, "new file"), strings.HasPrefix(line, "deleted file"), strings.HasPrefix(line, "similarity"), strings.HasPrefix(line, "rename "):
		case strings.HasPrefix(line, "@@"):
			flush()
			h = &hunk{}
			fmt.Sscanf(line, "@@ -%d", &h.oldStart)
		case h != nil && strings.HasPrefix(line, "+"):
			h.after = append(h.after, line[1:])
		case h != nil && strings.HasPrefix(line, "-"):
			h.before = append(h.before, line[1:])
		case h != nil && strings.HasPrefix(line, " "):
			h.before = append(h.before, line[1:])
			h.after = append(h.after, line[1:])
		case h != nil && line == "":
			// an empty context line whose leading blank was stripped, or the end of the text
			h.before = append(h.before, "")
			h.after = append(h.after, "")
		case strings.HasPrefix(line, "\\"):
		}
	}
	flush()
	if len(out) == 0 {
		return nil, fmt.Errorf("no hunks found")
	}
	return out, nil
}

func trimTrailingEmpty(xs []string) []string {
	for len(xs) > 0 && xs[len(xs)-1] == "" {
		xs = xs[:len(xs)-1]
	}
	return xs
}

func matchAt(lines []string, at int, want []string) bool {
	if at < 0 || at+len(want) > len(lines) {
		return false
	}
	for i, w := range want {
		if lines[at+i] != w {
			return false
		}
	}
	return true
}

// applyHunks applies the hunks to content; each hunk must match exactly (its
// position may have moved).
func applyHunks(content string, hs []hunk) (string, error) {
	lines := strings.Split(content, "\n")
	offset := 0
	for _, h := range hs {
		before := trimTrailingEmpty(append([]string{}, h.before...))
		after := append([]string{}, h.after...)
		// keep after aligned with the trimmed before
		for len(after) > 0 && len(h.before) > len(before) && after[len(after)-1] == "" {
			after = after[:len(after)-1]
			h.before = h.before[:len(h.before)-1]
		}
		want := h.oldStart - 1 + offset
		pos := -1
		for d := 0; d <= len(lines); d++ {
			if matchAt(lines, want+d, before) {
				pos = want + d
				break
			}
			if d > 0 && matchAt(lines, want-d, before) {
				pos = want - d
				break
			}
		}
		if pos < 0 {
			return "", fmt.Errorf("hunk at line %d does not match the current file", h.oldStart)
		}
		nl := append([]string{}, lines[:pos]...)
		nl = append(nl, after...)
		nl = append(nl, lines[pos+len(before):]...)
		offset += len(after) - len(before)
		lines = nl
	}
	return strings.Join(lines, "\n"), nil
}

func overlayFromPatch(repo, patchFile string) (map[string]string, error) {
	b, err := os.ReadFile(patchFile)
	if err != nil {
		return nil, err
	}
	files, err := parseUnifiedDiff(string(b))
	if err != nil {
		return nil, err
	}
	out := map[string]string{}
	for rel, hs := range files {
		cur, err := os.ReadFile(filepath.Join(repo, rel))
		if err != nil {
			return nil, fmt.Errorf("%s: %v", rel, err)
		}
		nw, err := applyHunks(string(cur), hs)
		if err != nil {
			return nil, fmt.Errorf("%s: %v", rel, err)
		}
		out[rel] = nw
	}
	return out, nil
}

// ---- child mode ---------------------------------------------------------------------

type childOut struct {
	Status     string   `json:"status"` // ok | patch-mismatch | load-error
	Detail     string   `json:"detail,omitempty"`
	Violations []string `json:"violations"` // "rule|key|status" for violation and undecided (known findings removed)
	Obls       int      `json:"obligations"`
}

// runChild: run the property on an overlaid tree and print a childOut as JSON.
func runChild(prop, repo, verif, patch string) int {
	def := props[prop]
	out := childOut{Status: "ok"}
	emit := func() int {
		b, _ := json.Marshal(out)
		fmt.Println("CHILD-RESULT " + string(b))
		return 0
	}
	var overlay map[string]string
	if patch != "" {
		ov, err := overlayFromPatch(repo, patch)
		if err != nil {
			out.Status, out.Detail = "patch-mismatch", err.Error()
			return emit()
		}
		overlay = ov
	}
	r := NewReport(prop, "variant")
	func() {
		defer func() {
			if e := recover(); e != nil {
				r.Undecided("R00", "analyzer-panic", "", fmt.Sprintf("%v", e))
			}
		}()
		c, err := Load(repo, "quick", def.needSSA, overlay)
		if err != nil {
			out.Status, out.Detail = "load-error", err.Error()
			return
		}
		def.run(c, r)
	}()
	if out.Status != "ok" {
		return emit()
	}
	known, _ := loadKnown(filepath.Join(verif, "known_findings.jsonl"))
	kidx := map[string]bool{}
	for _, k := range known {
		if k.Property == prop && k.Status == "known" {
			kidx[k.Rule+"|"+k.Key] = true
		}
	}
	for _, f := range r.Floors {
		if f.Found < f.Min {
			r.Fail(f.Rule, "floor:"+f.What, "", "instance floor")
		}
	}
	for _, o := range r.Obls {
		if (o.Status == "violation" && !kidx[o.Rule+"|"+o.Key]) || o.Status == "undecided" {
			out.Violations = append(out.Violations, o.Rule+"|"+o.Key+"|"+o.Status)
		}
	}
	sort.Strings(out.Violations)
	out.Obls = len(r.Obls)
	return emit()
}

func spawnChild(prop, repo, verif, patch string, env []string) (*childOut, error) {
	self, err := os.Executable()
	if err != nil {
		return nil, err
	}
	args := []string{"-child", "-prop", prop, "-repo", repo, "-verif", verif}
	if patch != "" {
		args = append(args, "-patch", patch)
	}
	cmd := exec.Command(self, args...)
	cmd.Env = append(os.Environ(), env...)
	var buf bytes.Buffer
	cmd.Stdout = &buf
	cmd.Stderr = &buf
	err = cmd.Run()
	for _, line := range strings.Split(buf.String(), "\n") {
		if strings.HasPrefix(line, "CHILD-RESULT ") {
			var co childOut
			if e := json.Unmarshal([]byte(strings.TrimPrefix(line, "CHILD-RESULT ")), &co); e == nil {
				return &co, nil
			}
		}
	}
	tail := buf.String()
	if len(tail) > 600 {
		tail = tail[len(tail)-600:]
	}
	return nil, fmt.Errorf("child produced no result (%v): %s", err, tail)
}

// ---- thorough driver -----------------------------------------------------------------

var platformVariants = [][]string{
	{"GOOS=windows", "CGO_ENABLED=0"},
	{"GOOS=darwin", "CGO_ENABLED=0"},
	{"GOARCH=386", "CGO_ENABLED=0"},
}

func loadVariantSpecs(verif, prop string) ([]VariantSpec, error) {
	b, err := os.ReadFile(filepath.Join(verif, "selftest", "variants.json"))
	if err != nil {
		if os.IsNotExist(err) {
			return nil, nil
		}
		return nil, err
	}
	var all []VariantSpec
	if err := json.Unmarshal(b, &all); err != nil {
		return nil, err
	}
	var out []VariantSpec
	for _, v := range all {
		if v.Property == prop {
			out = append(out, v)
		}
	}
	return out, nil
}

// runThorough adds the platform and self-test obligations to r.
func runThorough(prop, repo, verif string, r *Report) {
	r.Rule("T.platform", "the property's rules hold on the file sets of the other platforms too (GOOS=windows, GOOS=darwin, GOARCH=386: build-tagged files differ), with the same known findings")
	r.Rule("T.selftest", "checker self-test on in-memory variants of the current tree: every breaking variant (a seeded change kept under /verif/seeded, applied as an overlay) makes the named rule report a violation; every benign variant (a behaviour-preserving edit) leaves the verdict unchanged. A variant whose context no longer matches the tree is skipped and counted")
	specs, err := loadVariantSpecs(verif, prop)
	if err != nil {
		r.Undecided("T.selftest", "variants.json", "", err.Error())
	}
	type job struct {
		kind string
		env  []string
		spec VariantSpec
	}
	var jobs []job
	for _, e := range platformVariants {
		jobs = append(jobs, job{kind: "platform", env: e})
	}
	for _, s := range specs {
		jobs = append(jobs, job{kind: "variant", spec: s})
	}
	type res struct {
		j   job
		out *childOut
		err error
	}
	results := make([]res, len(jobs))
	sem := make(chan struct{}, 6)
	var wg sync.WaitGroup
	for i, j := range jobs {
		wg.Add(1)
		go func(i int, j job) {
			defer wg.Done()
			sem <- struct{}{}
			defer func() { <-sem }()
			patch := ""
			if j.kind == "variant" {
				patch = filepath.Join(verif, j.spec.Patch)
			}
			co, err := spawnChild(prop, repo, verif, patch, j.env)
			results[i] = res{j, co, err}
		}(i, j)
	}
	wg.Wait()
	var vres []VariantResult
	nFired, nSilent, nSkipped := 0, 0, 0
	for _, x := range results {
		if x.j.kind == "platform" {
			key := strings.Join(x.j.env[:1], " ")
			switch {
			case x.err != nil:
				r.Undecided("T.platform", key, "", x.err.Error())
			case x.out.Status != "ok":
				r.Undecided("T.platform", key, "", x.out.Status+": "+x.out.Detail)
			case len(x.out.Violations) > 0:
				r.Fail("T.platform", key, "", fmt.Sprintf("with %s the rules report %v", key, x.out.Violations))
			default:
				r.OK("T.platform", key, "", fmt.Sprintf("%d obligations, none violated", x.out.Obls))
			}
			continue
		}
		s := x.j.spec
		vr := VariantResult{Spec: s}
		key := s.ID + " (" + s.Kind + ")"
		switch {
		case x.err != nil:
			vr.Outcome, vr.Detail = "invalid", x.err.Error()
			r.Undecided("T.selftest", key, s.Patch, x.err.Error())
		case x.out.Status == "patch-mismatch":
			vr.Outcome, vr.Detail = "skipped", x.out.Detail
			nSkipped++
			r.OK("T.selftest", key, s.Patch, "skipped: the variant's context no longer matches the tree ("+x.out.Detail+")")
		case x.out.Status != "ok":
			vr.Outcome, vr.Detail = "invalid", x.out.Status+": "+x.out.Detail
			r.Undecided("T.selftest", key, s.Patch, "the variant does not load: "+x.out.Detail)
		case s.Kind == "breaking":
			vr.Violations = x.out.Violations
			hit := false
			for _, v := range x.out.Violations {
				parts := strings.SplitN(v, "|", 3)
				// a report is a violation or, where the rule can no longer read the construct, an undecided obligation — both fail the check
				if parts[0] == s.Rule && (s.KeyPart == "" || strings.Contains(parts[1], s.KeyPart)) {
					hit = true
				}
			}
			if hit {
				vr.Outcome = "fired"
				nFired++
				r.OK("T.selftest", key, s.Patch, fmt.Sprintf("rule %s reports the broken instance (%d reports in all)", s.Rule, len(x.out.Violations)))
			} else {
				vr.Outcome = "missed"
				r.Undecided("T.selftest", key, s.Patch, fmt.Sprintf("the checker no longer detects this breaking variant: rule %s did not fire (reports: %v)", s.Rule, x.out.Violations))
			}
		default: // benign
			vr.Violations = x.out.Violations
			if len(x.out.Violations) == 0 {
				vr.Outcome = "silent"
				nSilent++
				r.OK("T.selftest", key, s.Patch, "no report on the behaviour-preserving variant")
			} else {
				vr.Outcome = "noisy"
				r.Undecided("T.selftest", key, s.Patch, fmt.Sprintf("false alarm of the checker on a behaviour-preserving variant: %v", x.out.Violations))
			}
		}
		vres = append(vres, vr)
	}
	r.Extra["selftest_variants"] = vres
	r.Extra["selftest_summary"] = map[string]int{"breaking_fired": nFired, "benign_silent": nSilent, "skipped": nSkipped, "total": len(specs)}
	r.Extra["platform_variants"] = []string{"GOOS=windows", "GOOS=darwin", "GOARCH=386"}
}
