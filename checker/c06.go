package main

// C06 — type inference: the tables and wiring the scanner and inferrers are
// built from.

import (
	"fmt"
	"go/ast"
	"go/constant"
	"go/token"
	"go/types"
	"sort"
	"strings"

	"golang.org/x/tools/go/ssa"
)

func init() { register("C06", true, runC06) }

func runC06(c *Ctx, r *Report) {
	r.Explanation = "That the scanner's control flow accepts exactly the documented number language is a statement about all strings and is not decided. Decided are the tables and wiring it is built from: the four 128-entry digit-class tables equal the documented character classes and their accessors guard the table length; both inferrer tables have one entry per scan type and the entry at each index parses with the base / prefix handling that scan type denotes; every numeric inferrer falls back to the original text as a string when parsing fails; the 16-digit hex two's-complement window covers both letter cases; -S / -A / -O select the matching inferrer and nothing else writes the inferrer variable at run time; JSON string values are never inferred while JSON numbers are, through the flag-selected inferrer."
	r.NotDecided = "the accepted language of scan.FindScanType (hand-written automaton), numeric values at the 2^63 / 2^64 / 1e308 boundaries, prefix slicing bounds in the hex/binary inferrers."
	c06Digits(c, r)
	c06Inferrers(c, r)
	c06Flags(c, r)
	c06JSON(c, r)
	c06BothCases(c, r)
	c06LiteralsNotInferred(c, r)
}

// ---- R06.1 -----------------------------------------------------------------
func c06Digits(c *Ctx, r *Report) {
	r.Rule("R06.1", "digit classes: the four boolean tables of scan/digits.go, read as sets, equal decimal [0-9], octal [0-7], hex [0-9a-fA-F], float [0-9.+-eE]; each accessor guards c < len(table)")
	p := c.Pkg("pkg/scan")
	if p == nil {
		r.Undecided("R06.1", "pkg/scan", "", "package not loaded")
		return
	}
	want := map[string]string{
		"isDecimalDigitTable": "0123456789",
		"isOctalDigitTable":   "01234567",
		"isHexDigitTable":     "0123456789ABCDEFabcdef",
		"isFloatDigitTable":   "+-.0123456789Ee",
	}
	tables := map[string][]bool{}
	for _, f := range p.Syntax {
		for _, d := range f.Decls {
			gd, ok := d.(*ast.GenDecl)
			if !ok || gd.Tok != token.VAR {
				continue
			}
			for _, s := range gd.Specs {
				vs := s.(*ast.ValueSpec)
				for i, nm := range vs.Names {
					if _, wanted := want[nm.Name]; !wanted || i >= len(vs.Values) {
						continue
					}
					lit, ok := vs.Values[i].(*ast.CompositeLit)
					if !ok {
						continue
					}
					var vals []bool
					okAll := true
					for _, el := range lit.Elts {
						if _, isKV := el.(*ast.KeyValueExpr); isKV {
							okAll = false
							break
						}
						tv := p.TypesInfo.Types[el]
						if tv.Value == nil || tv.Value.Kind() != constant.Bool {
							okAll = false
							break
						}
						vals = append(vals, constant.BoolVal(tv.Value))
					}
					if okAll {
						tables[nm.Name] = vals
					}
				}
			}
		}
	}
	var names []string
	for k := range want {
		names = append(names, k)
	}
	sort.Strings(names)
	for _, name := range names {
		vals, ok := tables[name]
		if !ok {
			r.Undecided("R06.1", name, "pkg/scan/digits.go", "table literal not found or not a plain list of booleans")
			continue
		}
		var got []byte
		for i, v := range vals {
			if v {
				got = append(got, byte(i))
			}
		}
		gs := string(got)
		// sort want for comparison
		wb := []byte(want[name])
		sort.Slice(wb, func(i, j int) bool { return wb[i] < wb[j] })
		r.Check(gs == string(wb) && len(vals) == 128, "R06.1", name, "pkg/scan/digits.go", fmt.Sprintf("%d entries, true exactly for %q", len(vals), gs),
			fmt.Sprintf("%s has %d entries and is true for %q; the documented class is %q (128 entries): strings with the differing characters are classified as numbers (or numbers as strings)", name, len(vals), gs, string(wb)))
	}
	// accessors guard the length
	for _, acc := range []string{"isDecimalDigit", "isOctalDigit", "isHexDigit", "isFloatDigit"} {
		f := c.SSAFunc(c.LookupFunc("pkg/scan", acc))
		if f == nil {
			r.Undecided("R06.1", acc, "", "accessor not found")
			continue
		}
		ok := false
		tname := ""
		for _, b := range f.Blocks {
			for _, in := range b.Instrs {
				ia, isIA := in.(*ssa.IndexAddr)
				if !isIA {
					continue
				}
				if u, isU := ia.X.(*ssa.UnOp); isU {
					if g, isG := u.X.(*ssa.Global); isG {
						tname = g.Name()
					}
				}
				for _, g := range GuardsAt(b) {
					if bo, isBo := g.Cond.(*ssa.BinOp); isBo && bo.Op == token.LSS && g.Polarity {
						if k, isK := constInt(bo.Y); isK && int(k) <= len(tables[tname]) {
							ok = true
						}
					}
				}
			}
		}
		r.Check(ok, "R06.1", acc+" guards the table length", c.Rel(f.Pos()), "index guarded by c < len("+tname+")", acc+" indexes "+tname+" without a guard that the byte is below the table length: bytes ≥ 128 (UTF-8 data) panic with index out of range")
	}
}

// ---- R06.2 / R06.3 -----------------------------------------------------------
type parseSig struct {
	calls []string // "ParseInt/10", "ParseUint/16", "ParseFloat"
	strip bool
}

func (p parseSig) String() string {
	s := strings.Join(p.calls, "+")
	if s == "" {
		s = "none"
	}
	if p.strip {
		s += " (prefix stripped)"
	}
	return s
}

// parseSignature: strconv parsers reachable in an inferrer, with the base
// constant-propagated through one level of helper call.
func parseSignature(fn *ssa.Function, baseArg map[*ssa.Parameter]int64, depth int) parseSig {
	var sig parseSig
	if fn == nil || fn.Blocks == nil || depth > 2 {
		return sig
	}
	add := func(s string) {
		for _, e := range sig.calls {
			if e == s {
				return
			}
		}
		sig.calls = append(sig.calls, s)
	}
	for _, b := range fn.Blocks {
		for _, in := range b.Instrs {
			switch x := in.(type) {
			case *ssa.Slice:
				// printrep[2:] / [3:] : prefix stripped
				if k, ok := constInt(x.Low); ok && k >= 2 && x.Low != nil {
					sig.strip = true
				}
			case *ssa.Call:
				name := CalleeName(&x.Call)
				switch name {
				case "strconv.ParseInt", "strconv.ParseUint":
					base := int64(-1)
					if k, ok := constInt(x.Call.Args[1]); ok {
						base = k
					} else if prm, ok := x.Call.Args[1].(*ssa.Parameter); ok {
						if bv, ok := baseArg[prm]; ok {
							base = bv
						}
					} else if cv, ok := x.Call.Args[1].(*ssa.Convert); ok {
						if prm, ok := cv.X.(*ssa.Parameter); ok {
							if bv, ok := baseArg[prm]; ok {
								base = bv
							}
						}
					}
					add(fmt.Sprintf("%s/%d", strings.TrimPrefix(name, "strconv."), base))
				case "strconv.ParseFloat":
					add("ParseFloat")
				default:
					callee := x.Call.StaticCallee()
					// an inferrer it delegates to, or a helper of the package it shares with its siblings (prefix stripping, say)
					if callee != nil && IsModuleFunc(callee) && callee.Pkg != nil && callee.Pkg.Pkg.Path() == mlrvalPkg && callee.Signature.Recv() == nil && callee != fn {
						ba := map[*ssa.Parameter]int64{}
						for i, a := range x.Call.Args {
							if k, ok := constInt(a); ok && i < len(callee.Params) {
								ba[callee.Params[i]] = k
							}
						}
						sub := parseSignature(callee, ba, depth+1)
						for _, s := range sub.calls {
							add(s)
						}
						if sub.strip {
							sig.strip = true
						}
					}
				}
			}
		}
	}
	sort.Strings(sig.calls)
	return sig
}

func c06Inferrers(c *Ctx, r *Report) {
	r.Rule("R06.2", "scan-type ↔ inferrer alignment: normalInferrerTable and leadingZeroAsIntInferrerTable have exactly one entry per ScanType constant (0..7) and the entry at index t parses as t denotes (identity by effect, not by name): string → no parser; decimal → ParseInt base 10 with ParseFloat for out-of-range digits; leading-zero decimal → none (normal) / the same as decimal (-O); 0o → base 8 with prefix stripped; leading-zero octal → none (normal) / base 8 (-O); hex → ParseInt+ParseUint base 16 stripped; binary → base 2 stripped; maybe-float → ParseFloat")
	mp := c.Pkg("pkg/mlrval")
	sp := c.Pkg("pkg/scan")
	// scan type constants
	stNames := []string{"scanTypeString", "scanTypeDecimalInt", "scanTypeLeadingZeroDecimalInt", "scanTypeOctalInt", "scanTypeLeadingZeroOctalInt", "scanTypeHexInt", "scanTypeBinaryInt", "scanTypeMaybeFloat"}
	for i, n := range stNames {
		k, ok := sp.Types.Scope().Lookup(n).(*types.Const)
		v := int64(-1)
		if ok {
			v, _ = constInt64(k)
		}
		if int(v) != i {
			r.Undecided("R06.2", "scan type "+n, "pkg/scan/type.go", fmt.Sprintf("constant %s = %d, expected %d: the frozen meaning of the table indices no longer applies", n, v, i))
			return
		}
	}
	wantNormal := []string{"none", "ParseFloat+ParseInt/10", "none", "ParseInt/8 (prefix stripped)", "none", "ParseInt/16+ParseUint/16 (prefix stripped)", "ParseInt/2 (prefix stripped)", "ParseFloat"}
	wantOctal := []string{"none", "ParseFloat+ParseInt/10", "ParseFloat+ParseInt/10", "ParseInt/8 (prefix stripped)", "ParseInt/8", "ParseInt/16+ParseUint/16 (prefix stripped)", "ParseInt/2 (prefix stripped)", "ParseFloat"}
	readTable := func(name string) []*types.Func {
		for _, f := range mp.Syntax {
			for _, d := range f.Decls {
				gd, ok := d.(*ast.GenDecl)
				if !ok || gd.Tok != token.VAR {
					continue
				}
				for _, s := range gd.Specs {
					vs := s.(*ast.ValueSpec)
					for i, nm := range vs.Names {
						if nm.Name != name || i >= len(vs.Values) {
							continue
						}
						lit, ok := vs.Values[i].(*ast.CompositeLit)
						if !ok {
							return nil
						}
						var out []*types.Func
						for _, el := range lit.Elts {
							if _, isKV := el.(*ast.KeyValueExpr); isKV {
								return nil
							}
							out = append(out, resolveFuncExpr(mp.TypesInfo, el))
						}
						return out
					}
				}
			}
		}
		return nil
	}
	var allInf []*ssa.Function
	for _, spec := range []struct {
		name string
		want []string
	}{{"normalInferrerTable", wantNormal}, {"leadingZeroAsIntInferrerTable", wantOctal}} {
		tab := readTable(spec.name)
		if tab == nil {
			r.Undecided("R06.2", spec.name, "pkg/mlrval/mlrval_infer.go", "table literal not found or keyed")
			continue
		}
		r.Check(len(tab) == len(stNames), "R06.2", spec.name+" length", "pkg/mlrval/mlrval_infer.go", fmt.Sprintf("%d entries", len(tab)), fmt.Sprintf("%s has %d entries for %d scan types: indexing by a scan type panics or selects the wrong inferrer", spec.name, len(tab), len(stNames)))
		for i, f := range tab {
			if i >= len(stNames) {
				break
			}
			if f == nil {
				r.Fail("R06.2", fmt.Sprintf("%s[%s]", spec.name, stNames[i]), "pkg/mlrval/mlrval_infer.go", "entry is not a named function")
				continue
			}
			sf := c.SSAFunc(f)
			allInf = append(allInf, sf)
			got := parseSignature(sf, nil, 0).String()
			r.Check(got == spec.want[i], "R06.2", fmt.Sprintf("%s[%s]", spec.name, stNames[i]), c.Rel(f.Pos()), f.Name()+": "+got,
				fmt.Sprintf("%s[%s] is %s which parses as '%s'; this scan type denotes '%s': values of this shape get the wrong type or value", spec.name, stNames[i], f.Name(), got, spec.want[i]))
		}
	}
	// ---- R06.3 fallback
	r.Rule("R06.3", "every numeric inferrer falls back to the original text as a string: each return of an inferrer is SetFromPrevalidated…(mv.printrep, v) under the parser's err == nil, or SetFromString(mv.printrep); no panic, no partial value")
	seen := map[*ssa.Function]bool{}
	var queue []*ssa.Function
	for _, f := range allInf {
		if f != nil && !seen[f] {
			seen[f] = true
			queue = append(queue, f)
		}
	}
	for len(queue) > 0 {
		f := queue[0]
		queue = queue[1:]
		bad := ""
		nret := 0
		for _, b := range f.Blocks {
			for _, in := range b.Instrs {
				if _, isPanic := in.(*ssa.Panic); isPanic {
					bad = "panics at " + c.Rel(in.Pos())
				}
			}
			ret, ok := b.Instrs[len(b.Instrs)-1].(*ssa.Return)
			if !ok || len(ret.Results) != 1 {
				continue
			}
			nret++
			call, ok := ret.Results[0].(*ssa.Call)
			if !ok {
				bad = "returns something that is not a setter call at " + c.Rel(ret.Pos())
				continue
			}
			name := CalleeName(&call.Call)
			switch {
			case name == "pkg/mlrval.Mlrval.SetFromString":
				if !isPrintrepLoadOf(call.Call.Args[1], call.Call.Args[0]) {
					bad = "string fallback does not re-install the value's own text at " + c.Rel(ret.Pos())
				}
			case strings.HasPrefix(name, "pkg/mlrval.Mlrval.SetFromPrevalidated"):
				// must be under err == nil of a strconv call
				okGuard := false
				for _, g := range GuardsAt(b) {
					if cc, nonNil, ok := ErrCheck(g.Cond); ok && nonNil != g.Polarity && strings.HasPrefix(CalleeName(&cc.Call), "strconv.Parse") {
						okGuard = true
					}
				}
				if !okGuard {
					bad = "typed result installed without the parser's err == nil at " + c.Rel(ret.Pos())
				}
			default:
				callee := call.Call.StaticCallee()
				if callee != nil && callee.Pkg != nil && callee.Pkg.Pkg.Path() == mlrvalPkg && strings.HasPrefix(callee.Name(), "infer") {
					if !seen[callee] {
						seen[callee] = true
						queue = append(queue, callee)
					}
				} else {
					bad = "returns " + name + " at " + c.Rel(ret.Pos())
				}
			}
		}
		r.Check(bad == "" && nret > 0, "R06.3", f.Name(), c.Rel(f.Pos()), fmt.Sprintf("%d returns: typed under err == nil, else the original text as string", nret), "inferrer "+f.Name()+": "+bad)
	}
	// ---- R06.3b
	r.Rule("R06.3b", "integers that do not fit in 64 bits become floats: in the decimal-int inferrers the ParseInt failure path attempts ParseFloat before the string fallback")
	for _, name := range []string{"inferDecimalInt", "inferLeadingZeroDecimalIntAsInt"} {
		f := c.SSAFunc(c.LookupFunc("pkg/mlrval", name))
		if f == nil {
			r.Undecided("R06.3b", name, "", "inferrer not found")
			continue
		}
		sig := parseSignature(f, nil, 0)
		has := false
		for _, cl := range sig.calls {
			if cl == "ParseFloat" {
				has = true
			}
		}
		r.Check(has, "R06.3b", name, c.Rel(f.Pos()), "ParseFloat attempted", "a decimal integer too large for int64 goes straight to the string fallback: 18446744073709551616 is typed string, not float as documented")
	}
	// ---- R06.7 hex window
	r.Rule("R06.7", "16-digit hex from 0x8… upward is a two's-complement negative for both letter cases: the first-digit test of inferHexInt that selects the unsigned parse covers '8'-'9', 'a'-'f' and 'A'-'F'")
	hx := c.SSAFunc(c.LookupFunc("pkg/mlrval", "inferHexInt"))
	if hx == nil {
		r.Undecided("R06.7", "inferHexInt", "", "inferrer not found")
	} else {
		var pu *ssa.Call
		for _, b := range hx.Blocks {
			for _, in := range b.Instrs {
				if call, ok := in.(*ssa.Call); ok && CalleeName(&call.Call) == "strconv.ParseUint" {
					pu = call
				}
			}
		}
		if pu == nil {
			r.Fail("R06.7", "inferHexInt window", c.Rel(hx.Pos()), "inferHexInt no longer has an unsigned parse for the two's-complement window")
		} else {
			// evaluate the guard chain for each candidate first digit: collect comparisons of a byte value against constants
			accept := func(ch byte) bool {
				// interpret the dominating guards that compare a byte-typed value with constants
				okAll := true
				anyCmp := false
				// disjunctions are lowered into CFG: compute reachability of pu.Block() under "byte == ch"
				return evalByteGuards(hx, pu.Block(), ch, &okAll, &anyCmp) && anyCmp
			}
			var missing []string
			for _, ch := range []byte("89abcdefABCDEF") {
				if !accept(ch) {
					missing = append(missing, string(ch))
				}
			}
			var extra []string
			for _, ch := range []byte("01234567") {
				if accept(ch) {
					extra = append(extra, string(ch))
				}
			}
			r.Check(len(missing) == 0 && len(extra) == 0, "R06.7", "inferHexInt window", c.Rel(pu.Pos()), "unsigned parse selected exactly for first digit in [89a-fA-F]",
				fmt.Sprintf("the unsigned (two's-complement) parse of 16-digit hex is not selected for first digit(s) %v (and wrongly selected for %v): e.g. 0xFFFFFFFFFFFFFFFF overflows the signed parse and is typed string", missing, extra))
		}
	}
}

// evalByteGuards: is target reachable from the entry when every branch whose
// condition compares a byte-typed value with a constant is decided for byte
// value ch, and every other branch is taken both ways?
func evalByteGuards(fn *ssa.Function, target *ssa.BasicBlock, ch byte, okAll, anyCmp *bool) bool {
	seen := map[*ssa.BasicBlock]bool{}
	var walk func(b *ssa.BasicBlock) bool
	walk = func(b *ssa.BasicBlock) bool {
		if b == target {
			return true
		}
		if seen[b] {
			return false
		}
		seen[b] = true
		last := b.Instrs[len(b.Instrs)-1]
		iff, ok := last.(*ssa.If)
		if !ok {
			for _, s := range b.Succs {
				if walk(s) {
					return true
				}
			}
			return false
		}
		cond, pol := stripNot(iff.Cond, true)
		if bo, isBo := cond.(*ssa.BinOp); isBo {
			isByte := func(v ssa.Value) bool {
				bt, ok := v.Type().Underlying().(*types.Basic)
				return ok && (bt.Kind() == types.Uint8 || bt.Kind() == types.Byte)
			}
			var k int64
			var haveK, swapped bool
			if kk, ok := constInt(bo.Y); ok && isByte(bo.X) {
				k, haveK = kk, true
			} else if kk, ok := constInt(bo.X); ok && isByte(bo.Y) {
				k, haveK, swapped = kk, true, true
			}
			if haveK && k >= '0' {
				*anyCmp = true
				a, bb := int64(ch), k
				if swapped {
					a, bb = k, int64(ch)
				}
				var res bool
				switch bo.Op {
				case token.LEQ:
					res = a <= bb
				case token.LSS:
					res = a < bb
				case token.GEQ:
					res = a >= bb
				case token.GTR:
					res = a > bb
				case token.EQL:
					res = a == bb
				case token.NEQ:
					res = a != bb
				default:
					return walk(b.Succs[0]) || walk(b.Succs[1])
				}
				if res == pol {
					return walk(b.Succs[0])
				}
				return walk(b.Succs[1])
			}
		}
		return walk(b.Succs[0]) || walk(b.Succs[1])
	}
	return walk(fn.Blocks[0])
}

// ---- R06.4 -----------------------------------------------------------------
func c06Flags(c *Ctx, r *Report) {
	r.Rule("R06.4", "flag ↔ inferrer: -S/--infer-none, -A/--infer-int-as-float and -O/--infer-octal each call exactly their own SetInferrer… function, each setter stores its own inferrer into packageLevelInferrer, no other function writes that variable, and inferWithIntAsFloat converts only under Type()==MT_INT")
	flags, msg := c.FlagTable()
	if msg != "" {
		r.Undecided("R06.4", "flag table", "", msg)
		return
	}
	want := map[string][2]string{
		"--infer-none":         {"pkg/mlrval.SetInferrerStringOnly", "inferString"},
		"--infer-int-as-float": {"pkg/mlrval.SetInferrerIntAsFloat", "inferWithIntAsFloat"},
		"--infer-octal":        {"pkg/mlrval.SetInferrerOctalAsInt", "inferWithOctalAsInt"},
	}
	alts := map[string]string{"--infer-none": "-S", "--infer-int-as-float": "-A", "--infer-octal": "-O"}
	found := 0
	for _, f := range flags {
		w, ok := want[f.Name]
		if !ok {
			continue
		}
		found++
		fe := c.EffectsOf(f.Fn)
		var setters []string
		for _, cl := range fe.Calls {
			if strings.HasPrefix(cl, "pkg/mlrval.SetInferrer") {
				setters = append(setters, cl)
			}
		}
		hasAlt := false
		for _, a := range f.Alts {
			if a == alts[f.Name] {
				hasAlt = true
			}
		}
		r.Check(len(setters) == 1 && setters[0] == w[0] && hasAlt, "R06.4", "flag "+f.Name, c.Rel(f.Pos), fmt.Sprintf("calls %v; alias %s", setters, alts[f.Name]),
			fmt.Sprintf("flag %s (alias %s present: %v) calls %v, expected exactly %s", f.Name, alts[f.Name], hasAlt, setters, w[0]))
		// setter stores the matching inferrer
		parts := strings.SplitN(w[0], ".", 2)
		sf := c.SSAFunc(c.LookupFunc("pkg/mlrval", parts[1]))
		stored := ""
		if sf != nil {
			for _, b := range sf.Blocks {
				for _, in := range b.Instrs {
					if st, ok := in.(*ssa.Store); ok {
						if g, ok := st.Addr.(*ssa.Global); ok && g.Name() == "packageLevelInferrer" {
							for _, t := range funcValueTargets(st.Val, 0) {
								stored = t.Name()
							}
						}
					}
				}
			}
		}
		r.Check(stored == w[1], "R06.4", parts[1]+" installs "+w[1], "pkg/mlrval/mlrval_infer.go", "stores "+stored, fmt.Sprintf("%s stores %q into packageLevelInferrer, expected %s", parts[1], stored, w[1]))
	}
	r.Floor("R06.4", "inference flags", found, 3)
	// writers of packageLevelInferrer
	var writers []string
	for _, fn := range c.ModuleFunctions() {
		for _, b := range fn.Blocks {
			for _, in := range b.Instrs {
				if st, ok := in.(*ssa.Store); ok {
					if g, ok := st.Addr.(*ssa.Global); ok && g.Name() == "packageLevelInferrer" && g.Pkg.Pkg.Path() == mlrvalPkg {
						writers = append(writers, fn.Name())
					}
				}
			}
		}
	}
	sort.Strings(writers)
	okW := true
	for _, w := range writers {
		if !strings.HasPrefix(w, "SetInferrer") && w != "init" {
			okW = false
		}
	}
	r.Check(okW && len(writers) >= 3, "R06.4", "writers of packageLevelInferrer", "pkg/mlrval/mlrval_infer.go", strings.Join(writers, ", "), "packageLevelInferrer is written by "+strings.Join(writers, ", ")+": only the three SetInferrer… setters (called at option-parse time) may write it")
	// inferWithIntAsFloat converts only under Type()==MT_INT
	iaf := c.SSAFunc(c.LookupFunc("pkg/mlrval", "inferWithIntAsFloat"))
	if iaf != nil {
		bad := ""
		n := 0
		for _, b := range iaf.Blocks {
			for _, in := range b.Instrs {
				st, ok := in.(*ssa.Store)
				if !ok {
					continue
				}
				if _, name, ok := mlrvalField(st.Addr); ok && (name == "mvtype" || name == "intf") {
					n++
					guarded := false
					for _, g := range GuardsAt(b) {
						if bo, ok := g.Cond.(*ssa.BinOp); ok && bo.Op == token.EQL && g.Polarity {
							if call, ok := bo.X.(*ssa.Call); ok && CalleeName(&call.Call) == "pkg/mlrval.Mlrval.Type" {
								if k, ok := constInt(bo.Y); ok && k == K_INT {
									guarded = true
								}
							}
						}
					}
					if !guarded {
						bad = c.Rel(st.Pos())
					}
				}
			}
		}
		r.Check(bad == "" && n >= 2, "R06.4", "inferWithIntAsFloat converts only ints", c.Rel(iaf.Pos()), "type/payload stores under Type()==MT_INT", "inferWithIntAsFloat changes type or payload outside the Type()==MT_INT branch at "+bad)
	}
}

// ---- R06.5 -----------------------------------------------------------------
func c06JSON(c *Ctx, r *Report) {
	r.Rule("R06.5", "JSON typing: in the JSON scalar decoder a string token becomes FromString (never inferred), a json.Number token becomes FromInferredType (the flag-selected inferrer decides), bool → FromBool, null → NULL; decoder.UseNumber() precedes the first Token(); no other constructor is applied to a scalar token")
	f := throughWrappers(c.SSAFunc(c.LookupFunc("pkg/mlrval", "MlrvalDecodeFromJSON")))
	if f == nil {
		r.Undecided("R06.5", "MlrvalDecodeFromJSON", "", "anchor not found")
		return
	}
	var useNumber, firstToken *ssa.Call
	for _, b := range f.Blocks {
		for _, in := range b.Instrs {
			if call, ok := in.(*ssa.Call); ok {
				switch CalleeName(&call.Call) {
				case "encoding/json.Decoder.UseNumber":
					useNumber = call
				case "encoding/json.Decoder.Token":
					if firstToken == nil {
						firstToken = call
					}
				}
			}
		}
	}
	r.Check(useNumber != nil && firstToken != nil && (useNumber.Block().Dominates(firstToken.Block())), "R06.5", "UseNumber before Token", c.Rel(f.Pos()), "decoder.UseNumber() dominates the first Token()",
		"decoder.UseNumber() does not precede the first Token(): numbers arrive as float64 and lose their spelling and integer-ness")
	// constructor per asserted token type
	want := map[string]string{"string": "pkg/mlrval.FromString", "bool": "pkg/mlrval.FromBool", "encoding/json.Number": "pkg/mlrval.FromInferredType"}
	got := map[string][]string{}
	for _, b := range f.Blocks {
		for _, in := range b.Instrs {
			call, ok := in.(*ssa.Call)
			if !ok {
				continue
			}
			name := CalleeName(&call.Call)
			if !strings.HasPrefix(name, "pkg/mlrval.From") && !strings.HasPrefix(name, "pkg/mlrval.TryFrom") {
				continue
			}
			// which type assertion's ok-edge guards this block?
			tname := ""
			for _, g := range GuardsAt(b) {
				if ex, ok := g.Cond.(*ssa.Extract); ok && ex.Index == 1 && g.Polarity {
					if ta, ok := ex.Tuple.(*ssa.TypeAssert); ok {
						tn := types.TypeString(ta.AssertedType, nil)
						if _, interesting := want[tn]; interesting && tname == "" {
							tname = tn
						}
					}
				}
			}
			if tname != "" {
				got[tname] = append(got[tname], name)
			}
		}
	}
	for _, tn := range []string{"string", "bool", "encoding/json.Number"} {
		g := uniqStrings(got[tn])
		r.Check(len(g) == 1 && g[0] == want[tn], "R06.5", "JSON "+tn+" token", c.Rel(f.Pos()), strings.Join(g, ","),
			fmt.Sprintf("a JSON %s token is converted with %v, expected exactly %s: JSON strings would be type-inferred / JSON numbers would bypass the inferrer selected by -S, -A, -O", tn, g, want[tn]))
	}
}

// throughWrappers follows a function that does nothing but call another
// function of its package and return that call's results (an entry point in
// front of a worker that carries an extra argument) to the worker.
func throughWrappers(f *ssa.Function) *ssa.Function {
	for depth := 0; f != nil && f.Blocks != nil && depth < 3; depth++ {
		if len(f.Blocks) != 1 {
			return f
		}
		var only *ssa.Call
		for _, in := range f.Blocks[0].Instrs {
			switch x := in.(type) {
			case *ssa.Call:
				if only != nil {
					return f
				}
				only = x
			case *ssa.Extract, *ssa.Return, *ssa.DebugRef:
			default:
				return f
			}
		}
		if only == nil {
			return f
		}
		sc := only.Call.StaticCallee()
		if sc == nil || sc.Pkg != f.Pkg || sc.Blocks == nil {
			return f
		}
		f = sc
	}
	return f
}
