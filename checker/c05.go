package main

// C05 — per-file / per-record bookkeeping of every reader; verb parsers own
// their argument cursor; context update effects.

import (
	"fmt"
	"go/token"
	"go/types"
	"sort"
	"strings"

	"golang.org/x/tools/go/ssa"
)

func init() { register("C05", true, runC05) }

func runC05(c *Ctx, r *Report) {
	r.Explanation = "NR/FNR/FILENAME tracking and file concatenation rest on a bookkeeping discipline shared by all record readers (sibling cross-check over every implementation of one interface): the two context-update functions do exactly what their names say; every record is created right after exactly one count; every per-handle function starts the file exactly once before producing anything; every reader field that is carried from batch to batch is reset per file; contexts travel by value; all readers open inputs through the same two helpers with the same options; NF is read from the live record. 'then'-chaining rests on every verb parser advancing the shared argument cursor."
	r.NotDecided = "equality of 'A then B' with 'A | B'; the values of NR in end blocks; that compressed and plain inputs decode to the same bytes."
	c05ContextEffects(c, r)
	c05CountPerRecord(c, r)
	c05FileStart(c, r)
	c05Open(c, r)
	c05NF(c, r)
	c05VerbCursor(c, r)
	c05NoAliasedEmission(c, r)
	c05NoSharedValues(c, r)
	c05EncodingConsulted(c, r)
	c05PopenFileName(c, r)
	c05EndContext(c, r)
	c05FileNameFlagsAppend(c, r)
	r.Rule("R05.10", "the verbs do not consult the reader's record counters: in pkg/transformers (and its utils) every read of Context.NR or Context.FNR feeds only a formatted diagnostic (or the chain runner's progress line) — the DSL's NR/FNR are read by the interpreter, not by the verbs; a verb that decides its output from NR differs between a then-chain and a pipe whenever an earlier verb drops, adds or reorders records")
	checkNoReaderCounters(c, r, "R05.10", nil, 300)
}

// ---- R05.7 -----------------------------------------------------------------
func storeShape(st *ssa.Store, fn *ssa.Function) string {
	_, fld, ok := fieldAddrName(st.Addr)
	if !ok {
		return "?"
	}
	switch v := st.Val.(type) {
	case *ssa.Const:
		return fld + "=" + v.Value.ExactString()
	case *ssa.Parameter:
		return fld + "=param"
	case *ssa.BinOp:
		if v.Op == token.ADD {
			if _, lf, ok := fieldLoadName(v.X); ok && lf == fld {
				if n, ok := constInt(v.Y); ok {
					return fmt.Sprintf("%s=%s+%d", fld, fld, n)
				}
			}
		}
	}
	return fld + "=?"
}

func c05ContextEffects(c *Ctx, r *Report) {
	r.Rule("R05.7", "the two context updates do what their names say: UpdateForStartOfFile(f) stores FILENAME=f, FILENUM=FILENUM+1, FNR=0 and nothing else; UpdateForInputRecord stores NR=NR+1, FNR=FNR+1 and nothing else; NewContext starts all counters at 0")
	want := map[string][]string{
		"Context.UpdateForStartOfFile": {"FILENAME=param", "FILENUM=FILENUM+1", "FNR=0"},
		"Context.UpdateForInputRecord": {"FNR=FNR+1", "NR=NR+1"},
	}
	for _, name := range []string{"Context.UpdateForStartOfFile", "Context.UpdateForInputRecord"} {
		fn := c.SSAFunc(c.LookupFunc("pkg/types", name))
		if fn == nil {
			r.Undecided("R05.7", name, "", "anchor not found")
			continue
		}
		var got []string
		for _, b := range fn.Blocks {
			for _, in := range b.Instrs {
				if st, ok := in.(*ssa.Store); ok {
					got = append(got, storeShape(st, fn))
				}
				if _, ok := in.(ssa.CallInstruction); ok {
					got = append(got, "call")
				}
			}
		}
		sort.Strings(got)
		r.Check(strings.Join(got, ",") == strings.Join(want[name], ","), "R05.7", name, c.Rel(fn.Pos()), strings.Join(got, ", "),
			fmt.Sprintf("%s has effects [%s], expected exactly [%s]: every reader depends on these two functions, and no test opens two files", name, strings.Join(got, ", "), strings.Join(want[name], ", ")))
	}
	nc := c.SSAFunc(c.LookupFunc("pkg/types", "NewContext"))
	if nc != nil {
		zero := map[string]bool{}
		for _, b := range nc.Blocks {
			for _, in := range b.Instrs {
				if st, ok := in.(*ssa.Store); ok {
					if _, fld, ok := fieldAddrName(st.Addr); ok {
						if n, ok := constInt(st.Val); ok && n == 0 {
							zero[fld] = true
						} else if fld == "NR" || fld == "FNR" || fld == "FILENUM" {
							zero[fld] = false
						}
					}
				}
			}
		}
		okAll := true
		for _, f := range []string{"NR", "FNR", "FILENUM"} {
			if v, set := zero[f]; set && !v {
				okAll = false
			}
		}
		r.Check(okAll, "R05.7", "NewContext", c.Rel(nc.Pos()), "counters start at 0", "NewContext initialises a counter to a non-zero value")
	}
}

// ---- R05.1 -----------------------------------------------------------------
func c05CountPerRecord(c *Ctx, r *Report) {
	r.Rule("R05.1", "one count per record: in every function of the readers (and seqgen / the gen pseudo-reader) a record that carries the context (NewRecordAndContext, or the slab form rac.Context = *context) is created right after exactly one UpdateForInputRecord on every path — never uncounted, never counted twice; comment/OutputString entries are neutral")
	var fns []*ssa.Function
	for _, rel := range []string{"pkg/input", "pkg/transformers"} {
		p := c.Pkg(rel)
		for _, fobj := range c.FuncsOfPkg(p) {
			if rel == "pkg/transformers" && !strings.Contains(c.RelFile(fobj.Pos()), "seqgen") {
				continue
			}
			if f := c.SSAFunc(fobj); f != nil {
				fns = append(fns, f)
			}
		}
	}
	nsites := 0
	for _, fn := range fns {
		has := false
		ForEachCall(fn, false, func(site ssa.CallInstruction, in *ssa.Function) {
			n := CalleeName(site.Common())
			if n == "pkg/types.Context.UpdateForInputRecord" || n == "pkg/types.NewRecordAndContext" {
				has = true
			}
		})
		if !has {
			continue
		}
		problems := map[string]string{}
		ncreate := 0
		pr := &PathRule{Fn: fn}
		pr.Transfer = func(f Facts, in ssa.Instruction, deferred bool) []Facts {
			switch x := in.(type) {
			case *ssa.Call:
				switch CalleeName(&x.Call) {
				case "pkg/types.Context.UpdateForInputRecord":
					if f.Has("counted") {
						problems["double count"] = c.Rel(x.Pos()) + ": UpdateForInputRecord is reached twice without a record being created in between: NR/FNR skip a number"
					}
					return []Facts{f.With("counted")}
				case "pkg/types.NewRecordAndContext":
					ncreate++
					if !f.Has("counted") {
						problems["uncounted record"] = c.Rel(x.Pos()) + ": a record is created on a path without a preceding UpdateForInputRecord: it carries the previous record's NR/FNR"
					}
					return []Facts{f.Without("counted")}
				}
			case *ssa.Store:
				// slab form: rac.Context = *context
				if _, fld, ok := fieldAddrName(x.Addr); ok && fld == "Context" {
					if u, isU := x.Val.(*ssa.UnOp); isU && u.Op == token.MUL {
						ncreate++
						if !f.Has("counted") {
							problems["uncounted record"] = c.Rel(x.Pos()) + ": a record slot gets the context on a path without a preceding UpdateForInputRecord"
						}
						return []Facts{f.Without("counted")}
					}
				}
			}
			return nil
		}
		pr.Run()
		nsites += ncreate
		for _, k := range []string{"double count", "uncounted record"} {
			key := SSAName(fn) + ": " + k
			if msg, bad := problems[k]; bad {
				r.Fail("R05.1", key, strings.SplitN(msg, ": ", 2)[0], msg)
			} else {
				r.OK("R05.1", key, c.Rel(fn.Pos()), "excluded on every path")
			}
		}
	}
	r.Floor("R05.1", "record creation sites", nsites, 20)
}

// ---- R05.2 / R05.3 ---------------------------------------------------------
func c05FileStart(c *Ctx, r *Report) {
	r.Rule("R05.2", "one file-start per handle: every function of the readers that receives an opened handle calls context.UpdateForStartOfFile exactly once, outside any loop, before anything is sent on the reader channel or any record is created; every reader type has such a function")
	r.Rule("R05.3", "per-file state reset: every reader field that is carried from one batch to the next (read before written on some path of the per-batch code, and written there) is assigned in the per-handle function before its batch loop — otherwise the second input file is parsed with the first file's header, splitter or line number")
	p := c.Pkg("pkg/input")
	ea := &eosAnalysis{c: c}
	perHandle := map[*ssa.Function]*ssa.Call{}
	for _, fobj := range c.FuncsOfPkg(p) {
		fn := c.SSAFunc(fobj)
		if fn == nil {
			continue
		}
		var calls []*ssa.Call
		for _, b := range fn.Blocks {
			for _, in := range b.Instrs {
				if call, ok := in.(*ssa.Call); ok && CalleeName(&call.Call) == "pkg/types.Context.UpdateForStartOfFile" {
					calls = append(calls, call)
				}
			}
		}
		if len(calls) == 0 {
			continue
		}
		key := SSAName(fn)
		if len(calls) > 1 {
			r.Fail("R05.2", key, c.Rel(calls[1].Pos()), "UpdateForStartOfFile is called more than once in one per-handle function: FILENUM is advanced twice for one file")
			continue
		}
		call := calls[0]
		perHandle[fn] = call
		bad := ""
		if inLoop(call.Block()) {
			// allowed only when the loop is the loop over file names (the call is then once per file)
			if !loopOverFileNames(call.Block(), fn) {
				bad = "the call sits in a loop that is not the loop over input file names"
			}
		}
		for _, b := range fn.Blocks {
			for _, in := range b.Instrs {
				produces := false
				switch x := in.(type) {
				case *ssa.Send:
					produces = chanElemIsRecordBatch(x.Chan.Type())
				case *ssa.Call:
					n := CalleeName(&x.Call)
					produces = n == "pkg/types.NewRecordAndContext" || n == "pkg/types.Context.UpdateForInputRecord"
				}
				if produces && !call.Block().Dominates(b) && blockReaches(call.Block(), b) == false && !inLoop(call.Block()) {
					// produced on a path that never passed the file start
					if !isEOSListSend(in) {
						bad = "records are produced at " + c.Rel(in.Pos()) + " on a path that has not called UpdateForStartOfFile"
					}
				}
			}
		}
		r.Check(bad == "", "R05.2", key, c.Rel(call.Pos()), "exactly one UpdateForStartOfFile, before any production", bad)
	}
	r.Floor("R05.2", "per-handle functions", len(perHandle), 12)

	// R05.3
	nf := 0
	var hs []*ssa.Function
	for h := range perHandle {
		hs = append(hs, h)
	}
	sortFuncs(hs)
	for _, h := range hs {
		if len(h.Params) == 0 {
			continue
		}
		reader := h.Params[0]
		pt, ok := reader.Type().(*types.Pointer)
		if !ok {
			continue
		}
		stt, ok := pt.Elem().Underlying().(*types.Struct)
		if !ok {
			continue
		}
		// batch callees in loops of h that receive the reader
		type bcall struct {
			f    *ssa.Function
			idx  int
			site *ssa.Call
		}
		var batches []bcall
		for _, b := range h.Blocks {
			if !inLoop(b) {
				continue
			}
			for _, in := range b.Instrs {
				call, ok := in.(*ssa.Call)
				if !ok {
					continue
				}
				ai := -1
				for i, a := range call.Call.Args {
					if a == reader {
						ai = i
					}
				}
				if ai < 0 {
					continue
				}
				var targets []*ssa.Function
				if cal := call.Call.StaticCallee(); cal != nil {
					targets = []*ssa.Function{cal}
				} else if u, ok := call.Call.Value.(*ssa.UnOp); ok && u.Op == token.MUL {
					if fa, ok := u.X.(*ssa.FieldAddr); ok {
						st2 := fa.X.Type().Underlying().(*types.Pointer).Elem().Underlying().(*types.Struct)
						targets = ea.fieldFuncTargets(st2.Field(fa.Field))
					}
				}
				for _, t := range targets {
					if IsModuleFunc(t) && t.Blocks != nil && ai < len(t.Params) {
						batches = append(batches, bcall{t, ai, call})
					}
				}
			}
		}
		carried := map[int]string{}
		for _, bc := range batches {
			exp, sto := exposedAndStored(bc.f, bc.f.Params[bc.idx], 0)
			for f := range exp {
				if sto[f] {
					carried[f] = SSAName(bc.f)
				}
			}
		}
		var idxs []int
		for f := range carried {
			idxs = append(idxs, f)
		}
		sort.Ints(idxs)
		for _, f := range idxs {
			nf++
			fname := stt.Field(f).Name()
			reset := false
			for _, b := range h.Blocks {
				if inLoop(b) {
					continue
				}
				for _, in := range b.Instrs {
					if st, ok := in.(*ssa.Store); ok {
						if fa, ok := st.Addr.(*ssa.FieldAddr); ok && fa.X == reader && fa.Field == f {
							reset = true
						}
					}
				}
			}
			key := fmt.Sprintf("%s resets %s", SSAName(h), fname)
			r.Check(reset, "R05.3", key, c.Rel(h.Pos()), "assigned before the batch loop",
				fmt.Sprintf("reader field %s is carried from batch to batch by %s (read before written, and written there) but is not assigned in the per-handle function before its loop: with several input files the next file starts with the previous file's %s", fname, carried[f], fname))
		}
	}
	r.Floor("R05.3", "batch-carried reader fields", nf, 12)
}

func isEOSListSend(in ssa.Instruction) bool {
	s, ok := in.(*ssa.Send)
	if !ok {
		return false
	}
	call, ok := s.X.(*ssa.Call)
	return ok && CalleeName(&call.Call) == "pkg/types.NewEndOfStreamMarkerList"
}

func loopOverFileNames(b *ssa.BasicBlock, fn *ssa.Function) bool {
	// a range over a []string parameter
	for _, blk := range fn.Blocks {
		for _, in := range blk.Instrs {
			if ia, ok := in.(*ssa.IndexAddr); ok {
				if prm, ok := ia.X.(*ssa.Parameter); ok {
					if sl, ok := prm.Type().Underlying().(*types.Slice); ok && isStringType(sl.Elem()) && inLoop(blk) {
						return true
					}
				}
			}
		}
	}
	return false
}

// exposedAndStored: fields of *recv that fn may read before writing
// (upward-exposed) and fields it writes, following static callees that get
// recv (depth-limited).
func exposedAndStored(fn *ssa.Function, recv ssa.Value, depth int) (map[int]bool, map[int]bool) {
	exposed, stored := map[int]bool{}, map[int]bool{}
	if fn.Blocks == nil || depth > 2 {
		return exposed, stored
	}
	pr := &PathRule{Fn: fn, MaxStates: 50000}
	pr.Transfer = func(f Facts, in ssa.Instruction, deferred bool) []Facts {
		switch x := in.(type) {
		case *ssa.Store:
			if fa, ok := x.Addr.(*ssa.FieldAddr); ok && fa.X == recv {
				stored[fa.Field] = true
				return []Facts{f.With("S" + itoa(fa.Field))}
			}
		case *ssa.UnOp:
			if x.Op == token.MUL {
				if fa, ok := x.X.(*ssa.FieldAddr); ok && fa.X == recv {
					if !f.Has("S" + itoa(fa.Field)) {
						exposed[fa.Field] = true
					}
				}
			}
		case *ssa.Call:
			for i, a := range x.Call.Args {
				if a != recv {
					continue
				}
				cal := x.Call.StaticCallee()
				if cal == nil || !IsModuleFunc(cal) || cal.Blocks == nil || i >= len(cal.Params) {
					continue
				}
				e2, s2 := exposedAndStored(cal, cal.Params[i], depth+1)
				g := f
				for fld := range e2 {
					if !f.Has("S" + itoa(fld)) {
						exposed[fld] = true
					}
				}
				for fld := range s2 {
					stored[fld] = true
					_ = fld // may-store: does not establish "written on every path"
				}
				return []Facts{g}
			}
		}
		return nil
	}
	pr.Run()
	return exposed, stored
}

// ---- R05.5 -----------------------------------------------------------------
func c05Open(c *Ctx, r *Report) {
	r.Rule("R05.5", "uniform input sources: every reader opens named inputs only through lib.OpenFileForRead(filename, Prepipe, PrepipeIsRaw, FileInputEncoding) and stdin only through lib.OpenStdin with the same three reader options; no reader calls os.Open itself")
	p := c.Pkg("pkg/input")
	nOpen, nStdin := 0, 0
	wantOpts := []string{"Prepipe", "PrepipeIsRaw", "FileInputEncoding"}
	for _, fobj := range c.FuncsOfPkg(p) {
		fn := c.SSAFunc(fobj)
		if fn == nil {
			continue
		}
		ForEachCall(fn, true, func(site ssa.CallInstruction, in *ssa.Function) {
			com := site.Common()
			n := CalleeName(com)
			switch n {
			case "os.Open", "os.OpenFile", "pkg/lib.PathToHandle":
				r.Fail("R05.5", SSAName(in)+" opens with "+n, c.Rel(site.Pos()), "a reader opens its input directly: prepipes, compressed inputs and URLs are not honoured for this format")
			case "pkg/lib.OpenFileForRead", "pkg/lib.OpenStdin":
				args := com.Args
				if n == "pkg/lib.OpenFileForRead" {
					nOpen++
					args = args[1:]
				} else {
					nStdin++
				}
				var got []string
				for _, a := range args {
					_, name, ok := fieldLoadName(a)
					if !ok {
						name = "?"
					}
					got = append(got, name)
				}
				r.Check(strings.Join(got, ",") == strings.Join(wantOpts, ","), "R05.5", fmt.Sprintf("%s: %s options", SSAName(in), strings.TrimPrefix(n, "pkg/lib.")), c.Rel(site.Pos()), strings.Join(got, ", "),
					fmt.Sprintf("%s is called with options [%s], expected the reader options [%s]: this format would ignore --prepipe / --gzin etc.", n, strings.Join(got, ", "), strings.Join(wantOpts, ", ")))
			}
		})
	}
	r.Floor("R05.5", "OpenFileForRead sites", nOpen, 12)
	r.Floor("R05.5", "OpenStdin sites", nStdin, 12)
}

// ---- R05.8 -----------------------------------------------------------------
func c05NF(c *Ctx, r *Report) {
	r.Rule("R05.8", "NF is the current field count even mid-expression: the NF leaf reads FieldCount of the live input record at evaluation time (not a value cached per record)")
	fn := c.SSAFunc(c.LookupFunc("pkg/dsl/cst", "NFNode.Evaluate"))
	if fn == nil {
		r.Undecided("R05.8", "NFNode.Evaluate", "", "anchor not found")
		return
	}
	live := false
	for _, b := range fn.Blocks {
		ret, ok := b.Instrs[len(b.Instrs)-1].(*ssa.Return)
		if !ok || len(ret.Results) != 1 {
			continue
		}
		// FromInt(load(load(state.Inrec).FieldCount))
		if call, ok := ret.Results[0].(*ssa.Call); ok && CalleeName(&call.Call) == "pkg/mlrval.FromInt" {
			if base, name, ok := fieldLoadName(call.Call.Args[0]); ok && name == "FieldCount" {
				if _, n2, ok := fieldLoadName(base); ok && n2 == "Inrec" {
					live = true
				}
			}
		}
	}
	r.Check(live, "R05.8", "NFNode.Evaluate", c.Rel(fn.Pos()), "FromInt(state.Inrec.FieldCount)", "the NF variable is not computed from the live record's FieldCount at evaluation time: after '$x = 1' or 'unset $y' in the same expression NF is stale")
}

// ---- R05.6 -----------------------------------------------------------------
func c05VerbCursor(c *Ctx, r *Report) {
	r.Rule("R05.6", "verb parsers own their cursor: every TransformerParseCLIFunc registered in TRANSFORMER_LOOKUP_TABLE stores the advanced argument index back through pargi on every path that returns without error (directly or through a shared parse helper), so that 'then' finds the next verb")
	tp := c.Pkg("pkg/transformers")
	var parsers []*ssa.Function
	for _, fobj := range c.FuncsOfPkg(tp) {
		fn := c.SSAFunc(fobj)
		if fn == nil || len(fn.Params) != 5 {
			continue
		}
		sig := fn.Signature
		if sig.Results().Len() != 2 || !isErrorType(sig.Results().At(1).Type()) {
			continue
		}
		if pt, ok := fn.Params[0].Type().(*types.Pointer); !ok || !isIntType(pt.Elem()) {
			continue
		}
		parsers = append(parsers, fn)
	}
	memo := map[*ssa.Function]bool{}
	var storesBack func(fn *ssa.Function, pi int, depth int) bool
	storesBack = func(fn *ssa.Function, pi int, depth int) bool {
		if depth > 3 || fn.Blocks == nil {
			return false
		}
		pargi := fn.Params[pi]
		bad := false
		pr := &PathRule{Fn: fn, MaxStates: 60000}
		pr.Transfer = func(f Facts, in ssa.Instruction, deferred bool) []Facts {
			switch x := in.(type) {
			case *ssa.Store:
				if x.Addr == pargi {
					return []Facts{f.With("stored")}
				}
			case *ssa.Call:
				for i, a := range x.Call.Args {
					if a != pargi {
						continue
					}
					if cal := x.Call.StaticCallee(); cal != nil && IsModuleFunc(cal) && i < len(cal.Params) {
						ok, seen := memo[cal]
						if !seen {
							ok = storesBack(cal, i, depth+1)
							memo[cal] = ok
						}
						if ok {
							return []Facts{f.With("stored")}
						}
					}
				}
			}
			return nil
		}
		pr.AtReturn = func(f Facts, ret *ssa.Return) {
			if len(ret.Results) >= 1 && isErrorType(ret.Results[len(ret.Results)-1].Type()) && !ReturnsNilError(ret) {
				return
			}
			if !f.Has("stored") {
				bad = true
			}
		}
		pr.Run()
		return !bad && !pr.Overflow
	}
	n := 0
	for _, fn := range parsers {
		n++
		ok := storesBack(fn, 0, 0)
		r.Check(ok, "R05.6", SSAName(fn), c.Rel(fn.Pos()), "*pargi = argi on every successful return", "the verb's command-line parser can return successfully without storing the advanced argument index back through pargi: the main parser re-reads this verb's arguments as the next verb ('then' chaining breaks)")
	}
	r.Floor("R05.6", "verb CLI parsers", n, 55)
}

func isIntType(t types.Type) bool {
	b, ok := t.Underlying().(*types.Basic)
	return ok && b.Kind() == types.Int
}

// ---- R05.9 ------------------------------------------------------------------
// One record object is handed downstream once.
func c05NoAliasedEmission(c *Ctx, r *Report) {
	r.Rule("R05.9", "a record object is emitted once: in the verbs, an append to the output list that sits in a loop appends a value created inside that loop (a copy, a new record) — appending the same incoming record pointer on every iteration makes the copies aliases of one object, and a later verb in the same chain then modifies 'all of them' at once, which a pipe between the two verbs would not")
	n := 0
	for _, fn := range c.ModuleFunctions() {
		if fn.Pkg == nil || !strings.HasSuffix(fn.Pkg.Pkg.Path(), "/pkg/transformers") {
			continue
		}
		k := 0
		for _, b := range fn.Blocks {
			for _, in := range b.Instrs {
				call, ok := in.(*ssa.Call)
				if !ok {
					continue
				}
				bi, ok := call.Call.Value.(*ssa.Builtin)
				if !ok || bi.Name() != "append" || len(call.Call.Args) != 2 {
					continue
				}
				if !strings.Contains(call.Type().String(), "RecordAndContext") {
					continue
				}
				// the single appended element: varargs array with one store
				sl, ok := call.Call.Args[1].(*ssa.Slice)
				if !ok {
					continue
				}
				al, ok := sl.X.(*ssa.Alloc)
				if !ok {
					continue
				}
				var elem ssa.Value
				for _, ref := range *al.Referrers() {
					if ia, ok := ref.(*ssa.IndexAddr); ok {
						for _, r2 := range *ia.Referrers() {
							if st, ok := r2.(*ssa.Store); ok && st.Addr == ia {
								elem = st.Val
							}
						}
					}
				}
				if elem == nil || !blockReachesSelf(b) {
					continue
				}
				n++
				k++
				key := fmt.Sprintf("%s: append in a loop #%d", SSAName(fn), k)
				invariant := false
				switch x := elem.(type) {
				case *ssa.Parameter:
					invariant = true
				case ssa.Instruction:
					db := x.Block()
					invariant = !(blockReaches(b, db) && blockReaches(db, b)) && db != b
				}
				r.Check(!invariant, "R05.9", key, c.Rel(call.Pos()), "the appended value is created inside the loop",
					fmt.Sprintf("%s appends, inside a loop, a record-and-context value that is the same on every iteration: the output holds several pointers to one record, so a later verb in the chain changes them all at once (a pipe would not)", SSAName(fn)))
			}
		}
	}
	r.Floor("R05.9", "appends to the output list inside loops", n, 20)
}
