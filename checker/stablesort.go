package main

// Shared rule: the verbs sort with a stable algorithm (R09.9 / R10.7 / R12.7).

import (
	"fmt"
	"go/token"
	"go/types"
	"sort"
	"strings"

	"golang.org/x/tools/go/ssa"
)

// sort calls by behaviour on ties
var stableSortAPIs = map[string]bool{
	"sort.SliceStable": true, "sort.Stable": true, "slices.SortStableFunc": true,
}
var unstableSortAPIs = map[string]bool{
	"sort.Slice": true, "sort.Sort": true, "slices.SortFunc": true,
}

// sorts of plain strings / numbers: elements that tie are identical, so
// stability is unobservable
var identicalTieSortAPIs = map[string]bool{
	"sort.Strings": true, "sort.Ints": true, "sort.Float64s": true, "slices.Sort": true,
}

// unstable sorts whose ties cannot be observed, one line of reason each
var unstableSortOK = map[string]string{
	"(*pkg/transformers/utils.PercentileKeeper).sortIfNecessary": "percentile keeper: elements that tie are numerically equal values; which of them a percentile reports is not specified by the property",
}

// checkStableSorts: every call of a sort API in the given files of
// pkg/transformers (and pkg/transformers/utils) is a stable sort, a sort of
// plain strings/numbers, or a listed exception. A verb that orders records,
// groups or fields with an unstable sort loses the input order of elements
// that compare equal (Go's sort.Slice is an insertion sort up to 12 elements
// and a pattern-defeating quicksort beyond: small tests do not see it).
func checkStableSorts(c *Ctx, r *Report, rule string, files []string, min int) {
	n := 0
	for _, file := range files {
		pkgRel := "pkg/transformers"
		if strings.HasPrefix(file, "utils/") {
			pkgRel, file = "pkg/transformers/utils", strings.TrimPrefix(file, "utils/")
		}
		for _, fn := range funcsInFile(c, pkgRel, file) {
			idx := 0
			for _, b := range fn.Blocks {
				for _, in := range b.Instrs {
					call, ok := in.(ssa.CallInstruction)
					if !ok {
						continue
					}
					cn := CalleeName(call.Common())
					// generic instantiations print as slices.SortFunc[...]
					if i := strings.Index(cn, "["); i > 0 {
						cn = cn[:i]
					}
					if !(stableSortAPIs[cn] || unstableSortAPIs[cn] || identicalTieSortAPIs[cn]) {
						continue
					}
					idx++
					n++
					owner := fn
					for owner.Parent() != nil {
						owner = owner.Parent()
					}
					key := fmt.Sprintf("%s: %s #%d", SSAName(fn), cn, idx)
					switch {
					case stableSortAPIs[cn]:
						r.OK(rule, key, c.Rel(call.Pos()), "stable sort")
					case identicalTieSortAPIs[cn]:
						r.OK(rule, key, c.Rel(call.Pos()), "sort of plain strings or numbers: elements that tie are identical")
					case unstableSortOK[SSAName(owner)] != "":
						r.OK(rule, key, c.Rel(call.Pos()), "frozen exception: "+unstableSortOK[SSAName(owner)])
					default:
						r.Fail(rule, key, c.Rel(call.Pos()), fmt.Sprintf("%s calls the unstable %s: elements that compare equal (equal counts, numerically equal keys with different texts, fields matching the same regex) lose their input order once there are more than 12 of them — use the stable variant", SSAName(fn), cn))
					}
				}
			}
		}
	}
	r.Floor(rule, "sort calls in the verbs", n, min)
}

// c09Twins (R09.10): an Ascending/Descending pair of functions that is not
// written as "the other with swapped arguments" (R09.3) is a mirror image:
// the same sequence of ordering tests with < and >, <= and >= exchanged.
func c09Twins(c *Ctx, r *Report) {
	r.Rule("R09.10", "ascending and descending twins are mirror images: for every pair of functions of packages mlrval, bifs and transformers/utils whose names differ only in Ascending / Descending and that call the ordering predicates (LessThan, GreaterThan, LessThanOrEquals, GreaterThanOrEquals, Equals) directly, the sequence of predicates in source order, each normalised to 'first parameter op other', is the same in both with < and >, <= and >= exchanged — a binary search for the ascending insert point that tests > where its twin also tests > walks the wrong way")
	mirror := map[string]string{"LessThan": "GreaterThan", "GreaterThan": "LessThan", "LessThanOrEquals": "GreaterThanOrEquals", "GreaterThanOrEquals": "LessThanOrEquals", "Equals": "Equals", "NotEquals": "NotEquals"}
	seq := func(fn *ssa.Function) []string {
		type ev struct {
			pos int
			op  string
		}
		var evs []ev
		for _, b := range fn.Blocks {
			for _, in := range b.Instrs {
				call, ok := in.(*ssa.Call)
				if !ok {
					continue
				}
				cn := CalleeName(&call.Call)
				i := strings.LastIndex(cn, ".")
				if i < 0 || !strings.HasPrefix(cn, "pkg/mlrval.") {
					continue
				}
				op := cn[i+1:]
				if _, ok := mirror[op]; !ok || len(call.Call.Args) != 2 {
					continue
				}
				// normalise: which argument is the function's own value parameter?
				if paramIndex(fn, call.Call.Args[0]) < 0 && paramIndex(fn, call.Call.Args[1]) >= 0 {
					op = mirror[op]
				}
				evs = append(evs, ev{int(call.Pos()), op})
			}
		}
		sort.Slice(evs, func(i, j int) bool { return evs[i].pos < evs[j].pos })
		var out []string
		for _, e := range evs {
			out = append(out, e.op)
		}
		return out
	}
	n := 0
	byName := map[string]*ssa.Function{}
	for _, fn := range c.ModuleFunctions() {
		if fn.Blocks == nil || fn.Pkg == nil || fn.Parent() != nil {
			continue
		}
		pp := fn.Pkg.Pkg.Path()
		if strings.HasSuffix(pp, "/pkg/mlrval") || strings.HasSuffix(pp, "/pkg/bifs") || strings.HasSuffix(pp, "/pkg/transformers/utils") {
			byName[SSAName(fn)] = fn
		}
	}
	var names []string
	for k := range byName {
		names = append(names, k)
	}
	sort.Strings(names)
	for _, an := range names {
		if !strings.Contains(an, "Ascending") {
			continue
		}
		dn := strings.Replace(an, "Ascending", "Descending", 1)
		d, ok := byName[dn]
		if !ok {
			continue
		}
		a := byName[an]
		sa, sd := seq(a), seq(d)
		if len(sa) == 0 && len(sd) == 0 {
			continue // written through other functions (R09.3 covers the comparators)
		}
		n++
		var want []string
		for _, op := range sd {
			want = append(want, mirror[op])
		}
		r.Check(strings.Join(sa, " ") == strings.Join(want, " "), "R09.10", an+" / "+strings.TrimPrefix(dn, "pkg/mlrval."), c.Rel(a.Pos()), "mirror images: "+strings.Join(sa, " "),
			fmt.Sprintf("%s tests [%s] where its twin tests [%s]: they are not mirror images (expected [%s]) — one of the two orders its elements the wrong way at the place where they differ", an, strings.Join(sa, " "), strings.Join(sd, " "), strings.Join(want, " ")))
	}
	r.Floor("R09.10", "ascending/descending twins with direct ordering tests", n, 1)
}

// c10UnlinkSymmetric (R10.8): taking a node out of a doubly linked list
// redirects both neighbours.
func c10UnlinkSymmetric(c *Ctx, r *Report) {
	r.Rule("R10.8", "an unlink redirects both neighbours: for every doubly linked node type of packages lib, mlrval and output (a struct with two fields pointing to its own type — the ordered map that holds grouping state, the record's field list, the handle cache's recency list), wherever a function makes one neighbour skip a node (x.A.B = x.B: the neighbour reached through link A gets x's B-link), every path from there to the function's return also makes the other neighbour skip it (x.B.A = x.A) or moves an end pointer of the list's owner — a one-sided unlink leaves a stale back-pointer, and a later removal next to it patches the dead node instead of the live one")
	n := 0
	seenOrigin := map[*ssa.Function]bool{}
	for _, fn := range c.ModuleFunctions() {
		if fn.Blocks == nil {
			continue
		}
		pkg := fn.Pkg
		if pkg == nil && fn.Origin() != nil {
			// an instantiation of a generic function (the ordered map): one instance stands for all
			if seenOrigin[fn.Origin()] {
				continue
			}
			seenOrigin[fn.Origin()] = true
			pkg = fn.Origin().Pkg
		}
		if pkg == nil {
			continue
		}
		pp := pkg.Pkg.Path()
		if !(strings.HasSuffix(pp, "/pkg/lib") || strings.HasSuffix(pp, "/pkg/mlrval") || strings.HasSuffix(pp, "/pkg/output")) {
			continue
		}
		// self-link fields of a node type
		selfLinks := func(t types.Type) map[int]bool {
			pt, ok := t.Underlying().(*types.Pointer)
			if !ok {
				return nil
			}
			st, ok := pt.Elem().Underlying().(*types.Struct)
			if !ok {
				return nil
			}
			out := map[int]bool{}
			for i := 0; i < st.NumFields(); i++ {
				if types.Identical(st.Field(i).Type(), t) {
					out[i] = true
				}
			}
			if len(out) != 2 {
				return nil
			}
			return out
		}
		type bypass struct {
			x    ssa.Value // the node being skipped
			a, b int       // neighbour reached through a gets x's b-link
			st   *ssa.Store
		}
		var found []bypass
		for _, blk := range fn.Blocks {
			for _, in := range blk.Instrs {
				st, ok := in.(*ssa.Store)
				if !ok {
					continue
				}
				fa, ok := st.Addr.(*ssa.FieldAddr) // &(x.A).B
				if !ok {
					continue
				}
				links := selfLinks(fa.X.Type())
				if links == nil || !links[fa.Field] {
					continue
				}
				nb, ok := fa.X.(*ssa.UnOp) // x.A loaded
				if !ok || nb.Op != token.MUL {
					continue
				}
				nfa, ok := nb.X.(*ssa.FieldAddr)
				if !ok || !links[nfa.Field] || nfa.Field == fa.Field || !types.Identical(nfa.X.Type(), fa.X.Type()) {
					continue
				}
				// value stored: x.B loaded
				vl, ok := st.Val.(*ssa.UnOp)
				if !ok || vl.Op != token.MUL {
					continue
				}
				vfa, ok := vl.X.(*ssa.FieldAddr)
				if !ok || vfa.Field != fa.Field || !(vfa.X == nfa.X || sameStr(vfa.X, nfa.X)) {
					continue
				}
				found = append(found, bypass{nfa.X, nfa.Field, fa.Field, st})
			}
		}
		if len(found) == 0 {
			continue
		}
		fname := SSAName(fn)
		if fn.Pkg == nil && fn.Origin() != nil {
			fname = SSAName(fn.Origin())
		}
		for i, bp := range found {
			n++
			// is this instruction the other side, or an end-pointer move?
			settles := func(in ssa.Instruction) bool {
				st, ok := in.(*ssa.Store)
				if !ok {
					return false
				}
				fa, ok := st.Addr.(*ssa.FieldAddr)
				if !ok {
					return false
				}
				// x.B.A = …
				if fa.Field == bp.a && types.Identical(fa.X.Type(), bp.x.Type()) {
					if nb, ok := fa.X.(*ssa.UnOp); ok && nb.Op == token.MUL {
						if nfa, ok := nb.X.(*ssa.FieldAddr); ok && nfa.Field == bp.b && (nfa.X == bp.x || sameStr(nfa.X, bp.x)) {
							return true
						}
					}
				}
				// owner.End = … : a field of node-pointer type in another struct
				if types.Identical(fa.Type().(*types.Pointer).Elem(), bp.x.Type()) && !types.Identical(fa.X.Type(), bp.x.Type()) {
					return true
				}
				return false
			}
			bad := ""
			seen := map[*ssa.BasicBlock]bool{}
			var walk func(b *ssa.BasicBlock, from int)
			walk = func(b *ssa.BasicBlock, from int) {
				if bad != "" {
					return
				}
				if from == 0 {
					if seen[b] {
						return
					}
					seen[b] = true
				}
				for j := from; j < len(b.Instrs); j++ {
					if settles(b.Instrs[j]) {
						return
					}
					if ret, ok := b.Instrs[j].(*ssa.Return); ok {
						bad = c.Rel(ret.Pos())
						return
					}
				}
				for _, s := range b.Succs {
					walk(s, 0)
				}
			}
			// also accept a settle *before* the store in the same function on every path to it? no: order is free,
			// so look both ways: if some dominating block already settled, fine
			// settled on every path that leads to the store?
			settledBefore := true
			{
				seenB := map[*ssa.BasicBlock]bool{}
				var back func(b *ssa.BasicBlock)
				back = func(b *ssa.BasicBlock) {
					if !settledBefore || seenB[b] {
						return
					}
					seenB[b] = true
					for _, in := range b.Instrs {
						if settles(in) {
							return
						}
						if in == ssa.Instruction(bp.st) {
							settledBefore = false
							return
						}
					}
					for _, s := range b.Succs {
						back(s)
					}
				}
				back(fn.Blocks[0])
			}
			if !settledBefore {
				idx := 0
				for k, in := range bp.st.Block().Instrs {
					if in == ssa.Instruction(bp.st) {
						idx = k
					}
				}
				walk(bp.st.Block(), idx+1)
			}
			r.Check(bad == "", "R10.8", fmt.Sprintf("%s: unlink #%d", fname, i+1), c.Rel(bp.st.Pos()), "the other neighbour is redirected, or an end pointer moved, on every path",
				fmt.Sprintf("%s makes one neighbour skip a node at %s, and there is a path to the return at %s on which neither the other neighbour is redirected nor an end pointer of the list moved: the other neighbour keeps pointing at the removed node", SSAName(fn), c.Rel(bp.st.Pos()), bad))
		}
	}
	r.Floor("R10.8", "one-sided neighbour redirections examined", n, 3)
}

// c09WorkingCopy (R09.11): a DSL sorting function that builds the slice it
// sorts and returns puts every element of its argument into that slice.
func c09WorkingCopy(c *Ctx, r *Report) {
	r.Rule("R09.11", "a sort returns a permutation: where a function of pkg/bifs or pkg/dsl/cst builds a slice in a loop, sorts it (sort.* / slices.Sort*, directly or through a helper that does) and returns it, every write into that slice inside a loop happens on every turn of that loop — a turn that can skip the write drops an element from the result")
	sortsParam := func(f *ssa.Function) int { // index of a slice parameter that f hands to a sort API, or -1
		if f == nil || f.Blocks == nil {
			return -1
		}
		for _, b := range f.Blocks {
			for _, in := range b.Instrs {
				call, ok := in.(ssa.CallInstruction)
				if !ok {
					continue
				}
				cn := CalleeName(call.Common())
				if i := strings.Index(cn, "["); i > 0 {
					cn = cn[:i]
				}
				if !(stableSortAPIs[cn] || unstableSortAPIs[cn] || identicalTieSortAPIs[cn]) || len(call.Common().Args) == 0 {
					continue
				}
				a := call.Common().Args[0]
				if mi, ok := a.(*ssa.MakeInterface); ok {
					a = mi.X
				}
				// a parameter captured by the comparator closure is spilled to a cell
				if u, ok := a.(*ssa.UnOp); ok && u.Op == token.MUL {
					if al, ok := u.X.(*ssa.Alloc); ok && al.Referrers() != nil {
						for _, ref := range *al.Referrers() {
							if st, ok := ref.(*ssa.Store); ok && st.Addr == ssa.Value(al) {
								a = st.Val
							}
						}
					}
				}
				for i, p := range f.Params {
					if a == ssa.Value(p) {
						return i
					}
				}
			}
		}
		return -1
	}
	n := 0
	for _, fn := range c.ModuleFunctions() {
		if fn.Pkg == nil || fn.Blocks == nil {
			continue
		}
		pp := fn.Pkg.Pkg.Path()
		if !(strings.HasSuffix(pp, "/pkg/bifs") || strings.HasSuffix(pp, "/pkg/dsl/cst")) {
			continue
		}
		// the sorted slices
		var sorted []ssa.Value
		for _, b := range fn.Blocks {
			for _, in := range b.Instrs {
				call, ok := in.(ssa.CallInstruction)
				if !ok || len(call.Common().Args) == 0 {
					continue
				}
				cn := CalleeName(call.Common())
				if i := strings.Index(cn, "["); i > 0 {
					cn = cn[:i]
				}
				var a ssa.Value
				if stableSortAPIs[cn] || unstableSortAPIs[cn] || identicalTieSortAPIs[cn] {
					a = call.Common().Args[0]
				} else if sc := call.Common().StaticCallee(); sc != nil && IsModuleFunc(sc) {
					if i := sortsParam(sc); i >= 0 && i < len(call.Common().Args) {
						a = call.Common().Args[i]
					}
				}
				if a == nil {
					continue
				}
				if mi, ok := a.(*ssa.MakeInterface); ok {
					a = mi.X
				}
				if _, ok := a.Type().Underlying().(*types.Slice); ok {
					sorted = append(sorted, a)
				}
			}
		}
		if len(sorted) == 0 {
			continue
		}
		// all versions of those slices, back to where they are made
		versions := map[ssa.Value]bool{}
		cells := map[*ssa.Alloc]bool{}
		made := false
		var back func(v ssa.Value, d int)
		back = func(v ssa.Value, d int) {
			if d > 12 || versions[v] {
				return
			}
			versions[v] = true
			switch x := v.(type) {
			case *ssa.MakeSlice:
				made = true
			case *ssa.Const:
				made = true
			case *ssa.Phi:
				for _, e := range x.Edges {
					back(e, d+1)
				}
			case *ssa.Slice:
				back(x.X, d+1)
			case *ssa.Call:
				if bi, ok := x.Call.Value.(*ssa.Builtin); ok && bi.Name() == "append" {
					back(x.Call.Args[0], d+1)
				}
			case *ssa.UnOp:
				// a local spilled to memory (captured by the comparator closure)
				if al, ok := x.X.(*ssa.Alloc); ok && x.Op == token.MUL && al.Referrers() != nil {
					cells[al] = true
					for _, ref := range *al.Referrers() {
						if st, ok := ref.(*ssa.Store); ok && st.Addr == ssa.Value(al) {
							back(st.Val, d+1)
						}
					}
				}
			}
		}
		for _, a := range sorted {
			back(a, 0)
		}
		if !made {
			continue
		}
		isVersion := func(v ssa.Value) bool {
			if versions[v] {
				return true
			}
			if u, ok := v.(*ssa.UnOp); ok && u.Op == token.MUL {
				if al, ok := u.X.(*ssa.Alloc); ok && cells[al] {
					return true
				}
			}
			return false
		}
		loops := naturalLoops(fn)
		k := 0
		for _, b := range fn.Blocks {
			l := innermostLoop(loops, b)
			if l == nil {
				continue
			}
			for _, in := range b.Instrs {
				write := false
				switch x := in.(type) {
				case *ssa.Store:
					if ia, ok := x.Addr.(*ssa.IndexAddr); ok && isVersion(ia.X) {
						write = true
					} else if fa, ok := x.Addr.(*ssa.FieldAddr); ok {
						if ia, ok := fa.X.(*ssa.IndexAddr); ok && isVersion(ia.X) {
							write = true
						}
					}
				case *ssa.Call:
					if bi, ok := x.Call.Value.(*ssa.Builtin); ok && bi.Name() == "append" && isVersion(x.Call.Args[0]) {
						write = true
					}
				}
				if !write {
					continue
				}
				k++
				n++
				key := fmt.Sprintf("%s: write #%d into the slice it sorts", SSAName(fn), k)
				r.Check(l.everyTurn(b), "R09.11", key, c.Rel(in.Pos()), "on every turn of its loop",
					fmt.Sprintf("%s fills the slice it sorts and returns in a loop that can go round without storing an element: the result of the sort is then not a permutation of the argument", SSAName(fn)))
			}
		}
	}
	r.Floor("R09.11", "loop writes into slices that are built, sorted and returned", n, 3)
}
