package main

// Shared rule: the verbs sort with a stable algorithm (R09.9 / R10.7 / R12.7).

import (
	"fmt"
	"strings"

	"golang.org/x/tools/go/ssa"
)

// sort calls by behaviour on ties
var stableSortAPIs = map[string]bool{
	"sort.SliceStable": true, "sort.Stable": true, "slices.SortStableFunc": true,
}
var unstableSortAPIs = map[string]bool{
	"sort.Slice": true, "sort.Sort": true, "slices.SortFunc": true,
}

// sorts of plain strings / numbers: elements that tie are identical, so
// stability is unobservable
var identicalTieSortAPIs = map[string]bool{
	"sort.Strings": true, "sort.Ints": true, "sort.Float64s": true, "slices.Sort": true,
}

// unstable sorts whose ties cannot be observed, one line of reason each
var unstableSortOK = map[string]string{
	"(*pkg/transformers/utils.PercentileKeeper).sortIfNecessary": "percentile keeper: elements that tie are numerically equal values; which of them a percentile reports is not specified by the property",
}

// checkStableSorts: every call of a sort API in the given files of
// pkg/transformers (and pkg/transformers/utils) is a stable sort, a sort of
// plain strings/numbers, or a listed exception. A verb that orders records,
// groups or fields with an unstable sort loses the input order of elements
// that compare equal (Go's sort.Slice is an insertion sort up to 12 elements
// and a pattern-defeating quicksort beyond: small tests do not see it).
func checkStableSorts(c *Ctx, r *Report, rule string, files []string, min int) {
	n := 0
	for _, file := range files {
		pkgRel := "pkg/transformers"
		if strings.HasPrefix(file, "utils/") {
			pkgRel, file = "pkg/transformers/utils", strings.TrimPrefix(file, "utils/")
		}
		for _, fn := range funcsInFile(c, pkgRel, file) {
			idx := 0
			for _, b := range fn.Blocks {
				for _, in := range b.Instrs {
					call, ok := in.(ssa.CallInstruction)
					if !ok {
						continue
					}
					cn := CalleeName(call.Common())
					// generic instantiations print as slices.SortFunc[...]
					if i := strings.Index(cn, "["); i > 0 {
						cn = cn[:i]
					}
					if !(stableSortAPIs[cn] || unstableSortAPIs[cn] || identicalTieSortAPIs[cn]) {
						continue
					}
					idx++
					n++
					owner := fn
					for owner.Parent() != nil {
						owner = owner.Parent()
					}
					key := fmt.Sprintf("%s: %s #%d", SSAName(fn), cn, idx)
					switch {
					case stableSortAPIs[cn]:
						r.OK(rule, key, c.Rel(call.Pos()), "stable sort")
					case identicalTieSortAPIs[cn]:
						r.OK(rule, key, c.Rel(call.Pos()), "sort of plain strings or numbers: elements that tie are identical")
					case unstableSortOK[SSAName(owner)] != "":
						r.OK(rule, key, c.Rel(call.Pos()), "frozen exception: "+unstableSortOK[SSAName(owner)])
					default:
						r.Fail(rule, key, c.Rel(call.Pos()), fmt.Sprintf("%s calls the unstable %s: elements that compare equal (equal counts, numerically equal keys with different texts, fields matching the same regex) lose their input order once there are more than 12 of them — use the stable variant", SSAName(fn), cn))
					}
				}
			}
		}
	}
	r.Floor(rule, "sort calls in the verbs", n, min)
}
