package main

// Shared rule: the verbs sort with a stable algorithm (R09.9 / R10.7 / R12.7).

import (
	"fmt"
	"sort"
	"strings"

	"golang.org/x/tools/go/ssa"
)

// sort calls by behaviour on ties
var stableSortAPIs = map[string]bool{
	"sort.SliceStable": true, "sort.Stable": true, "slices.SortStableFunc": true,
}
var unstableSortAPIs = map[string]bool{
	"sort.Slice": true, "sort.Sort": true, "slices.SortFunc": true,
}

// sorts of plain strings / numbers: elements that tie are identical, so
// stability is unobservable
var identicalTieSortAPIs = map[string]bool{
	"sort.Strings": true, "sort.Ints": true, "sort.Float64s": true, "slices.Sort": true,
}

// unstable sorts whose ties cannot be observed, one line of reason each
var unstableSortOK = map[string]string{
	"(*pkg/transformers/utils.PercentileKeeper).sortIfNecessary": "percentile keeper: elements that tie are numerically equal values; which of them a percentile reports is not specified by the property",
}

// checkStableSorts: every call of a sort API in the given files of
// pkg/transformers (and pkg/transformers/utils) is a stable sort, a sort of
// plain strings/numbers, or a listed exception. A verb that orders records,
// groups or fields with an unstable sort loses the input order of elements
// that compare equal (Go's sort.Slice is an insertion sort up to 12 elements
// and a pattern-defeating quicksort beyond: small tests do not see it).
func checkStableSorts(c *Ctx, r *Report, rule string, files []string, min int) {
	n := 0
	for _, file := range files {
		pkgRel := "pkg/transformers"
		if strings.HasPrefix(file, "utils/") {
			pkgRel, file = "pkg/transformers/utils", strings.TrimPrefix(file, "utils/")
		}
		for _, fn := range funcsInFile(c, pkgRel, file) {
			idx := 0
			for _, b := range fn.Blocks {
				for _, in := range b.Instrs {
					call, ok := in.(ssa.CallInstruction)
					if !ok {
						continue
					}
					cn := CalleeName(call.Common())
					// generic instantiations print as slices.SortFunc[...]
					if i := strings.Index(cn, "["); i > 0 {
						cn = cn[:i]
					}
					if !(stableSortAPIs[cn] || unstableSortAPIs[cn] || identicalTieSortAPIs[cn]) {
						continue
					}
					idx++
					n++
					owner := fn
					for owner.Parent() != nil {
						owner = owner.Parent()
					}
					key := fmt.Sprintf("%s: %s #%d", SSAName(fn), cn, idx)
					switch {
					case stableSortAPIs[cn]:
						r.OK(rule, key, c.Rel(call.Pos()), "stable sort")
					case identicalTieSortAPIs[cn]:
						r.OK(rule, key, c.Rel(call.Pos()), "sort of plain strings or numbers: elements that tie are identical")
					case unstableSortOK[SSAName(owner)] != "":
						r.OK(rule, key, c.Rel(call.Pos()), "frozen exception: "+unstableSortOK[SSAName(owner)])
					default:
						r.Fail(rule, key, c.Rel(call.Pos()), fmt.Sprintf("%s calls the unstable %s: elements that compare equal (equal counts, numerically equal keys with different texts, fields matching the same regex) lose their input order once there are more than 12 of them — use the stable variant", SSAName(fn), cn))
					}
				}
			}
		}
	}
	r.Floor(rule, "sort calls in the verbs", n, min)
}

// c09Twins (R09.10): an Ascending/Descending pair of functions that is not
// written as "the other with swapped arguments" (R09.3) is a mirror image:
// the same sequence of ordering tests with < and >, <= and >= exchanged.
func c09Twins(c *Ctx, r *Report) {
	r.Rule("R09.10", "ascending and descending twins are mirror images: for every pair of functions of packages mlrval, bifs and transformers/utils whose names differ only in Ascending / Descending and that call the ordering predicates (LessThan, GreaterThan, LessThanOrEquals, GreaterThanOrEquals, Equals) directly, the sequence of predicates in source order, each normalised to 'first parameter op other', is the same in both with < and >, <= and >= exchanged — a binary search for the ascending insert point that tests > where its twin also tests > walks the wrong way")
	mirror := map[string]string{"LessThan": "GreaterThan", "GreaterThan": "LessThan", "LessThanOrEquals": "GreaterThanOrEquals", "GreaterThanOrEquals": "LessThanOrEquals", "Equals": "Equals", "NotEquals": "NotEquals"}
	seq := func(fn *ssa.Function) []string {
		type ev struct {
			pos int
			op  string
		}
		var evs []ev
		for _, b := range fn.Blocks {
			for _, in := range b.Instrs {
				call, ok := in.(*ssa.Call)
				if !ok {
					continue
				}
				cn := CalleeName(&call.Call)
				i := strings.LastIndex(cn, ".")
				if i < 0 || !strings.HasPrefix(cn, "pkg/mlrval.") {
					continue
				}
				op := cn[i+1:]
				if _, ok := mirror[op]; !ok || len(call.Call.Args) != 2 {
					continue
				}
				// normalise: which argument is the function's own value parameter?
				if paramIndex(fn, call.Call.Args[0]) < 0 && paramIndex(fn, call.Call.Args[1]) >= 0 {
					op = mirror[op]
				}
				evs = append(evs, ev{int(call.Pos()), op})
			}
		}
		sort.Slice(evs, func(i, j int) bool { return evs[i].pos < evs[j].pos })
		var out []string
		for _, e := range evs {
			out = append(out, e.op)
		}
		return out
	}
	n := 0
	byName := map[string]*ssa.Function{}
	for _, fn := range c.ModuleFunctions() {
		if fn.Blocks == nil || fn.Pkg == nil || fn.Parent() != nil {
			continue
		}
		pp := fn.Pkg.Pkg.Path()
		if strings.HasSuffix(pp, "/pkg/mlrval") || strings.HasSuffix(pp, "/pkg/bifs") || strings.HasSuffix(pp, "/pkg/transformers/utils") {
			byName[SSAName(fn)] = fn
		}
	}
	var names []string
	for k := range byName {
		names = append(names, k)
	}
	sort.Strings(names)
	for _, an := range names {
		if !strings.Contains(an, "Ascending") {
			continue
		}
		dn := strings.Replace(an, "Ascending", "Descending", 1)
		d, ok := byName[dn]
		if !ok {
			continue
		}
		a := byName[an]
		sa, sd := seq(a), seq(d)
		if len(sa) == 0 && len(sd) == 0 {
			continue // written through other functions (R09.3 covers the comparators)
		}
		n++
		var want []string
		for _, op := range sd {
			want = append(want, mirror[op])
		}
		r.Check(strings.Join(sa, " ") == strings.Join(want, " "), "R09.10", an+" / "+strings.TrimPrefix(dn, "pkg/mlrval."), c.Rel(a.Pos()), "mirror images: "+strings.Join(sa, " "),
			fmt.Sprintf("%s tests [%s] where its twin tests [%s]: they are not mirror images (expected [%s]) — one of the two orders its elements the wrong way at the place where they differ", an, strings.Join(sa, " "), strings.Join(sd, " "), strings.Join(want, " ")))
	}
	r.Floor("R09.10", "ascending/descending twins with direct ordering tests", n, 1)
}
