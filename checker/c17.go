package main

// C17 — failures are never silent: error-flow path rules across the
// reader / verb-chain / writer goroutines and the exit function.

import (
	"fmt"
	"go/token"
	"go/types"
	"sort"
	"strings"

	"golang.org/x/tools/go/ssa"
)

func init() { register("C17", true, runC17) }

func chanElemIsError(t types.Type) bool {
	ch, ok := t.Underlying().(*types.Chan)
	return ok && isErrorType(ch.Elem())
}

func chanElemIsBool(t types.Type) bool {
	ch, ok := t.Underlying().(*types.Chan)
	if !ok {
		return false
	}
	b, ok := ch.Elem().Underlying().(*types.Basic)
	return ok && b.Kind() == types.Bool
}

func chanElemIsRecordBatch(t types.Type) bool {
	ch, ok := t.Underlying().(*types.Chan)
	if !ok {
		return false
	}
	return strings.Contains(ch.Elem().String(), "RecordAndContext")
}

// selectSendsOn: the select has a send case on channel ch; returns blocking flag.
func selectSendsOn(sel *ssa.Select, ch ssa.Value) bool {
	for _, st := range sel.States {
		if st.Dir == types.SendOnly && sameChan(st.Chan, ch) {
			return true
		}
	}
	return false
}

func selectRecvsOn(sel *ssa.Select, ch ssa.Value) bool {
	for _, st := range sel.States {
		if st.Dir == types.RecvOnly && sameChan(st.Chan, ch) {
			return true
		}
	}
	return false
}

func sameChan(a, b ssa.Value) bool {
	if a == b || sameValue(a, b) {
		return true
	}
	// ChangeType (bidirectional → directional)
	if ct, ok := a.(*ssa.ChangeType); ok {
		return sameChan(ct.X, b)
	}
	if ct, ok := b.(*ssa.ChangeType); ok {
		return sameChan(a, ct.X)
	}
	return false
}

func paramOfType(fn *ssa.Function, pred func(types.Type) bool, dir types.ChanDir, nth int) *ssa.Parameter {
	n := 0
	for _, p := range fn.Params {
		if pred(p.Type()) {
			if ch, ok := p.Type().Underlying().(*types.Chan); ok && (dir == types.SendRecv || ch.Dir() == dir || ch.Dir() == types.SendRecv) {
				if n == nth {
					return p
				}
				n++
			}
		}
	}
	return nil
}

func runC17(c *Ctx, r *Report) {
	r.Explanation = "Whether an error can be lost is a property of every path and of every send/receive order, decided by path rules over the CFG: a verb's error is posted (non-blocking, buffered channel) before the end-of-stream marker is forwarded; the writer posts its error before signalling done; every waiter that can see 'done' before the error drains the error channels afterwards and returns what it finds; output errors are collected by a checked final Flush/Close; no error returned by a module function on the data path is discarded; a failed low-level read is reported; os.Exit happens only on the keep-list, with non-zero status, and a stderr diagnostic precedes every non-zero exit."
	r.NotDecided = "that a given malformed input is detected by a reader (input-dependent parsing); wording of diagnostics; behaviour of child processes of prepipes."

	c17Chain(c, r)
	c17Writer(c, r)
	c17Waiters(c, r)
	c17Flush(c, r, "R17.5")
	c17Dropped(c, r)
	r.Rule("R17.7", "os.Exit is called only from the keep-list of plans/exit.md (frozen by enclosing function); no recover(), no log.Fatal; every exit outside exitOnError passes a non-zero constant; every branch of exitOnError exits, with 0 only for the help sentinel or an ExitRequest's own code; Main routes every non-nil error to exitOnError")
	checkExitSites(c, r, "R17.7", false)
	c17ExitCodes(c, r)
	c17EndOfStreamCloses(c, r)
	c17Buffered(c, r)
	c17ReadErrors(c, r)
	c17ExitMessages(c, r)
	c17ChildExit(c, r)
	c17ErrorsExamined(c, r)
	c17ReadErrorsKept(c, r)
	c17ReaderConsumers(c, r)
	c17ReadDataKept(c, r)
	c17NoFailureAsData(c, r)
	c17RecordWithError(c, r)
}

// ---- R17.1 -----------------------------------------------------------------
func c17Chain(c *Ctx, r *Report) {
	r.Rule("R17.1", "in runSingleTransformerBatch, when Transform returns an error the (non-blocking) send on the data-processing error channel happens before the batch with the end-of-stream marker is forwarded, and the function returns (true, err); runSingleTransformer then signals upstream without blocking and returns")
	fn := c.SSAFunc(c.LookupFunc("pkg/transformers", "runSingleTransformerBatch"))
	if fn == nil {
		r.Undecided("R17.1", "runSingleTransformerBatch", "", "anchor not found")
		return
	}
	errCh := paramOfType(fn, chanElemIsError, types.SendOnly, 0)
	outCh := paramOfType(fn, chanElemIsRecordBatch, types.SendOnly, 0)
	if outCh == nil {
		r.Undecided("R17.1", "channels", c.Rel(fn.Pos()), "cannot identify the output record channel parameter")
		return
	}
	// errCh may be nil (the function has no access to the error channel): then
	// no posting can precede a forward made here, which the path rule reports.
	var transformCall *ssa.Call
	for _, b := range fn.Blocks {
		for _, in := range b.Instrs {
			if call, ok := in.(*ssa.Call); ok && call.Call.IsInvoke() && call.Call.Method.Name() == "Transform" {
				transformCall = call
			}
		}
	}
	if transformCall == nil {
		r.Undecided("R17.1", "Transform call", c.Rel(fn.Pos()), "no invoke of RecordTransformer.Transform found")
		return
	}
	problems := map[string]string{}
	sawFail := false
	pr := &PathRule{Fn: fn}
	pr.Branch = func(f Facts, cond ssa.Value, pol bool, iff *ssa.If) (Facts, bool) {
		if call, nonNil, ok := ErrCheck(cond); ok && call == transformCall {
			if nonNil == pol {
				return f.With("failed"), true
			}
			return f.Without("failed", "posted"), true
		}
		return nil, true
	}
	pr.Transfer = func(f Facts, in ssa.Instruction, deferred bool) []Facts {
		switch x := in.(type) {
		case *ssa.Call:
			if x == transformCall {
				return []Facts{f.Without("failed", "posted")}
			}
			// the post done by a helper: f(ch, err) whose body is a non-blocking send of err on ch
			if ci, vi, blocking, ok := sendHelper(x.Call.StaticCallee()); ok && f.Has("failed") && errCh != nil &&
				ci < len(x.Call.Args) && vi < len(x.Call.Args) && sameChan(x.Call.Args[ci], errCh) {
				if blocking {
					problems["blocking error send"] = c.Rel(x.Pos()) + ": the helper's error send is blocking"
				}
				if !FlowsFrom(x.Call.Args[vi], ErrValueOf(transformCall), 0) {
					problems["wrong value"] = c.Rel(x.Pos()) + ": the value posted on the error channel is not Transform's error"
				}
				return []Facts{f.With("posted")}
			}
		case *ssa.Select:
			if f.Has("failed") && errCh != nil && selectSendsOn(x, errCh) {
				if x.Blocking {
					problems["blocking error send"] = c.Rel(x.Pos()) + ": the error send is a blocking select (no default): if nobody receives, the verb goroutine hangs"
				}
				// value sent must be the Transform error
				for _, st := range x.States {
					if st.Dir == types.SendOnly && sameChan(st.Chan, errCh) && !FlowsFrom(st.Send, ErrValueOf(transformCall), 0) {
						problems["wrong value"] = c.Rel(x.Pos()) + ": the value posted on the error channel is not Transform's error"
					}
				}
				return []Facts{f.With("posted")}
			}
		case *ssa.Send:
			if errCh != nil && sameChan(x.Chan, errCh) && f.Has("failed") {
				problems["blocking error send"] = c.Rel(x.Pos()) + ": plain (blocking) send on the capacity-1 error channel"
				return []Facts{f.With("posted")}
			}
			if sameChan(x.Chan, outCh) && f.Has("failed") && !f.Has("posted") {
				problems["marker before error"] = c.Rel(x.Pos()) + ": the batch carrying the end-of-stream marker is forwarded before the error is posted: the writer may finish and Stream may return success before the error arrives"
			}
		}
		return nil
	}
	pr.AtReturn = func(f Facts, ret *ssa.Return) {
		if !f.Has("failed") {
			return
		}
		sawFail = true
		if !f.Has("posted") {
			problems["not posted"] = c.Rel(ret.Pos()) + ": a path returns after Transform failed without having posted the error on the error channel (posting it later, in the caller, is after the end-of-stream marker went downstream)"
		}
		if len(ret.Results) == 2 {
			if b, ok := constBool(ret.Results[0]); !ok || !b {
				problems["done flag"] = c.Rel(ret.Pos()) + ": the failing return does not report done=true"
			}
			if ReturnsNilError(ret) {
				problems["nil error"] = c.Rel(ret.Pos()) + ": the failing return passes a nil error to the caller"
			}
		}
	}
	pr.Run()
	if !sawFail {
		problems["no failing path"] = c.Rel(transformCall.Pos()) + ": Transform's error is never tested"
	}
	for _, k := range []string{"blocking error send", "wrong value", "marker before error", "not posted", "done flag", "nil error", "no failing path"} {
		if msg, bad := problems[k]; bad {
			r.Fail("R17.1", "runSingleTransformerBatch: "+k, strings.SplitN(msg, ": ", 2)[0], msg)
		} else {
			r.OK("R17.1", "runSingleTransformerBatch: "+k, c.Rel(transformCall.Pos()), "holds on every path from a failed Transform")
		}
	}
	// caller
	caller := c.SSAFunc(c.LookupFunc("pkg/transformers", "runSingleTransformer"))
	if caller == nil {
		r.Undecided("R17.1", "runSingleTransformer", "", "anchor not found")
		return
	}
	var batchCall *ssa.Call
	for _, b := range caller.Blocks {
		for _, in := range b.Instrs {
			if call, ok := in.(*ssa.Call); ok && call.Call.StaticCallee() == fn {
				batchCall = call
			}
		}
	}
	if batchCall == nil {
		r.Fail("R17.1", "runSingleTransformer: returns on error", c.Rel(caller.Pos()), "runSingleTransformer does not call runSingleTransformerBatch")
		return
	}
	prob := ""
	saw := false
	pr2 := &PathRule{Fn: caller}
	pr2.Branch = func(f Facts, cond ssa.Value, pol bool, iff *ssa.If) (Facts, bool) {
		if call, nonNil, ok := ErrCheck(cond); ok && call == batchCall {
			if nonNil == pol {
				return f.With("failed"), true
			}
			return f.Without("failed"), true
		}
		return nil, true
	}
	pr2.Transfer = func(f Facts, in ssa.Instruction, deferred bool) []Facts {
		if !f.Has("failed") {
			return nil
		}
		switch x := in.(type) {
		case *ssa.Send:
			prob = c.Rel(x.Pos()) + ": blocking send on the failure path of runSingleTransformer"
		case *ssa.Select:
			if x.Blocking {
				prob = c.Rel(x.Pos()) + ": blocking select on the failure path of runSingleTransformer"
			}
		case *ssa.Call:
			if x == batchCall {
				prob = c.Rel(x.Pos()) + ": the verb keeps processing batches after a failed batch"
			}
		case *ssa.UnOp:
			if x.Op == token.ARROW {
				prob = c.Rel(x.Pos()) + ": blocking receive on the failure path of runSingleTransformer"
			}
		}
		return nil
	}
	pr2.AtReturn = func(f Facts, ret *ssa.Return) {
		if f.Has("failed") {
			saw = true
		}
	}
	pr2.Run()
	r.Check(prob == "" && saw, "R17.1", "runSingleTransformer: returns on error", c.Rel(batchCall.Pos()), "failure path returns without blocking operations",
		"runSingleTransformer after a failed batch: "+prob+fmt.Sprintf(" (failing path reaches return: %v)", saw))
}

// ---- R17.2 -----------------------------------------------------------------
func c17Writer(c *Ctx, r *Report) {
	r.Rule("R17.2", "in ChannelWriter the error is posted (non-blocking) before done is signalled and done is sent exactly once on every exit; in channelWriterHandleBatch every non-nil result of recordWriter.Write and the fail-on-data-error path return (true,true) after a stderr diagnostic")
	fn := c.SSAFunc(c.LookupFunc("pkg/output", "ChannelWriter"))
	hb := c.SSAFunc(c.LookupFunc("pkg/output", "channelWriterHandleBatch"))
	if fn == nil || hb == nil {
		r.Undecided("R17.2", "anchors", "", "ChannelWriter / channelWriterHandleBatch not found")
		return
	}
	errCh := paramOfType(fn, chanElemIsError, types.SendOnly, 0)
	doneCh := paramOfType(fn, chanElemIsBool, types.SendOnly, 0)
	if errCh == nil || doneCh == nil {
		r.Undecided("R17.2", "channels", c.Rel(fn.Pos()), "cannot identify error/done channel parameters")
		return
	}
	var hbCall *ssa.Call
	for _, b := range fn.Blocks {
		for _, in := range b.Instrs {
			if call, ok := in.(*ssa.Call); ok && call.Call.StaticCallee() == hb {
				hbCall = call
			}
		}
	}
	if hbCall == nil {
		r.Undecided("R17.2", "handle-batch call", c.Rel(fn.Pos()), "ChannelWriter does not call channelWriterHandleBatch")
		return
	}
	var erroredVal ssa.Value
	for _, ref := range *hbCall.Referrers() {
		if ex, ok := ref.(*ssa.Extract); ok && ex.Index == 1 {
			erroredVal = ex
		}
	}
	problems := map[string]string{}
	sawErrored := false
	pr := &PathRule{Fn: fn}
	pr.Branch = func(f Facts, cond ssa.Value, pol bool, iff *ssa.If) (Facts, bool) {
		if erroredVal != nil && cond == erroredVal {
			if pol {
				return f.With("errored"), true
			}
			return f.Without("errored"), true
		}
		return nil, true
	}
	pr.Transfer = func(f Facts, in ssa.Instruction, deferred bool) []Facts {
		switch x := in.(type) {
		case *ssa.Call:
			if x == hbCall {
				return []Facts{f.Without("errored", "posted")}
			}
		case *ssa.Select:
			if selectSendsOn(x, errCh) {
				if x.Blocking {
					problems["blocking error send"] = c.Rel(x.Pos()) + ": blocking select for the error send"
				}
				return []Facts{f.With("posted")}
			}
		case *ssa.Send:
			if sameChan(x.Chan, errCh) {
				problems["blocking error send"] = c.Rel(x.Pos()) + ": plain blocking send on the error channel"
				return []Facts{f.With("posted")}
			}
			if sameChan(x.Chan, doneCh) {
				if f.Has("errored") && !f.Has("posted") {
					problems["done before error"] = c.Rel(x.Pos()) + ": done is signalled before the error is posted: the waiter may return success"
				}
				if f.Has("done1") {
					problems["done twice"] = c.Rel(x.Pos()) + ": done is sent twice on one path (second send blocks forever on the capacity-1 channel)"
				}
				return []Facts{f.With("done1")}
			}
		}
		return nil
	}
	pr.AtReturn = func(f Facts, ret *ssa.Return) {
		if f.Has("errored") {
			sawErrored = true
		}
		if !f.Has("done1") {
			problems["exit without done"] = c.Rel(ret.Pos()) + ": ChannelWriter returns without signalling done: the waiter blocks forever"
		}
	}
	pr.Run()
	if !sawErrored {
		problems["errored path"] = c.Rel(hbCall.Pos()) + ": the 'errored' result of channelWriterHandleBatch is never tested"
	}
	for _, k := range []string{"blocking error send", "done before error", "done twice", "exit without done", "errored path"} {
		if msg, bad := problems[k]; bad {
			r.Fail("R17.2", "ChannelWriter: "+k, strings.SplitN(msg, ": ", 2)[0], msg)
		} else {
			r.OK("R17.2", "ChannelWriter: "+k, c.Rel(hbCall.Pos()), "holds on every path")
		}
	}
	// handle batch: each Write invoke
	n := 0
	for _, b := range hb.Blocks {
		for _, in := range b.Instrs {
			call, ok := in.(*ssa.Call)
			if !ok || !call.Call.IsInvoke() || call.Call.Method.Name() != "Write" {
				continue
			}
			n++
			key := fmt.Sprintf("channelWriterHandleBatch: Write#%d error → (true,true)", n)
			ok2, why := failEdgeReturnsConsts(call, []bool{true, true}, true)
			r.Check(ok2, "R17.2", key, c.Rel(call.Pos()), "err != nil → stderr diagnostic, return (true,true)", "recordWriter.Write error handling: "+why)
		}
	}
	r.Floor("R17.2", "recordWriter.Write call sites in channelWriterHandleBatch", n, 2)
	// FailOnDataError path: every return with errored=true has done=true
	bad := ""
	for _, b := range hb.Blocks {
		if ret, ok := b.Instrs[len(b.Instrs)-1].(*ssa.Return); ok && len(ret.Results) == 2 {
			e, okE := constBool(ret.Results[1])
			d, okD := constBool(ret.Results[0])
			if okE && e && !(okD && d) {
				bad = c.Rel(ret.Pos())
			}
		}
	}
	r.Check(bad == "", "R17.2", "channelWriterHandleBatch: errored implies done", c.Rel(hb.Pos()), "every return with errored=true has done=true", "a return reports errored without done at "+bad)
}

// failEdgeReturnsConsts: on the err != nil edge of call, control reaches a
// return whose boolean results are the given constants, optionally after a
// write to os.Stderr.
func failEdgeReturnsConsts(call *ssa.Call, want []bool, needStderr bool) (bool, string) {
	ev := ErrValueOf(call)
	if ev == nil {
		return false, "callee does not return an error"
	}
	for _, ref := range *ev.Referrers() {
		bo, ok := ref.(*ssa.BinOp)
		if !ok {
			continue
		}
		cc, nonNil, ok2 := ErrCheck(bo)
		if !ok2 || cc != call {
			continue
		}
		for _, r2 := range *bo.Referrers() {
			iff, ok := r2.(*ssa.If)
			if !ok {
				continue
			}
			idx := 0
			if !nonNil {
				idx = 1
			}
			succ := iff.Block().Succs[idx]
			ret, isRet := succ.Instrs[len(succ.Instrs)-1].(*ssa.Return)
			if !isRet {
				return false, "the failure branch does not return"
			}
			if len(ret.Results) != len(want) {
				return false, "unexpected result arity"
			}
			for i, w := range want {
				if b, ok := constBool(ret.Results[i]); !ok || b != w {
					return false, fmt.Sprintf("result %d is not the constant %v", i, w)
				}
			}
			if needStderr && !blockWritesStderr(succ) {
				return false, "no diagnostic is written to os.Stderr on the failure branch"
			}
			return true, ""
		}
	}
	return false, "the error result is never tested"
}

func blockWritesStderr(b *ssa.BasicBlock) bool {
	for _, in := range b.Instrs {
		if call, ok := in.(*ssa.Call); ok && callWritesStderr(&call.Call) {
			return true
		}
	}
	return false
}

func isGlobalNamed(v ssa.Value, pkg, name string) bool {
	u, ok := v.(*ssa.UnOp)
	if !ok || u.Op != token.MUL {
		return false
	}
	g, ok := u.X.(*ssa.Global)
	return ok && g.Pkg != nil && g.Pkg.Pkg.Path() == pkg && g.Name() == name
}

func callWritesStderr(com *ssa.CallCommon) bool {
	name := CalleeName(com)
	switch name {
	case "fmt.Fprintf", "fmt.Fprintln", "fmt.Fprint":
		if len(com.Args) > 0 {
			a := com.Args[0]
			if mi, ok := a.(*ssa.MakeInterface); ok {
				a = mi.X
			}
			return isGlobalNamed(a, "os", "Stderr")
		}
	case "os.File.WriteString", "os.File.Write":
		return len(com.Args) > 0 && isGlobalNamed(com.Args[0], "os", "Stderr")
	}
	return false
}

func callWritesStdout(com *ssa.CallCommon) bool {
	name := CalleeName(com)
	switch name {
	case "fmt.Printf", "fmt.Println", "fmt.Print":
		return true
	case "fmt.Fprintf", "fmt.Fprintln", "fmt.Fprint":
		if len(com.Args) > 0 {
			a := com.Args[0]
			if mi, ok := a.(*ssa.MakeInterface); ok {
				a = mi.X
			}
			return isGlobalNamed(a, "os", "Stdout")
		}
	case "os.File.WriteString", "os.File.Write":
		return len(com.Args) > 0 && isGlobalNamed(com.Args[0], "os", "Stdout")
	}
	return false
}

// ---- R17.3 -----------------------------------------------------------------
// A waiter is a function with a blocking select inside a loop that receives
// from a done (bool) channel and from at least one error channel.
func c17Waiters(c *Ctx, r *Report) {
	r.Rule("R17.3", "every function that waits for a ChannelWriter's done signal in a select next to error channels performs, after the loop, a non-blocking receive on each of those error channels and returns what it finds (select picks among ready channels at random, so 'done' can win over a buffered error)")
	n := 0
	for _, fn := range c.ModuleFunctions() {
		pk := ""
		if fn.Pkg != nil {
			pk = fn.Pkg.Pkg.Path()
		}
		if subEntrypointPkg(pk) {
			continue
		}
		for _, b := range fn.Blocks {
			for _, in := range b.Instrs {
				sel, ok := in.(*ssa.Select)
				if !ok || !sel.Blocking {
					continue
				}
				var errChans []ssa.Value
				hasDone := false
				for _, st := range sel.States {
					if st.Dir != types.RecvOnly {
						continue
					}
					if chanElemIsError(st.Chan.Type()) {
						errChans = append(errChans, st.Chan)
					} else if chanElemIsBool(st.Chan.Type()) {
						hasDone = true
					}
				}
				if !hasDone || len(errChans) == 0 {
					continue
				}
				n++
				for i, ec := range errChans {
					key := fmt.Sprintf("%s: drain of error channel #%d (%s)", SSAName(fn), i+1, chanDesc(ec))
					// look for a non-blocking select receiving on ec in a block strictly after the waiting select's loop
					found := false
					for _, b2 := range fn.Blocks {
						for _, in2 := range b2.Instrs {
							s2, ok := in2.(*ssa.Select)
							if !ok || s2.Blocking || s2 == sel {
								continue
							}
							if !selectRecvsOn(s2, ec) {
								continue
							}
							if blockReaches(b2, sel.Block()) {
								continue // still inside the loop
							}
							if !blockReaches(sel.Block(), b2) {
								continue
							}
							// received value must flow to a return
							if selectValueReachesReturn(fn, s2) {
								found = true
							}
						}
					}
					// or the same through a small function of the package that polls the channel it is given
					if !found {
						for _, b2 := range fn.Blocks {
							for _, in2 := range b2.Instrs {
								hc, ok := in2.(*ssa.Call)
								if !ok || blockReaches(b2, sel.Block()) || !blockReaches(sel.Block(), b2) {
									continue
								}
								h := hc.Call.StaticCallee()
								if h == nil || h.Pkg != fn.Pkg || h.Blocks == nil {
									continue
								}
								pi := -1
								for ai, a := range hc.Call.Args {
									if a == ec || sameValue(a, ec) {
										pi = ai
									}
									if ct, ok := a.(*ssa.ChangeType); ok && (ct.X == ec || sameValue(ct.X, ec)) {
										pi = ai
									}
								}
								if pi < 0 || pi >= len(h.Params) {
									continue
								}
								polls := false
								for _, hb := range h.Blocks {
									for _, hi := range hb.Instrs {
										if s3, ok := hi.(*ssa.Select); ok && !s3.Blocking && selectRecvsOn(s3, h.Params[pi]) && selectValueReachesReturn(h, s3) {
											polls = true
										}
									}
								}
								if !polls {
									continue
								}
								for _, b3 := range fn.Blocks {
									if ret, ok := b3.Instrs[len(b3.Instrs)-1].(*ssa.Return); ok {
										for _, res := range ret.Results {
											if FlowsFrom(res, hc, 0) {
												found = true
											}
										}
									}
								}
							}
						}
					}
					r.Check(found, "R17.3", key, c.Rel(sel.Pos()), "non-blocking receive after the wait loop whose value flows to the return",
						fmt.Sprintf("%s waits on done next to error channel %s but never drains that channel after the loop: when both are ready, select may pick done and the error is lost (exit status 0)", SSAName(fn), chanDesc(ec)))
				}
			}
		}
	}
	r.Floor("R17.3", "waiter loops", n, 2)
}

func chanDesc(v ssa.Value) string {
	switch x := v.(type) {
	case *ssa.UnOp:
		if fa, ok := x.X.(*ssa.FieldAddr); ok {
			st := fa.X.Type().Underlying().(*types.Pointer).Elem().Underlying().(*types.Struct)
			return "field " + st.Field(fa.Field).Name()
		}
	case *ssa.MakeChan:
		return "local " + x.Name()
	case *ssa.Parameter:
		return "parameter " + x.Name()
	case *ssa.ChangeType:
		return chanDesc(x.X)
	}
	return v.Name()
}

func blockReaches(from, to *ssa.BasicBlock) bool {
	seen := map[*ssa.BasicBlock]bool{}
	var walk func(b *ssa.BasicBlock) bool
	walk = func(b *ssa.BasicBlock) bool {
		for _, s := range b.Succs {
			if s == to {
				return true
			}
			if !seen[s] {
				seen[s] = true
				if walk(s) {
					return true
				}
			}
		}
		return false
	}
	return walk(from)
}

func selectValueReachesReturn(fn *ssa.Function, sel *ssa.Select) bool {
	// any Extract of the select (index>=2 are received values) flowing to a Return result
	var recvd []ssa.Value
	for _, ref := range *sel.Referrers() {
		if ex, ok := ref.(*ssa.Extract); ok && ex.Index >= 2 {
			recvd = append(recvd, ex)
		}
	}
	for _, b := range fn.Blocks {
		ret, ok := b.Instrs[len(b.Instrs)-1].(*ssa.Return)
		if !ok {
			continue
		}
		for _, res := range ret.Results {
			for _, v := range recvd {
				if FlowsFrom(res, v, 0) {
					return true
				}
			}
		}
	}
	// named result stored through an Alloc (defer-spilled): store of recvd into an alloc that is loaded at return
	for _, v := range recvd {
		for _, ref := range *v.Referrers() {
			if st, ok := ref.(*ssa.Store); ok {
				if _, isAlloc := st.Addr.(*ssa.Alloc); isAlloc {
					return true
				}
			}
		}
	}
	return false
}

// ---- R17.5 -----------------------------------------------------------------
// Every bufio.Writer wrapped around an output handle by a function on the
// output path has a Flush() whose error reaches the owner's return.
func c17Flush(c *Ctx, r *Report, rule string) {
	r.Rule(rule, "sticky output errors are collected: stream.Stream and FileOutputHandler.Close call Flush() on their bufio.Writer on every path to a nil return and return its error (a deferred or discarded Flush loses a failed write); an output file handle's Close() is returned")
	// stream.Stream
	fn := c.SSAFunc(c.LookupFunc("pkg/stream", "Stream"))
	if fn == nil {
		r.Undecided(rule, "stream.Stream", "", "anchor not found")
	} else {
		var nw *ssa.Call
		for _, b := range fn.Blocks {
			for _, in := range b.Instrs {
				if call, ok := in.(*ssa.Call); ok && CalleeName(&call.Call) == "bufio.NewWriter" {
					nw = call
				}
			}
		}
		if nw == nil {
			r.Undecided(rule, "stream.Stream: bufio.NewWriter", c.Rel(fn.Pos()), "Stream no longer wraps its output in a bufio.Writer here; re-anchor the rule")
		} else {
			ok, why := flushCheckedBeforeNilReturn(c, fn, func(v ssa.Value) bool { return FlowsFrom(v, nw, 0) }, nw.Block())
			r.Check(ok, rule, "stream.Stream: final Flush is checked", c.Rel(nw.Pos()), "every path from the writer's creation to a return passes a Flush() whose error flows into the returned value",
				"stream.Stream: "+why)
		}
	}
	// FileOutputHandler.Close
	cl := c.SSAFunc(c.LookupFunc("pkg/output", "FileOutputHandler.Close"))
	if cl == nil {
		r.Undecided(rule, "FileOutputHandler.Close", "", "anchor not found")
		return
	}
	isBuf := func(v ssa.Value) bool {
		u, ok := v.(*ssa.UnOp)
		if !ok || u.Op != token.MUL {
			return false
		}
		fa, ok := u.X.(*ssa.FieldAddr)
		if !ok {
			return false
		}
		st := fa.X.Type().Underlying().(*types.Pointer).Elem().Underlying().(*types.Struct)
		return st.Field(fa.Field).Name() == "bufferedOutputStream"
	}
	ok, why := flushCheckedBeforeNilReturn(c, cl, isBuf, cl.Blocks[0])
	r.Check(ok, rule, "FileOutputHandler.Close: Flush is checked", c.Rel(cl.Pos()), "every nil return is preceded by a Flush() whose error was tested", "FileOutputHandler.Close: "+why)
	// handle.Close() result returned
	okClose := false
	for _, b := range cl.Blocks {
		for _, in := range b.Instrs {
			call, isCall := in.(*ssa.Call)
			if !isCall || !call.Call.IsInvoke() || call.Call.Method.Name() != "Close" {
				continue
			}
			for _, b2 := range cl.Blocks {
				if ret, isRet := b2.Instrs[len(b2.Instrs)-1].(*ssa.Return); isRet {
					for _, res := range ret.Results {
						if FlowsFrom(res, call, 0) {
							okClose = true
						}
					}
				}
			}
			// named result spilled
			for _, ref := range *call.Referrers() {
				if st, isSt := ref.(*ssa.Store); isSt {
					if _, isAlloc := st.Addr.(*ssa.Alloc); isAlloc {
						okClose = true
					}
				}
			}
		}
	}
	r.Check(okClose, rule, "FileOutputHandler.Close: handle.Close() returned", c.Rel(cl.Pos()), "the file handle's Close() error is the function's result", "FileOutputHandler.Close does not return the error of handle.Close(): a failed final write (e.g. disk full at close) is lost")
}

// flushCheckedBeforeNilReturn: path rule — every return reached from `from`
// has passed a (non-deferred) Flush() on the writer whose error value is
// tested or flows to the return.
func flushCheckedBeforeNilReturn(c *Ctx, fn *ssa.Function, isWriter func(ssa.Value) bool, from *ssa.BasicBlock) (bool, string) {
	why := ""
	var flushCalls []*ssa.Call
	isFlush := func(com *ssa.CallCommon) bool {
		return CalleeName(com) == "bufio.Writer.Flush" && len(com.Args) == 1 && isWriter(com.Args[0])
	}
	for _, b := range fn.Blocks {
		for _, in := range b.Instrs {
			switch x := in.(type) {
			case *ssa.Call:
				if isFlush(&x.Call) {
					flushCalls = append(flushCalls, x)
				}
			case *ssa.Defer:
				if isFlush(&x.Call) && why == "" {
					why = c.Rel(x.Pos()) + ": Flush() is deferred, so its error cannot reach the return value"
				}
			}
		}
	}
	checked := map[*ssa.Call]bool{}
	for _, fc := range flushCalls {
		if fc.Referrers() == nil {
			continue
		}
		for _, ref := range *fc.Referrers() {
			switch ref.(type) {
			case *ssa.BinOp, *ssa.Return, *ssa.Store, *ssa.Phi:
				checked[fc] = true
			}
		}
	}
	bad := ""
	started := false
	pr := &PathRule{Fn: fn}
	pr.Transfer = func(f Facts, in ssa.Instruction, deferred bool) []Facts {
		if call, ok := in.(*ssa.Call); ok && checked[call] && !deferred {
			return []Facts{f.With("flushed")}
		}
		return nil
	}
	pr.Branch = func(f Facts, cond ssa.Value, pol bool, iff *ssa.If) (Facts, bool) { return nil, true }
	pr.AtReturn = func(f Facts, ret *ssa.Return) {
		started = true
		if !ret.Block().Dominates(ret.Block()) {
			return
		}
		if !from.Dominates(ret.Block()) {
			return // returns before the writer exists (constructor errors)
		}
		if f.Has("flushed") {
			return
		}
		// an explicit non-nil error return without flush is fine (an error is already being reported)
		if !ReturnsNilError(ret) && !retMayBeNil(ret) {
			return
		}
		bad = c.Rel(ret.Pos()) + ": a return that may report success is reachable without a checked Flush() of the buffered writer"
	}
	pr.Run()
	if !started {
		return false, "no return reached"
	}
	if bad != "" {
		if why != "" {
			return false, why + "; " + bad
		}
		return false, bad
	}
	if len(flushCalls) == 0 {
		return false, "no Flush() call on the buffered writer" + why
	}
	return true, ""
}

// retMayBeNil: the returned error is a variable (phi/load) rather than a
// value known non-nil on this path. Conservative: anything that is not the
// direct error result of a call tested non-nil counts as maybe-nil.
func retMayBeNil(ret *ssa.Return) bool {
	if len(ret.Results) == 0 {
		return true
	}
	last := ret.Results[len(ret.Results)-1]
	for _, g := range GuardsAt(ret.Block()) {
		if bo, ok := g.Cond.(*ssa.BinOp); ok && (bo.Op == token.NEQ || bo.Op == token.EQL) {
			if k, isK := bo.Y.(*ssa.Const); isK && k.IsNil() && (bo.X == last || sameValue(bo.X, last)) && (bo.Op == token.NEQ) == g.Polarity {
				return false
			}
		}
	}
	switch x := last.(type) {
	case *ssa.Const:
		return x.IsNil()
	case *ssa.Call, *ssa.Extract:
		// `return err` inside `if err != nil`
		for _, g := range GuardsAt(ret.Block()) {
			if call, nonNil, ok := ErrCheck(g.Cond); ok && nonNil == g.Polarity {
				if ErrValueOf(call) == last {
					return false
				}
			}
		}
		if _, isCall := x.(*ssa.Call); isCall {
			// return fmt.Errorf(...) and the like
			if c2 := x.(*ssa.Call); c2.Call.StaticCallee() != nil {
				n := SSAFuncName(c2.Call.StaticCallee())
				if n == "fmt.Errorf" || n == "errors.New" {
					return false
				}
			}
		}
		return true
	case *ssa.MakeInterface:
		return false
	}
	return true
}

// ---- R17.6 -----------------------------------------------------------------
var dataPathPkgs = []string{"pkg/stream", "pkg/transformers", "pkg/transformers/utils", "pkg/output", "pkg/input", "pkg/dsl/cst", "pkg/runtime", "pkg/entrypoint", "pkg/climain", "pkg/lib", "pkg/go-csv", "pkg/dkvpx"}

// droppedOK: frozen exceptions keyed "caller → callee" with the reason.
var droppedOK = map[string]string{
	"(*pkg/lib.inboundHalfPipe).Close$1 → os.Process.Wait": "reaps a prepipe child whose remaining output the reader has declined (Close before end of file, e.g. mlr head): its exit status — typically broken pipe — is not an input failure; at end of file the status is checked in Read",
}

// droppedOKCallee: callee-wide classes with reason.
var droppedOKCallee = map[string]string{
	"pkg/mlrval.Mlrmap.RemoveIndexed": "unset of a non-existent or non-indexable element is a documented no-op (reference-dsl-unset); the error only says 'nothing to remove'",
	"pkg/mlrval.Mlrval.RemoveIndexed": "unset of a non-existent or non-indexable element is a documented no-op",
}

func c17Dropped(c *Ctx, r *Report) {
	r.Rule("R17.6", "no error returned by a function of this module (or by os.Rename/Remove/Chmod/OpenFile, Close of a written handle, bufio Flush) on the data path is discarded: the result is tested, returned, sent or printed; discards are accepted only when the callee can never fail, on a read-only handle's Close, or for cleanup on a path that already returns a non-nil error")
	inScope := map[string]bool{}
	for _, p := range dataPathPkgs {
		inScope[modPath+"/"+p] = true
	}
	total, dropped := 0, 0
	type site struct {
		key, pos, why string
		ok            bool
	}
	var sites []site
	neverFails := map[*ssa.Function]bool{}
	nf := func(f *ssa.Function) bool {
		if v, ok := neverFails[f]; ok {
			return v
		}
		res := f.Blocks != nil
		for _, b := range f.Blocks {
			if ret, ok := b.Instrs[len(b.Instrs)-1].(*ssa.Return); ok {
				if !ReturnsNilError(ret) {
					res = false
				}
			}
		}
		neverFails[f] = res
		return res
	}
	for _, fn := range c.ModuleFunctions() {
		pk := ""
		top := enclosingNamed(fn)
		if top.Pkg != nil {
			pk = top.Pkg.Pkg.Path()
		}
		if !inScope[pk] {
			continue
		}
		for _, b := range fn.Blocks {
			for _, in := range b.Instrs {
				var com *ssa.CallCommon
				var val *ssa.Call
				isDefer := false
				switch x := in.(type) {
				case *ssa.Call:
					com, val = &x.Call, x
				case *ssa.Defer:
					com = &x.Call
					isDefer = true
				case *ssa.Go:
					continue
				default:
					continue
				}
				res := com.Signature().Results()
				if res.Len() == 0 || !isErrorType(res.At(res.Len()-1).Type()) {
					continue
				}
				name := CalleeName(com)
				callee := com.StaticCallee()
				isModule := callee != nil && IsModuleFunc(callee)
				if com.IsInvoke() {
					// interface methods declared in the module
					if m := com.Method; m.Pkg() != nil && strings.HasPrefix(m.Pkg().Path(), modPath) {
						isModule = true
						name = "invoke " + recvTypeName(com.Value.Type()) + "." + m.Name()
					} else if m.Name() == "Close" {
						name = "invoke " + recvTypeName(com.Value.Type()) + ".Close"
					}
				}
				ext := map[string]bool{"os.Rename": true, "os.Remove": true, "os.Chmod": true, "os.OpenFile": true, "os.Create": true, "os.File.Close": true, "bufio.Writer.Flush": true, "os.Setenv": true,
					"invoke io.WriteCloser.Close": true, "invoke io.ReadCloser.Close": true, "invoke io.Closer.Close": true, "os/exec.Cmd.Wait": true, "os/exec.Cmd.Run": true, "os/exec.Cmd.Start": true, "os.Process.Wait": true}
				if !isModule && !ext[name] {
					continue
				}
				total++
				used := false
				if !isDefer && val != nil {
					if res.Len() == 1 {
						used = hasRealReferrer(val)
					} else {
						for _, ref := range *val.Referrers() {
							if ex, ok := ref.(*ssa.Extract); ok && ex.Index == res.Len()-1 && hasRealReferrer(ex) {
								used = true
							}
						}
					}
				}
				if used {
					continue
				}
				dropped++
				key := fmt.Sprintf("%s drops error of %s", SSAName(fn), name)
				pos := c.Rel(in.Pos())
				switch {
				case callee != nil && isModule && nf(callee):
					sites = append(sites, site{key, pos, "callee never fails (every return passes nil)", true})
				case strings.HasSuffix(name, "ReadCloser.Close"):
					sites = append(sites, site{key, pos, "Close of a read-only handle", true})
				case (name == "os.File.Close" || strings.HasSuffix(name, ".Close")) && closesReadHandle(com):
					sites = append(sites, site{key, pos, "Close of a handle opened for reading", true})
				case (name == "os.Remove" || strings.HasSuffix(name, ".Close")) && blockReturnsNonNilError(in.Block()):
					sites = append(sites, site{key, pos, "cleanup on a path that already returns a non-nil error", true})
				case (name == "os.Remove" || strings.HasSuffix(name, ".Close")) && closureCalledOnlyOnErrorPaths(fn):
					sites = append(sites, site{key, pos, "cleanup in a local closure that is called only on paths that already return a non-nil error", true})
				case name == "bufio.Writer.Flush" && flushOnEveryRecord(in):
					sites = append(sites, site{key, pos, "per-record flush of a bufio.Writer whose errors are sticky and whose final Flush is checked (R17.5)", true})
				default:
					if why, ok := droppedOKCallee[name]; ok && strings.Contains(strings.ToLower(fn.Name()), "unset") || ok && strings.Contains(fn.Name(), "Unassign") {
						sites = append(sites, site{key, pos, "frozen class: " + why, true})
					} else if why, ok := droppedOK[SSAName(fn)+" → "+name]; ok {
						sites = append(sites, site{key, pos, "frozen exception: " + why, true})
					} else {
						sites = append(sites, site{key, pos, "", false})
					}
				}
			}
		}
	}
	sort.Slice(sites, func(i, j int) bool { return sites[i].key < sites[j].key })
	for _, s := range sites {
		if s.ok {
			r.OK("R17.6", s.key, s.pos, s.why)
		} else {
			r.Fail("R17.6", s.key, s.pos, "the error result is discarded: a failure here is silent")
		}
	}
	r.OK("R17.6", "call sites with an error result examined", "", fmt.Sprintf("%d call sites, %d discards classified", total, dropped))
	r.Floor("R17.6", "error-returning call sites on the data path", total, 700)
	r.Extra["error_call_sites"] = total
}

func recvTypeName(t types.Type) string {
	s := types.TypeString(t, func(p *types.Package) string {
		if strings.HasPrefix(p.Path(), modPath) {
			return strings.TrimPrefix(p.Path(), modPath+"/")
		}
		return p.Path()
	})
	return s
}

func hasRealReferrer(v ssa.Value) bool {
	if v.Referrers() == nil {
		return false
	}
	for _, ref := range *v.Referrers() {
		if _, ok := ref.(*ssa.DebugRef); ok {
			continue
		}
		return true
	}
	return false
}

func blockReturnsNonNilError(b *ssa.BasicBlock) bool {
	// follow unconditional jumps
	for i := 0; i < 4; i++ {
		last := b.Instrs[len(b.Instrs)-1]
		switch x := last.(type) {
		case *ssa.Return:
			return !ReturnsNilError(x)
		case *ssa.Jump:
			b = b.Succs[0]
		default:
			return false
		}
	}
	return false
}

// closesReadHandle: receiver derives from lib.OpenFileForRead / OpenStdin /
// os.Open / PathToHandle results.
func closesReadHandle(com *ssa.CallCommon) bool {
	var recv ssa.Value
	if com.IsInvoke() {
		recv = com.Value
	} else if len(com.Args) > 0 {
		recv = com.Args[0]
	}
	if recv == nil {
		return false
	}
	found := false
	var walk func(v ssa.Value, d int)
	walk = func(v ssa.Value, d int) {
		if d > 8 || found {
			return
		}
		switch x := v.(type) {
		case *ssa.Call:
			n := CalleeName(&x.Call)
			if n == "pkg/lib.OpenFileForRead" || n == "pkg/lib.OpenStdin" || n == "os.Open" || n == "pkg/lib.PathToHandle" || n == "pkg/lib.OpenInboundHalfPipe" {
				found = true
			}
		case *ssa.Extract:
			walk(x.Tuple, d+1)
		case *ssa.Phi:
			for _, e := range x.Edges {
				walk(e, d+1)
			}
		case *ssa.MakeInterface:
			walk(x.X, d+1)
		case *ssa.ChangeInterface:
			walk(x.X, d+1)
		case *ssa.TypeAssert:
			walk(x.X, d+1)
		case *ssa.UnOp:
			if a, ok := x.X.(*ssa.Alloc); ok {
				for _, ref := range *a.Referrers() {
					if st, ok := ref.(*ssa.Store); ok && st.Addr == a {
						walk(st.Val, d+1)
					}
				}
			}
			if fv, ok := x.X.(*ssa.FreeVar); ok {
				walk(fv, d+1)
			}
		case *ssa.FreeVar:
			// find the binding in the parent's MakeClosure
			anon := x.Parent()
			par := anon.Parent()
			if par == nil {
				return
			}
			idx := -1
			for i, fv := range anon.FreeVars {
				if fv == x {
					idx = i
				}
			}
			for _, b := range par.Blocks {
				for _, in := range b.Instrs {
					if mc, ok := in.(*ssa.MakeClosure); ok && mc.Fn == anon && idx >= 0 && idx < len(mc.Bindings) {
						bnd := mc.Bindings[idx]
						if a, ok := bnd.(*ssa.Alloc); ok {
							for _, ref := range *a.Referrers() {
								if st, ok := ref.(*ssa.Store); ok && st.Addr == a {
									walk(st.Val, d+1)
								}
							}
						} else {
							walk(bnd, d+1)
						}
					}
				}
			}
		}
	}
	walk(recv, 0)
	return found
}

func flushOnEveryRecord(in ssa.Instruction) bool {
	for _, g := range GuardsAt(in.Block()) {
		if u, ok := g.Cond.(*ssa.UnOp); ok && u.Op == token.MUL {
			if fa, ok := u.X.(*ssa.FieldAddr); ok {
				st := fa.X.Type().Underlying().(*types.Pointer).Elem().Underlying().(*types.Struct)
				if st.Field(fa.Field).Name() == "FlushOnEveryRecord" && g.Polarity {
					return true
				}
			}
		}
	}
	return false
}

// ---- R17.7 exit codes ---------------------------------------------------------
func c17ExitCodes(c *Ctx, r *Report) {
	for _, s := range c.ExitSites() {
		if s.Kind != "os.Exit" {
			continue
		}
		pk := ""
		if s.Fn.Pkg != nil {
			pk = s.Fn.Pkg.Pkg.Path()
		}
		if subEntrypointPkg(pk) {
			continue
		}
		name := SSAName(s.Fn)
		if name == "pkg/entrypoint.exitOnError" || name == "pkg/entrypoint.Main" {
			continue
		}
		key := fmt.Sprintf("exit code in %s", name)
		r.Check(s.Const && !s.Zero, "R17.7", key, c.Rel(s.Site.Pos()), "os.Exit("+s.CodeStr+")", "os.Exit("+s.CodeStr+") outside exitOnError: a failure path must exit non-zero with a constant status")
	}
	// exitOnError: every path exits; 0 only under ErrHelpRequested
	fn := c.SSAFunc(c.LookupFunc("pkg/entrypoint", "exitOnError"))
	if fn == nil {
		r.Undecided("R17.7", "exitOnError", "", "anchor not found")
		return
	}
	returns := false
	for _, b := range fn.Blocks {
		if ret, ok := b.Instrs[len(b.Instrs)-1].(*ssa.Return); ok {
			// reachable return without exit before it in the same block?
			exited := false
			for _, in := range b.Instrs {
				if call, ok := in.(*ssa.Call); ok && CalleeName(&call.Call) == "os.Exit" {
					exited = true
				}
			}
			_ = ret
			if !exited && blockReachableWithoutExit(fn, b) {
				returns = true
			}
		}
	}
	r.Check(!returns, "R17.7", "exitOnError always exits", c.Rel(fn.Pos()), "no path through exitOnError returns to the caller without os.Exit", "exitOnError has a path that returns without exiting: the error would be swallowed and the process would exit 0")
	for _, b := range fn.Blocks {
		for _, in := range b.Instrs {
			call, ok := in.(*ssa.Call)
			if !ok || CalleeName(&call.Call) != "os.Exit" {
				continue
			}
			n, isConst := constInt(call.Call.Args[0])
			if isConst && n == 0 {
				// must be guarded by errors.Is(err, cli.ErrHelpRequested)
				okGuard := false
				for _, g := range GuardsAt(b) {
					if gc, ok := g.Cond.(*ssa.Call); ok && CalleeName(&gc.Call) == "errors.Is" && g.Polarity && len(gc.Call.Args) == 2 && isGlobalNamed(gc.Call.Args[1], modPath+"/pkg/cli", "ErrHelpRequested") {
						okGuard = true
					}
				}
				r.Check(okGuard, "R17.7", "exitOnError: exit 0", c.Rel(call.Pos()), "only under errors.Is(err, cli.ErrHelpRequested)", "exitOnError exits 0 on a path not guarded by the help sentinel")
			}
		}
	}
	// Main: every non-nil error from ParseCommandLine / processToStdout / processFilesInPlace → exitOnError
	mainFn := c.SSAFunc(c.LookupFunc("pkg/entrypoint", "Main"))
	if mainFn == nil {
		r.Undecided("R17.7", "Main", "", "anchor not found")
		return
	}
	for _, b := range mainFn.Blocks {
		for _, in := range b.Instrs {
			call, ok := in.(*ssa.Call)
			if !ok {
				continue
			}
			n := CalleeName(&call.Call)
			if n != "pkg/climain.ParseCommandLine" && n != "pkg/entrypoint.processToStdout" && n != "pkg/entrypoint.processFilesInPlace" {
				continue
			}
			ev := ErrValueOf(call)
			okRoute := errFlowsToCallOnNonNil(mainFn, ev, "pkg/entrypoint.exitOnError")
			r.Check(okRoute, "R17.7", "Main routes error of "+n, c.Rel(call.Pos()), "non-nil → exitOnError(err, …)", "Main does not pass the error of "+n+" to exitOnError on its non-nil branch")
		}
	}
}

func blockReachableWithoutExit(fn *ssa.Function, target *ssa.BasicBlock) bool {
	seen := map[*ssa.BasicBlock]bool{}
	var walk func(b *ssa.BasicBlock) bool
	walk = func(b *ssa.BasicBlock) bool {
		if seen[b] {
			return false
		}
		seen[b] = true
		for _, in := range b.Instrs {
			if isNoReturnCall(in) {
				return false
			}
		}
		if b == target {
			return true
		}
		for _, s := range b.Succs {
			if walk(s) {
				return true
			}
		}
		return false
	}
	return walk(fn.Blocks[0])
}

// errFlowsToCallOnNonNil: ev (possibly through a phi) is tested != nil and on
// that edge passed as first argument to the named function.
func errFlowsToCallOnNonNil(fn *ssa.Function, ev ssa.Value, callee string) bool {
	if ev == nil {
		return false
	}
	for _, b := range fn.Blocks {
		for _, in := range b.Instrs {
			call, ok := in.(*ssa.Call)
			if !ok || CalleeName(&call.Call) != callee || len(call.Call.Args) == 0 {
				continue
			}
			if !FlowsFrom(call.Call.Args[0], ev, 0) {
				continue
			}
			for _, g := range GuardsAt(b) {
				bo, ok := g.Cond.(*ssa.BinOp)
				if !ok {
					continue
				}
				if k, isK := bo.Y.(*ssa.Const); isK && k.IsNil() && FlowsFrom(bo.X, ev, 0) {
					if (bo.Op == token.NEQ) == g.Polarity {
						return true
					}
				}
			}
		}
	}
	return false
}

// ---- R17.8 ----------------------------------------------------------------------
func c17EndOfStreamCloses(c *Ctx, r *Report) {
	r.Rule("R17.8", "end-of-stream closes report: the []error / error from Close() of every output-handler manager (DSL redirects, tee, split) becomes a returned error whenever non-empty; MultiOutputHandlerManager.Close collects (appends) every handler's error")
	// every call of a Close returning []error: result must be used (len tested / ranged / returned)
	n := 0
	for _, fn := range c.ModuleFunctions() {
		for _, b := range fn.Blocks {
			for _, in := range b.Instrs {
				call, ok := in.(*ssa.Call)
				if !ok {
					continue
				}
				res := call.Call.Signature().Results()
				if res.Len() != 1 {
					continue
				}
				sl, ok := res.At(0).Type().Underlying().(*types.Slice)
				if !ok || !isErrorType(sl.Elem()) {
					continue
				}
				mname := ""
				if call.Call.IsInvoke() {
					mname = call.Call.Method.Name()
				} else if cal := call.Call.StaticCallee(); cal != nil {
					mname = cal.Name()
				}
				if mname != "Close" {
					continue
				}
				n++
				key := SSAName(fn) + ": []error of Close()"
				// must be: len() tested, and on the non-empty edge a non-nil error is returned
				lenTested := false
				for _, ref := range *call.Referrers() {
					if lc, ok := ref.(*ssa.Call); ok {
						if bi, ok := lc.Call.Value.(*ssa.Builtin); ok && bi.Name() == "len" {
							lenTested = true
						}
					}
					if _, ok := ref.(*ssa.Return); ok {
						lenTested = true
					}
				}
				// overwritten accumulators: if the call is inside a loop and its value is the only thing
				// returned after the loop (phi of loop), earlier iterations are lost.
				overwritten := false
				if inLoop(call.Block()) {
					for _, ref := range *call.Referrers() {
						if phi, ok := ref.(*ssa.Phi); ok {
							// a phi merging the call value with the loop-carried variable, used after the loop
							_ = phi
							overwritten = true
						}
					}
				}
				errReturned := false
				for _, b2 := range fn.Blocks {
					if ret, ok := b2.Instrs[len(b2.Instrs)-1].(*ssa.Return); ok && !ReturnsNilError(ret) && call.Block().Dominates(b2) {
						errReturned = true
					}
					if ret, ok := b2.Instrs[len(b2.Instrs)-1].(*ssa.Return); ok && len(ret.Results) == 1 && FlowsFrom(ret.Results[0], call, 0) {
						errReturned = true
					}
				}
				// collected: errs = append(errs, m.Close()...) in a loop, the length of the collection tested afterwards
				if !lenTested {
					acc := map[ssa.Value]bool{}
					var follow func(v ssa.Value, depth int)
					follow = func(v ssa.Value, depth int) {
						if depth > 6 || acc[v] || v.Referrers() == nil {
							return
						}
						acc[v] = true
						for _, ref := range *v.Referrers() {
							switch x := ref.(type) {
							case *ssa.Phi:
								follow(x, depth+1)
							case *ssa.Call:
								if bi, ok := x.Call.Value.(*ssa.Builtin); ok {
									if bi.Name() == "append" && x.Call.Args[0] == v {
										follow(x, depth+1)
									}
									if bi.Name() == "len" {
										lenTested = true
									}
								}
							}
						}
					}
					for _, ref := range *call.Referrers() {
						if ap, ok := ref.(*ssa.Call); ok {
							if bi, ok := ap.Call.Value.(*ssa.Builtin); ok && bi.Name() == "append" && len(ap.Call.Args) == 2 && ap.Call.Args[1] == ssa.Value(call) {
								follow(ap, 0)
								if lenTested {
									overwritten = false
									for _, b2 := range fn.Blocks {
										if ret, ok := b2.Instrs[len(b2.Instrs)-1].(*ssa.Return); ok && !ReturnsNilError(ret) && blockReaches(call.Block(), b2) {
											errReturned = true
										}
									}
								}
							}
						}
					}
				}
				r.Check(lenTested && errReturned && !overwritten, "R17.8", key, c.Rel(call.Pos()), "len(errs) tested and a non-nil error returned on the non-empty branch",
					fmt.Sprintf("the error list of Close() is not turned into a returned error for every manager (len tested=%v, error returned=%v, overwritten per loop iteration=%v)", lenTested, errReturned, overwritten))
			}
		}
	}
	r.Floor("R17.8", "Close() []error call sites", n, 2)
	// MultiOutputHandlerManager.Close: every handler Close() error is appended
	cl := c.SSAFunc(c.LookupFunc("pkg/output", "MultiOutputHandlerManager.Close"))
	if cl == nil {
		r.Undecided("R17.8", "MultiOutputHandlerManager.Close", "", "anchor not found")
		return
	}
	m := 0
	for _, b := range cl.Blocks {
		for _, in := range b.Instrs {
			call, ok := in.(*ssa.Call)
			if !ok {
				continue
			}
			isClose := (call.Call.IsInvoke() && call.Call.Method.Name() == "Close") || (call.Call.StaticCallee() != nil && call.Call.StaticCallee().Name() == "Close")
			if !isClose || !isErrorType(call.Type()) {
				continue
			}
			m++
			appended := false
			var walk func(v ssa.Value, d int)
			walk = func(v ssa.Value, d int) {
				if d > 5 || v.Referrers() == nil {
					return
				}
				for _, ref := range *v.Referrers() {
					switch x := ref.(type) {
					case *ssa.Store:
						// stored into the varargs array of append
						if ia, ok := x.Addr.(*ssa.IndexAddr); ok {
							if al, ok := ia.X.(*ssa.Alloc); ok {
								for _, r2 := range *al.Referrers() {
									if sl, ok := r2.(*ssa.Slice); ok {
										for _, r3 := range *sl.Referrers() {
											if ac, ok := r3.(*ssa.Call); ok {
												if bi, ok := ac.Call.Value.(*ssa.Builtin); ok && bi.Name() == "append" {
													appended = true
												}
											}
										}
									}
								}
							}
						}
					case *ssa.MakeInterface:
						walk(x, d+1)
					}
				}
			}
			walk(call, 0)
			r.Check(appended, "R17.8", fmt.Sprintf("MultiOutputHandlerManager.Close: handler Close #%d collected", m), c.Rel(call.Pos()), "error appended to the result list",
				"a handler's Close() error is not appended to the returned error list (dropped or overwritten)")
		}
	}
	r.Floor("R17.8", "handler Close() sites in manager Close", m, 2)
}

func inLoop(b *ssa.BasicBlock) bool { return blockReaches(b, b) }

// ---- R17.10 ----------------------------------------------------------------------
func c17Buffered(c *Ctx, r *Report) {
	r.Rule("R17.10", "error channels, done-writing channels and downstream-done channels are created with a constant capacity ≥ 1 (the non-blocking send idiom loses the error if the channel has no free slot)")
	n := 0
	for _, name := range [][2]string{{"pkg/stream", "Stream"}, {"pkg/output", "FileOutputHandler.setUpRecordWriter"}, {"pkg/transformers", "ChainTransformer"}} {
		fn := c.SSAFunc(c.LookupFunc(name[0], name[1]))
		if fn == nil {
			r.Undecided("R17.10", name[0]+"."+name[1], "", "anchor not found")
			continue
		}
		idx := map[string]int{}
		for _, b := range fn.Blocks {
			for _, in := range b.Instrs {
				mc, ok := in.(*ssa.MakeChan)
				if !ok {
					continue
				}
				kind := ""
				if chanElemIsError(mc.Type()) {
					kind = "error"
				} else if chanElemIsBool(mc.Type()) {
					kind = "bool"
				} else {
					continue
				}
				idx[kind]++
				n++
				sz, isConst := constInt(mc.Size)
				r.Check(isConst && sz >= 1, "R17.10", fmt.Sprintf("%s: %s channel #%d", SSAName(fn), kind, idx[kind]), c.Rel(mc.Pos()), fmt.Sprintf("make(chan, %d)", sz),
					"channel used with the non-blocking send idiom is unbuffered or has a non-constant capacity: a send when the receiver is not ready loses the signal")
			}
		}
	}
	r.Floor("R17.10", "error/done channel creation sites", n, 7)
}

// ---- R17.11 ----------------------------------------------------------------------
// A failed low-level read is reported and ends the read loop.
func c17ReadErrors(c *Ctx, r *Report) {
	r.Rule("R17.11", "in every channelized scanner goroutine of the readers, a low-level read that fails with a non-EOF error is reported (sent on the reader's error channel) — never silently treated like end of input")
	r.Rule("R17.12", "a failed read ends the read loop: no path on which the read call returned a non-nil error leads back to the same read call (except when errors.Is/errors.As classified it as a specific recoverable kind)")
	p := c.Pkg("pkg/input")
	if p == nil {
		r.Undecided("R17.11", "pkg/input", "", "package not loaded")
		return
	}
	n := 0
	for _, fobj := range c.FuncsOfPkg(p) {
		fn := c.SSAFunc(fobj)
		if fn == nil || !strings.HasPrefix(fobj.Name(), "channelized") {
			continue
		}
		n++
		// read calls: calls returning (T, error) whose callee is a Read-like method, inside a loop
		for _, b := range fn.Blocks {
			if !inLoop(b) {
				continue
			}
			for _, in := range b.Instrs {
				call, ok := in.(*ssa.Call)
				if !ok {
					continue
				}
				ev := ErrValueOf(call)
				if ev == nil || call.Call.Signature().Results().Len() < 2 {
					continue
				}
				mname := ""
				if call.Call.IsInvoke() {
					mname = call.Call.Method.Name()
				} else if cal := call.Call.StaticCallee(); cal != nil {
					mname = cal.Name()
				}
				if !strings.HasPrefix(mname, "Read") && !strings.HasPrefix(mname, "read") && mname != "Scan" {
					continue
				}
				checkReadCall(c, r, fn, call, mname)
			}
		}
	}
	r.Floor("R17.11", "channelized scanner functions", n, 4)
}

func checkReadCall(c *Ctx, r *Report, fn *ssa.Function, call *ssa.Call, mname string) {
	ev := ErrValueOf(call)
	errParam := paramOfType(fn, chanElemIsError, types.SendRecv, 0)
	silent := ""
	loops := ""
	pr := &PathRule{Fn: fn}
	isEOFCall := func(v ssa.Value) bool {
		cl, ok := v.(*ssa.Call)
		if !ok {
			return false
		}
		n := CalleeName(&cl.Call)
		if n == "pkg/lib.IsEOF" && len(cl.Call.Args) == 1 && cl.Call.Args[0] == ev {
			return true
		}
		return false
	}
	isEOFCmp := func(v ssa.Value) (bool, bool) {
		// err == io.EOF
		bo, ok := v.(*ssa.BinOp)
		if !ok || (bo.Op != token.EQL && bo.Op != token.NEQ) {
			return false, false
		}
		x, y := bo.X, bo.Y
		if x != ev {
			x, y = y, x
		}
		if x != ev {
			return false, false
		}
		if isGlobalNamed(y, "io", "EOF") {
			return true, bo.Op == token.EQL
		}
		return false, false
	}
	pr.Branch = func(f Facts, cond ssa.Value, pol bool, iff *ssa.If) (Facts, bool) {
		if !f.Has("pending") {
			return nil, true
		}
		if cc, nonNil, ok := ErrCheck(cond); ok && cc == call {
			if nonNil == pol {
				if f.Has("nil") {
					return nil, false
				}
				return f.With("nonnil"), true
			}
			if f.Has("nonnil") {
				return nil, false
			}
			return f.With("nil").Without("noneof"), true
		}
		if isEOFCall(cond) {
			if pol {
				if f.Has("nil") || f.Has("noneof") {
					return nil, false
				}
				return f.With("nonnil", "eof"), true
			}
			if f.Has("eof") {
				return nil, false
			}
			return f.With("noneof"), true
		}
		if cl, ok := cond.(*ssa.Call); ok {
			if n := CalleeName(&cl.Call); (n == "errors.As" || n == "errors.Is") && len(cl.Call.Args) >= 1 && cl.Call.Args[0] == ev && pol {
				// the error is of a specific, recognised kind (e.g. a parse
				// error that comes with a record): input was consumed
				return f.With("nonnil", "classified"), true
			}
		}
		if isCmp, eqOnTrue := isEOFCmp(cond); isCmp {
			if eqOnTrue == pol {
				if f.Has("nil") || f.Has("noneof") {
					return nil, false
				}
				return f.With("nonnil", "eof"), true
			}
			if f.Has("eof") {
				return nil, false
			}
			return f.With("noneof"), true
		}
		return nil, true
	}
	pr.Transfer = func(f Facts, in ssa.Instruction, deferred bool) []Facts {
		switch x := in.(type) {
		case *ssa.Call:
			if x == call {
				if f.Has("pending") && f.Has("nonnil") && !f.Has("classified") {
					loops = c.Rel(x.Pos()) + ": the read call is reached again on a path where its previous result was a non-nil error (the same error repeats forever)"
				}
				return []Facts{Facts{"pending": true}}
			}
		case *ssa.Send:
			if f.Has("pending") && chanElemIsError(x.Chan.Type()) {
				return []Facts{f.With("reported")}
			}
		case *ssa.Select:
			if f.Has("pending") {
				for _, st := range x.States {
					if st.Dir == types.SendOnly && chanElemIsError(st.Chan.Type()) {
						return []Facts{f.With("reported")}
					}
				}
			}
		}
		return nil
	}
	pr.AtReturn = func(f Facts, ret *ssa.Return) {
		if f.Has("pending") && f.Has("nonnil") && !f.Has("eof") && !f.Has("reported") && !f.Has("classified") {
			silent = c.Rel(call.Pos()) + ": the goroutine ends after a read error that is not known to be EOF without reporting it"
		}
		if f.Has("pending") && !f.Has("nil") && !f.Has("eof") && !f.Has("reported") && !f.Has("nonnil") {
			// error never classified on this path: result unchecked
			silent = c.Rel(call.Pos()) + ": the goroutine ends on a path where the read error was never examined"
		}
	}
	pr.Run()
	_ = errParam
	key := fmt.Sprintf("%s: %s error reported", SSAName(fn), mname)
	r.Check(silent == "", "R17.11", key, c.Rel(call.Pos()), "every non-EOF failure path sends on an error channel before the goroutine ends",
		"a read failure (unreadable file, directory, truncated compressed stream, failing prepipe) is treated like end of input: exit status 0 and no diagnostic — "+silent)
	key2 := fmt.Sprintf("%s: %s error ends the loop", SSAName(fn), mname)
	r.Check(loops == "", "R17.12", key2, c.Rel(call.Pos()), "no path from a failed read back to the read", "a failed read does not end the loop: "+loops)
}

// closureCalledOnlyOnErrorPaths: fn is an anonymous function, it is called at
// least once, never escapes, and every call sits in a block that returns a
// non-nil error.
func closureCalledOnlyOnErrorPaths(fn *ssa.Function) bool {
	parent := fn.Parent()
	if parent == nil {
		return false
	}
	calls := 0
	for _, b := range parent.Blocks {
		for _, in := range b.Instrs {
			mc, ok := in.(*ssa.MakeClosure)
			if !ok || mc.Fn != fn {
				continue
			}
			for _, ref := range *mc.Referrers() {
				call, ok := ref.(*ssa.Call)
				if !ok || call.Call.Value != mc {
					return false // stored, passed on or deferred: not a plain local helper
				}
				if !blockReturnsNonNilError(call.Block()) {
					return false
				}
				calls++
			}
		}
	}
	return calls > 0
}

// ---- R17.9 -----------------------------------------------------------------
// A diagnostic that accompanies a non-zero exit goes to stderr, not into the
// data stream.
func c17ExitMessages(c *Ctx, r *Report) {
	r.Rule("R17.9", "the message next to a failure exit goes to stderr: a basic block that builds a lib.ExitRequest with a non-zero constant code, or calls os.Exit with a non-zero constant, contains no write to stdout (fmt.Print*, fmt.Fprint*(os.Stdout, …))")
	n := 0
	for _, fn := range c.ModuleFunctions() {
		for _, b := range fn.Blocks {
			failing := false
			var stdout ssa.Instruction
			for _, in := range b.Instrs {
				switch x := in.(type) {
				case *ssa.Store:
					// &lib.ExitRequest{Code: k}
					if fa, ok := x.Addr.(*ssa.FieldAddr); ok {
						if pt, ok := fa.X.Type().Underlying().(*types.Pointer); ok {
							if nm, ok := pt.Elem().(*types.Named); ok && nm.Obj().Name() == "ExitRequest" {
								if k, ok := constInt(x.Val); ok && k != 0 {
									failing = true
								}
							}
						}
					}
				case ssa.CallInstruction:
					com := x.Common()
					if CalleeName(com) == "os.Exit" {
						if k, ok := constInt(com.Args[0]); ok && k != 0 {
							failing = true
						}
					}
					if callWritesStdout(com) && stdout == nil {
						stdout = in
					}
				}
			}
			if !failing {
				continue
			}
			n++
			key := fmt.Sprintf("%s: failure exit #%d", SSAName(fn), n)
			if stdout != nil {
				r.Fail("R17.9", key, c.Rel(stdout.Pos()), SSAName(fn)+" writes a message to stdout in the same step in which it requests a non-zero exit: the diagnostic lands in the data stream (and is lost with 2>/dev/null reversed), not on stderr")
			} else {
				r.OK("R17.9", key, c.Rel(b.Instrs[0].Pos()), "no stdout write next to the failure exit")
			}
		}
	}
	r.Floor("R17.9", "failure-exit blocks", n, 20)
}

// sendHelper recognises a small function whose every path sends one of its
// parameters on another (channel) parameter: returns the two parameter
// indices and whether the send can block.
func sendHelper(fn *ssa.Function) (chanIdx, valIdx int, blocking, ok bool) {
	if fn == nil || fn.Blocks == nil || !IsModuleFunc(fn) {
		return 0, 0, false, false
	}
	pidx := func(v ssa.Value) int {
		for i, p := range fn.Params {
			if p == v {
				return i
			}
		}
		return -1
	}
	for _, b := range fn.Blocks {
		for _, in := range b.Instrs {
			ci, vi, blk := -1, -1, false
			switch x := in.(type) {
			case *ssa.Select:
				for _, st := range x.States {
					if st.Dir == types.SendOnly {
						ci, vi, blk = pidx(st.Chan), pidx(st.Send), x.Blocking
					}
				}
			case *ssa.Send:
				ci, vi, blk = pidx(x.Chan), pidx(x.X), true
			default:
				continue
			}
			if ci < 0 || vi < 0 {
				continue
			}
			all := true
			for _, rb := range fn.Blocks {
				if _, isRet := rb.Instrs[len(rb.Instrs)-1].(*ssa.Return); isRet && !b.Dominates(rb) {
					all = false
				}
			}
			if all {
				return ci, vi, blk, true
			}
		}
	}
	return 0, 0, false, false
}

// ---- R17.13 ------------------------------------------------------------------
// The exit state of a child process that produces Miller's *input* is examined.
func c17ChildExit(c *Ctx, r *Report) {
	r.Rule("R17.13", "a failed child command is not a success: every os.Process.Wait in pkg/lib — on a child started for reading (prepipe) or for writing (a DSL pipe redirect) — uses the returned ProcessState (Success / ExitCode); a discarded state means a failing command looks like a short input or a complete output")
	n := 0
	for _, fn := range c.ModuleFunctions() {
		if fn.Pkg == nil || !strings.HasSuffix(fn.Pkg.Pkg.Path(), "/pkg/lib") {
			continue
		}
		for _, b := range fn.Blocks {
			for _, in := range b.Instrs {
				call, ok := in.(*ssa.Call)
				if !ok || CalleeName(&call.Call) != "os.Process.Wait" {
					continue
				}
				owner := fn
				for owner.Parent() != nil {
					owner = owner.Parent()
				}
				_ = owner
				n++
				used := false
				for _, ref := range *call.Referrers() {
					if ex, ok := ref.(*ssa.Extract); ok && ex.Index == 0 && len(*ex.Referrers()) > 0 {
						used = true
					}
				}
				key := fmt.Sprintf("%s: Wait #%d", SSAName(fn), n)
				if !used {
					if why, ok := droppedOK[SSAName(fn)+" → os.Process.Wait"]; ok {
						r.OK("R17.13", key, c.Rel(call.Pos()), "frozen exception: "+why)
						continue
					}
				}
				r.Check(used, "R17.13", key, c.Rel(call.Pos()), "ProcessState examined",
					SSAName(fn)+" waits for a child command and discards its ProcessState: a command that fails (gunzip on a damaged file, a missing program, a failing output filter) looks like a short input or a complete output and mlr exits 0")
			}
		}
	}
	r.Floor("R17.13", "waits on child commands", n, 2)
}

// ---- R17.14 ------------------------------------------------------------------
// Path-sensitive "the error is looked at": on every path from the call to a
// return, the error value is compared with nil, returned, sent, or passed on —
// not overwritten on the way.
type errPathState struct {
	alias map[ssa.Value]bool // SSA values equal to the error on this path
	cells map[ssa.Value]bool // local cells (allocs) currently holding it
	nn    map[ssa.Value]bool // other values found non-nil on this path
}

func (s *errPathState) clone() *errPathState {
	n := &errPathState{alias: map[ssa.Value]bool{}, cells: map[ssa.Value]bool{}, nn: map[ssa.Value]bool{}}
	for k := range s.nn {
		n.nn[k] = true
	}
	for k := range s.alias {
		n.alias[k] = true
	}
	for k := range s.cells {
		n.cells[k] = true
	}
	return n
}

// errLostOnSomePath returns a description of a path on which the error result
// of call is never examined, or "".
func errLostOnSomePath(c *Ctx, fn *ssa.Function, call *ssa.Call) string {
	ev := ErrValueOf(call)
	if ev == nil {
		return ""
	}
	lost := ""
	steps := 0
	var walk func(b *ssa.BasicBlock, from *ssa.BasicBlock, startIdx int, st *errPathState, seen map[*ssa.BasicBlock]int)
	walk = func(b *ssa.BasicBlock, from *ssa.BasicBlock, startIdx int, st *errPathState, seen map[*ssa.BasicBlock]int) {
		if lost != "" || steps > 20000 {
			return
		}
		steps++
		if seen[b] >= 2 {
			return
		}
		seen2 := map[*ssa.BasicBlock]int{}
		for k, v := range seen {
			seen2[k] = v
		}
		seen2[b]++
		if from != nil {
			pi := -1
			for i, p := range b.Preds {
				if p == from {
					pi = i
				}
			}
			for _, in := range b.Instrs {
				phi, ok := in.(*ssa.Phi)
				if !ok {
					break
				}
				if pi >= 0 && st.alias[phi.Edges[pi]] {
					st.alias[phi] = true
				} else {
					delete(st.alias, phi)
				}
				if st.nn != nil {
					if pi >= 0 && st.nn[phi.Edges[pi]] {
						st.nn[phi] = true
					} else {
						delete(st.nn, phi)
					}
				}
			}
		}
		for i := startIdx; i < len(b.Instrs); i++ {
			switch x := b.Instrs[i].(type) {
			case *ssa.Store:
				if st.alias[x.Val] {
					if _, isAlloc := x.Addr.(*ssa.Alloc); isAlloc {
						st.cells[x.Addr] = true
					} else {
						return // stored into a field / global / slice: kept for someone else
					}
				} else if st.cells[x.Addr] {
					delete(st.cells, x.Addr) // overwritten
				}
			case *ssa.UnOp:
				if x.Op == token.MUL && st.cells[x.X] {
					st.alias[x] = true
				}
			case *ssa.MakeInterface:
				if st.alias[x.X] {
					st.alias[x] = true
				}
			case *ssa.ChangeInterface:
				if st.alias[x.X] {
					st.alias[x] = true
				}
			case *ssa.Send:
				if st.alias[x.X] {
					return
				}
			case *ssa.Select:
				for _, s := range x.States {
					if s.Send != nil && st.alias[s.Send] {
						return
					}
				}
			case ssa.CallInstruction:
				for _, a := range x.Common().Args {
					if st.alias[a] {
						return // passed on (append to a list, wrap, print)
					}
				}
			case *ssa.If:
				if bo, ok := x.Cond.(*ssa.BinOp); ok && (bo.Op == token.NEQ || bo.Op == token.EQL) && (st.alias[bo.X] || st.alias[bo.Y]) {
					return // examined
				}
				// another error value compared with nil: which side knows it to be set
				if bo, ok := x.Cond.(*ssa.BinOp); ok && (bo.Op == token.NEQ || bo.Op == token.EQL) && isErrorType(bo.X.Type()) {
					if k, isK := bo.Y.(*ssa.Const); isK && k.IsNil() {
						s0, s1 := st.clone(), st.clone()
						if bo.Op == token.NEQ {
							s0.nn[bo.X] = true
						} else {
							s1.nn[bo.X] = true
						}
						walk(b.Succs[0], b, 0, s0, seen2)
						walk(b.Succs[1], b, 0, s1, seen2)
						return
					}
				}
			case *ssa.Return:
				for _, res := range x.Results {
					if st.alias[res] {
						return
					}
				}
				// a return that already reports some other failure is not silent
				if n := len(x.Results); n > 0 && isErrorType(x.Results[n-1].Type()) && !ReturnsNilError(x) && (!retMayBeNil(x) || st.nn[x.Results[n-1]]) {
					return
				}
				if len(st.alias) == 0 && len(st.cells) == 0 {
					lost = c.Rel(x.Pos()) + ": on a path to this return the error has been overwritten before anything looked at it"
				} else {
					lost = c.Rel(x.Pos()) + ": a path reaches this return without the error having been compared, returned, sent or passed on"
				}
				return
			case *ssa.Panic:
				return
			}
		}
		for _, s := range b.Succs {
			walk(s, b, 0, st.clone(), seen2)
		}
	}
	// start right after the call (and its extract)
	b := call.Block()
	idx := 0
	for i, in := range b.Instrs {
		if in == ssa.Instruction(call) {
			idx = i + 1
		}
	}
	st := &errPathState{alias: map[ssa.Value]bool{ev: true}, cells: map[ssa.Value]bool{}, nn: map[ssa.Value]bool{}}
	if ev != ssa.Value(call) {
		// the extract may come later in the block; alias is keyed by the extract value itself
	}
	walk(b, nil, idx, st, map[*ssa.BasicBlock]int{})
	return lost
}

func c17ErrorsExamined(c *Ctx, r *Report) {
	r.Rule("R17.14", "an output error is looked at on every path: in the output, stream, entry-point, verb, interpreter, command-line and library packages, the error result of every Flush / Close / Write* / Rename / Chmod call that is not discarded outright (R17.6) is, on each path from the call to a return, compared with nil, returned, sent or passed on — never overwritten first (retval = Flush(); retval = Close() loses the flush error); a path that returns a different, certainly non-nil error is already reporting a failure")
	n := 0
	for _, fn := range c.ModuleFunctions() {
		if fn.Pkg == nil {
			continue
		}
		pp := fn.Pkg.Pkg.Path()
		if !(strings.HasSuffix(pp, "/pkg/output") || strings.HasSuffix(pp, "/pkg/stream") || strings.HasSuffix(pp, "/pkg/entrypoint") || strings.Contains(pp, "/pkg/transformers") || strings.HasSuffix(pp, "/pkg/dsl/cst") || strings.HasSuffix(pp, "/pkg/climain") || strings.HasSuffix(pp, "/pkg/lib")) {
			continue
		}
		k := 0
		for _, b := range fn.Blocks {
			for _, in := range b.Instrs {
				call, ok := in.(*ssa.Call)
				if !ok {
					continue
				}
				name := CalleeName(&call.Call)
				short := name
				if call.Call.IsInvoke() {
					short = call.Call.Method.Name()
				} else if i := strings.LastIndex(name, "."); i >= 0 {
					short = name[i+1:]
				}
				if !(short == "Flush" || short == "Close" || strings.HasPrefix(short, "Write") || short == "Rename" || short == "Chmod") {
					continue
				}
				ev := ErrValueOf(call)
				if ev == nil || ev.Referrers() == nil || len(*ev.Referrers()) == 0 {
					continue // discarded outright: R17.6's business
				}
				n++
				k++
				key := fmt.Sprintf("%s: error of %s #%d", SSAName(fn), short, k)
				lost := errLostOnSomePath(c, fn, call)
				r.Check(lost == "", "R17.14", key, c.Rel(call.Pos()), "examined on every path",
					fmt.Sprintf("the error of %s in %s can be lost: %s — a failed write would end in exit status 0", short, SSAName(fn), lost))
			}
		}
	}
	r.Floor("R17.14", "output error results followed", n, 15)
}

// ---- R17.15 ------------------------------------------------------------------
// A read error becomes "no error" only under an end-of-file test.
func readErrorSwallowed(c *Ctx, fn *ssa.Function, call *ssa.Call) string {
	ev := ErrValueOf(call)
	if ev == nil {
		return ""
	}
	type state struct {
		alias  map[ssa.Value]bool
		cells  map[ssa.Value]bool
		nonnil bool
		eof    bool
	}
	clone := func(s *state) *state {
		n := &state{alias: map[ssa.Value]bool{}, cells: map[ssa.Value]bool{}, nonnil: s.nonnil, eof: s.eof}
		for k := range s.alias {
			n.alias[k] = true
		}
		for k := range s.cells {
			n.cells[k] = true
		}
		return n
	}
	isEOFTest := func(v ssa.Value, st *state) bool {
		switch x := v.(type) {
		case *ssa.Call:
			n := CalleeName(&x.Call)
			if strings.HasSuffix(n, ".IsEOF") && len(x.Call.Args) == 1 && st.alias[x.Call.Args[0]] {
				return true
			}
			if n == "errors.Is" && len(x.Call.Args) == 2 && st.alias[x.Call.Args[0]] {
				return true
			}
		case *ssa.BinOp:
			if x.Op == token.EQL {
				for _, pr := range [][2]ssa.Value{{x.X, x.Y}, {x.Y, x.X}} {
					if st.alias[pr[0]] {
						if ld, ok := pr[1].(*ssa.UnOp); ok {
							if g, ok := ld.X.(*ssa.Global); ok && g.Name() == "EOF" {
								return true
							}
						}
					}
				}
			}
		}
		return false
	}
	lost := ""
	steps := 0
	var walk func(b, from *ssa.BasicBlock, startIdx int, st *state, seen map[*ssa.BasicBlock]int)
	walk = func(b, from *ssa.BasicBlock, startIdx int, st *state, seen map[*ssa.BasicBlock]int) {
		if lost != "" || steps > 20000 || seen[b] >= 2 {
			return
		}
		steps++
		seen2 := map[*ssa.BasicBlock]int{}
		for k, v := range seen {
			seen2[k] = v
		}
		seen2[b]++
		var nilPhis map[ssa.Value]bool
		if from != nil {
			pi := -1
			for i, p := range b.Preds {
				if p == from {
					pi = i
				}
			}
			for _, in := range b.Instrs {
				phi, ok := in.(*ssa.Phi)
				if !ok {
					break
				}
				if pi >= 0 && st.alias[phi.Edges[pi]] {
					st.alias[phi] = true
				} else {
					delete(st.alias, phi)
					if pi >= 0 {
						if k, ok := phi.Edges[pi].(*ssa.Const); ok && k.IsNil() && isErrorType(phi.Type()) {
							if nilPhis == nil {
								nilPhis = map[ssa.Value]bool{}
							}
							nilPhis[phi] = true
						}
					}
				}
			}
		}
		_ = nilPhis
		for i := startIdx; i < len(b.Instrs); i++ {
			switch x := b.Instrs[i].(type) {
			case *ssa.Store:
				if st.alias[x.Val] {
					if _, isAlloc := x.Addr.(*ssa.Alloc); isAlloc {
						st.cells[x.Addr] = true
					} else {
						return // remembered in a field: reported later
					}
				} else if st.cells[x.Addr] {
					delete(st.cells, x.Addr)
				}
			case *ssa.UnOp:
				if x.Op == token.MUL && st.cells[x.X] {
					st.alias[x] = true
				}
			case *ssa.MakeInterface:
				if st.alias[x.X] {
					st.alias[x] = true
				}
			case *ssa.Send:
				if st.alias[x.X] {
					return
				}
			case *ssa.Select:
				for _, s := range x.States {
					if s.Send != nil && st.alias[s.Send] {
						return
					}
				}
			case ssa.CallInstruction:
				if v, ok := x.(ssa.Value); ok && isEOFTest(v, st) {
					continue
				}
				for _, a := range x.Common().Args {
					if st.alias[a] {
						return // wrapped, printed, passed on
					}
				}
			case *ssa.If:
				cond, pol := stripNot(x.Cond, true)
				s0, s1 := clone(st), clone(st)
				if bo, ok := cond.(*ssa.BinOp); ok && (bo.Op == token.NEQ || bo.Op == token.EQL) {
					isNilCmp := false
					if k, ok := bo.Y.(*ssa.Const); ok && k.IsNil() && st.alias[bo.X] {
						isNilCmp = true
					}
					if k, ok := bo.X.(*ssa.Const); ok && k.IsNil() && st.alias[bo.Y] {
						isNilCmp = true
					}
					if isNilCmp {
						nonNilOnTrue := (bo.Op == token.NEQ) == pol
						if nonNilOnTrue {
							s0.nonnil = true
							walk(b.Succs[0], b, 0, s0, seen2)
							// false branch: the error is nil — nothing to lose
						} else {
							s1.nonnil = true
							walk(b.Succs[1], b, 0, s1, seen2)
						}
						return
					}
				}
				if isEOFTest(cond, st) {
					if pol {
						s0.eof = true
					} else {
						s1.eof = true
					}
				}
				walk(b.Succs[0], b, 0, s0, seen2)
				walk(b.Succs[1], b, 0, s1, seen2)
				return
			case *ssa.Return:
				for _, res := range x.Results {
					if st.alias[res] {
						return
					}
				}
				if st.nonnil && !st.eof {
					lost = c.Rel(x.Pos()) + ": a path on which the read returned a non-nil error that was not tested for end of file reaches this return without the error"
				}
				return
			case *ssa.Panic:
				return
			}
		}
		for _, s := range b.Succs {
			walk(s, b, 0, clone(st), seen2)
		}
	}
	b := call.Block()
	idx := 0
	for i, in := range b.Instrs {
		if in == ssa.Instruction(call) {
			idx = i + 1
		}
	}
	walk(b, nil, idx, &state{alias: map[ssa.Value]bool{ev: true}, cells: map[ssa.Value]bool{}}, map[*ssa.BasicBlock]int{})
	return lost
}

func c17ReadErrorsKept(c *Ctx, r *Report) {
	r.Rule("R17.15", "a read error becomes 'no error' only under an end-of-file test: in the readers (pkg/input, pkg/lib), on no path does a function return without the error of an underlying Read / ReadString / ReadLine / ReadBytes / ReadRune call once that error is known to be non-nil and has not been tested with IsEOF / == io.EOF / errors.Is — a truncated compressed input must not look like a clean end of file")
	n := 0
	for _, fn := range c.ModuleFunctions() {
		if fn.Pkg == nil {
			continue
		}
		pp := fn.Pkg.Pkg.Path()
		if !(strings.HasSuffix(pp, "/pkg/input") || strings.HasSuffix(pp, "/pkg/lib")) {
			continue
		}
		k := 0
		for _, b := range fn.Blocks {
			for _, in := range b.Instrs {
				call, ok := in.(*ssa.Call)
				if !ok {
					continue
				}
				short := ""
				if call.Call.IsInvoke() {
					short = call.Call.Method.Name()
				} else {
					name := CalleeName(&call.Call)
					if i := strings.LastIndex(name, "."); i >= 0 {
						short = name[i+1:]
					}
					if IsModuleFunc(call.Call.StaticCallee()) {
						short = "" // module wrappers are followed where they are defined
					}
				}
				switch short {
				case "Read", "ReadString", "ReadLine", "ReadBytes", "ReadRune", "ReadSlice":
				default:
					continue
				}
				ev := ErrValueOf(call)
				if ev == nil || ev.Referrers() == nil || len(*ev.Referrers()) == 0 {
					continue
				}
				n++
				k++
				key := fmt.Sprintf("%s: error of %s #%d", SSAName(fn), short, k)
				lost := readErrorSwallowed(c, fn, call)
				r.Check(lost == "", "R17.15", key, c.Rel(call.Pos()), "kept unless end of file",
					fmt.Sprintf("%s can swallow a read error: %s — the input ends early, mlr exits 0 and nothing is printed", SSAName(fn), lost))
			}
		}
	}
	r.Floor("R17.15", "low-level reads followed", n, 8)
}
