package main

// C02 — flag spellings are equivalent to their documented expansions; the
// string tables behind format selection agree.

import (
	"fmt"
	"go/ast"
	"go/constant"
	"go/token"
	"go/types"
	"os"
	"regexp"
	"sort"
	"strings"

	"golang.org/x/tools/go/ssa"
)

func init() { register("C02", true, runC02) }

func runC02(c *Ctx, r *Report) {
	r.Explanation = "A→B→A identities and flatten/unflatten losslessness on data are not decided. Decided is the clause 'every keystroke-saver flag, -i/-o/--io form and named separator is equivalent to its documented expansion', which is a statement about ~280 hand-written flag closures and a handful of string tables, enumerated exhaustively from cli.FLAG_TABLE: the constant effects of every closure on the options struct are computed (following helper calls) and compared with what the flag's own help text documents — 'Use X format for input/output data', 'Use X for input, Y for output', 'Keystroke-saver for `…`' — and with the effects of the flags it expands to; every closure advances the argument cursor by exactly what it consumes after checking the argument count; the format names stored are exactly the labels of the reader/writer factories and of the default-separator tables; each factory label builds the reader/writer of its own family; separator aliases equal the documented table; the auto-flatten/unflatten decision is the documented truth table over the selected formats."
	r.NotDecided = "round trips A→B→A and A→C→B on data; flatten/unflatten inverse laws (e.g. which keys count as array indices); .mlrrc line parsing."
	flags, msg := c.FlagTable()
	if msg != "" {
		r.Undecided("R02.0", "flag table", "", msg)
		return
	}
	r.Floor("R02.0", "flags in cli.FLAG_TABLE", len(flags), 220)
	eff := map[string]*FlagEffects{}
	byName := map[string]*FlagInfo{}
	for _, f := range flags {
		if f.Fn == nil {
			r.Undecided("R02.0", "flag "+f.Name, c.Rel(f.Pos), "parser is neither a closure nor a named function")
			continue
		}
		fe := c.EffectsOf(f.Fn)
		for _, sp := range f.Spellings() {
			eff[sp] = fe
			byName[sp] = f
		}
	}
	if fl := os.Getenv("MLRLINT_FLAG"); fl != "" && eff[fl] != nil {
		fmt.Fprintf(os.Stderr, "EFFECT %s %v calls=%v\n", fl, eff[fl].StoreMap(), eff[fl].Calls)
	}
	env := newC02env(c)
	env.unmarked = unmarkedValues(env, flags, eff)
	c02Formats(c, r, env, flags, eff, byName)
	c02Savers(c, r, flags, eff, byName)
	c02IOForms(c, r, env, flags, eff, byName)
	c02Cursor(c, r, flags, eff)
	c02Universe(c, r, flags, eff)
	c02Factories(c, r)
	c02Separators(c, r)
	c02Flatten(c, r)
}


// c02env carries what the effect comparison needs.
type c02env struct {
	c        *Ctx
	use      *OptUse
	inCtor   map[string]string // label → constructor name
	outCtor  map[string]string
	defaults map[string]map[string]string // base path → format → default
	unmarked map[string]map[string]bool   // base path → values possible while unmarked
}

func newC02env(c *Ctx) *c02env {
	e := &c02env{c: c, use: c.OptUse()}
	e.inCtor = switchStringLabels(c, c.LookupFunc("pkg/input", "Create"))
	e.outCtor = switchStringLabels(c, c.LookupFunc("pkg/output", "Create"))
	fs, ps, rs, rep := mapLiteralKeys(c, "pkg/cli", "defaultFSes"), mapLiteralKeys(c, "pkg/cli", "defaultPSes"), mapLiteralKeys(c, "pkg/cli", "defaultRSes"), mapLiteralKeys(c, "pkg/cli", "defaultAllowRepeatIFSes")
	e.defaults = map[string]map[string]string{
		"ReaderOptions.IFS": fs, "ReaderOptions.IPS": ps, "ReaderOptions.IRS": rs, "ReaderOptions.AllowRepeatIFS": rep,
		"WriterOptions.OFS": fs, "WriterOptions.OPS": ps, "WriterOptions.ORS": rs,
	}
	return e
}

func (e *c02env) ctorFor(path, inFmt, outFmt string) *ssa.Function {
	unq := func(s string) string { return strings.Trim(s, `"`) }
	if strings.HasPrefix(path, "ReaderOptions.") {
		if n := e.inCtor[unq(inFmt)]; n != "" {
			return e.c.SSAFunc(e.c.LookupFunc("pkg/input", n))
		}
		return nil
	}
	if n := e.outCtor[unq(outFmt)]; n != "" {
		return e.c.SSAFunc(e.c.LookupFunc("pkg/output", n))
	}
	return nil
}

// observableDiff compares two effect maps and returns the differences that
// some earlier option state makes observable, and the ones argued away.
// Model: a value field ends up as the stored value, else whatever it was
// before; a separator ends up as its value if its wasSpecified flag is set
// (by this flag or before), else as the per-format default.
func (e *c02env) observableDiff(a, b map[string]string, aName, bName string) (diffs, benign []string) {
	inFmt, outFmt := a["ReaderOptions.InputFileFormat"], a["WriterOptions.OutputFileFormat"]
	if inFmt == "" {
		inFmt = b["ReaderOptions.InputFileFormat"]
	}
	if outFmt == "" {
		outFmt = b["WriterOptions.OutputFileFormat"]
	}
	keys := map[string]bool{}
	for k := range a {
		keys[k] = true
	}
	for k := range b {
		keys[k] = true
	}
	unq := func(s string) string { return strings.Trim(s, `"`) }
	for _, k := range sortedKeysB(keys) {
		av, aok := a[k]
		bv, bok := b[k]
		if aok && bok && (av == bv || av == "arg" || bv == "arg") {
			continue
		}
		show := func(v string, ok bool) string {
			if !ok {
				return "not stored"
			}
			return v
		}
		desc := fmt.Sprintf("%s: %s stores %s, %s stores %s", k, aName, show(av, aok), bName, show(bv, bok))
		if base, isW := wasSpecifiedBase[k]; isW {
			_, aBase := a[base]
			_, bBase := b[base]
			if aBase != bBase {
				continue // decided at the base field
			}
			ctor := e.ctorFor(base, inFmt, outFmt)
			rel, why := e.use.Relevant(base, ctor)
			if k == "ReaderOptions.allowRepeatIFSWasSpecified" && unq(inFmt) == "nidx" {
				rel, why = true, "gates the NIDX whitespace-regex default in FinalizeReaderOptions"
			}
			if !rel {
				benign = append(benign, desc+" — unobservable: "+why)
				continue
			}
			f := unq(inFmt)
			if strings.HasPrefix(base, "WriterOptions.") {
				f = unq(outFmt)
			}
			def, haveDef := e.defaults[base][f]
			if aBase { // both store the same base value v: marked vs not marked
				if v := unq(a[base]); haveDef && v == def {
					benign = append(benign, desc+" — unobservable: the stored value equals the format default")
					continue
				}
			} else {
				all := haveDef
				for v := range e.unmarked[base] {
					if v != def {
						all = false
					}
				}
				if all {
					benign = append(benign, fmt.Sprintf("%s — unobservable: every value %s can hold while unmarked %v equals the %s default", desc, base, sortedKeysB(e.unmarked[base]), f))
					continue
				}
			}
			diffs = append(diffs, desc+" ("+why+")")
			continue
		}
		ctor := e.ctorFor(k, inFmt, outFmt)
		rel, why := e.use.Relevant(k, ctor)
		if !rel {
			benign = append(benign, desc+" — unobservable: "+why)
			continue
		}
		diffs = append(diffs, desc+" ("+why+")")
	}
	if os.Getenv("MLRLINT_DEBUG") != "" {
		for _, b := range benign {
			fmt.Fprintf(os.Stderr, "BENIGN %s\n", b)
		}
	}
	return
}

func unionEffects(ms ...map[string]string) map[string]string {
	out := map[string]string{}
	for _, m := range ms {
		for k, v := range m {
			out[k] = v
		}
	}
	return out
}

// help-name → canonical key ("CSV", "JSON Lines" …)
var helpFmtRe1 = regexp.MustCompile(`^Use (.+?) format for (input|output|input and output) data\.?$`)
var helpFmtRe2 = regexp.MustCompile(`^Use (.+?) for input, (.+?) for output\.`)

var letterCodes = map[byte]string{
	'c': "csv", 't': "tsv", 'j': "json", 'l': "jsonlines", 'd': "dkvp", 'n': "nidx", 'x': "xtab", 'p': "pprint", 'm': "markdowntabular", 'y': "yaml", 'b': "pprintwithbarred",
}

// normFmtName canonicalises the format names used in help texts ("JSON
// Lines", "JSONL", "markdown-tabular", "markdown tabular", …).
func normFmtName(s string) string {
	var b strings.Builder
	for _, r := range strings.ToLower(s) {
		if (r >= 'a' && r <= 'z') || (r >= '0' && r <= '9') {
			b.WriteRune(r)
		}
	}
	n := b.String()
	switch n {
	case "jsonl":
		return "jsonlines"
	case "markdown":
		return "markdowntabular"
	}
	return n
}

func readerPart(m map[string]string) map[string]string {
	out := map[string]string{}
	for k, v := range m {
		if strings.HasPrefix(k, "ReaderOptions.") {
			out[k] = v
		}
	}
	return out
}
func writerPart(m map[string]string) map[string]string {
	out := map[string]string{}
	for k, v := range m {
		if strings.HasPrefix(k, "WriterOptions.") {
			out[k] = v
		}
	}
	return out
}

// missingFrom: entries of want that are absent or different in got.
func missingFrom(want, got map[string]string) []string {
	var out []string
	for k, v := range want {
		g, ok := got[k]
		if !ok {
			out = append(out, fmt.Sprintf("%s=%s (not stored)", k, v))
		} else if g != v && v != "arg" && g != "arg" {
			out = append(out, fmt.Sprintf("%s=%s (stores %s)", k, v, g))
		}
	}
	sort.Strings(out)
	return out
}

func c02Formats(c *Ctx, r *Report, env *c02env, flags []*FlagInfo, eff map[string]*FlagEffects, byName map[string]*FlagInfo) {
	r.Rule("R02.1", "format flags do what their help says: a flag documented 'Use X format for input data' stores the format name that every other flag documents for X into ReaderOptions.InputFileFormat (likewise output); 'Use X for input, Y for output' stores both; the letters of --x2y names match the documented names")
	r.Rule("R02.2", "expansion: the effect of --X2Y equals the union of the effects of the input-only flag of X and the output-only flag of Y, and the effect of an input-and-output flag equals effect(input-only) ∪ effect(output-only), up to differences no earlier option state can make observable (a field no code reachable from that format's reader/writer constructor or any format-independent consumer loads; a wasSpecified mark whose unmarked value equals the format default)")
	// learn help-name → (input flag, output flag)
	inFlag, outFlag := map[string]*FlagInfo{}, map[string]*FlagInfo{}
	for _, f := range flags {
		m := helpFmtRe1.FindStringSubmatch(f.Help)
		if m == nil || f.Arg != "" {
			continue
		}
		switch m[2] {
		case "input":
			if _, dup := inFlag[normFmtName(m[1])]; !dup {
				inFlag[normFmtName(m[1])] = f
			}
		case "output":
			if _, dup := outFlag[normFmtName(m[1])]; !dup {
				outFlag[normFmtName(m[1])] = f
			}
		}
	}
	r.Floor("R02.1", "input-only format flags", len(inFlag), 12)
	r.Floor("R02.1", "output-only format flags", len(outFlag), 12)
	fmtOf := func(f *FlagInfo, path string) string { return eff[f.Name].StoreMap()[path] }
	nBoth, nConv := 0, 0
	for _, f := range flags {
		if f.Fn == nil {
			continue
		}
		em := eff[f.Name].StoreMap()
		if m := helpFmtRe1.FindStringSubmatch(f.Help); m != nil && f.Arg == "" {
			name := normFmtName(m[1])
			switch m[2] {
			case "input":
				r.Check(em["ReaderOptions.InputFileFormat"] != "" && em["WriterOptions.OutputFileFormat"] == "", "R02.1", "flag "+f.Name, c.Rel(f.Pos), "input format "+em["ReaderOptions.InputFileFormat"],
					fmt.Sprintf("%s is documented as an input-format flag but stores InputFileFormat=%q OutputFileFormat=%q", f.Name, em["ReaderOptions.InputFileFormat"], em["WriterOptions.OutputFileFormat"]))
			case "output":
				r.Check(em["WriterOptions.OutputFileFormat"] != "" && em["ReaderOptions.InputFileFormat"] == "", "R02.1", "flag "+f.Name, c.Rel(f.Pos), "output format "+em["WriterOptions.OutputFileFormat"],
					fmt.Sprintf("%s is documented as an output-format flag but stores InputFileFormat=%q OutputFileFormat=%q", f.Name, em["ReaderOptions.InputFileFormat"], em["WriterOptions.OutputFileFormat"]))
			case "input and output":
				fi, fo := inFlag[name], outFlag[name]
				if fi == nil || fo == nil {
					r.OK("R02.1", "flag "+f.Name, c.Rel(f.Pos), "no separate input/output flags documented for "+name+" (nothing to compare)")
					continue
				}
				nBoth++
				diffs, benign := env.observableDiff(em, unionEffects(eff[fi.Name].StoreMap(), eff[fo.Name].StoreMap()), f.Name, fi.Name+" "+fo.Name)
				r.Check(len(diffs) == 0, "R02.2", "flag "+f.Name+" = "+fi.Name+" ∪ "+fo.Name, c.Rel(f.Pos), fmt.Sprintf("%d stores; %d differences argued unobservable %v", len(em), len(benign), benign),
					fmt.Sprintf("%s is documented as '%s for input and output' but is not equivalent to %s %s: %v — after other options (earlier on the command line or from .mlrrc) the two spellings select different behaviour", f.Name, m[1], fi.Name, fo.Name, diffs))
			}
			continue
		}
		if m := helpFmtRe2.FindStringSubmatch(f.Help); m != nil {
			nConv++
			xi, yo := inFlag[normFmtName(m[1])], outFlag[normFmtName(m[2])]
			// letters
			base := strings.TrimLeft(f.Name, "-")
			if len(base) == 3 && base[1] == '2' {
				okL := func(letter byte, doc string) bool { return letterCodes[letter] == normFmtName(doc) }
				r.Check(okL(base[0], m[1]) && okL(base[2], m[2]), "R02.1", "flag "+f.Name+" letters", c.Rel(f.Pos), m[1]+" → "+m[2],
					fmt.Sprintf("flag %s is documented as '%s for input, %s for output', which does not match its letters", f.Name, m[1], m[2]))
			}
			if xi == nil || yo == nil {
				// barred pprint etc.: compare the format names only
				r.OK("R02.1", "flag "+f.Name, c.Rel(f.Pos), fmt.Sprintf("stores %s → %s (no single-direction flag documented for one side)", em["ReaderOptions.InputFileFormat"], em["WriterOptions.OutputFileFormat"]))
				continue
			}
			wantIn, wantOut := fmtOf(xi, "ReaderOptions.InputFileFormat"), fmtOf(yo, "WriterOptions.OutputFileFormat")
			gotIn, gotOut := em["ReaderOptions.InputFileFormat"], em["WriterOptions.OutputFileFormat"]
			okFmt := gotIn == wantIn && gotOut == wantOut
			r.Check(okFmt, "R02.1", "flag "+f.Name, c.Rel(f.Pos), gotIn+" → "+gotOut,
				fmt.Sprintf("flag %s is documented as '%s for input, %s for output' (i.e. %s → %s as %s and %s store) but stores %s → %s", f.Name, m[1], m[2], wantIn, wantOut, xi.Name, yo.Name, gotIn, gotOut))
			// expansion
			diffs, benign := env.observableDiff(em, unionEffects(eff[xi.Name].StoreMap(), eff[yo.Name].StoreMap()), f.Name, xi.Name+" "+yo.Name)
			r.Check(len(diffs) == 0, "R02.2", "flag "+f.Name+" = "+xi.Name+" + "+yo.Name, c.Rel(f.Pos), fmt.Sprintf("%d stores; %d differences argued unobservable %v", len(em), len(benign), benign),
				fmt.Sprintf("%s is not equivalent to its documented expansion %s %s: %v — after other options (earlier on the command line or from .mlrrc) the two spellings select different behaviour", f.Name, xi.Name, yo.Name, diffs))
		}
	}
	r.Floor("R02.2", "input-and-output flags compared", nBoth, 10)
	r.Floor("R02.1", "conversion keystroke-savers", nConv, 80)
}

var saverRe = regexp.MustCompile("[Kk]eystroke-saver for `([^`]+)`")

func c02Savers(c *Ctx, r *Report, flags []*FlagInfo, eff map[string]*FlagEffects, byName map[string]*FlagInfo) {
	r.Rule("R02.2b", "documented keystroke-savers: a flag whose help says 'Keystroke-saver for `--a --b v --c`' has an effect that includes the effect of each flag of that expansion (an argument value given by alias name is matched against the separator alias table)")
	aliases := separatorAliases(c)
	n := 0
	for _, f := range flags {
		m := saverRe.FindStringSubmatch(f.Help)
		if m == nil || f.Fn == nil {
			continue
		}
		n++
		toks := strings.Fields(m[1])
		em := eff[f.Name].StoreMap()
		var miss []string
		for i := 0; i < len(toks); i++ {
			t := toks[i]
			target := byName[t]
			if target == nil {
				miss = append(miss, "unknown flag "+t)
				continue
			}
			want := map[string]string{}
			for k, v := range eff[t].StoreMap() {
				want[k] = v
			}
			if target.Arg != "" && i+1 < len(toks) {
				arg := toks[i+1]
				i++
				val := arg
				if av, ok := aliases[arg]; ok {
					val = av
				}
				for k, v := range want {
					if v == "arg" {
						want[k] = fmt.Sprintf("%q", val)
					}
				}
			}
			miss = append(miss, missingFrom(want, em)...)
		}
		r.Check(len(miss) == 0, "R02.2b", "flag "+f.Name+" = "+m[1], c.Rel(f.Pos), "effect includes every flag of the documented expansion",
			fmt.Sprintf("%s is documented as a keystroke-saver for `%s` but its effect lacks %v: the short spelling and the long one behave differently (the finalisation step resets options that were not marked as specified)", f.Name, m[1], miss))
	}
	r.Floor("R02.2b", "documented keystroke-savers", n, 3)
}

// ---- R02.3 -----------------------------------------------------------------

// aliasPairs: "if <stored value> == "k" { <same path> = "v" }" inside a parser.
func aliasPairs(fn *ssa.Function) map[string]string {
	out := map[string]string{}
	if fn == nil {
		return out
	}
	for _, b := range fn.Blocks {
		iff, ok := b.Instrs[len(b.Instrs)-1].(*ssa.If)
		if !ok {
			continue
		}
		bo, ok := iff.Cond.(*ssa.BinOp)
		if !ok || bo.Op != token.EQL {
			continue
		}
		k, ok := constString(bo.Y)
		if !ok {
			continue
		}
		for _, in := range b.Succs[0].Instrs {
			if st, ok := in.(*ssa.Store); ok {
				if v, ok := constString(st.Val); ok {
					out[k] = v
				}
			}
		}
	}
	// the same step in a function of the package the parser calls: if name == "k" { return "v" }
	for _, b := range fn.Blocks {
		for _, in := range b.Instrs {
			call, ok := in.(*ssa.Call)
			if !ok {
				continue
			}
			h := call.Call.StaticCallee()
			if h == nil || h.Pkg != fn.Pkg || h.Blocks == nil || h == fn || h.Signature.Results().Len() != 1 {
				continue
			}
			for _, hb := range h.Blocks {
				iff, ok := hb.Instrs[len(hb.Instrs)-1].(*ssa.If)
				if !ok {
					continue
				}
				bo, ok := iff.Cond.(*ssa.BinOp)
				if !ok || bo.Op != token.EQL {
					continue
				}
				if _, isParam := bo.X.(*ssa.Parameter); !isParam {
					continue
				}
				k, ok := constString(bo.Y)
				if !ok {
					continue
				}
				succ := hb.Succs[0]
				if ret, ok := succ.Instrs[len(succ.Instrs)-1].(*ssa.Return); ok && len(ret.Results) == 1 {
					if v, ok := constString(ret.Results[0]); ok {
						out[k] = v
					}
				}
			}
		}
	}
	return out
}

func c02IOForms(c *Ctx, r *Report, env *c02env, flags []*FlagInfo, eff map[string]*FlagEffects, byName map[string]*FlagInfo) {
	r.Rule("R02.3", "-i/-o/--io forms: for every format name K that any of the three forms or the factories know and that has a dedicated flag, `-i K` has the same effect as `--iK`, `-o K` as `--oK`, `--io K` as `--K` (the name passes the form's own validation and alias step, names a factory label, and the dedicated flag stores nothing more)")
	fi, fo, fio := byName["-i"], byName["-o"], byName["--io"]
	if fi == nil || fo == nil || fio == nil {
		r.Undecided("R02.3", "-i/-o/--io", "", "flags not found in the table")
		return
	}
	keys := mapLiteralKeys(c, "pkg/cli", "defaultFSes")
	in := switchStringLabels(c, c.LookupFunc("pkg/input", "Create"))
	out := switchStringLabels(c, c.LookupFunc("pkg/output", "Create"))
	names := map[string]bool{}
	for k := range keys {
		names[k] = true
	}
	for k := range in {
		names[k] = true
	}
	for k := range out {
		names[k] = true
	}
	// --io validates against defaultFSes (read from its closure: a Lookup in that table)
	ioValidates := false
	for _, b := range fio.Fn.Blocks {
		for _, ins := range b.Instrs {
			if lk, ok := ins.(*ssa.Lookup); ok {
				if ld, ok := lk.X.(*ssa.UnOp); ok {
					if g, ok := ld.X.(*ssa.Global); ok && g.Name() == "defaultFSes" {
						ioValidates = true
					}
				}
			}
		}
	}
	n := 0
	sim := func(form *FlagInfo, K string, reader, writer bool) (map[string]string, string) {
		al := aliasPairs(form.Fn)
		v := K
		if a, ok := al[K]; ok {
			v = a
		}
		m := map[string]string{}
		if form == fio && ioValidates {
			if keys[K] == "" {
				return nil, fmt.Sprintf("`%s %s` is rejected: %q is not a key of the default-separator table the form validates against", form.Name, K, K)
			}
		}
		if reader {
			if _, ok := keys[v]; !ok {
				return nil, fmt.Sprintf("`%s %s` is rejected at finalisation: %q has no default separators (unrecognized input format)", form.Name, K, v)
			}
			if _, ok := in[v]; !ok {
				return nil, fmt.Sprintf("`%s %s` is rejected: input.Create has no reader for %q", form.Name, K, v)
			}
			m["ReaderOptions.InputFileFormat"] = fmt.Sprintf("%q", v)
		}
		if writer {
			if _, ok := out[v]; !ok {
				return nil, fmt.Sprintf("`%s %s` is rejected: output.Create has no writer for %q", form.Name, K, v)
			}
			m["WriterOptions.OutputFileFormat"] = fmt.Sprintf("%q", v)
		}
		return m, ""
	}
	for _, K := range sortedKeysB(names) {
		for _, t := range []struct {
			form    *FlagInfo
			ded     string
			rd, wr  bool
		}{{fi, "--i" + K, true, false}, {fo, "--o" + K, false, true}, {fio, "--" + K, true, true}} {
			d := byName[t.ded]
			if d == nil || d.Fn == nil || d.Arg != "" {
				continue
			}
			n++
			key := fmt.Sprintf("%s %s = %s", t.form.Name, K, t.ded)
			got, why := sim(t.form, K, t.rd, t.wr)
			if why != "" {
				r.Fail("R02.3", key, c.Rel(t.form.Pos), why+", while the dedicated flag "+t.ded+" works")
				continue
			}
			want := eff[t.ded].StoreMap()
			diffs, benign := env.observableDiff(got, want, t.form.Name+" "+K, t.ded)
			r.Check(len(diffs) == 0, "R02.3", key, c.Rel(t.form.Pos), fmt.Sprintf("%v; unobservable: %v", got, benign),
				fmt.Sprintf("`%s %s` is documented as the same as `%s`, but: %v — after other options (earlier on the command line or from .mlrrc) the two spellings behave differently", t.form.Name, K, t.ded, diffs))
		}
	}
	r.Floor("R02.3", "form/name pairs with a dedicated flag", n, 30)
}

// unmarkedValues: the values a separator can hold while its wasSpecified mark
// is unset — the initial value, plus anything a flag stores without the mark.
func unmarkedValues(env *c02env, flags []*FlagInfo, eff map[string]*FlagEffects) map[string]map[string]bool {
	out := map[string]map[string]bool{}
	for w, base := range wasSpecifiedBase {
		out[base] = map[string]bool{strings.Trim(env.use.Init[base], `"`): true}
		for _, f := range flags {
			if f.Fn == nil {
				continue
			}
			em := eff[f.Name].StoreMap()
			if v, ok := em[base]; ok && em[w] != "true" {
				out[base][strings.Trim(v, `"`)] = true
			}
		}
	}
	return out
}

// ---- R02.4 -----------------------------------------------------------------
var cursorOK = map[string]string{
	"--mfrom": "variadic: consumes file names up to '--'",
	"--mload": "variadic: consumes file names up to '--'",
}

func hasSuccessReturn(fn *ssa.Function) bool {
	for _, b := range fn.Blocks {
		if ret, ok := b.Instrs[len(b.Instrs)-1].(*ssa.Return); ok && ReturnsNilError(ret) {
			return true
		}
	}
	return false
}

func c02Cursor(c *Ctx, r *Report, flags []*FlagInfo, eff map[string]*FlagEffects) {
	r.Rule("R02.4", "argument cursor: on every successful path a flag's parser advances *pargi by one fixed amount, equal to 1 + the largest k for which it reads args[*pargi+k]; when k ≥ 1 a CheckArgCount for at least k+1 arguments is made (else a trailing flag indexes past the end of argv); a parser that reads no argument advances by 1 (or by 2 when the table declares an argument that is consumed elsewhere, e.g. -s, --cpuprofile)")
	n := 0
	for _, f := range flags {
		if f.Fn == nil {
			continue
		}
		fe := eff[f.Name]
		if why, ok := cursorOK[f.Name]; ok {
			r.OK("R02.4", "flag "+f.Name, c.Rel(f.Pos), "frozen: "+why)
			continue
		}
		n++
		if !hasSuccessReturn(f.Fn) {
			r.OK("R02.4", "flag "+f.Name, c.Rel(f.Pos), "never returns success (prints and requests exit)")
			continue
		}
		incs := map[int64]bool{}
		for _, k := range fe.Pargi {
			incs[k] = true
		}
		var got []string
		for k := range incs {
			got = append(got, fmt.Sprint(k))
		}
		sort.Strings(got)
		adv := int64(-1)
		if len(incs) == 1 {
			for k := range incs {
				adv = k
			}
		}
		switch {
		case adv < 0:
			r.Fail("R02.4", "flag "+f.Name, c.Rel(f.Pos), fmt.Sprintf("flag %s advances the cursor by %v on its successful paths — it must advance by one fixed amount", f.Name, got))
		case fe.MaxArgIx >= 1 && adv != fe.MaxArgIx+1:
			r.Fail("R02.4", "flag "+f.Name, c.Rel(f.Pos), fmt.Sprintf("flag %s reads up to args[*pargi+%d] but advances the cursor by %d: the next flag or the verb is parsed from the wrong position", f.Name, fe.MaxArgIx, adv))
		case fe.MaxArgIx >= 1 && fe.Checked < fe.MaxArgIx+1:
			r.Fail("R02.4", "flag "+f.Name, c.Rel(f.Pos), fmt.Sprintf("flag %s reads args[*pargi+%d] without a CheckArgCount for %d arguments (checked: %d): given as the last word of the command line it indexes past the end of argv and mlr panics", f.Name, fe.MaxArgIx, fe.MaxArgIx+1, fe.Checked))
		case fe.MaxArgIx == 0 && adv != 1 && !(adv == 2 && f.Arg != ""):
			r.Fail("R02.4", "flag "+f.Name, c.Rel(f.Pos), fmt.Sprintf("flag %s reads no argument and declares none, but advances the cursor by %d: it swallows the next word of the command line", f.Name, adv))
		default:
			r.OK("R02.4", "flag "+f.Name, c.Rel(f.Pos), fmt.Sprintf("arg %q: reads up to args[*pargi+%d], checked %d, advances by %d", f.Arg, fe.MaxArgIx, fe.Checked, adv))
		}
	}
	r.Floor("R02.4", "flag parsers", n, 220)
}

// ---- R02.5 -----------------------------------------------------------------
func switchStringLabels(c *Ctx, f *types.Func) map[string]string {
	out := map[string]string{}
	d := c.Decl(f)
	p := c.PkgOfFunc(f)
	if d == nil {
		return out
	}
	ast.Inspect(d.Body, func(n ast.Node) bool {
		cc, ok := n.(*ast.CaseClause)
		if !ok {
			return true
		}
		target := ""
		for _, s := range cc.Body {
			if rs, ok := s.(*ast.ReturnStmt); ok && len(rs.Results) > 0 {
				if call, ok := rs.Results[0].(*ast.CallExpr); ok {
					if fo := resolveFuncExpr(p.TypesInfo, call.Fun); fo != nil {
						target = fo.Name()
					}
				}
			}
		}
		for _, l := range cc.List {
			if tv, ok := p.TypesInfo.Types[l]; ok && tv.Value != nil && tv.Value.Kind() == constant.String {
				out[constant.StringVal(tv.Value)] = target
			}
		}
		return true
	})
	return out
}

func mapLiteralKeys(c *Ctx, pkgRel, name string) map[string]string {
	p := c.Pkg(pkgRel)
	out := map[string]string{}
	for _, f := range p.Syntax {
		for _, d := range f.Decls {
			gd, ok := d.(*ast.GenDecl)
			if !ok || gd.Tok != token.VAR {
				continue
			}
			for _, s := range gd.Specs {
				vs := s.(*ast.ValueSpec)
				for i, nm := range vs.Names {
					if nm.Name != name || i >= len(vs.Values) {
						continue
					}
					lit, ok := vs.Values[i].(*ast.CompositeLit)
					if !ok {
						continue
					}
					for _, el := range lit.Elts {
						kv, ok := el.(*ast.KeyValueExpr)
						if !ok {
							continue
						}
						ktv, vtv := p.TypesInfo.Types[kv.Key], p.TypesInfo.Types[kv.Value]
						if ktv.Value != nil && ktv.Value.Kind() == constant.String {
							val := "?"
							if vtv.Value != nil {
								if vtv.Value.Kind() == constant.String {
									val = constant.StringVal(vtv.Value)
								} else {
									val = vtv.Value.ExactString()
								}
							}
							out[constant.StringVal(ktv.Value)] = val
						}
					}
				}
			}
		}
	}
	return out
}

func c02Universe(c *Ctx, r *Report, flags []*FlagInfo, eff map[string]*FlagEffects) {
	r.Rule("R02.5", "format-name universe: every constant a flag stores into InputFileFormat / OutputFileFormat is a case label of input.Create / output.Create; the default-separator tables (FS, PS, RS, repeat-IFS) have identical key sets, and every format a flag can select for input is a key of all four (finalisation rejects any other)")
	in := switchStringLabels(c, c.LookupFunc("pkg/input", "Create"))
	out := switchStringLabels(c, c.LookupFunc("pkg/output", "Create"))
	r.Floor("R02.5", "reader factory labels", len(in), 12)
	r.Floor("R02.5", "writer factory labels", len(out), 12)
	seenIn, seenOut := map[string]string{}, map[string]string{}
	for _, f := range flags {
		if f.Fn == nil {
			continue
		}
		for _, s := range eff[f.Name].Stores {
			v := strings.Trim(s.Value, `"`)
			if s.Value == "arg" || s.Value == "?" {
				continue
			}
			if s.Path == "ReaderOptions.InputFileFormat" {
				seenIn[v] = f.Name
			}
			if s.Path == "WriterOptions.OutputFileFormat" {
				seenOut[v] = f.Name
			}
		}
	}
	for _, k := range sortedKeys(seenIn) {
		_, ok := in[k]
		r.Check(ok, "R02.5", "input format name "+k, "pkg/input/record_reader_factory.go", "label of input.Create", fmt.Sprintf("flag %s stores input format %q, which input.Create does not know: the flag always fails with 'input file format not found'", seenIn[k], k))
	}
	for _, k := range sortedKeys(seenOut) {
		_, ok := out[k]
		r.Check(ok, "R02.5", "output format name "+k, "pkg/output/record_writer_factory.go", "label of output.Create", fmt.Sprintf("flag %s stores output format %q, which output.Create does not know", seenOut[k], k))
	}
	// default tables
	tabs := map[string]map[string]string{}
	for _, t := range []string{"defaultFSes", "defaultPSes", "defaultRSes", "defaultAllowRepeatIFSes"} {
		tabs[t] = mapLiteralKeys(c, "pkg/cli", t)
	}
	ref := tabs["defaultFSes"]
	r.Floor("R02.5", "default FS table entries", len(ref), 12)
	for _, t := range []string{"defaultPSes", "defaultRSes", "defaultAllowRepeatIFSes"} {
		var diff []string
		for k := range ref {
			if _, ok := tabs[t][k]; !ok {
				diff = append(diff, k+" missing in "+t)
			}
		}
		for k := range tabs[t] {
			if _, ok := ref[k]; !ok {
				diff = append(diff, k+" only in "+t)
			}
		}
		sort.Strings(diff)
		r.Check(len(diff) == 0, "R02.5", "key set of "+t, "pkg/cli/option_types.go", fmt.Sprintf("%d keys, same as defaultFSes", len(tabs[t])), fmt.Sprintf("the default-separator tables disagree on their formats: %v — finalisation looks a format up in all of them", diff))
	}
	// every input format a flag can store must pass FinalizeReaderOptions, which
	// rejects a format missing from any of the four tables
	for _, k := range sortedKeys(seenIn) {
		var miss []string
		for _, t := range []string{"defaultFSes", "defaultPSes", "defaultRSes", "defaultAllowRepeatIFSes"} {
			if _, ok := tabs[t][k]; !ok {
				miss = append(miss, t)
			}
		}
		r.Check(len(miss) == 0, "R02.5", "input format "+k+" has default separators", "pkg/cli/separators.go", "key of all four default tables", fmt.Sprintf("flag %s stores input format %q, which is missing from %v: FinalizeReaderOptions rejects it as an unrecognized input format", seenIn[k], k, miss))
	}
}

// ---- R02.6 -----------------------------------------------------------------
func c02Factories(c *Ctx, r *Report) {
	r.Rule("R02.6", "factory pairing: in input.Create and output.Create each label constructs the reader/writer of its own family (label L ↦ NewRecordReader<F> and NewRecordWriter<F> with the same F; md/markdown → Markdown, recutils → REC, jsonl → JSONLines)")
	in := switchStringLabels(c, c.LookupFunc("pkg/input", "Create"))
	out := switchStringLabels(c, c.LookupFunc("pkg/output", "Create"))
	fam := func(ctor string) string {
		s := strings.TrimPrefix(strings.TrimPrefix(ctor, "NewRecordReader"), "NewRecordWriter")
		return strings.ToLower(s)
	}
	norm := func(label string) string {
		switch label {
		case "md":
			return "markdown"
		case "recutils":
			return "rec"
		case "jsonl":
			return "jsonlines"
		}
		return label
	}
	for _, k := range sortedKeys(in) {
		if k == "gen" {
			continue
		}
		r.Check(fam(in[k]) == norm(k), "R02.6", "input label "+k, "pkg/input/record_reader_factory.go", in[k], fmt.Sprintf("input.Create maps %q to %s: the wrong reader parses this format", k, in[k]))
	}
	for _, k := range sortedKeys(out) {
		r.Check(fam(out[k]) == norm(k), "R02.6", "output label "+k, "pkg/output/record_writer_factory.go", out[k], fmt.Sprintf("output.Create maps %q to %s: the wrong writer formats this output", k, out[k]))
	}
}

// ---- R02.7 -----------------------------------------------------------------
func separatorAliases(c *Ctx) map[string]string {
	m := mapLiteralKeys(c, "pkg/cli", "SEPARATOR_NAMES_TO_VALUES")
	out := map[string]string{}
	for k, v := range m {
		out[k] = backslashDecode(v)
	}
	return out
}

// the tables store backslash sequences as text ("\\t"); decode the common ones.
func backslashDecode(s string) string {
	r := strings.NewReplacer(`\t`, "\t", `\n`, "\n", `\r`, "\r")
	s = r.Replace(s)
	re := regexp.MustCompile(`\\x([0-9a-fA-F]{2})`)
	return re.ReplaceAllStringFunc(s, func(m string) string {
		var b byte
		fmt.Sscanf(m[2:], "%02x", &b)
		return string([]byte{b})
	})
}

func c02Separators(c *Ctx, r *Report) {
	r.Rule("R02.7", "separator aliases: SEPARATOR_NAMES_TO_VALUES and SEPARATOR_REGEX_NAMES_TO_VALUES contain every alias of the documented table (reference-main-separators.md) with the documented value; the core aliases have their obvious values")
	got := mapLiteralKeys(c, "pkg/cli", "SEPARATOR_NAMES_TO_VALUES")
	gotRe := mapLiteralKeys(c, "pkg/cli", "SEPARATOR_REGEX_NAMES_TO_VALUES")
	r.Floor("R02.7", "separator aliases", len(got), 25)
	core := map[string]string{"comma": ",", "tab": `\t`, "space": " ", "pipe": "|", "semicolon": ";", "newline": `\n`, "colon": ":", "equals": "=", "lf": `\n`, "crlf": `\r\n`, "slash": "/"}
	for _, k := range sortedKeys(core) {
		r.Check(got[k] == core[k], "R02.7", "alias "+k, "pkg/cli/separators.go", fmt.Sprintf("%q", got[k]), fmt.Sprintf("separator alias %q has value %q, expected %q", k, got[k], core[k]))
	}
	doc, err := c.ReadRepoFile("docs/src/reference-main-separators.md")
	if err != nil {
		r.Undecided("R02.7", "documented table", "docs/src/reference-main-separators.md", err.Error())
		return
	}
	re := regexp.MustCompile(`(?m)^([a-z_0-9]+)\s+= "(.*)"$`)
	n := 0
	for _, m := range re.FindAllStringSubmatch(string(doc), -1) {
		name, val := m[1], m[2]
		have, ok := got[name]
		if !ok {
			have, ok = gotRe[name]
		}
		n++
		r.Check(ok && have == val, "R02.7", "documented alias "+name, "docs/src/reference-main-separators.md", fmt.Sprintf("%q", val), fmt.Sprintf("the separator reference documents alias %s = %q; the table has %q (present: %v)", name, val, have, ok))
	}
	r.Floor("R02.7", "documented aliases", n, 25)
}

// ---- R02.8 -----------------------------------------------------------------
func c02Flatten(c *Ctx, r *Report) {
	r.Rule("R02.8", "flatten decision table: DecideFinalFlatten is true exactly when auto-flatten is on and the output format cannot nest (JSON, JSON Lines and YAML can; DCF is exempt); DecideFinalUnflatten is true exactly when auto-unflatten is on, the output can nest, the input cannot, and the last verb is not 'flatten'; both read only the selected formats, the two auto flags and the last verb name")
	ff := c.SSAFunc(c.LookupFunc("pkg/cli", "DecideFinalFlatten"))
	fu := c.SSAFunc(c.LookupFunc("pkg/cli", "DecideFinalUnflatten"))
	nest := c.SSAFunc(c.LookupFunc("pkg/cli", "isNestable"))
	if ff == nil || fu == nil || nest == nil {
		r.Undecided("R02.8", "anchors", "", "DecideFinalFlatten / DecideFinalUnflatten / isNestable not found")
		return
	}
	// isNestable: true exactly for json, jsonl, yaml
	consts := map[string]bool{}
	for _, b := range nest.Blocks {
		for _, in := range b.Instrs {
			if bo, ok := in.(*ssa.BinOp); ok && bo.Op == token.EQL {
				if s, ok := constString(bo.Y); ok {
					consts[s] = true
				}
			}
		}
	}
	var cs []string
	for k := range consts {
		cs = append(cs, k)
	}
	sort.Strings(cs)
	r.Check(strings.Join(cs, ",") == "json,jsonl,yaml", "R02.8", "isNestable", c.Rel(nest.Pos()), strings.Join(cs, ","), "isNestable compares against ["+strings.Join(cs, ",")+"], expected exactly json, jsonl, yaml (the formats whose writers emit nested data)")
	// truth tables by path enumeration over atoms
	atomsF := decisionTable(ff)
	wantF := canonConj("AutoFlatten", "!nestable(OutputFileFormat)", "!OutputFileFormat==dcf")
	r.Check(atomsF == wantF, "R02.8", "DecideFinalFlatten", c.Rel(ff.Pos()), atomsF, "DecideFinalFlatten is true exactly under ["+atomsF+"], documented: auto-flatten on, output format not nestable, output not DCF ("+wantF+")")
	atomsU := decisionTable(fu)
	wantU := canonConj("!lastverb==flatten", "AutoUnflatten", "!nestable(InputFileFormat)", "nestable(OutputFileFormat)")
	r.Check(atomsU == wantU, "R02.8", "DecideFinalUnflatten", c.Rel(fu.Pos()), atomsU, "DecideFinalUnflatten is true exactly under ["+atomsU+"], documented: last verb not flatten, auto-unflatten on, input not nestable, output nestable ("+wantU+")")
}

func canonConj(parts ...string) string {
	sort.Strings(parts)
	return strings.Join(parts, " & ")
}

// decisionTable enumerates the paths of a small boolean function over its
// opaque atoms (field loads, calls of isNestable, string equality tests) and
// returns the disjunction of conjunctions under which it returns true, in a
// canonical text form (single conjunction expected).
func decisionTable(fn *ssa.Function) string {
	type lit struct {
		name string
		pol  bool
	}
	atomName := func(v ssa.Value) string {
		switch x := v.(type) {
		case *ssa.UnOp:
			if _, name, ok := fieldLoadName(x); ok {
				return name
			}
		case *ssa.Call:
			if strings.HasSuffix(CalleeName(&x.Call), ".isNestable") && len(x.Call.Args) == 1 {
				if _, name, ok := fieldLoadName(x.Call.Args[0]); ok {
					return "nestable(" + name + ")"
				}
			}
			// a helper of the package asked about the verb list and a constant name: is the last verb S?
			if sc := x.Call.StaticCallee(); sc != nil && sc.Pkg == fn.Pkg && len(x.Call.Args) == 2 {
				if _, isList := x.Call.Args[0].Type().Underlying().(*types.Slice); isList {
					if s, ok := constString(x.Call.Args[1]); ok {
						return "lastverb==" + s
					}
				}
			}
		case *ssa.BinOp:
			if s, ok := constString(x.Y); ok && (x.Op == token.EQL || x.Op == token.NEQ) {
				lhs := "lastverb"
				if _, name, ok := fieldLoadName(x.X); ok {
					lhs = name
				}
				n := lhs + "==" + s
				if x.Op == token.NEQ {
					return "!" + n
				}
				return n
			}
		}
		return ""
	}
	var trues [][]lit
	var walkFrom func(b, from *ssa.BasicBlock, path []lit, seen map[*ssa.BasicBlock]bool)
	walk := func(b *ssa.BasicBlock, path []lit, seen map[*ssa.BasicBlock]bool) { walkFrom(b, nil, path, seen) }
	walkFrom = func(b, from *ssa.BasicBlock, path []lit, seen map[*ssa.BasicBlock]bool) {
		if seen[b] {
			return
		}
		seen2 := map[*ssa.BasicBlock]bool{}
		for k := range seen {
			seen2[k] = true
		}
		seen2[b] = true
		walk := func(nb *ssa.BasicBlock, p []lit, sn map[*ssa.BasicBlock]bool) { walkFrom(nb, b, p, sn) }
		switch x := b.Instrs[len(b.Instrs)-1].(type) {
		case *ssa.Return:
			res := x.Results[0]
			// return a && b: the value is a phi of the short-circuit; take the edge this path came by
			if ph, ok := res.(*ssa.Phi); ok && ph.Block() == b && from != nil {
				for i, p := range b.Preds {
					if p == from {
						res = ph.Edges[i]
					}
				}
			}
			if v, ok := constBool(res); ok {
				if v {
					trues = append(trues, append([]lit{}, path...))
				}
			} else {
				cond, pol := stripNot(res, true)
				if name := atomName(cond); name != "" {
					neg := false
					if strings.HasPrefix(name, "!") {
						name, neg = name[1:], true
					}
					trues = append(trues, append(append([]lit{}, path...), lit{name, pol != neg}))
				}
			}
		case *ssa.Jump:
			walk(b.Succs[0], path, seen2)
		case *ssa.If:
			cond, pol := stripNot(x.Cond, true)
			name := atomName(cond)
			if name == "" {
				// structural condition (lengths of the verb list): both ways, not an atom
				walk(b.Succs[0], path, seen2)
				walk(b.Succs[1], path, seen2)
				return
			}
			neg := false
			if strings.HasPrefix(name, "!") {
				name = name[1:]
				neg = true
			}
			walk(b.Succs[0], append(path, lit{name, pol != neg}), seen2)
			walk(b.Succs[1], append(path, lit{name, pol == neg}), seen2)
		}
	}
	walk(fn.Blocks[0], nil, map[*ssa.BasicBlock]bool{})
	// canonical: every atom that has a single polarity over all true paths
	if len(trues) == 0 {
		return "never"
	}
	pols := map[string]map[bool]bool{}
	for _, p := range trues {
		for _, l := range p {
			if pols[l.name] == nil {
				pols[l.name] = map[bool]bool{}
			}
			pols[l.name][l.pol] = true
		}
	}
	common := map[string]bool{}
	for name, ps := range pols {
		if len(ps) == 1 {
			for pol := range ps {
				common[fmt.Sprintf("%v|%s", pol, name)] = true
			}
		}
	}
	var parts []string
	for k := range common {
		kv := strings.SplitN(k, "|", 2)
		if kv[0] == "true" {
			parts = append(parts, kv[1])
		} else {
			parts = append(parts, "!"+kv[1])
		}
	}
	sort.Strings(parts)
	return strings.Join(parts, " & ")
}
