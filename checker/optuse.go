package main

// Which reader/writer family consults which field of TReaderOptions /
// TWriterOptions. Used by C02 to decide whether a difference between the
// effects of two flag spellings can be observed.

import (
	"go/ast"
	"go/constant"
	"go/token"
	"go/types"
	"strings"

	"golang.org/x/tools/go/ssa"
)

type OptUse struct {
	c *Ctx
	// path ("ReaderOptions.IFS") → functions that load it
	loads map[string]map[*ssa.Function]bool
	// constructor → functions reachable from it and from the methods of the types it builds
	reach map[*ssa.Function]map[*ssa.Function]bool
	// initial values from DefaultReaderOptions / DefaultWriterOptions
	Init map[string]string
}

func optStructPrefix(t types.Type) string {
	if p, ok := t.Underlying().(*types.Pointer); ok {
		t = p.Elem()
	}
	n, ok := t.(*types.Named)
	if !ok {
		return ""
	}
	switch n.Obj().Name() {
	case "TReaderOptions":
		return "ReaderOptions."
	case "TWriterOptions":
		return "WriterOptions."
	}
	return ""
}

func (c *Ctx) OptUse() *OptUse {
	u := &OptUse{c: c, loads: map[string]map[*ssa.Function]bool{}, reach: map[*ssa.Function]map[*ssa.Function]bool{}, Init: map[string]string{}}
	add := func(path string, fn *ssa.Function) {
		if u.loads[path] == nil {
			u.loads[path] = map[*ssa.Function]bool{}
		}
		u.loads[path][fn] = true
	}
	for fn := range c.AllFunctions() {
		if !IsModuleFunc(fn) || fn.Blocks == nil {
			continue
		}
		for _, b := range fn.Blocks {
			for _, in := range b.Instrs {
				switch x := in.(type) {
				case *ssa.FieldAddr:
					pre := optStructPrefix(x.X.Type())
					if pre == "" {
						continue
					}
					st := x.X.Type().Underlying().(*types.Pointer).Elem().Underlying().(*types.Struct)
					name := st.Field(x.Field).Name()
					used := false
					for _, ref := range *x.Referrers() {
						if s, ok := ref.(*ssa.Store); ok && s.Addr == x {
							continue
						}
						used = true
					}
					if used {
						add(pre+name, fn)
					}
				case *ssa.Field:
					pre := optStructPrefix(x.X.Type())
					if pre == "" {
						continue
					}
					st := x.X.Type().Underlying().(*types.Struct)
					add(pre+st.Field(x.Field).Name(), fn)
				}
			}
		}
	}
	for _, t := range []struct{ fn, pre string }{{"DefaultReaderOptions", "ReaderOptions."}, {"DefaultWriterOptions", "WriterOptions."}} {
		f := c.LookupFunc("pkg/cli", t.fn)
		d := c.Decl(f)
		p := c.PkgOfFunc(f)
		if d == nil {
			continue
		}
		// zero values for everything first
		if sig, ok := f.Type().(*types.Signature); ok && sig.Results().Len() == 1 {
			if st, ok := sig.Results().At(0).Type().Underlying().(*types.Struct); ok {
				for i := 0; i < st.NumFields(); i++ {
					switch bt := st.Field(i).Type().Underlying().(type) {
					case *types.Basic:
						switch {
						case bt.Info()&types.IsString != 0:
							u.Init[t.pre+st.Field(i).Name()] = `""`
						case bt.Info()&types.IsBoolean != 0:
							u.Init[t.pre+st.Field(i).Name()] = "false"
						case bt.Info()&types.IsNumeric != 0:
							u.Init[t.pre+st.Field(i).Name()] = "0"
						}
					}
				}
			}
		}
		ast.Inspect(d.Body, func(n ast.Node) bool {
			kv, ok := n.(*ast.KeyValueExpr)
			if !ok {
				return true
			}
			id, ok := kv.Key.(*ast.Ident)
			if !ok {
				return true
			}
			if tv, ok := p.TypesInfo.Types[kv.Value]; ok && tv.Value != nil {
				if tv.Value.Kind() == constant.String {
					u.Init[t.pre+id.Name] = `"` + constant.StringVal(tv.Value) + `"`
				} else {
					u.Init[t.pre+id.Name] = tv.Value.ExactString()
				}
			}
			return true
		})
	}
	return u
}

// reachFrom: functions reachable from ctor by static calls, function-value
// references, and the methods of every module type the reached code builds.
func (u *OptUse) reachFrom(ctor *ssa.Function) map[*ssa.Function]bool {
	if r, ok := u.reach[ctor]; ok {
		return r
	}
	r := u.reachFromFiltered(ctor, nil)
	u.reach[ctor] = r
	return r
}

// reachFromFiltered: as reachFrom; typeOK (if non-nil) limits the types whose
// whole method set is added to those defined in accepted packages.
func (u *OptUse) reachFromFiltered(ctor *ssa.Function, typeOK func(pkgPath string) bool) map[*ssa.Function]bool {
	seen := map[*ssa.Function]bool{}
	seenT := map[types.Type]bool{}
	var work []*ssa.Function
	push := func(f *ssa.Function) {
		if f != nil && !seen[f] && IsModuleFunc(f) {
			seen[f] = true
			work = append(work, f)
		}
	}
	addType := func(t types.Type) {
		if p, ok := t.(*types.Pointer); ok {
			t = p.Elem()
		}
		n, ok := t.(*types.Named)
		if !ok || seenT[n] || n.Obj().Pkg() == nil || !strings.HasPrefix(n.Obj().Pkg().Path(), modPath) {
			return
		}
		if _, isStruct := n.Underlying().(*types.Struct); !isStruct {
			return
		}
		if typeOK != nil && !typeOK(n.Obj().Pkg().Path()) {
			return
		}
		// option structs themselves have no behaviour of interest
		if optStructPrefix(n) != "" || n.Obj().Name() == "TOptions" {
			return
		}
		seenT[n] = true
		for _, tt := range []types.Type{n, types.NewPointer(n)} {
			ms := u.c.Prog.MethodSets.MethodSet(tt)
			for i := 0; i < ms.Len(); i++ {
				push(u.c.Prog.MethodValue(ms.At(i)))
			}
		}
	}
	push(ctor)
	for len(work) > 0 {
		fn := work[len(work)-1]
		work = work[:len(work)-1]
		for _, an := range fn.AnonFuncs {
			push(an)
		}
		for _, b := range fn.Blocks {
			for _, in := range b.Instrs {
				if a, ok := in.(*ssa.Alloc); ok {
					addType(a.Type())
				}
				if mi, ok := in.(*ssa.MakeInterface); ok {
					addType(mi.X.Type())
				}
				if call, ok := in.(ssa.CallInstruction); ok {
					push(call.Common().StaticCallee())
				}
				for _, op := range in.Operands(nil) {
					if op == nil || *op == nil {
						continue
					}
					if f, ok := (*op).(*ssa.Function); ok {
						push(f)
					}
					if mc, ok := (*op).(*ssa.MakeClosure); ok {
						push(mc.Fn.(*ssa.Function))
					}
				}
			}
		}
	}
	return seen
}

// killedBy: ctor stores the field of its options parameter on every path to a
// successful return before anything could read the caller's value.
func (u *OptUse) killedBy(ctor *ssa.Function, path string) bool {
	if ctor == nil || ctor.Blocks == nil {
		return false
	}
	var stores []*ssa.BasicBlock
	for _, b := range ctor.Blocks {
		for _, in := range b.Instrs {
			st, ok := in.(*ssa.Store)
			if !ok {
				continue
			}
			fa, ok := st.Addr.(*ssa.FieldAddr)
			if !ok {
				continue
			}
			pre := optStructPrefix(fa.X.Type())
			if pre == "" {
				continue
			}
			s := fa.X.Type().Underlying().(*types.Pointer).Elem().Underlying().(*types.Struct)
			if pre+s.Field(fa.Field).Name() == path {
				if _, isParam := fa.X.(*ssa.Parameter); isParam {
					stores = append(stores, b)
				}
			}
		}
	}
	if len(stores) == 0 {
		return false
	}
	for _, b := range ctor.Blocks {
		ret, ok := b.Instrs[len(b.Instrs)-1].(*ssa.Return)
		if !ok || !ReturnsNilError(ret) {
			continue
		}
		dom := false
		for _, sb := range stores {
			if sb.Dominates(b) {
				dom = true
			}
		}
		if !dom {
			return false
		}
	}
	return true
}

// Relevant: can the value of option field `path` influence the reader/writer
// built by ctor (or any format-independent consumer)? Returns a witness.
func (u *OptUse) Relevant(path string, ctor *ssa.Function) (bool, string) {
	if ctor != nil && u.killedBy(ctor, path) {
		return false, SSAName(ctor) + " overwrites it"
	}
	var reach map[*ssa.Function]bool
	if ctor != nil {
		reach = u.reachFrom(ctor)
	}
	for fn := range u.loads[path] {
		pkg := ""
		if fn.Pkg != nil {
			pkg = fn.Pkg.Pkg.Path()
		} else if fn.Parent() != nil && fn.Parent().Pkg != nil {
			pkg = fn.Parent().Pkg.Pkg.Path()
		}
		switch {
		case strings.HasSuffix(pkg, "/pkg/input") || strings.HasSuffix(pkg, "/pkg/output"):
			if reach[fn] {
				return true, "read by " + SSAName(fn)
			}
		case strings.HasSuffix(pkg, "/pkg/cli"):
			// flag parsers and the finalisers are modelled by the caller
			name := SSAName(fn)
			if strings.Contains(name, "Finalize") || strings.Contains(name, "init") || fn.Parent() != nil {
				continue
			}
			return true, "read by " + name
		default:
			return true, "read by " + SSAName(fn)
		}
	}
	return false, "no consumer of " + path + " for this format"
}

var wasSpecifiedBase = map[string]string{
	"ReaderOptions.ifsWasSpecified":            "ReaderOptions.IFS",
	"ReaderOptions.ipsWasSpecified":            "ReaderOptions.IPS",
	"ReaderOptions.irsWasSpecified":            "ReaderOptions.IRS",
	"ReaderOptions.allowRepeatIFSWasSpecified": "ReaderOptions.AllowRepeatIFS",
	"WriterOptions.ofsWasSpecified":            "WriterOptions.OFS",
	"WriterOptions.opsWasSpecified":            "WriterOptions.OPS",
	"WriterOptions.orsWasSpecified":            "WriterOptions.ORS",
}

var _ = token.NoPos
