package main

// C16 — zone separation: the GMT functions never consult the process time
// zone, the *_local ones always do (or use their zone argument), one writer of
// the process zone; the sec2gmt verbs wrap the functions.

import (
	"fmt"
	"go/constant"
	"go/token"
	"go/types"
	"regexp"
	"sort"
	"strings"

	"golang.org/x/tools/go/ssa"
)

func init() { register("C16", true, runC16) }

type zoneHit struct {
	What   string // process | load | in
	Pos    token.Pos
	Origin int // for "load": index of the (root) parameter the zone name derives from, -1 unknown
	Via    string
}

type zoneAn struct {
	c    *Ctx
	memo map[string][]zoneHit
	busy map[string]bool
}

// constArg renders an argument that is a known constant bool / nil, or ""
func constArg(v ssa.Value, env map[int]string, fn *ssa.Function) string {
	switch x := v.(type) {
	case *ssa.Const:
		if x.Value == nil {
			return "nil"
		}
		if b, ok := constBool(x); ok {
			if b {
				return "true"
			}
			return "false"
		}
	case *ssa.Parameter:
		for i, p := range fn.Params {
			if p == x {
				return env[i]
			}
		}
	case *ssa.Extract:
		// location, err := time.LoadLocation(name): non-nil whenever err is nil,
		// and every caller returns on err != nil before using it
		if call, ok := x.Tuple.(*ssa.Call); ok && x.Index == 0 && CalleeName(&call.Call) == "time.LoadLocation" {
			return "nonnil"
		}
	}
	return ""
}

// paramOrigin: the parameter a value is derived from through method calls on
// it, extracts, conversions and phis (…GetStringValueOrError(p), p.String()).
func paramOrigin(v ssa.Value, fn *ssa.Function, depth int) int {
	if depth > 8 {
		return -1
	}
	switch x := v.(type) {
	case *ssa.Parameter:
		for i, p := range fn.Params {
			if p == x {
				return i
			}
		}
	case *ssa.Extract:
		return paramOrigin(x.Tuple, fn, depth+1)
	case *ssa.Call:
		if len(x.Call.Args) >= 1 && !x.Call.IsInvoke() {
			return paramOrigin(x.Call.Args[0], fn, depth+1)
		}
	case *ssa.ChangeType:
		return paramOrigin(x.X, fn, depth+1)
	case *ssa.Convert:
		return paramOrigin(x.X, fn, depth+1)
	case *ssa.Phi:
		o := -2
		for _, e := range x.Edges {
			eo := paramOrigin(e, fn, depth+1)
			if o == -2 {
				o = eo
			} else if o != eo {
				return -1
			}
		}
		if o >= 0 {
			return o
		}
	}
	return -1
}

func isUTCLoad(v ssa.Value) bool {
	if ld, ok := v.(*ssa.UnOp); ok && ld.Op == token.MUL {
		if g, ok := ld.X.(*ssa.Global); ok && g.Pkg != nil && g.Pkg.Pkg.Path() == "time" && g.Name() == "UTC" {
			return true
		}
	}
	return false
}

// hits computes the zone-dependent operations fn can reach when called with
// the given constant arguments (branches on known parameters are pruned).
func (z *zoneAn) hits(fn *ssa.Function, env map[int]string, depth int) []zoneHit {
	if fn == nil || fn.Blocks == nil || depth > 8 {
		return nil
	}
	var ek []string
	for i := range fn.Params {
		if env[i] != "" {
			ek = append(ek, fmt.Sprintf("%d=%s", i, env[i]))
		}
	}
	key := SSAName(fn) + "|" + strings.Join(ek, ",")
	if h, ok := z.memo[key]; ok {
		return h
	}
	if z.busy[key] {
		return nil
	}
	z.busy[key] = true
	defer delete(z.busy, key)
	var out []zoneHit
	live := map[*ssa.BasicBlock]bool{}
	work := []*ssa.BasicBlock{fn.Blocks[0]}
	for len(work) > 0 {
		b := work[len(work)-1]
		work = work[:len(work)-1]
		if live[b] {
			continue
		}
		live[b] = true
		if iff, ok := b.Instrs[len(b.Instrs)-1].(*ssa.If); ok {
			cond, pol := stripNot(iff.Cond, true)
			known := ""
			switch x := cond.(type) {
			case *ssa.Parameter:
				known = constArg(x, env, fn)
			case *ssa.BinOp:
				if x.Op == token.EQL || x.Op == token.NEQ {
					l, r := constArg(x.X, env, fn), constArg(x.Y, env, fn)
					if _, isP := x.X.(*ssa.Parameter); isP && (l == "nil" || l == "nonnil") && r == "nil" {
						eq := l == "nil"
						if x.Op == token.NEQ {
							eq = !eq
						}
						if eq {
							known = "true"
						} else {
							known = "false"
						}
					}
				}
			}
			if known == "true" || known == "false" {
				t := known == "true"
				if !pol {
					t = !t
				}
				if t {
					work = append(work, b.Succs[0])
				} else {
					work = append(work, b.Succs[1])
				}
				continue
			}
		}
		work = append(work, b.Succs...)
	}
	for _, b := range fn.Blocks {
		if !live[b] {
			continue
		}
		for _, in := range b.Instrs {
			switch x := in.(type) {
			case *ssa.UnOp:
				if x.Op == token.MUL {
					if g, ok := x.X.(*ssa.Global); ok && g.Pkg != nil && g.Pkg.Pkg.Path() == "time" && g.Name() == "Local" {
						out = append(out, zoneHit{"process", x.Pos(), -1, "time.Local"})
					}
				}
			case ssa.CallInstruction:
				com := x.Common()
				name := CalleeName(com)
				switch name {
				case "time.Time.Local":
					out = append(out, zoneHit{"process", x.Pos(), -1, name})
				case "os.Getenv", "os.LookupEnv":
					if s, ok := constString(com.Args[0]); !ok || s == "TZ" {
						out = append(out, zoneHit{"process", x.Pos(), -1, name + "(TZ)"})
					}
				case "time.LoadLocation":
					out = append(out, zoneHit{"load", x.Pos(), paramOrigin(com.Args[0], fn, 0), name})
				case "time.Time.In":
					if !isUTCLoad(com.Args[1]) {
						if constArg(com.Args[1], env, fn) == "nil" {
							continue
						}
						out = append(out, zoneHit{"in", x.Pos(), -1, name})
					}
				case "time.ParseInLocation":
					if !isUTCLoad(com.Args[2]) {
						out = append(out, zoneHit{"in", x.Pos(), -1, name})
					}
				}
				callee := com.StaticCallee()
				if callee == nil || !IsModuleFunc(callee) || callee.Blocks == nil {
					continue
				}
				cenv := map[int]string{}
				for i, a := range com.Args {
					if s := constArg(a, env, fn); s != "" {
						cenv[i] = s
					}
				}
				for _, h := range z.hits(callee, cenv, depth+1) {
					h2 := h
					if h.What == "load" && h.Origin >= 0 && h.Origin < len(com.Args) {
						h2.Origin = paramOrigin(com.Args[h.Origin], fn, 0)
					}
					h2.Via = SSAName(callee) + " → " + h.Via
					out = append(out, h2)
				}
			}
		}
	}
	z.memo[key] = out
	return out
}

func hitList(c *Ctx, hs []zoneHit, what string) []string {
	var out []string
	for _, h := range hs {
		if what == "" || h.What == what {
			out = append(out, fmt.Sprintf("%s at %s", h.Via, c.Rel(h.Pos)))
		}
	}
	return uniqStrings(out)
}

var slotArity = map[string]int{"zaryFunc": 0, "unaryFunc": 1, "binaryFunc": 2, "ternaryFunc": 3}

func runC16(c *Ctx, r *Report) {
	r.Explanation = "Calendar arithmetic, formatting and parsing of instants, DST behaviour and d/h/m/s splitting are delegated to Go's time package and to value-level code, and are not decided. Decided is the zone-separation clause — '--tz / TZ / ENV[\"TZ\"] select the zone of the *_local functions without affecting the GMT ones' — and the wrapper clause: for every time function of the built-in table whose name does not contain 'local', no operation that depends on the process zone (time.Local, Time.Local(), os.Getenv(\"TZ\"), time.LoadLocation, Time.In / ParseInLocation with anything but time.UTC) is reachable, where each callee is analysed under the constant boolean / nil arguments its caller passes (the doLocal=false layers); every *_local function reaches the process zone when it has no zone argument and, when it has one, loads exactly that argument and does not consult the process zone; time.Local has one writer, and every place that sets TZ is followed by it; the functions documented to leave non-numbers as they are do so in every arity; the sec2gmt / sec2gmtdate verbs store a result only for numeric values and reach the functions' routine."
	r.NotDecided = "which instant a text denotes and vice versa; fractional-second rounding; strftime/strptime format coverage; dhms splitting; DST gaps and overlaps."
	reg, msg := c.BIFRegistry()
	if msg != "" {
		r.Undecided("R16.0", "registry", "", msg)
		return
	}
	z := &zoneAn{c: c, memo: map[string][]zoneHit{}, busy: map[string]bool{}}
	r.Rule("R16.1", "GMT family never consults the process zone: for every time function whose name does not contain 'local', under the constant arguments passed down the helper layers, no process-zone read, zone load or conversion to a non-UTC location is reachable")
	r.Rule("R16.2", "local family goes through the zone: a *_local / localtime function without a zone argument reaches a process-zone read; the variant with a zone argument loads exactly that argument (value flow from the last parameter to time.LoadLocation) and reaches no process-zone read")
	nG, nL := 0, 0
	for _, e := range reg {
		if e.Class != "time" {
			continue
		}
		isLocal := strings.Contains(e.Name, "local")
		maxAr := -1
		for slot := range e.Funcs {
			if a, ok := slotArity[slot]; ok && a > maxAr {
				maxAr = a
			}
		}
		for _, slot := range sortedFuncSlots(e) {
			fn := c.SSAFunc(e.Funcs[slot])
			if fn == nil {
				r.Undecided("R16.1", e.Name+" ("+slot+")", c.Rel(e.Pos), "no SSA for the implementation")
				continue
			}
			hs := z.hits(fn, map[int]string{}, 0)
			key := fmt.Sprintf("%s (%s)", e.Name, slot)
			if !isLocal {
				nG++
				r.Check(len(hs) == 0, "R16.1", key, c.Rel(fn.Pos()), "no zone-dependent operation reachable",
					fmt.Sprintf("%s, a GMT/zone-free function, can reach %v: its result depends on --tz / TZ", e.Name, hitList(c, hs, "")))
				continue
			}
			nL++
			hasZoneArg := len(e.Funcs) > 1 && slotArity[slot] == maxAr
			proc := hitList(c, hs, "process")
			if !hasZoneArg {
				r.Check(len(proc) > 0, "R16.2", key, c.Rel(fn.Pos()), strings.Join(proc, "; "),
					fmt.Sprintf("%s without a zone argument reaches no read of the process zone: --tz / TZ do not affect it (zone operations reached: %v)", e.Name, hitList(c, hs, "")))
				continue
			}
			last := len(fn.Params) - 1
			okLoad := false
			var loads []string
			for _, h := range hs {
				if h.What == "load" {
					loads = append(loads, fmt.Sprintf("%s (from parameter %d)", h.Via, h.Origin))
					if h.Origin == last {
						okLoad = true
					}
				}
			}
			r.Check(okLoad && len(proc) == 0, "R16.2", key, c.Rel(fn.Pos()), "loads its zone argument; no process-zone read",
				fmt.Sprintf("%s with a zone argument must load exactly that argument (parameter %d) and not consult the process zone; loads: %v, process-zone reads: %v", e.Name, last, loads, proc))
		}
	}
	r.Floor("R16.1", "GMT-family function slots", nG, 25)
	r.Floor("R16.2", "local-family function slots", nL, 25)

	c16Writers(c, r)
	c16NonNumbers(c, r, reg)
	c16Verbs(c, r)
	c16FractionTable(c, r)
	c16SignRestored(c, r)
}

// ---- R16.3 ------------------------------------------------------------------------
func c16Writers(c *Ctx, r *Report) {
	r.Rule("R16.3", "one writer of the process zone: time.Local is stored only in lib.SetTZFromEnv and no module-level *time.Location variable keeps a second copy of the zone in effect; an os.Setenv whose name can be TZ is followed by SetTZFromEnv (immediately, under the name test, in the ENV[...] assignment; for the --tz flag, in the command-line parser after all flag parsing and before any successful return)")
	set := c.SSAFunc(c.LookupFunc("pkg/lib", "SetTZFromEnv"))
	if set == nil {
		r.Undecided("R16.3", "SetTZFromEnv", "", "not found")
		return
	}
	nStores, nSetenv, nCopies := 0, 0, 0
	for fn := range c.AllFunctions() {
		if !IsModuleFunc(fn) || fn.Blocks == nil {
			continue
		}
		if fn.Pkg != nil && strings.Contains(fn.Pkg.Pkg.Path(), "/pkg/terminals/regtest") {
			continue // the regression-test driver, not the data path
		}
		for _, b := range fn.Blocks {
			for _, in := range b.Instrs {
				switch x := in.(type) {
				case *ssa.Store:
					// a second copy of "the zone in effect": any module-level *time.Location
					if g, ok := x.Addr.(*ssa.Global); ok && g.Pkg != nil && strings.HasPrefix(g.Pkg.Pkg.Path(), modPath) {
						if pt, ok := g.Type().(*types.Pointer); ok && pt.Elem().String() == "*time.Location" {
							nCopies++
							r.Fail("R16.3", SSAName(fn)+" stores the zone in "+g.Name(), c.Rel(x.Pos()), SSAName(fn)+" keeps a *time.Location in the package-level variable "+g.Name()+": a zone remembered there does not follow later changes of TZ (ENV[\"TZ\"]=… per record), so functions disagree about the zone in effect")
						}
					}
					if g, ok := x.Addr.(*ssa.Global); ok && g.Pkg != nil && g.Pkg.Pkg.Path() == "time" && g.Name() == "Local" {
						nStores++
						r.Check(fn == set, "R16.3", SSAName(fn)+" stores time.Local", c.Rel(x.Pos()), "the one writer", SSAName(fn)+" assigns time.Local; only lib.SetTZFromEnv may, so that TZ and the zone in use cannot disagree")
					}
				case *ssa.Call:
					if CalleeName(&x.Call) != "os.Setenv" {
						continue
					}
					name, isConst := constString(x.Call.Args[0])
					if isConst && name != "TZ" {
						continue
					}
					nSetenv++
					owner := fn
					for owner.Parent() != nil {
						owner = owner.Parent()
					}
					if isConst {
						// the --tz flag closure: SetTZFromEnv must follow all flag parsing in the CLI parser
						ok, why := tzAppliedAfterFlags(c, set)
						r.Check(ok, "R16.3", SSAName(fn)+" sets TZ", c.Rel(x.Pos()), why, "os.Setenv(\"TZ\", …) in "+SSAName(fn)+": "+why)
						continue
					}
					// dynamic name: a call of SetTZFromEnv guarded by name == "TZ" must follow in the same function
					found := false
					for _, b2 := range fn.Blocks {
						for _, in2 := range b2.Instrs {
							c2, ok := in2.(*ssa.Call)
							if !ok || c2.Call.StaticCallee() != set {
								continue
							}
							if !b.Dominates(b2) {
								continue
							}
							for _, g := range GuardsAt(b2) {
								if bo, ok := g.Cond.(*ssa.BinOp); ok && g.Polarity && bo.Op == token.EQL {
									if s, ok := constString(bo.Y); ok && s == "TZ" {
										found = true
									}
								}
							}
						}
					}
					r.Check(found, "R16.3", SSAName(fn)+" sets a variable that can be TZ", c.Rel(x.Pos()), "followed by SetTZFromEnv under name == \"TZ\"",
						SSAName(fn)+" calls os.Setenv with a run-time name and does not call lib.SetTZFromEnv when the name is TZ: ENV[\"TZ\"]=… would not change the zone of the *_local functions")
				}
			}
		}
	}
	if nCopies == 0 {
		r.OK("R16.3", "no second copy of the zone in effect", "", "no module-level *time.Location variable is stored")
	}
	r.Floor("R16.3", "stores of time.Local", nStores, 1)
	r.Floor("R16.3", "os.Setenv sites that can set TZ", nSetenv, 2)
}

// tzAppliedAfterFlags: in the command-line parser SetTZFromEnv is called in a
// block that dominates every successful return and from which no flag-table
// parse is reachable any more.
func tzAppliedAfterFlags(c *Ctx, set *ssa.Function) (bool, string) {
	fn := c.SSAFunc(c.LookupFunc("pkg/climain", "parseCommandLinePassTwo"))
	if fn == nil {
		return false, "parseCommandLinePassTwo not found"
	}
	var setBlock *ssa.BasicBlock
	for _, b := range fn.Blocks {
		for _, in := range b.Instrs {
			if call, ok := in.(*ssa.Call); ok && call.Call.StaticCallee() == set {
				setBlock = b
			}
		}
	}
	if setBlock == nil {
		return false, "parseCommandLinePassTwo does not call lib.SetTZFromEnv: --tz would not take effect"
	}
	for _, b := range fn.Blocks {
		if ret, ok := b.Instrs[len(b.Instrs)-1].(*ssa.Return); ok && ReturnsNilError(ret) && !setBlock.Dominates(b) {
			return false, "a successful return of parseCommandLinePassTwo is not preceded by SetTZFromEnv"
		}
	}
	// nothing that parses flags after it
	seen := map[*ssa.BasicBlock]bool{}
	work := append([]*ssa.BasicBlock{}, setBlock.Succs...)
	for len(work) > 0 {
		b := work[len(work)-1]
		work = work[:len(work)-1]
		if seen[b] {
			continue
		}
		seen[b] = true
		for _, in := range b.Instrs {
			if call, ok := in.(ssa.CallInstruction); ok {
				n := CalleeName(call.Common())
				if strings.HasSuffix(n, "FlagTable).Parse") || strings.Contains(n, "loadMlrrc") || strings.Contains(n, "parseCommandLinePassOne") {
					return false, "flags are still parsed after SetTZFromEnv (" + n + "): a --tz seen there is not applied"
				}
			}
		}
		work = append(work, b.Succs...)
	}
	return true, "parseCommandLinePassTwo calls SetTZFromEnv after all flag parsing and before every successful return"
}

// ---- R16.4a non-numbers as-is ---------------------------------------------------------
func c16NonNumbers(c *Ctx, r *Report, reg []*BIFEntry) {
	r.Rule("R16.4a", "documented pass-through holds in every arity: a time function whose help says 'Leaves non-numbers as-is' returns its first argument itself when that argument is a string or empty, whatever the number of arguments")
	rs := NewRetSum(c)
	ke := NewKindEval(c, rs)
	n := 0
	for _, e := range reg {
		if e.Class != "time" || !strings.Contains(e.Help, "Leaves non-numbers as-is") {
			continue
		}
		for _, slot := range sortedFuncSlots(e) {
			fn := c.SSAFunc(e.Funcs[slot])
			if fn == nil {
				continue
			}
			for _, k := range []int{K_STRING, K_VOID} {
				args := make([]AV, len(fn.Params))
				for i := range args {
					args[i] = AV{T: 'm', MK: K_INT}
					if i == len(args)-1 && i > 0 && strings.Contains(e.Name, "local") && len(e.Funcs) > 1 && slotArity[slot] == maxArity(e) {
						args[i] = AV{T: 'm', MK: K_STRING}
					}
				}
				args[0] = AV{T: 'm', MK: k}
				res := ke.Eval(fn, args)
				key := fmt.Sprintf("%s (%s) on %s", e.Name, slot, kindNames[k])
				n++
				if res.Bailed || len(res.Results) == 0 {
					r.Undecided("R16.4a", key, c.Rel(fn.Pos()), "kind evaluation gave up")
					continue
				}
				t := res.Results[0].Toks
				if len(t) == 0 {
					r.Undecided("R16.4a", key, c.Rel(fn.Pos()), "the kind evaluator cannot name what is returned for this argument (not the argument itself as far as it can see)")
					continue
				}
				r.Check(t.SubsetOf("ARG1"), "R16.4a", key, c.Rel(fn.Pos()), t.String(),
					fmt.Sprintf("%s is documented to leave non-numbers as they are, but with this number of arguments a %s first argument gives %s: the arities of one function disagree, and the verb of the same name (which leaves such values alone) is not the function applied per field", e.Name, kindNames[k], t))
			}
		}
	}
	r.Floor("R16.4a", "pass-through evaluations", n, 20)
}

func maxArity(e *BIFEntry) int {
	m := -1
	for slot := range e.Funcs {
		if a, ok := slotArity[slot]; ok && a > m {
			m = a
		}
	}
	return m
}

// ---- R16.4 verbs --------------------------------------------------------------------
func c16Verbs(c *Ctx, r *Report) {
	r.Rule("R16.4", "wrapper verbs: sec2gmt stores a new value only under a successful numeric extraction and formats through lib.Sec2GMT (the routine of the sec2gmt function, R15.2); sec2gmtdate stores BIF_sec2gmtdate(value), whose result for a non-numeric argument is the argument itself")
	// sec2gmt verb: the PutReference of the new value is control-dependent on the ok of GetNumericToFloatValue
	tr := c.SSAFunc(c.LookupMethod("pkg/transformers", "TransformerSec2GMT", "Transform"))
	if tr == nil {
		r.Undecided("R16.4", "sec2gmt verb", "", "Transform not found")
	} else {
		n := 0
		for _, b := range tr.Blocks {
			for _, in := range b.Instrs {
				call, ok := in.(*ssa.Call)
				if !ok || !strings.HasPrefix(shortCallee(&call.Call), "Put") {
					continue
				}
				n++
				guarded := false
				for _, g := range GuardsAt(b) {
					if ex, ok := g.Cond.(*ssa.Extract); ok && g.Polarity {
						if gc, ok := ex.Tuple.(*ssa.Call); ok && strings.Contains(CalleeName(&gc.Call), "GetNumericToFloatValue") {
							guarded = true
						}
					}
				}
				r.Check(guarded, "R16.4", fmt.Sprintf("sec2gmt verb store #%d", n), c.Rel(call.Pos()), "under numeric ok", "the sec2gmt verb stores a value into the record outside the 'is numeric' test: non-numeric values are not left unchanged")
			}
		}
		r.Floor("R16.4", "sec2gmt verb stores", n, 1)
	}
	rs := NewRetSum(c)
	ke := NewKindEval(c, rs)
	bf := c.SSAFunc(c.LookupFunc("pkg/bifs", "BIF_sec2gmtdate"))
	if bf == nil {
		r.Undecided("R16.4", "BIF_sec2gmtdate", "", "not found")
		return
	}
	for _, k := range []int{K_STRING, K_VOID, K_BOOL, K_MAP} {
		res := ke.Eval(bf, []AV{{T: 'm', MK: k}})
		key := "sec2gmtdate on " + kindNames[k]
		if res.Bailed || len(res.Results) == 0 {
			r.Undecided("R16.4", key, c.Rel(bf.Pos()), "kind evaluation gave up")
			continue
		}
		t := res.Results[0].Toks
		r.Check(t.SubsetOf("ARG1") && len(t) > 0, "R16.4", key, c.Rel(bf.Pos()), t.String(), fmt.Sprintf("BIF_sec2gmtdate gives %s for a %s argument; the sec2gmtdate verb stores that, so non-numeric fields are not left unchanged", t, kindNames[k]))
	}
}

var _ = sort.Strings
var _ types.Type

// c16FractionTable (R16.6): the %1S … %9S extensions of strftime are a table
// in the source — for k decimal places the nanoseconds are divided by
// 10^(9-k) and printed with width k — read from the closures as written.
func c16FractionTable(c *Ctx, r *Report) {
	r.Rule("R16.6", "the fractional-second table of strftime is consistent: each appender registered for a digit specification 'k' (%1S … %9S) divides the nanoseconds by 10^(9-k) and prints the quotient zero-padded to width k (both read as constants from the closure registered under 'k'): width + log10(divisor) = 9 and width = k")
	p := c.Pkg("pkg/bifs")
	if p == nil {
		r.Undecided("R16.6", "pkg/bifs", "", "package not loaded")
		return
	}
	n := 0
	for _, fn := range c.ModuleFunctions() {
		if fn.Blocks == nil || fn.Pkg == nil || fn.Pkg.Pkg != p.Types {
			continue
		}
		// ss.Set('k', appender) calls
		for _, b := range fn.Blocks {
			for _, in := range b.Instrs {
				call, ok := in.(*ssa.Call)
				if !ok || !strings.HasSuffix(CalleeName(&call.Call), "SpecificationSet.Set") && !(call.Call.IsInvoke() && call.Call.Method.Name() == "Set") {
					continue
				}
				args := call.Call.Args
				if len(args) < 2 {
					continue
				}
				kc, ok := args[len(args)-2].(*ssa.Const)
				if !ok || kc.Value == nil {
					continue
				}
				kv, ok := constant.Int64Val(kc.Value)
				if !ok || kv < '1' || kv > '9' {
					continue
				}
				k := int(kv - '0')
				// the closure behind the appender value
				var cl *ssa.Function
				var find func(v ssa.Value, depth int)
				find = func(v ssa.Value, depth int) {
					if depth > 5 || cl != nil {
						return
					}
					switch x := v.(type) {
					case *ssa.MakeClosure:
						cl, _ = x.Fn.(*ssa.Function)
					case *ssa.Function:
						cl = x
					case *ssa.Call:
						for _, a := range x.Call.Args {
							find(a, depth+1)
						}
					case *ssa.MakeInterface:
						find(x.X, depth+1)
					case *ssa.ChangeType:
						find(x.X, depth+1)
					}
				}
				find(args[len(args)-1], 0)
				key := fmt.Sprintf("%%%dS", k)
				if cl == nil || cl.Blocks == nil {
					r.Undecided("R16.6", key, c.Rel(call.Pos()), "the appender registered for this specification could not be resolved to a function")
					continue
				}
				n++
				width, div := -1, int64(-1)
				for _, cb := range cl.Blocks {
					for _, cin := range cb.Instrs {
						hc, ok := cin.(*ssa.Call)
						if !ok {
							continue
						}
						for _, a := range hc.Call.Args {
							kk, ok := a.(*ssa.Const)
							if !ok || kk.Value == nil {
								continue
							}
							if kk.Value.Kind() == constant.String {
								f := constant.StringVal(kk.Value)
								if m := regexp.MustCompile(`^%0(\d)d$`).FindStringSubmatch(f); m != nil {
									width = int(m[1][0] - '0')
								}
							} else if kk.Value.Kind() == constant.Int {
								if v, ok := constant.Int64Val(kk.Value); ok && v >= 1 {
									div = v
								}
							}
						}
					}
				}
				pow := int64(1)
				for i := 0; i < 9-k; i++ {
					pow *= 10
				}
				if width < 0 || div < 0 {
					r.Undecided("R16.6", key, c.Rel(cl.Pos()), "the width or the divisor of this appender is not a constant in its closure: the table cannot be read")
					continue
				}
				r.Check(width == k && div == pow, "R16.6", key, c.Rel(cl.Pos()), fmt.Sprintf("width %d, divisor %d", width, div),
					fmt.Sprintf("the appender for %s prints width %d after dividing the nanoseconds by %d; %d decimal places need width %d and divisor %d", key, width, div, k, k, pow))
			}
		}
	}
	r.Floor("R16.6", "fractional-second specifications", n, 9)
}
