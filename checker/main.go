package main

// mlrlint: repository-specific static checker for the Miller properties
// C01..C20 (see /verif/DESIGN.md). Usage:
//   mlrlint -prop C08 -tier quick -repo /repo -verif /verif
//   mlrlint -explain evidence/C08.violations.json

import (
	"encoding/json"
	"flag"
	"fmt"
	"os"
	"runtime/debug"
	"sort"
)

type propDef struct {
	needSSA bool
	run     func(c *Ctx, r *Report)
}

var props = map[string]propDef{}

func register(id string, needSSA bool, run func(c *Ctx, r *Report)) {
	props[id] = propDef{needSSA, run}
}

func main() {
	prop := flag.String("prop", "", "property id (C01..C20)")
	tier := flag.String("tier", "quick", "quick|thorough")
	repo := flag.String("repo", "/repo", "repository root")
	verif := flag.String("verif", "/verif", "verif root (evidence, known findings)")
	explain := flag.String("explain", "", "print a violations file")
	list := flag.Bool("list", false, "list properties")
	child := flag.Bool("child", false, "internal: run one variant and print a CHILD-RESULT line")
	patch := flag.String("patch", "", "internal: unified diff applied as an in-memory overlay (child mode)")
	flag.Parse()
	// /repo needs go >= 1.25 while the sandbox's default go is older: put the
	// pre-installed newer toolchain first on PATH for the `go list` that
	// go/packages runs.
	if st, err := os.Stat("/opt/veriftools/go1.26.8/bin"); err == nil && st.IsDir() {
		os.Setenv("PATH", "/opt/veriftools/go1.26.8/bin:"+os.Getenv("PATH"))
	}
	os.Setenv("GOTOOLCHAIN", "local")
	os.Unsetenv("GOWORK")

	if *list {
		ids := []string{}
		for k := range props {
			ids = append(ids, k)
		}
		sort.Strings(ids)
		for _, k := range ids {
			fmt.Println(k)
		}
		return
	}
	if *explain != "" {
		b, err := os.ReadFile(*explain)
		if err != nil {
			fmt.Println(err)
			os.Exit(2)
		}
		var v struct {
			Property   string       `json:"property"`
			Violations []Obligation `json:"violations"`
		}
		if err := json.Unmarshal(b, &v); err != nil {
			fmt.Println(err)
			os.Exit(2)
		}
		for _, o := range v.Violations {
			fmt.Printf("%s %s %s [%s]\n    at %s\n    %s\n", v.Property, o.Rule, o.Key, o.Status, o.Pos, o.Reason)
		}
		return
	}
	def, ok := props[*prop]
	if !ok {
		fmt.Printf("unknown property %q\n", *prop)
		os.Exit(2)
	}
	if *child {
		os.Exit(runChild(*prop, *repo, *verif, *patch))
	}
	r := NewReport(*prop, *tier)
	code := func() (code int) {
		var c *Ctx
		defer func() {
			if e := recover(); e != nil {
				// a panic of the analyser fails the check, never passes
				r.Undecided("R00", "analyzer-panic", "", fmt.Sprintf("%v\n%s", e, debug.Stack()))
				code = r.Finish(*verif, map[string]any{})
			}
		}()
		var err error
		c, err = Load(*repo, *tier, def.needSSA, nil)
		if err != nil {
			r.Undecided("R00", "load", "", err.Error())
			return r.Finish(*verif, map[string]any{})
		}
		def.run(c, r)
		if *tier == "thorough" {
			runThorough(*prop, *repo, *verif, r)
		}
		info := map[string]any{
			"packages_loaded":  len(c.Pkgs),
			"functions_loaded": c.nFuncs,
			"parser_overlay":   c.OverlayOn,
		}
		if c.allFuncs != nil {
			info["ssa_functions"] = len(c.allFuncs)
		}
		return r.Finish(*verif, info)
	}()
	os.Exit(code)
}
