package main

// R16.7: a sign that was taken off is put back. Where a function tests a
// number for being negative, negates it on that branch and records which
// branch was taken in a companion value (sign := "" / "-", 1 / -1), every
// non-error result computed from the magnitude depends on the companion —
// otherwise x and -x are rendered alike on that path.

import (
	"fmt"
	"go/token"
	"strings"

	"golang.org/x/tools/go/ssa"
)

// dependsOnValue: data dependence of v on target, through operands, call
// arguments, variadic argument arrays and local cells (stores that can reach
// the read).
func dependsOnValue(v, target ssa.Value, at *ssa.BasicBlock, seen map[ssa.Value]bool, depth int) bool {
	if v == target {
		return true
	}
	if v == nil || depth > 40 || seen[v] {
		return false
	}
	seen[v] = true
	storesInto := func(al ssa.Value, readBlock *ssa.BasicBlock) bool {
		refs := al.Referrers()
		if refs == nil {
			return false
		}
		for _, ref := range *refs {
			switch x := ref.(type) {
			case *ssa.Store:
				if x.Addr == al && (readBlock == nil || x.Block() == readBlock || blockReaches(x.Block(), readBlock)) {
					if dependsOnValue(x.Val, target, x.Block(), seen, depth+1) {
						return true
					}
				}
			case *ssa.IndexAddr:
				if x.X == al && x.Referrers() != nil {
					for _, r2 := range *x.Referrers() {
						if st, ok := r2.(*ssa.Store); ok && st.Addr == ssa.Value(x) {
							if dependsOnValue(st.Val, target, st.Block(), seen, depth+1) {
								return true
							}
						}
					}
				}
			}
		}
		return false
	}
	switch x := v.(type) {
	case *ssa.Phi:
		for _, e := range x.Edges {
			if dependsOnValue(e, target, at, seen, depth+1) {
				return true
			}
		}
	case *ssa.UnOp:
		if x.Op == token.MUL {
			if al, ok := x.X.(*ssa.Alloc); ok {
				return storesInto(al, x.Block())
			}
		}
		return dependsOnValue(x.X, target, at, seen, depth+1)
	case *ssa.Slice:
		if al, ok := x.X.(*ssa.Alloc); ok {
			return storesInto(al, nil)
		}
		return dependsOnValue(x.X, target, at, seen, depth+1)
	case ssa.Instruction:
		for _, op := range x.Operands(nil) {
			if *op != nil && dependsOnValue(*op, target, at, seen, depth+1) {
				return true
			}
		}
	}
	return false
}

func c16SignRestored(c *Ctx, r *Report) {
	r.Rule("R16.7", "a sign taken off is put back: where a function of pkg/bifs or pkg/lib tests a number with x < 0, negates it on that branch and records the branch in a companion value (two different constants merged after the test), every result returned after the merge that is not an error value depends on the companion — a path that formats the magnitude alone renders x and -x alike (sec2hms, fsec2hms, fsec2dhms)")
	n := 0
	for _, fn := range c.ModuleFunctions() {
		if fn.Pkg == nil || fn.Blocks == nil || fn.Signature.Results().Len() == 0 {
			continue
		}
		pp := fn.Pkg.Pkg.Path()
		if !(strings.HasSuffix(pp, "/pkg/bifs") || strings.HasSuffix(pp, "/pkg/lib")) {
			continue
		}
		for _, b := range fn.Blocks {
			if len(b.Instrs) == 0 {
				continue
			}
			iff, ok := b.Instrs[len(b.Instrs)-1].(*ssa.If)
			if !ok {
				continue
			}
			cmp, ok := iff.Cond.(*ssa.BinOp)
			if !ok || cmp.Op != token.LSS {
				continue
			}
			if k, ok := cmp.Y.(*ssa.Const); !ok || k.Value == nil || !(k.Value.String() == "0" || k.Float64() == 0) {
				continue
			}
			x := cmp.X
			neg := b.Succs[0]
			if len(neg.Succs) != 1 {
				continue
			}
			negated := false
			for _, in := range neg.Instrs {
				if u, ok := in.(*ssa.UnOp); ok && u.Op == token.SUB && (u.X == x || sameValue(u.X, x)) {
					negated = true
				}
			}
			if !negated {
				continue
			}
			merge := neg.Succs[0]
			// the companion: a phi of two different constants, one per side
			var sign *ssa.Phi
			for _, in := range merge.Instrs {
				ph, ok := in.(*ssa.Phi)
				if !ok {
					break
				}
				if len(ph.Edges) != 2 {
					continue
				}
				k0, ok0 := ph.Edges[0].(*ssa.Const)
				k1, ok1 := ph.Edges[1].(*ssa.Const)
				if ok0 && ok1 && k0.Value != nil && k1.Value != nil && k0.Value.ExactString() != k1.Value.ExactString() {
					sign = ph
				}
			}
			if sign == nil {
				continue
			}
			k := 0
			for _, rb := range fn.Blocks {
				if !(rb == merge || blockReaches(merge, rb)) || len(rb.Instrs) == 0 {
					continue
				}
				ret, ok := rb.Instrs[len(rb.Instrs)-1].(*ssa.Return)
				if !ok || len(ret.Results) == 0 {
					continue
				}
				res := ret.Results[0]
				if call, ok := res.(*ssa.Call); ok && strings.Contains(CalleeName(&call.Call), "Error") {
					continue
				}
				k++
				n++
				key := fmt.Sprintf("%s: result #%d after the sign was taken off", SSAName(fn), k)
				r.Check(dependsOnValue(res, sign, rb, map[ssa.Value]bool{}, 0), "R16.7", key, c.Rel(ret.Pos()), "depends on the recorded sign",
					fmt.Sprintf("%s negates a negative argument and records the sign, but this result does not depend on the recorded sign: a negative and a positive argument of the same magnitude give the same text on this path", SSAName(fn)))
			}
		}
	}
	r.Floor("R16.7", "results after a recorded negation", n, 5)
}
