package main

// C18, continued: the command-line cursor never runs past the arguments (R18.7).

import (
	"os"
	"fmt"
	"regexp/syntax"
	"unicode/utf8"
	"go/constant"
	"go/token"
	"go/types"
	"sort"
	"strconv"
	"strings"

	"golang.org/x/tools/go/ssa"
)

// argCursor analyses one function that indexes a []string parameter (args)
// with a cursor compared against a limit (argc, or len(args)). It tracks, per
// path, a lower bound m of (limit - v) for the int values v it meets, for the
// local cursor variable (an Alloc when its address is taken) and for a cursor
// passed in by pointer. args[v+k] needs m(v) >= k+1.
type argCursor struct {
	c       *Ctx
	fn      *ssa.Function
	args    *ssa.Parameter
	limits  map[ssa.Value]bool // values that stand for the number of arguments
	entryM  int                // bound assumed for the by-pointer cursor parameter at entry
	ptrCur  *ssa.Parameter     // the *int cursor parameter, if any
	checker func(*ssa.Function) (argiIdx, nIdx int, ok bool)
	bad     map[string]token.Pos
	nsites  int
	sites   map[ssa.Instruction]bool
}

func mKey(v ssa.Value) string   { return "m:" + v.Name() + "=" }
func curCellKey(v ssa.Value) string { return "A:" + v.Name() + "=" }
func curKey(v ssa.Value) string  { return "cur:" + v.Name() + "=" }

func factGet(f Facts, prefix string) (string, bool) {
	for k := range f {
		if strings.HasPrefix(k, prefix) {
			return k[len(prefix):], true
		}
	}
	return "", false
}
func factSet(f Facts, prefix, val string) Facts {
	g := Facts{}
	for k := range f {
		if !strings.HasPrefix(k, prefix) {
			g[k] = true
		}
	}
	if val != "" {
		g[prefix+val] = true
	}
	return g
}
func factInt(f Facts, prefix string) int {
	s, ok := factGet(f, prefix)
	if !ok {
		return 0
	}
	n, _ := strconv.Atoi(s)
	return n
}

func ssaConstInt(v ssa.Value) (int, bool) {
	k, ok := v.(*ssa.Const)
	if !ok || k.Value == nil || k.Value.Kind() != constant.Int {
		return 0, false
	}
	n, ok := constant.Int64Val(k.Value)
	return int(n), ok
}

// isCell: an int variable held in memory: a local whose address is taken, or the cursor parameter.
func (a *argCursor) isCell(v ssa.Value) bool {
	switch x := v.(type) {
	case *ssa.Alloc:
		pt, ok := x.Type().(*types.Pointer)
		return ok && isIntType(pt.Elem())
	case *ssa.Parameter:
		return a.ptrCur != nil && x == a.ptrCur
	}
	return false
}

func (a *argCursor) setM(f Facts, v ssa.Value, m int) Facts {
	if m > 6 {
		m = 6
	}
	if m <= factInt(f, mKey(v)) {
		return f
	}
	f = factSet(f, mKey(v), strconv.Itoa(m))
	// v is the current content of a cell
	for k := range f {
		if strings.HasPrefix(k, "cur:") && strings.HasSuffix(k, "="+v.Name()) {
			cell := k[len("cur:") : len(k)-len("="+v.Name())]
			f = factSet(f, "A:"+cell+"=", strconv.Itoa(m))
		}
	}
	// v = w + c: then limit - w >= m + c
	if bo, ok := v.(*ssa.BinOp); ok && bo.Op == token.ADD {
		if c, ok := ssaConstInt(bo.Y); ok && c > 0 {
			f = a.setM(f, bo.X, m+c)
		}
	}
	return f
}

func (a *argCursor) run() {
	a.bad = map[string]token.Pos{}
	a.sites = map[ssa.Instruction]bool{}
	pr := &PathRule{Fn: a.fn, MaxStates: 200000}
	init := Facts{}
	if a.ptrCur != nil && a.entryM > 0 {
		init[curCellKey(a.ptrCur)+strconv.Itoa(a.entryM)] = true
	}
	pr.Init = init
	pr.Transfer = func(f Facts, in ssa.Instruction, deferred bool) []Facts {
		// on entering a block keep only facts about values that are still in scope
		if in == in.Block().Instrs[0] {
			g := Facts{}
			for k := range f {
				keep := true
				if strings.HasPrefix(k, "m:") || strings.HasPrefix(k, "cur:") {
					name := k[strings.Index(k, ":")+1:]
					if strings.HasPrefix(k, "cur:") {
						name = k[strings.LastIndex(k, "=")+1:]
					} else {
						name = name[:strings.Index(name, "=")]
					}
					keep = a.inScope(name, in.Block())
				}
				if keep {
					g[k] = true
				}
			}
			f = g
		}
		// a value computed again (next turn of a loop) is a new value: forget what was known of the old one
		if v, ok := in.(ssa.Value); ok {
			if _, has := factGet(f, mKey(v)); has {
				f = factSet(f, mKey(v), "")
			}
			for k := range f {
				if strings.HasPrefix(k, "cur:") && strings.HasSuffix(k, "="+v.Name()) {
					g := f.Clone()
					delete(g, k)
					f = g
				}
			}
		}
		switch x := in.(type) {
		case *ssa.UnOp:
			if x.Op == token.MUL && a.isCell(x.X) {
				if m := factInt(f, curCellKey(x.X)); m > 0 {
					f = factSet(f, mKey(x), strconv.Itoa(m))
				}
				f = factSet(f, curKey(x.X), x.Name())
			}
		case *ssa.BinOp:
			if c, ok := ssaConstInt(x.Y); ok && isIntType(x.Type()) {
				m := factInt(f, mKey(x.X))
				switch x.Op {
				case token.ADD:
					if m-c > 0 {
						f = factSet(f, mKey(x), strconv.Itoa(m-c))
					}
				case token.SUB:
					if m > 0 && c >= 0 {
						f = factSet(f, mKey(x), strconv.Itoa(min(m+c, 6)))
					}
				}
			}
		case *ssa.Store:
			if a.isCell(x.Addr) {
				m := factInt(f, mKey(x.Val))
				if m > 0 {
					f = factSet(f, curCellKey(x.Addr), strconv.Itoa(m))
				} else {
					f = factSet(f, curCellKey(x.Addr), "")
				}
				f = factSet(f, curKey(x.Addr), x.Val.Name())
			}
		case *ssa.IndexAddr:
			if x.X == ssa.Value(a.args) {
				if _, isConst := ssaConstInt(x.Index); !isConst {
					if !a.sites[in] {
						a.sites[in] = true
						a.nsites++
					}
					if factInt(f, mKey(x.Index)) < 1 {
						a.bad[a.c.Rel(x.Pos())] = x.Pos()
						if os.Getenv("MLRLINT_DEBUG_ARGS") != "" && strings.Contains(a.fn.Name(), os.Getenv("MLRLINT_DEBUG_ARGS")) {
							fmt.Fprintf(os.Stderr, "ARGDBG %s %s idx=%s facts=%s\n", a.fn.Name(), a.c.Rel(x.Pos()), x.Index.Name(), f.Key())
						}
					}
				}
			}
		case *ssa.Call:
			// a helper that takes the cursor by pointer moves it: nothing is known afterwards
			for _, arg := range x.Call.Args {
				if a.isCell(arg) {
					f = factSet(f, curCellKey(arg), "")
					f = factSet(f, curKey(arg), "")
				}
			}
		case *ssa.MakeClosure:
			for _, arg := range x.Bindings {
				if a.isCell(arg) {
					f = factSet(f, curCellKey(arg), "")
					f = factSet(f, curKey(arg), "")
				}
			}
		}
		return []Facts{f}
	}
	pr.Branch = func(f Facts, cond ssa.Value, pol bool, iff *ssa.If) (Facts, bool) {
		bo, ok := cond.(*ssa.BinOp)
		if !ok {
			return f, true
		}
		// err == nil / err != nil of an argument-count checker
		if bo.Op == token.NEQ || bo.Op == token.EQL {
			if k, ok := bo.Y.(*ssa.Const); ok && k.IsNil() {
				if call, ok := bo.X.(*ssa.Call); ok {
					if callee := call.Call.StaticCallee(); callee != nil && a.checker != nil {
						if ai, ni, ok := a.checker(callee); ok && ai < len(call.Call.Args) && ni < len(call.Call.Args) {
							isNil := (bo.Op == token.EQL) == pol
							if n, okn := ssaConstInt(call.Call.Args[ni]); okn && isNil {
								return a.setM(f, call.Call.Args[ai], n), true
							}
						}
					}
				}
			}
			return f, true
		}
		// normalise to  L < R  being true on this edge
		var L, R ssa.Value
		strict := true
		switch {
		case bo.Op == token.LSS && pol, bo.Op == token.GEQ && !pol:
			L, R = bo.X, bo.Y
		case bo.Op == token.GTR && pol, bo.Op == token.LEQ && !pol:
			L, R = bo.Y, bo.X
		case bo.Op == token.LEQ && pol, bo.Op == token.GTR && !pol:
			L, R, strict = bo.X, bo.Y, false
		case bo.Op == token.GEQ && pol, bo.Op == token.LSS && !pol:
			L, R, strict = bo.Y, bo.X, false
		default:
			return f, true
		}
		if os.Getenv("MLRLINT_DEBUG_ARGS") != "" && strings.Contains(a.fn.Name(), os.Getenv("MLRLINT_DEBUG_ARGS")) {
			fmt.Fprintf(os.Stderr, "ARGDBG branch %s L=%s R=%s strict=%v lim=%v facts=%s\n", a.c.Rel(iff.Pos()), L.Name(), R.Name(), strict, a.limits[R], f.Key())
		}
		// v (+k) < limit
		if a.limits[R] || a.isLenArgs(R) {
			if strict {
				return a.setM(f, L, 1), true
			}
			return f, true
		}
		// n <= limit - v   (from  !(limit - v < n))  or  n < limit - v
		if sub, ok := R.(*ssa.BinOp); ok && sub.Op == token.SUB && (a.limits[sub.X] || a.isLenArgs(sub.X)) {
			if n, ok := ssaConstInt(L); ok {
				if strict {
					n++
				}
				return a.setM(f, sub.Y, n), true
			}
		}
		return f, true
	}
	pr.Run()
	if pr.Overflow {
		a.bad["(state overflow)"] = a.fn.Pos()
	}
}

func (a *argCursor) isLenArgs(v ssa.Value) bool {
	call, ok := v.(*ssa.Call)
	if !ok {
		return false
	}
	bi, ok := call.Call.Value.(*ssa.Builtin)
	return ok && bi.Name() == "len" && call.Call.Args[0] == ssa.Value(a.args)
}

func (a *argCursor) inScope(name string, b *ssa.BasicBlock) bool {
	for _, p := range a.fn.Params {
		if p.Name() == name {
			return true
		}
	}
	for _, blk := range a.fn.Blocks {
		for _, in := range blk.Instrs {
			if v, ok := in.(ssa.Value); ok && v.Name() == name {
				return blk == b || blk.Dominates(b)
			}
		}
	}
	return false
}

// argCountChecker recognises a function of the shape of cli.CheckArgCount /
// cli.VerbCheckArgCount by its body: it returns a non-nil error exactly on
// the edge where (argc - argi) < n for three of its int parameters.
func argCountChecker(fn *ssa.Function) (argiIdx, nIdx int, ok bool) {
	if fn.Blocks == nil || fn.Signature.Results().Len() != 1 || !isErrorType(fn.Signature.Results().At(0).Type()) {
		return 0, 0, false
	}
	for _, b := range fn.Blocks {
		iff, isIf := b.Instrs[len(b.Instrs)-1].(*ssa.If)
		if !isIf {
			continue
		}
		cmp, isCmp := iff.Cond.(*ssa.BinOp)
		if !isCmp || cmp.Op != token.LSS {
			continue
		}
		sub, isSub := cmp.X.(*ssa.BinOp)
		if !isSub || sub.Op != token.SUB {
			continue
		}
		ai, ni := paramIndex(fn, sub.Y), paramIndex(fn, cmp.Y)
		if paramIndex(fn, sub.X) < 0 || ai < 0 || ni < 0 {
			continue
		}
		// the false edge leads to 'return nil', the true edge to a non-nil return
		okNil := false
		for _, blk := range fn.Blocks {
			if ret, isRet := blk.Instrs[len(blk.Instrs)-1].(*ssa.Return); isRet && ReturnsNilError(ret) {
				if blk == b.Succs[1] || b.Succs[1].Dominates(blk) {
					okNil = true
				} else {
					return 0, 0, false
				}
			}
		}
		if okNil {
			return ai, ni, true
		}
	}
	return 0, 0, false
}

func c18ArgCursor(c *Ctx, r *Report) {
	r.Rule("R18.10", "the command-line cursor never runs past the arguments: in every verb's command-line parser, in the verb-argument helpers of pkg/cli and in every main-flag parser of the flag table, each read args[i] with a non-constant index is reached only with argc - i >= 1 established on that path — by the loop condition i < argc, a test such as i+1 >= argc → return or (argc - i) < n → return, or a nil result of an argument-count checker (a function whose body returns an error exactly when (argc - argi) < n) — and not invalidated since by advancing the cursor or handing it to a helper. Assumed at entry: a verb parser and a flag parser are called with the cursor on their own name (argc - i >= 1); a helper is called with nothing known")
	type target struct {
		fn     *ssa.Function
		entryM int
		kind   string
	}
	var targets []target
	isStrSlice := func(t types.Type) bool {
		s, ok := t.Underlying().(*types.Slice)
		if !ok {
			return false
		}
		b, ok := s.Elem().Underlying().(*types.Basic)
		return ok && b.Kind() == types.String
	}
	seen := map[*ssa.Function]bool{}
	for _, fn := range c.ModuleFunctions() {
		if fn.Blocks == nil || fn.Pkg == nil || seen[fn] {
			continue
		}
		pp := fn.Pkg.Pkg.Path()
		inVerbs := strings.HasSuffix(pp, "/pkg/transformers")
		inCli := strings.HasSuffix(pp, "/pkg/cli")
		if !inVerbs && !inCli {
			continue
		}
		var args, ptr *ssa.Parameter
		nint := 0
		for _, p := range fn.Params {
			if isStrSlice(p.Type()) {
				args = p
			}
			if pt, ok := p.Type().(*types.Pointer); ok && isIntType(pt.Elem()) {
				ptr = p
			}
			if isIntType(p.Type()) {
				nint++
			}
		}
		if args == nil || ptr == nil || nint == 0 {
			continue
		}
		seen[fn] = true
		entry, kind := 0, "helper"
		switch {
		case inVerbs && len(fn.Params) >= 5 && fn.Params[0] == ptr && isIntType(fn.Params[1].Type()) && fn.Params[2] == args:
			// (pargi, argc, args, …): a verb's parser, or the shared parser a family of verbs delegates to
			entry, kind = 1, "verb parser"
		case inCli && len(fn.Params) >= 4 && fn.Params[len(fn.Params)-4] == args && fn.Params[len(fn.Params)-2] == ptr && strings.HasSuffix(fn.Params[len(fn.Params)-1].Type().String(), "TOptions"):
			// (args, argc, pargi, options): a main-flag parser of the flag table, or the table's dispatcher
			entry, kind = 1, "flag parser"
		}
		targets = append(targets, target{fn, entry, kind})
	}
	sort.Slice(targets, func(i, j int) bool { return targets[i].fn.Pos() < targets[j].fn.Pos() })
	checkerMemo := map[*ssa.Function][3]int{}
	checker := func(fn *ssa.Function) (int, int, bool) {
		if v, ok := checkerMemo[fn]; ok {
			return v[0], v[1], v[2] == 1
		}
		ai, ni, ok := argCountChecker(fn)
		k := 0
		if ok {
			k = 1
		}
		checkerMemo[fn] = [3]int{ai, ni, k}
		return ai, ni, ok
	}
	// a flag-table closure is named by its flag, not by its position among the closures
	flagName := map[*ssa.Function]string{}
	if fis, msg := c.FlagTable(); msg == "" {
		for _, fi := range fis {
			if fi.Fn != nil {
				if _, dup := flagName[fi.Fn]; !dup {
					flagName[fi.Fn] = fi.Name
				}
			}
		}
	}
	nfun, nsites := 0, 0
	for _, t := range targets {
		a := &argCursor{c: c, fn: t.fn, entryM: t.entryM, checker: checker, limits: map[ssa.Value]bool{}}
		for _, p := range t.fn.Params {
			if isStrSliceT(p.Type()) {
				a.args = p
			}
			if pt, ok := p.Type().(*types.Pointer); ok && isIntType(pt.Elem()) {
				a.ptrCur = p
			}
			if isIntType(p.Type()) {
				a.limits[p] = true
			}
		}
		a.run()
		if a.nsites == 0 {
			continue
		}
		nfun++
		nsites += a.nsites
		var where []string
		for k := range a.bad {
			where = append(where, k)
		}
		sort.Strings(where)
		name := SSAName(t.fn)
		if fnm, ok := flagName[t.fn]; ok && t.fn.Parent() != nil {
			name = "of " + fnm
		}
		r.Check(len(where) == 0, "R18.10", t.kind+" "+name, c.Rel(t.fn.Pos()), fmt.Sprintf("%d indexed reads of the arguments, each with the count established", a.nsites),
			fmt.Sprintf("%s reads args[i] at %s on a path where nothing establishes i < argc since the cursor last moved: with that option as the last word of the command line the index is out of range (Go panic)", SSAName(t.fn), strings.Join(where, ", ")))
	}
	r.Floor("R18.10", "parsers and helpers with indexed reads of the arguments", nfun, 60)
	r.Infof("R18.10: %d indexed reads in %d functions", nsites, nfun)
}

func isStrSliceT(t types.Type) bool {
	s, ok := t.Underlying().(*types.Slice)
	if !ok {
		return false
	}
	b, ok := s.Elem().Underlying().(*types.Basic)
	return ok && b.Kind() == types.String
}

// c18NilMapWrites (R18.11): no write to a map that is nil on some incoming edge.
func c18NilMapWrites(c *Ctx, r *Report) {
	r.Rule("R18.11", "no write to a possibly nil map: for every map update m[k] = v outside the sub-entry-points, m is not a value that is the nil constant on one of the control-flow edges that merge into it (a variable declared nil and assigned only in one branch) unless a test m != nil dominates the update — writing to a nil map is a Go panic, and the branch that leaves it nil is typically the rarely taken one (an existing group seen again with a new field)")
	n, nphi := 0, 0
	for _, fn := range c.ModuleFunctions() {
		if fn.Blocks == nil {
			continue
		}
		pk := ""
		if fn.Pkg != nil {
			pk = fn.Pkg.Pkg.Path()
		}
		if subEntrypointPkg(pk) {
			continue
		}
		idx := 0
		for _, b := range fn.Blocks {
			for _, in := range b.Instrs {
				mu, ok := in.(*ssa.MapUpdate)
				if !ok {
					continue
				}
				n++
				// nil on some edge?
				var nilEdge func(v ssa.Value, depth int) bool
				nilEdge = func(v ssa.Value, depth int) bool {
					if depth > 4 {
						return false
					}
					switch x := v.(type) {
					case *ssa.Const:
						return x.IsNil()
					case *ssa.Phi:
						for _, e := range x.Edges {
							if nilEdge(e, depth+1) {
								return true
							}
						}
					}
					return false
				}
				if _, isPhi := mu.Map.(*ssa.Phi); !isPhi {
					if k, isConst := mu.Map.(*ssa.Const); !isConst || !k.IsNil() {
						continue
					}
				}
				nphi++
				if !nilEdge(mu.Map, 0) {
					continue
				}
				guarded := false
				for _, g := range GuardsAt(b) {
					if cmp, ok := g.Cond.(*ssa.BinOp); ok && cmp.X == mu.Map {
						if k, ok := cmp.Y.(*ssa.Const); ok && k.IsNil() {
							if (cmp.Op == token.NEQ && g.Polarity) || (cmp.Op == token.EQL && !g.Polarity) {
								guarded = true
							}
						}
					}
				}
				idx++
				r.Check(guarded, "R18.11", fmt.Sprintf("%s: map update #%d", SSAName(fn), idx), c.Rel(mu.Pos()), "dominated by m != nil",
					fmt.Sprintf("%s writes to a map at %s that is the nil constant on one of the edges merging into it, with no m != nil test before the write: on that path the write is a Go panic (assignment to entry in nil map)", SSAName(fn), c.Rel(mu.Pos())))
			}
		}
	}
	r.OK("R18.11", "map updates scanned", "", fmt.Sprintf("%d map updates, %d of them on a merged value", n, nphi))
	r.Floor("R18.11", "map updates scanned", n, 150)
}

// lenLowerBound: the largest lower bound on len(x) established by the
// branch conditions that dominate b: len(x) < K → elsewhere (K), len(x) >= K,
// len(x) > K (K+1), len(x) == K, n := len(x) tests, and strings.HasPrefix /
// HasSuffix(x, "const") (the constant's length — two of them give the larger,
// not the sum: prefix and suffix may overlap).
func lenLowerBound(b *ssa.BasicBlock, x ssa.Value) int {
	return lenLowerBoundWith(b, x, nil)
}

// lenLowerBoundWith: as lenLowerBound, with additional conditions known to hold (assertions that passed).
func lenLowerBoundWith(b *ssa.BasicBlock, x ssa.Value, extra []Guard) int {
	best := 0
	excluded := map[int]bool{}
	isLenOf := func(v ssa.Value) bool {
		call, ok := v.(*ssa.Call)
		if !ok {
			return false
		}
		bi, ok := call.Call.Value.(*ssa.Builtin)
		return ok && bi.Name() == "len" && sameStr(call.Call.Args[0], x)
	}
	for _, g := range append(GuardsAt(b), extra...) {
		switch c := g.Cond.(type) {
		case *ssa.Call:
			n := CalleeName(&c.Call)
			if (n == "strings.HasPrefix" || n == "strings.HasSuffix" || n == "bytes.HasPrefix" || n == "bytes.HasSuffix") && g.Polarity && sameStr(c.Call.Args[0], x) {
				if k, ok := c.Call.Args[1].(*ssa.Const); ok && k.Value != nil && k.Value.Kind() == constant.String {
					if l := len(constant.StringVal(k.Value)); l > best {
						best = l
					}
				}
			}
		case *ssa.BinOp:
			var k int
			var okK bool
			var lenLeft bool
			if isLenOf(c.X) {
				k, okK = ssaConstInt(c.Y)
				lenLeft = true
			} else if isLenOf(c.Y) {
				k, okK = ssaConstInt(c.X)
			}
			if !okK {
				continue
			}
			op := c.Op
			if !lenLeft { // K op len  ⇒  len op' K
				switch op {
				case token.LSS:
					op = token.GTR
				case token.GTR:
					op = token.LSS
				case token.LEQ:
					op = token.GEQ
				case token.GEQ:
					op = token.LEQ
				}
			}
			lb := 0
			switch {
			case op == token.LSS && !g.Polarity, op == token.GEQ && g.Polarity:
				lb = k
			case op == token.LEQ && !g.Polarity, op == token.GTR && g.Polarity:
				lb = k + 1
			case op == token.EQL && g.Polarity, op == token.NEQ && !g.Polarity:
				lb = k
			case op == token.EQL && !g.Polarity, op == token.NEQ && g.Polarity:
				excluded[k] = true // a switch on the length: earlier cases exclude exact values
			}
			if lb > best {
				best = lb
			}
		}
	}
	for excluded[best] {
		best++
	}
	return best
}

// c18TrimBothEnds (R18.4d)
func c18TrimBothEnds(c *Ctx, r *Report) {
	r.Rule("R18.4d", "a trim at both ends needs room for both: every slice x[a : len(x)-b] with constants a >= 1 and b >= 1 (strip an opening and a closing delimiter) in the library, built-in, scanner, reader and value-model packages is reached only with len(x) >= a+b established — by length tests, or by HasPrefix / HasSuffix with constant strings, where two of them give the longer of the two lengths and not their sum (a one-character prefix and a two-character suffix overlap in a two-character string)")
	n := 0
	for fn := range c.AllFunctions() {
		if !IsModuleFunc(fn) || fn.Blocks == nil || fn.Pkg == nil {
			continue
		}
		pp := fn.Pkg.Pkg.Path()
		if !(strings.HasSuffix(pp, "/pkg/pbnjay-strptime") || strings.HasSuffix(pp, "/pkg/lib") || strings.HasSuffix(pp, "/pkg/scan") || strings.HasSuffix(pp, "/pkg/bifs") || strings.HasSuffix(pp, "/pkg/dkvpx") || strings.HasSuffix(pp, "/pkg/input") || strings.HasSuffix(pp, "/pkg/mlrval") || strings.HasSuffix(pp, "/pkg/cli") || strings.HasSuffix(pp, "/pkg/dsl/cst") || strings.HasSuffix(pp, "/pkg/transformers") || strings.HasSuffix(pp, "/pkg/output")) {
			continue
		}
		k := 0
		for _, b := range fn.Blocks {
			for _, in := range b.Instrs {
				sl, ok := in.(*ssa.Slice)
				if !ok || sl.Low == nil || sl.High == nil {
					continue
				}
				a, ok := ssaConstInt(sl.Low)
				if !ok || a < 1 {
					continue
				}
				hb, ok := sl.High.(*ssa.BinOp)
				if !ok || hb.Op != token.SUB {
					continue
				}
				bb, ok := ssaConstInt(hb.Y)
				if !ok || bb < 1 {
					continue
				}
				// high = len(x) - b  (directly or through n := len(x))
				if !mentionsLen(hb.X, sl.X, 0) {
					continue
				}
				n++
				k++
				key := fmt.Sprintf("%s: trim #%d [%d:len-%d]", SSAName(fn), k, a, bb)
				lb := lenLowerBound(b, sl.X)
				if m := regexMatchMinLen(c, sl.X); m > lb {
					lb = m // the text of a match of a constant pattern is at least as long as its shortest match
				}
				r.Check(lb >= a+bb, "R18.4d", key, c.Rel(sl.Pos()), fmt.Sprintf("len >= %d established (needs %d)", lb, a+bb),
					fmt.Sprintf("%s takes x[%d:len(x)-%d], which needs len(x) >= %d, but the tests on the way establish only len(x) >= %d: for a shorter x the bounds cross and the process panics (slice bounds out of range)", SSAName(fn), a, bb, a+bb, lb))
			}
		}
	}
	r.Floor("R18.4d", "both-ends trims", n, 3)
}

// regexMatchMinLen: x is the text of a match, s[loc[0]:loc[1]] with loc from
// FindStringIndex / FindIndex of a package-level regexp compiled from a
// constant pattern: the shortest string the pattern can match.
func regexMatchMinLen(c *Ctx, x ssa.Value) int {
	sl, ok := x.(*ssa.Slice)
	if !ok || sl.Low == nil || sl.High == nil {
		return 0
	}
	locOf := func(v ssa.Value, want int64) ssa.Value {
		u, ok := v.(*ssa.UnOp)
		if !ok || u.Op != token.MUL {
			return nil
		}
		ia, ok := u.X.(*ssa.IndexAddr)
		if !ok {
			return nil
		}
		if k, ok := ssaConstInt(ia.Index); !ok || int64(k) != want {
			return nil
		}
		return ia.X
	}
	l0, l1 := locOf(sl.Low, 0), locOf(sl.High, 1)
	if l0 == nil || l0 != l1 {
		return 0
	}
	call, ok := l0.(*ssa.Call)
	if !ok {
		return 0
	}
	cn := CalleeName(&call.Call)
	if !(strings.HasSuffix(cn, "Regexp.FindStringIndex") || strings.HasSuffix(cn, "Regexp.FindIndex")) {
		return 0
	}
	ld, ok := call.Call.Args[0].(*ssa.UnOp)
	if !ok || ld.Op != token.MUL {
		return 0
	}
	g, ok := ld.X.(*ssa.Global)
	if !ok {
		return 0
	}
	// the one store to the global: regexp.MustCompile(const)
	pat, nst := "", 0
	for fn := range c.AllFunctions() {
		if fn.Blocks == nil || fn.Pkg != g.Pkg {
			continue
		}
		for _, b := range fn.Blocks {
			for _, in := range b.Instrs {
				st, ok := in.(*ssa.Store)
				if !ok || st.Addr != ssa.Value(g) {
					continue
				}
				nst++
				if mc, ok := st.Val.(*ssa.Call); ok && strings.HasSuffix(CalleeName(&mc.Call), "regexp.MustCompile") {
					if k, ok := mc.Call.Args[0].(*ssa.Const); ok && k.Value != nil && k.Value.Kind() == constant.String {
						pat = constant.StringVal(k.Value)
					}
				}
			}
		}
	}
	if nst != 1 || pat == "" {
		return 0
	}
	re, err := syntax.Parse(pat, syntax.Perl)
	if err != nil {
		return 0
	}
	return regexMinLen(re.Simplify())
}

func regexMinLen(re *syntax.Regexp) int {
	switch re.Op {
	case syntax.OpLiteral:
		n := 0
		for _, r := range re.Rune {
			n += utf8.RuneLen(r)
		}
		return n
	case syntax.OpCharClass, syntax.OpAnyCharNotNL, syntax.OpAnyChar:
		return 1
	case syntax.OpCapture:
		return regexMinLen(re.Sub[0])
	case syntax.OpConcat:
		n := 0
		for _, s := range re.Sub {
			n += regexMinLen(s)
		}
		return n
	case syntax.OpAlternate:
		best := -1
		for _, s := range re.Sub {
			if m := regexMinLen(s); best < 0 || m < best {
				best = m
			}
		}
		if best < 0 {
			return 0
		}
		return best
	case syntax.OpPlus:
		return regexMinLen(re.Sub[0])
	case syntax.OpRepeat:
		return re.Min * regexMinLen(re.Sub[0])
	}
	return 0 // star, quest, empty-width assertions, empty match
}

// structEq: two SSA expressions denote the same quantity by construction: the
// same value, re-loads of one cell or field, the same operator on such
// operands, len of the same value, equal constants.
func structEq(a, b ssa.Value, depth int) bool {
	if a == b || sameStr(a, b) {
		return true
	}
	if depth > 5 {
		return false
	}
	switch x := a.(type) {
	case *ssa.Const:
		y, ok := b.(*ssa.Const)
		return ok && x.Value != nil && y.Value != nil && constant.Compare(x.Value, token.EQL, y.Value)
	case *ssa.BinOp:
		y, ok := b.(*ssa.BinOp)
		if !ok || x.Op != y.Op {
			return false
		}
		if structEq(x.X, y.X, depth+1) && structEq(x.Y, y.Y, depth+1) {
			return true
		}
		return (x.Op == token.ADD || x.Op == token.MUL) && structEq(x.X, y.Y, depth+1) && structEq(x.Y, y.X, depth+1)
	case *ssa.Convert:
		if y, ok := b.(*ssa.Convert); ok {
			return structEq(x.X, y.X, depth+1)
		}
		return structEq(x.X, b, depth+1)
	case *ssa.Call:
		y, ok := b.(*ssa.Call)
		if !ok {
			return false
		}
		bx, okx := x.Call.Value.(*ssa.Builtin)
		by, oky := y.Call.Value.(*ssa.Builtin)
		if okx && oky && bx.Name() == by.Name() && len(x.Call.Args) == len(y.Call.Args) {
			for i := range x.Call.Args {
				if !structEq(x.Call.Args[i], y.Call.Args[i], depth+1) {
					return false
				}
			}
			return true
		}
	}
	if y, ok := b.(*ssa.Convert); ok {
		return structEq(a, y.X, depth+1)
	}
	return false
}

// c18BoundTests (R18.4e): the length test on the way to a slice is about the
// bound it is supposed to justify.
func c18BoundTests(c *Ctx, r *Report) {
	r.Rule("R18.4e", "the length test is about the bound: for the slice bounds that R18.4b accepts because a length test lies on the way, (a) a positive constant upper bound K needs an established len(x) >= K (from len tests and constant HasPrefix/HasSuffix: 'len(input) != 6 → return' justifies input[2:6], '!= 5' would not), and (b) a bound that is a sum len(y)+n or n+m of run-time quantities needs a test that compares len(x) with that very sum — a helper that checks len(input) < ndigits and then takes input[0:len(leader)+ndigits] has tested the wrong quantity")
	na, nb := 0, 0
	for fn := range c.AllFunctions() {
		if !IsModuleFunc(fn) || fn.Blocks == nil || fn.Pkg == nil {
			continue
		}
		pp := fn.Pkg.Pkg.Path()
		if !(strings.HasSuffix(pp, "/pkg/pbnjay-strptime") || strings.HasSuffix(pp, "/pkg/lib") || strings.HasSuffix(pp, "/pkg/scan") || strings.HasSuffix(pp, "/pkg/bifs") || strings.HasSuffix(pp, "/pkg/dkvpx") || strings.HasSuffix(pp, "/pkg/input") || strings.HasSuffix(pp, "/pkg/mlrval")) {
			continue
		}
		k := 0
		for _, b := range fn.Blocks {
			for _, in := range b.Instrs {
				sl, ok := in.(*ssa.Slice)
				if !ok || sl.High == nil {
					continue
				}
				t := sl.X.Type()
				if p, isP := t.Underlying().(*types.Pointer); isP {
					t = p.Elem()
				}
				if _, isArr := t.Underlying().(*types.Array); isArr {
					continue
				}
				// (a) constant upper bound
				if kk, isK := ssaConstInt(sl.High); isK && kk > 0 {
					na++
					k++
					lb := lenLowerBound(b, sl.X)
					if m := regexMatchMinLen(c, sl.X); m > lb {
						lb = m
					}
					r.Check(lb >= kk, "R18.4e", fmt.Sprintf("%s: constant upper bound #%d [:%d]", SSAName(fn), k, kk), c.Rel(sl.Pos()), fmt.Sprintf("len >= %d established", lb),
						fmt.Sprintf("%s slices x[…:%d] but the tests on the way establish only len(x) >= %d: a shorter x makes the process panic (slice bounds out of range)", SSAName(fn), kk, lb))
					continue
				}
				// (b) a sum of run-time quantities
				sum, ok := sl.High.(*ssa.BinOp)
				if !ok || sum.Op != token.ADD {
					continue
				}
				if _, c1 := sum.X.(*ssa.Const); c1 {
					continue
				}
				if _, c2 := sum.Y.(*ssa.Const); c2 {
					continue
				}
				if mentionsLen(sum, sl.X, 0) {
					continue // derived from the sliced value itself
				}
				nb++
				k++
				matched := false
				for _, g := range GuardsAt(b) {
					cmp, ok := g.Cond.(*ssa.BinOp)
					if !ok {
						continue
					}
					var other ssa.Value
					if lenOf(cmp.X, sl.X) {
						other = cmp.Y
					} else if lenOf(cmp.Y, sl.X) {
						other = cmp.X
					}
					if other != nil && structEq(other, sum, 0) {
						matched = true
					}
				}
				r.Check(matched, "R18.4e", fmt.Sprintf("%s: summed upper bound #%d", SSAName(fn), k), c.Rel(sl.Pos()), "len(x) is compared with the same sum",
					fmt.Sprintf("%s slices up to %s, a sum of run-time quantities, and no test on the way compares len(x) with that sum: whatever is tested instead does not justify the bound", SSAName(fn), sum.String()))
			}
		}
	}
	r.Floor("R18.4e", "constant or summed upper bounds on strings and slices", na+nb, 1)
	r.Infof("R18.4e: %d constant upper bounds, %d summed upper bounds", na, nb)
}

// c18HeaderDataMismatch (R18.4f): after a header/data length mismatch the
// record is not built cell by cell against the header.
func c18HeaderDataMismatch(c *Ctx, r *Report) {
	r.Rule("R18.4f", "a length mismatch stops the record: in the readers (package input), where a function reads header[i] — a slice field of the reader — with i running over the cells of a line (i < len(cells)), the function tests len(header) against len(cells) for that same line, and from the edge on which they differ no path reaches that read before the next line is taken: the mismatch ends in an error, a skip or the ragged-input branch, never in falling through to the cell-by-cell loop (index out of range for a line with more cells than the header)")
	p := c.Pkg("pkg/input")
	if p == nil {
		r.Undecided("R18.4f", "pkg/input", "", "package not loaded")
		return
	}
	n := 0
	for _, fn := range c.ModuleFunctions() {
		if fn.Blocks == nil || fn.Pkg == nil || fn.Pkg.Pkg != p.Types {
			continue
		}
		// len(B) calls and which B
		lenArg := func(v ssa.Value) ssa.Value {
			call, ok := v.(*ssa.Call)
			if !ok {
				return nil
			}
			if bi, ok := call.Call.Value.(*ssa.Builtin); !ok || bi.Name() != "len" {
				return nil
			}
			return call.Call.Args[0]
		}
		// a load of a slice field of some object: identity = (object value, field index)
		type fld struct {
			obj ssa.Value
			idx int
		}
		fieldOf := func(v ssa.Value) (fld, bool) {
			u, ok := v.(*ssa.UnOp)
			if !ok || u.Op != token.MUL {
				return fld{}, false
			}
			fa, ok := u.X.(*ssa.FieldAddr)
			if !ok {
				return fld{}, false
			}
			if _, isSlice := u.Type().Underlying().(*types.Slice); !isSlice {
				return fld{}, false
			}
			return fld{fa.X, fa.Field}, true
		}
		// mismatch tests
		type mism struct {
			f    fld
			B    ssa.Value
			succ *ssa.BasicBlock
			pos  token.Pos
		}
		var tests []mism
		for _, b := range fn.Blocks {
			iff, ok := b.Instrs[len(b.Instrs)-1].(*ssa.If)
			if !ok {
				continue
			}
			cond, pol := stripNot(iff.Cond, true)
			cmp, ok := cond.(*ssa.BinOp)
			if !ok || (cmp.Op != token.NEQ && cmp.Op != token.EQL) {
				continue
			}
			a1, a2 := lenArg(cmp.X), lenArg(cmp.Y)
			if a1 == nil || a2 == nil {
				continue
			}
			f, ok1 := fieldOf(a1)
			B := a2
			if !ok1 {
				f, ok1 = fieldOf(a2)
				B = a1
			}
			if !ok1 {
				continue
			}
			if _, isF := fieldOf(B); isF {
				continue
			}
			differ := (cmp.Op == token.NEQ) == pol // true: the true edge is "they differ"
			succ := b.Succs[0]
			if !differ {
				succ = b.Succs[1]
			}
			tests = append(tests, mism{f, B, succ, iff.Pos()})
		}
		// accesses header[i] with i < len(B)
		idx := 0
		for _, b := range fn.Blocks {
			for _, in := range b.Instrs {
				ia, ok := in.(*ssa.IndexAddr)
				if !ok {
					continue
				}
				f, ok := fieldOf(ia.X)
				if !ok {
					continue
				}
				// the index is compared with len(B) somewhere (the loop condition)
				var B ssa.Value
				if ia.Index.Referrers() != nil {
					for _, ref := range *ia.Index.Referrers() {
						if cmp, ok := ref.(*ssa.BinOp); ok && cmp.Op == token.LSS && cmp.X == ia.Index {
							if a := lenArg(cmp.Y); a != nil {
								if _, isF := fieldOf(a); !isF {
									B = a
								}
							}
						}
					}
				}
				if B == nil {
					continue
				}
				// B must be a per-line value (defined in this function, not a parameter slice of fixed relation)
				def, ok := B.(ssa.Instruction)
				if !ok {
					continue
				}
				idx++
				n++
				key := fmt.Sprintf("%s: header read #%d", SSAName(fn), idx)
				var mine []mism
				for _, t := range tests {
					if t.f.idx == f.idx && (t.f.obj == f.obj || sameStr(t.f.obj, f.obj)) && t.B == B {
						mine = append(mine, t)
					}
				}
				if len(mine) == 0 {
					r.Fail("R18.4f", key, c.Rel(ia.Pos()), fmt.Sprintf("%s reads the header cell by cell for a line's cells but never compares the two lengths for that line: a line with more cells than the header indexes past the header", SSAName(fn)))
					continue
				}
				bad := ""
				for _, t := range mine {
					seen := map[*ssa.BasicBlock]bool{}
					var walk func(x *ssa.BasicBlock) bool
					walk = func(x *ssa.BasicBlock) bool {
						if seen[x] || x == def.Block() {
							return false // the next line: a new B
						}
						seen[x] = true
						if x == b {
							return true
						}
						for _, s := range x.Succs {
							if walk(s) {
								return true
							}
						}
						return false
					}
					if walk(t.succ) {
						bad = c.Rel(t.pos)
					}
				}
				r.Check(bad == "", "R18.4f", key, c.Rel(ia.Pos()), "not reachable from the 'lengths differ' edge within the same line",
					fmt.Sprintf("%s: from the edge of the test at %s on which len(header) and len(cells) differ, the cell-by-cell read of the header at %s can be reached for the same line: a line with more cells than the header makes the process panic (index out of range)", SSAName(fn), bad, c.Rel(ia.Pos())))
			}
		}
	}
	r.Floor("R18.4f", "cell-by-cell header reads bounded by the line's cells", n, 6)
}

// c18InrecNil (R18.13): the current record is tested for nil before use.
func c18InrecNil(c *Ctx, r *Report) {
	r.Rule("R18.13", "the current record is tested before use: there is no current record in begin and end blocks (and in functions called from them), so in the interpreter every use of state.Inrec as a record — a field of it read or written, a method of Mlrmap called on it — is dominated by a test of state.Inrec against nil (the validator keeps $-variables out of begin/end blocks of the main program but not out of functions called from there, nor NF, M_PI-like leaves …)")
	n := 0
	for _, fn := range c.ModuleFunctions() {
		if fn.Blocks == nil || fn.Pkg == nil || !strings.HasSuffix(fn.Pkg.Pkg.Path(), "/pkg/dsl/cst") {
			continue
		}
		isInrecLoad := func(v ssa.Value) bool {
			base, name, ok := fieldLoadName(v)
			return ok && name == "Inrec" && strings.HasSuffix(strings.TrimPrefix(base.Type().String(), "*"), "pkg/runtime.State")
		}
		idx := 0
		for _, b := range fn.Blocks {
			for _, in := range b.Instrs {
				var used ssa.Value
				switch x := in.(type) {
				case *ssa.FieldAddr:
					if isInrecLoad(x.X) {
						used = x.X
					}
				case ssa.CallInstruction:
					com := x.Common()
					if cal := com.StaticCallee(); cal != nil && cal.Signature.Recv() != nil && len(com.Args) > 0 && isInrecLoad(com.Args[0]) && strings.HasPrefix(CalleeName(com), "pkg/mlrval.Mlrmap.") {
						used = com.Args[0]
					}
				}
				if used == nil {
					continue
				}
				n++
				idx++
				guarded := false
				for _, g := range GuardsAt(b) {
					cmp, ok := g.Cond.(*ssa.BinOp)
					if !ok || (cmp.Op != token.EQL && cmp.Op != token.NEQ) {
						continue
					}
					k, ok := cmp.Y.(*ssa.Const)
					if !ok || !k.IsNil() || !isInrecLoad(cmp.X) {
						continue
					}
					if (cmp.Op == token.NEQ && g.Polarity) || (cmp.Op == token.EQL && !g.Polarity) {
						guarded = true
					}
				}
				r.Check(guarded, "R18.13", fmt.Sprintf("%s: use of the current record #%d", SSAName(fn), idx), c.Rel(in.Pos()), "after state.Inrec != nil",
					fmt.Sprintf("%s uses state.Inrec at %s with no test against nil on the way: in a begin or end block, or a function called from one, there is no current record and the use is a nil dereference (Go panic)", SSAName(fn), c.Rel(in.Pos())))
			}
		}
	}
	r.Floor("R18.13", "uses of the current record in the interpreter", n, 20)
}

// c18ASTChildren (R18.14): a child of an AST node is taken only where the
// node is known to have that many children.
func c18ASTChildren(c *Ctx, r *Report) {
	r.Rule("R18.14", "an AST child is there before it is taken: in the interpreter's tree walks (functions over an AST node that call themselves on its children: pre-passes, validators, resolvers) every read astNode.Children[k] with a constant k is preceded — in a dominating block, or earlier in the same block — by tests or assertions (lib.InternalCodingErrorIf) that establish len(node.Children) >= k+1, or that pin the node to a type other than a call site (the grammar fixes the number of children of every other node type). The parser gives a call of a known function name whatever number of arguments the program wrote; the arity is checked later than some pre-passes run")
	n, nwalk := 0, 0
	for _, fn := range c.ModuleFunctions() {
		if fn.Blocks == nil || fn.Pkg == nil || !strings.HasSuffix(fn.Pkg.Pkg.Path(), "/pkg/dsl/cst") {
			continue
		}
		// a walk over the whole tree: the function calls itself on the children of its node. Such a walk meets
		// every node type, call sites with any number of arguments included; a builder of one node type relies
		// on the grammar for the number of children and is not examined
		recursive := false
		for _, b := range fn.Blocks {
			for _, in := range b.Instrs {
				if call, ok := in.(ssa.CallInstruction); ok && call.Common().StaticCallee() == fn {
					recursive = true
				}
			}
		}
		if !recursive {
			continue
		}
		nwalk++
		idx := 0
		for _, b := range fn.Blocks {
			for ii, in := range b.Instrs {
				ia, ok := in.(*ssa.IndexAddr)
				if !ok {
					continue
				}
				if _, isK := ssaConstInt(ia.Index); !isK {
					continue
				}
				_, name, ok := fieldLoadName(ia.X)
				if !ok || name != "Children" {
					continue
				}
				n++
				idx++
				kconst, _ := ssaConstInt(ia.Index)
				// assertions that passed on the way: InternalCodingErrorIf(cond) means cond is false afterwards
				var asserted []Guard
				typeFixed := false
				nodeOf := func(v ssa.Value) ssa.Value { // the node whose .Children / .Type is loaded
					base, _, ok := fieldLoadName(v)
					if ok {
						return base
					}
					return nil
				}
				node := nodeOf(ia.X)
				isTypeOfNode := func(v ssa.Value) bool {
					var walk func(v ssa.Value, depth int) bool
					walk = func(v ssa.Value, depth int) bool {
						if depth > 4 {
							return false
						}
						if base, nm, ok := fieldLoadName(v); ok && nm == "Type" && (base == node || sameStr(base, node)) {
							return true
						}
						switch x := v.(type) {
						case *ssa.BinOp:
							return walk(x.X, depth+1) || walk(x.Y, depth+1)
						case *ssa.UnOp:
							return walk(x.X, depth+1)
						case *ssa.Phi:
							for _, e := range x.Edges {
								if walk(e, depth+1) {
									return true
								}
							}
						}
						return false
					}
					return walk(v, 0)
				}
				mentionsCallsite := func(v ssa.Value) bool {
					found := false
					var walk func(v ssa.Value, depth int)
					walk = func(v ssa.Value, depth int) {
						if depth > 4 || found {
							return
						}
						switch x := v.(type) {
						case *ssa.Const:
							if x.Value != nil && x.Value.Kind() == constant.String && strings.Contains(constant.StringVal(x.Value), "Callsite") {
								found = true
							}
						case *ssa.BinOp:
							walk(x.X, depth+1)
							walk(x.Y, depth+1)
						case *ssa.UnOp:
							walk(x.X, depth+1)
						case *ssa.Convert:
							walk(x.X, depth+1)
						case *ssa.ChangeType:
							walk(x.X, depth+1)
						case *ssa.Phi:
							for _, e := range x.Edges {
								walk(e, depth+1)
							}
						}
					}
					walk(v, 0)
					return found
				}
				for d := b; d != nil; d = d.Idom() {
					for jj, din := range d.Instrs {
						if d == b && jj >= ii {
							break
						}
						if call, ok := din.(*ssa.Call); ok {
							cn := CalleeName(&call.Call)
							if (strings.HasSuffix(cn, "InternalCodingErrorIf") || strings.HasSuffix(cn, "InternalCodingErrorWithMessageIf")) && len(call.Call.Args) >= 1 {
								cond, pol := stripNot(call.Call.Args[0], false)
								asserted = append(asserted, Guard{Cond: cond, Polarity: pol})
								if isTypeOfNode(cond) && !mentionsCallsite(cond) {
									typeFixed = true
								}
							}
						}
					}
				}
				// tests of the node's type on the way: the grammar fixes the number of children of every node type
				// except call sites, whose arguments the program chooses
				for _, g := range GuardsAt(b) {
					if isTypeOfNode(g.Cond) && !mentionsCallsite(g.Cond) {
						typeFixed = true
					}
				}
				lb := lenLowerBoundWith(b, ia.X, asserted)
				okRead := lb >= kconst+1 || typeFixed
				r.Check(okRead, "R18.14", fmt.Sprintf("%s: child read #%d", SSAName(fn), idx), c.Rel(ia.Pos()), "the number of children is fixed before",
					fmt.Sprintf("%s takes child [%d] of an AST node at %s, but what comes before establishes only %d children (and does not pin the node to a type whose number of children the grammar fixes): a program that calls a function with fewer arguments makes the process panic (index out of range)", SSAName(fn), kconst, c.Rel(ia.Pos()), lb))
			}
		}
	}
	r.OK("R18.14", "tree walks of the interpreter", "", fmt.Sprintf("%d recursive walks over AST nodes, %d constant-index child reads in them", nwalk, n))
	r.Floor("R18.14", "recursive walks over AST nodes", nwalk, 5)
}

// c18NoAssertOnText (R18.15): what the program text or the data decides is
// not asserted.
func c18NoAssertOnText(c *Ctx, r *Report) {
	r.Rule("R18.15", "no assertion on what the text decides: outside the sub-entry-points, the condition handed to lib.InternalCodingErrorIf never derives from the success flag or error of parsing a string (lib.Try…FromString, strconv.Parse…, strconv.Atoi, regexp.Compile, time.Parse…): whether a piece of program text or data parses is decided by whoever wrote it, and an 'internal coding error' exit for it is a crash with a nicer name (a numeric literal such as 089 or 1e309 that the lexer accepts)")
	n := 0
	for _, fn := range c.ModuleFunctions() {
		if fn.Blocks == nil {
			continue
		}
		pk := ""
		if fn.Pkg != nil {
			pk = fn.Pkg.Pkg.Path()
		}
		if subEntrypointPkg(pk) {
			continue
		}
		idx := 0
		for _, b := range fn.Blocks {
			for _, in := range b.Instrs {
				call, ok := in.(*ssa.Call)
				if !ok || !strings.HasSuffix(CalleeName(&call.Call), "InternalCodingErrorIf") || len(call.Call.Args) != 1 {
					continue
				}
				n++
				src := ""
				var walk func(v ssa.Value, depth int)
				walk = func(v ssa.Value, depth int) {
					if depth > 5 || src != "" {
						return
					}
					switch x := v.(type) {
					case *ssa.UnOp:
						walk(x.X, depth+1)
					case *ssa.BinOp:
						walk(x.X, depth+1)
						walk(x.Y, depth+1)
					case *ssa.Phi:
						for _, e := range x.Edges {
							walk(e, depth+1)
						}
					case *ssa.Extract:
						if pc, ok := x.Tuple.(*ssa.Call); ok && x.Index > 0 {
							cn := CalleeName(&pc.Call)
							if (strings.HasPrefix(cn, "pkg/lib.Try") && strings.Contains(cn, "FromString")) || strings.HasPrefix(cn, "strconv.Parse") || cn == "strconv.Atoi" || cn == "regexp.Compile" || strings.HasPrefix(cn, "time.Parse") {
								src = cn
							}
						}
					}
				}
				walk(call.Call.Args[0], 0)
				if src != "" {
					idx++
					r.Fail("R18.15", fmt.Sprintf("%s: assertion on a parse result #%d", SSAName(fn), idx), c.Rel(call.Pos()),
						fmt.Sprintf("%s asserts (InternalCodingErrorIf) on the outcome of %s: text that does not parse ends the process with 'Internal coding error detected' instead of an error the user can act on", SSAName(fn), src))
				}
			}
		}
	}
	r.OK("R18.15", "assertions examined", "", fmt.Sprintf("%d InternalCodingErrorIf calls", n))
	r.Floor("R18.15", "InternalCodingErrorIf calls", n, 100)
}

// R18.16: the line reader never gets an empty separator. NewLineReader
// panics on one ("Empty IRS"). Its callers hand it a constant or a field of
// the reader options; for each such field, option finalisation refuses the
// empty string before any reader is built.
func c18LineReaderSeparator(c *Ctx, r *Report) {
	r.Rule("R18.16", "the line reader never gets an empty separator: every call of input.NewLineReader (which panics on \"\") passes a non-empty constant or a field of the reader options for which cli.FinalizeReaderOptions has a test field == \"\" leading to an error return — the XTAB reader passes IFS, not IRS")
	var nlr *ssa.Function
	if tf := c.LookupFunc("pkg/input", "NewLineReader"); tf != nil {
		nlr = c.SSAFunc(tf)
	}
	var fin *ssa.Function
	if tf := c.LookupFunc("pkg/cli", "FinalizeReaderOptions"); tf != nil {
		fin = c.SSAFunc(tf)
	}
	if nlr == nil || fin == nil || fin.Blocks == nil {
		r.Undecided("R18.16", "anchors", "", "NewLineReader or FinalizeReaderOptions not found")
		return
	}
	// fields refused when empty
	refused := map[string]bool{}
	for _, b := range fin.Blocks {
		iff, ok := b.Instrs[len(b.Instrs)-1].(*ssa.If)
		if !ok {
			continue
		}
		cmp, ok := iff.Cond.(*ssa.BinOp)
		if !ok || cmp.Op != token.EQL {
			continue
		}
		k, isK := cmp.Y.(*ssa.Const)
		if !isK || k.Value == nil || k.Value.Kind() != constant.String || constant.StringVal(k.Value) != "" {
			continue
		}
		_, fname, ok := fieldLoadName(cmp.X)
		if !ok {
			continue
		}
		// the true edge reaches a return of a non-nil error without passing another test's false edge … keep it simple: some return of a non-nil error is reachable from the true successor and not from the false one
		errFromTrue, errFromFalse := false, false
		for _, b2 := range fin.Blocks {
			ret, ok := b2.Instrs[len(b2.Instrs)-1].(*ssa.Return)
			if !ok || ReturnsNilError(ret) {
				continue
			}
			if b2 == b.Succs[0] || (blockReaches(b.Succs[0], b2) && !b.Succs[1].Dominates(b2) && b.Succs[0].Dominates(b2)) {
				errFromTrue = true
			}
			if b2 == b.Succs[1] {
				errFromFalse = true
			}
		}
		if errFromTrue && !errFromFalse {
			refused[fname] = true
		}
	}
	n := 0
	for _, fn := range c.ModuleFunctions() {
		if fn.Blocks == nil {
			continue
		}
		k := 0
		for _, b := range fn.Blocks {
			for _, in := range b.Instrs {
				call, ok := in.(*ssa.Call)
				if !ok || call.Call.StaticCallee() != nlr || len(call.Call.Args) < 2 {
					continue
				}
				n++
				k++
				key := fmt.Sprintf("%s: NewLineReader #%d", SSAName(fn), k)
				sep := call.Call.Args[1]
				if kc, ok := sep.(*ssa.Const); ok {
					ne := kc.Value != nil && kc.Value.Kind() == constant.String && constant.StringVal(kc.Value) != ""
					r.Check(ne, "R18.16", key, c.Rel(call.Pos()), "non-empty constant", "NewLineReader is handed the empty string: it panics")
					continue
				}
				_, fname, ok := fieldLoadName(sep)
				if !ok {
					r.Undecided("R18.16", key, c.Rel(call.Pos()), "the separator is neither a constant nor a field of the reader options")
					continue
				}
				r.Check(refused[fname], "R18.16", key, c.Rel(call.Pos()), "FinalizeReaderOptions refuses an empty "+fname,
					fmt.Sprintf("%s hands NewLineReader the reader option %s, and FinalizeReaderOptions has no test that refuses an empty %s: with --%s '' the line reader panics (\"Empty IRS\")", SSAName(fn), fname, fname, strings.ToLower(fname)))
			}
		}
	}
	r.Floor("R18.16", "calls of NewLineReader", n, 6)
}

// R18.17: an index made from a float is made from a number. int(NaN) is the
// minimum int on amd64; a test "x < 0" does not catch NaN because every
// ordered comparison with NaN is false. So where a slice index is computed by
// converting a float64, either the integer is bounded below by an integer
// test, or the float has passed the TRUE side of an ordered comparison (or a
// math.IsNaN test) on every path.
func c18FloatIndex(c *Ctx, r *Report) {
	r.Rule("R18.17", "an index made from a float is an integer between integer bounds: where a slice/array/string index derives (by adding constants and integer conversions) from the conversion of a float64, the integer has a lower-bound test on the way (i >= c, i < c on the false side …), or the converted float (through math.Floor/Ceil/Trunc/Round) is, on every path, a constant or a value that has passed the true side of an ordered comparison or the false side of math.IsNaN — a NaN passes every 'x < 0' clamp on the false side and converts to the minimum int; and the integer has an upper-bound test as well (i < n, i >= n on the false side): value < hi does not keep (value - lo) * n / (hi - lo) below n")
	isRound := func(name string) bool {
		switch name {
		case "math.Floor", "math.Ceil", "math.Trunc", "math.Round", "math.RoundToEven":
			return true
		}
		return false
	}
	trueSideMentions := func(cond ssa.Value, pol bool, v ssa.Value) bool {
		cond, pol = stripNot(cond, pol)
		switch x := cond.(type) {
		case *ssa.BinOp:
			switch x.Op {
			case token.LSS, token.LEQ, token.GTR, token.GEQ, token.EQL:
				return pol && (x.X == v || x.Y == v)
			case token.NEQ:
				return !pol && (x.X == v || x.Y == v)
			}
		case *ssa.Call:
			if CalleeName(&x.Call) == "math.IsNaN" && len(x.Call.Args) == 1 && x.Call.Args[0] == v {
				return !pol
			}
		}
		return false
	}
	var isNumber func(v ssa.Value, at *ssa.BasicBlock, depth int) bool
	isNumber = func(v ssa.Value, at *ssa.BasicBlock, depth int) bool {
		if depth > 6 {
			return false
		}
		if k, ok := v.(*ssa.Const); ok {
			_ = k
			return true
		}
		for _, g := range GuardsAt(at) {
			if trueSideMentions(g.Cond, g.Polarity, v) {
				return true
			}
		}
		switch x := v.(type) {
		case *ssa.Call:
			if isRound(CalleeName(&x.Call)) {
				return isNumber(x.Call.Args[0], at, depth+1)
			}
		case *ssa.Convert:
			// float64(an integer) is a number
			if isIntegerType(x.X.Type()) {
				return true
			}
		case *ssa.Phi:
			for i, e := range x.Edges {
				p := x.Block().Preds[i]
				ok := isNumber(e, p, depth+1)
				if !ok {
					if iff, isIf := p.Instrs[len(p.Instrs)-1].(*ssa.If); isIf {
						ok = trueSideMentions(iff.Cond, p.Succs[0] == x.Block(), e)
					}
				}
				if !ok {
					return false
				}
			}
			return true
		}
		return false
	}
	lowerBounded := func(chain []ssa.Value, at *ssa.BasicBlock) bool {
		for _, g := range GuardsAt(at) {
			cond, pol := stripNot(g.Cond, g.Polarity)
			cmp, ok := cond.(*ssa.BinOp)
			if !ok {
				continue
			}
			for _, v := range chain {
				x, op := cmp.X, cmp.Op
				if cmp.Y == v {
					x, op = cmp.Y, mirrorTok(op)
				}
				if x != v {
					continue
				}
				switch {
				case (op == token.GEQ || op == token.GTR) && pol:
					return true
				case (op == token.LSS || op == token.LEQ) && !pol:
					return true
				case op == token.EQL && pol:
					return true
				}
			}
		}
		return false
	}
	upperBounded := func(chain []ssa.Value, at *ssa.BasicBlock) bool {
		for _, g := range GuardsAt(at) {
			cond, pol := stripNot(g.Cond, g.Polarity)
			cmp, ok := cond.(*ssa.BinOp)
			if !ok {
				continue
			}
			for _, v := range chain {
				x, op := cmp.X, cmp.Op
				if cmp.Y == v {
					x, op = cmp.Y, mirrorTok(op)
				}
				if x != v {
					continue
				}
				switch {
				case (op == token.LSS || op == token.LEQ) && pol:
					return true
				case (op == token.GEQ || op == token.GTR) && !pol:
					return true
				case op == token.EQL && pol:
					return true
				}
			}
		}
		return false
	}
	n := 0
	for _, fn := range c.ModuleFunctions() {
		if fn.Pkg == nil || fn.Blocks == nil {
			continue
		}
		pp := fn.Pkg.Pkg.Path()
		if !(strings.HasSuffix(pp, "/pkg/bifs") || strings.Contains(pp, "/pkg/transformers") || strings.HasSuffix(pp, "/pkg/lib") || strings.HasSuffix(pp, "/pkg/mlrval") || strings.HasSuffix(pp, "/pkg/dsl/cst")) {
			continue
		}
		k := 0
		for _, b := range fn.Blocks {
			for _, in := range b.Instrs {
				var idx ssa.Value
				switch x := in.(type) {
				case *ssa.IndexAddr:
					idx = x.Index
				case *ssa.Index:
					idx = x.Index
				default:
					continue
				}
				// back to a float conversion
				var chain []ssa.Value
				var cv *ssa.Convert
				v := idx
				for d := 0; d < 8 && v != nil; d++ {
					chain = append(chain, v)
					switch y := v.(type) {
					case *ssa.BinOp:
						if _, isK := y.Y.(*ssa.Const); isK && (y.Op == token.ADD || y.Op == token.SUB) {
							v = y.X
							continue
						}
						v = nil
					case *ssa.Convert:
						if isFloat64(y.X.Type()) {
							cv = y
							v = nil
						} else {
							v = y.X
						}
					default:
						v = nil
					}
				}
				if cv == nil {
					continue
				}
				n++
				k++
				key := fmt.Sprintf("%s: index from a float #%d", SSAName(fn), k)
				ok := lowerBounded(chain, b) || isNumber(cv.X, cv.Block(), 0)
				if ok && !upperBounded(chain, b) {
					r.Fail("R18.17", key, c.Rel(in.Pos()), fmt.Sprintf("%s indexes with an integer converted from a float64 and there is no integer test of it against an upper bound on the way: a float test such as value < hi does not bound the scaled product, which can round up to the length itself", SSAName(fn)))
					continue
				}
				r.Check(ok, "R18.17", key, c.Rel(in.Pos()), "the integer is bounded below (or the float is known to be a number) and bounded above",
					fmt.Sprintf("%s indexes with an integer converted from a float64 that can be NaN on the way here (no true side of an ordered comparison, no math.IsNaN test), and the integer has no lower-bound test: int(NaN) is the minimum int and the index panics", SSAName(fn)))
			}
		}
	}
	r.Floor("R18.17", "indexes derived from float conversions", n, 1)
}

// R18.18: recursion driven by the input has a bound. A function that reads
// JSON tokens and calls itself once per nesting level recurses as deep as the
// input says; Go's stack overflow is not a panic that can be caught. Such a
// function carries a depth and refuses beyond a constant.
func c18BoundedRecursion(c *Ctx, r *Report) {
	r.Rule("R18.18", "recursion driven by the input has a bound: a function that takes a *json.Decoder and calls itself passes an integer parameter increased by a constant on every self-call and compares that parameter with a constant before going on (a return on the far side) — three million '[' would otherwise end the process with a stack overflow, which no recover() catches")
	n := 0
	for _, fn := range c.ModuleFunctions() {
		if fn.Pkg == nil || fn.Blocks == nil {
			continue
		}
		hasDecoder := false
		for _, p := range fn.Params {
			if strings.HasSuffix(p.Type().String(), "encoding/json.Decoder") {
				hasDecoder = true
			}
		}
		if !hasDecoder {
			continue
		}
		var selfCalls []*ssa.Call
		for _, b := range fn.Blocks {
			for _, in := range b.Instrs {
				if call, ok := in.(*ssa.Call); ok && call.Call.StaticCallee() == fn {
					selfCalls = append(selfCalls, call)
				}
			}
		}
		if len(selfCalls) == 0 {
			continue
		}
		n++
		key := SSAName(fn) + ": self-recursion on JSON tokens"
		// a parameter that grows on every self-call
		var depth *ssa.Parameter
		for pi, p := range fn.Params {
			if !isIntegerType(p.Type()) {
				continue
			}
			all := true
			for _, sc := range selfCalls {
				bo, ok := sc.Call.Args[pi].(*ssa.BinOp)
				if !ok || bo.Op != token.ADD || bo.X != ssa.Value(p) {
					all = false
					break
				}
				if k, ok := bo.Y.(*ssa.Const); !ok || k.Value == nil || constant.Sign(k.Value) <= 0 {
					all = false
					break
				}
			}
			if all {
				depth = p
			}
		}
		if depth == nil {
			r.Fail("R18.18", key, c.Rel(fn.Pos()), fmt.Sprintf("%s calls itself once per nesting level of its JSON input and carries no depth that grows with each call: the input decides how deep the Go stack goes", SSAName(fn)))
			continue
		}
		// every self-call is dominated by a comparison of depth with a constant whose other side returns
		okAll := true
		for _, sc := range selfCalls {
			guarded := false
			for _, g := range GuardsAt(sc.Block()) {
				cond, pol := stripNot(g.Cond, g.Polarity)
				cmp, ok := cond.(*ssa.BinOp)
				if !ok || cmp.X != ssa.Value(depth) {
					continue
				}
				if _, isK := cmp.Y.(*ssa.Const); !isK {
					continue
				}
				if ((cmp.Op == token.GTR || cmp.Op == token.GEQ) && !pol) || ((cmp.Op == token.LSS || cmp.Op == token.LEQ) && pol) {
					guarded = true
				}
			}
			if !guarded {
				okAll = false
			}
		}
		r.Check(okAll, "R18.18", key, c.Rel(fn.Pos()), "depth parameter "+depth.Name()+" grows per call and is compared with a constant",
			fmt.Sprintf("%s carries a depth but a self-call is reached with no test of it against a constant on the way", SSAName(fn)))
	}
	r.Floor("R18.18", "self-recursive JSON token readers", n, 1)
}

// R18.19: a clamp for an index stops below the length. min(i, len(t)) can be
// len(t); t[min(i, len(t))] is then out of range by one.
func c18ClampBelowLength(c *Ctx, r *Report) {
	r.Rule("R18.19", "a clamp for an index stops below the length: where an index into a slice, array or string is the result of the min builtin, no argument of that min is len() of the indexed value itself (or a constant not below the length of an indexed array) — t[min(i, len(t))] is out of range when the clamp bites; len(t)-1 is the clamp for an index")
	n, examined := 0, 0
	for _, fn := range c.ModuleFunctions() {
		if fn.Pkg == nil || fn.Blocks == nil || !scopeForCrashRules(fn) {
			continue
		}
		k := 0
		for _, b := range fn.Blocks {
			for _, in := range b.Instrs {
				var x, idx ssa.Value
				switch y := in.(type) {
				case *ssa.IndexAddr:
					x, idx = y.X, y.Index
				case *ssa.Index:
					x, idx = y.X, y.Index
				default:
					continue
				}
				examined++
				for {
					if cv, ok := idx.(*ssa.Convert); ok {
						idx = cv.X
						continue
					}
					break
				}
				call, ok := idx.(*ssa.Call)
				if !ok {
					continue
				}
				bi, ok := call.Call.Value.(*ssa.Builtin)
				if !ok || bi.Name() != "min" {
					continue
				}
				n++
				k++
				key := fmt.Sprintf("%s: index clamped by min #%d", SSAName(fn), k)
				bad := ""
				alen := int64(-1)
				t := x.Type().Underlying()
				if p, ok := t.(*types.Pointer); ok {
					t = p.Elem().Underlying()
				}
				if at, ok := t.(*types.Array); ok {
					alen = at.Len()
				}
				for _, a := range call.Call.Args {
					if lc, ok := a.(*ssa.Call); ok {
						if lb, ok := lc.Call.Value.(*ssa.Builtin); ok && lb.Name() == "len" && (lc.Call.Args[0] == x || sameValue(lc.Call.Args[0], x)) {
							bad = "len of the indexed value"
						}
					}
					if kc, ok := a.(*ssa.Const); ok && alen >= 0 && kc.Value != nil && kc.Value.Kind() == constant.Int {
						if v, exact := constant.Int64Val(kc.Value); exact && v >= alen {
							bad = fmt.Sprintf("the constant %d, not below the array length %d", v, alen)
						}
					}
				}
				r.Check(bad == "", "R18.19", key, c.Rel(in.Pos()), "the clamp is below the length",
					fmt.Sprintf("%s indexes with min(…) one of whose arguments is %s: when the clamp bites the index equals the length and the process panics with 'index out of range'", SSAName(fn), bad))
			}
		}
	}
	if n == 0 {
		r.OK("R18.19", "no index clamped by min", "", fmt.Sprintf("%d index expressions examined, none takes its index from the min builtin", examined))
	}
	r.Floor("R18.19", "index expressions examined", examined, 500)
}

// R18.20: what a map look-up returns may be nil. (*Mlrmap).Get returns nil
// for a key that is not there. In the interpreter, where the keys come from
// the program and the data, a method call on the result (which dereferences
// it) is reached only past a nil test of that result.
func c18MapGetNil(c *Ctx, r *Report) {
	r.Rule("R18.20", "what a map look-up returns may be nil: in package cst, a value returned by (*Mlrmap).Get that is used as the receiver of a method (or has a field read) is tested against nil on the way — lashed emits over maps with different key sets, and every other look-up by a key that comes from data, meet missing keys")
	n := 0
	for _, fn := range c.ModuleFunctions() {
		if fn.Pkg == nil || fn.Blocks == nil || !strings.HasSuffix(fn.Pkg.Pkg.Path(), "/pkg/dsl/cst") {
			continue
		}
		k := 0
		for _, b := range fn.Blocks {
			for _, in := range b.Instrs {
				get, ok := in.(*ssa.Call)
				if !ok || !strings.HasSuffix(CalleeName(&get.Call), "pkg/mlrval.Mlrmap.Get") || get.Referrers() == nil {
					continue
				}
				// uses as a receiver, directly or through a cell of a local slice the value was stored in
				type use struct {
					at  ssa.Instruction
					val ssa.Value
				}
				var uses []use
				for _, ref := range *get.Referrers() {
					switch x := ref.(type) {
					case *ssa.Call:
						if !x.Call.IsInvoke() && len(x.Call.Args) > 0 && x.Call.Args[0] == ssa.Value(get) && x.Call.StaticCallee() != nil && x.Call.StaticCallee().Signature.Recv() != nil {
							uses = append(uses, use{x, get})
						}
					case *ssa.FieldAddr:
						uses = append(uses, use{x, get})
					case *ssa.Store:
						// stored into a slice cell and read back in the same block as a receiver
						if ia, ok := x.Addr.(*ssa.IndexAddr); ok && x.Val == ssa.Value(get) {
							for _, in2 := range x.Block().Instrs {
								if ld, ok := in2.(*ssa.UnOp); ok && ld.Op == token.MUL {
									if ia2, ok := ld.X.(*ssa.IndexAddr); ok && ia2.X == ia.X && ia2.Index == ia.Index && ld.Referrers() != nil {
										for _, r2 := range *ld.Referrers() {
											if c2, ok := r2.(*ssa.Call); ok && !c2.Call.IsInvoke() && len(c2.Call.Args) > 0 && c2.Call.Args[0] == ssa.Value(ld) && c2.Call.StaticCallee() != nil && c2.Call.StaticCallee().Signature.Recv() != nil {
												uses = append(uses, use{c2, ld})
											}
										}
									}
								}
							}
						}
					}
				}
				for _, u := range uses {
					n++
					k++
					key := fmt.Sprintf("%s: use of a Get result #%d", SSAName(fn), k)
					tested := false
					for _, g := range GuardsAt(u.at.Block()) {
						cond, pol := stripNot(g.Cond, g.Polarity)
						cmp, ok := cond.(*ssa.BinOp)
						if !ok || !isNilConst(cmp.X, cmp.Y) || !(cmp.X == ssa.Value(get) || cmp.Y == ssa.Value(get) || cmp.X == u.val || cmp.Y == u.val) {
							continue
						}
						if (cmp.Op == token.NEQ && pol) || (cmp.Op == token.EQL && !pol) {
							tested = true
						}
					}
					// methods that accept a nil receiver by testing it themselves
					if call, ok := u.at.(*ssa.Call); ok && nilSafeReceiver(call.Call.StaticCallee()) {
						tested = true
					}
					r.Check(tested, "R18.20", key, c.Rel(u.at.Pos()), "past a nil test",
						fmt.Sprintf("%s calls a method on (or reads a field of) the result of Mlrmap.Get with no nil test on the way: for a key that is not in the map the result is nil and the process dies with a nil pointer dereference", SSAName(fn)))
				}
			}
		}
	}
	r.Floor("R18.20", "receiver uses of Mlrmap.Get results in package cst", n, 1)
}

// nilSafeReceiver: the method's first act is to compare its receiver with nil.
func nilSafeReceiver(f *ssa.Function) bool {
	if f == nil || f.Blocks == nil || len(f.Params) == 0 {
		return false
	}
	b := f.Blocks[0]
	iff, ok := b.Instrs[len(b.Instrs)-1].(*ssa.If)
	if !ok {
		return false
	}
	cmp, ok := iff.Cond.(*ssa.BinOp)
	return ok && (cmp.X == ssa.Value(f.Params[0]) || cmp.Y == ssa.Value(f.Params[0])) && isNilConst(cmp.X, cmp.Y)
}
