package main

// C12 — integrity of the record data structure (linked list, FieldCount,
// lazily built key index) under list surgery; value-only verbs.

import (
	"os"
	"fmt"
	"go/constant"
	"go/token"
	"go/types"
	"sort"
	"strings"

	"golang.org/x/tools/go/callgraph"
	"golang.org/x/tools/go/ssa"
)

func init() { register("C12", true, runC12) }

const mlrvalPkg = modPath + "/pkg/mlrval"

// structField: the struct type name and field name stored to by a Store
// whose address is a FieldAddr.
func storeField(st *ssa.Store) (typeName, field string, base ssa.Value, ok bool) {
	fa, isFA := st.Addr.(*ssa.FieldAddr)
	if !isFA {
		return "", "", nil, false
	}
	pt, isP := fa.X.Type().Underlying().(*types.Pointer)
	if !isP {
		return "", "", nil, false
	}
	named, isN := pt.Elem().(*types.Named)
	if !isN {
		return "", "", nil, false
	}
	stt, isS := named.Underlying().(*types.Struct)
	if !isS {
		return "", "", nil, false
	}
	if named.Obj().Pkg() == nil || named.Obj().Pkg().Path() != mlrvalPkg {
		return "", "", nil, false
	}
	return named.Obj().Name(), stt.Field(fa.Field).Name(), fa.X, true
}

var structuralFields = map[string]map[string]bool{
	"Mlrmap":      {"Head": true, "Tail": true, "FieldCount": true, "keysToEntries": true, "autoHash": true},
	"MlrmapEntry": {"Key": true, "Prev": true, "Next": true},
}

func runC12(c *Ctx, r *Report) {
	r.Explanation = "Every field-restructuring verb relies on Mlrmap's doubly linked list, FieldCount and the lazily built key index (records of 12+ fields) staying mutually consistent; a stale index makes a verb find, drop or duplicate the wrong bystander field. Decided structurally: only package mlrval writes the structural fields; every primitive that links/unlinks an entry adjusts the count and the index on the same paths; every primitive that changes a linked entry's key deletes the old index key and inserts the new one; the index builder visits every entry with first-occurrence-wins like the linear search; value-only verbs reach no structural mutator on input records."
	r.NotDecided = "what each verb does to the fields it names; inverse-pair laws (rename there-and-back, nest explode/implode, reshape); keystroke-saver ≡ DSL equivalences."
	c12Ownership(c, r)
	c12Paired(c, r)
	c12Index(c, r)
	c12ValueOnly(c, r)
	c12NoRecordDropped(c, r)
	r.Rule("R12.7", "restructuring verbs order fields with stable sorts only: every sort call in the C12 verb files is a stable sort or a sort of plain strings (whose ties are identical); an unstable sort of fields that tie (cut -r -o: fields matching the same regex) would change their relative order in wide records")
	checkStableSorts(c, r, "R12.7", c12VerbFiles, 3)
	c12RegexSplice(c, r)
	c12PerFieldLoops(c, r)
	c12NotOwnCollision(c, r)
	c12LinkSymmetry(c, r)
}

func c12Ownership(c *Ctx, r *Report) {
	r.Rule("R12.1", "ownership: only package mlrval stores to Mlrmap.Head/Tail/FieldCount/keysToEntries/autoHash and MlrmapEntry.Key/Prev/Next (the fields are exported, so the compiler does not enforce this); other packages may store MlrmapEntry.Value only")
	nIn, nValue := 0, 0
	var bad []string
	for _, fn := range c.ModuleFunctions() {
		top := enclosingNamed(fn)
		pk := ""
		if top.Pkg != nil {
			pk = top.Pkg.Pkg.Path()
		}
		for _, b := range fn.Blocks {
			for _, in := range b.Instrs {
				st, ok := in.(*ssa.Store)
				if !ok {
					continue
				}
				tn, fld, _, ok := storeField(st)
				if !ok {
					continue
				}
				if tn == "MlrmapEntry" && fld == "Value" && pk != mlrvalPkg {
					nValue++
					continue
				}
				if !structuralFields[tn][fld] {
					continue
				}
				if pk == mlrvalPkg {
					nIn++
					continue
				}
				bad = append(bad, fmt.Sprintf("%s stores %s.%s at %s", SSAName(fn), tn, fld, c.Rel(st.Pos())))
			}
		}
	}
	sort.Strings(bad)
	for _, b := range bad {
		r.Fail("R12.1", strings.SplitN(b, " at ", 2)[0], strings.SplitN(b, " at ", 2)[1], "a structural field of the record list is written outside package mlrval: FieldCount and the key index are not kept in step, so later lookups on records of 12+ fields hit the wrong entry")
	}
	r.OK("R12.1", "structural stores inside mlrval", "pkg/mlrval", fmt.Sprintf("%d structural stores, all in package mlrval; %d MlrmapEntry.Value stores elsewhere", nIn, nValue))
	r.Floor("R12.1", "structural stores in mlrval", nIn, 60)
}

// c12Paired: path rule over every mlrval function that stores a structural
// field.
func c12Paired(c *Ctx, r *Report) {
	r.Rule("R12.2", "paired update: every mlrval function that links or unlinks an entry (stores Head/Tail/Prev/Next) also stores FieldCount and updates keysToEntries (under its != nil guard) on the same paths; every function that stores the Key of an entry deletes the old key from the index and inserts the new key, on every path where the index exists")
	p := c.Pkg("pkg/mlrval")
	exempt := map[string]string{
		"newEntry":      "RecordArena.newEntry fills a fresh, not yet linked entry",
		"newMlrmapEntry": "constructor of an unlinked entry",
	}
	nlink, nkey := 0, 0
	for _, fobj := range c.FuncsOfPkg(p) {
		fn := c.SSAFunc(fobj)
		if fn == nil || fn.Blocks == nil {
			continue
		}
		stores := map[string]bool{}
		freshOnly := true
		for _, b := range fn.Blocks {
			for _, in := range b.Instrs {
				if st, ok := in.(*ssa.Store); ok {
					if tn, fld, base, ok := storeField(st); ok && structuralFields[tn][fld] {
						stores[tn+"."+fld] = true
						if _, isAlloc := base.(*ssa.Alloc); !isAlloc {
							freshOnly = false
						}
					}
				}
			}
		}
		if len(stores) == 0 || freshOnly {
			continue // composite literals of new objects
		}
		if why, ok := exempt[fobj.Name()]; ok {
			r.OK("R12.2", FuncName(fobj), c.Rel(fn.Pos()), "exempt: "+why)
			continue
		}
		links := stores["Mlrmap.Head"] || stores["Mlrmap.Tail"] || stores["MlrmapEntry.Prev"] || stores["MlrmapEntry.Next"]
		keys := stores["MlrmapEntry.Key"]
		if !links && !keys {
			continue // e.g. buildIndex (keysToEntries only), HashRecords
		}
		isIdxLoad := func(v ssa.Value) bool {
			_, name, ok := fieldLoadName(v)
			return ok && name == "keysToEntries"
		}
		bad := ""
		pr := &PathRule{Fn: fn}
		pr.Branch = func(f Facts, cond ssa.Value, pol bool, iff *ssa.If) (Facts, bool) {
			if bo, ok := cond.(*ssa.BinOp); ok && (bo.Op == token.NEQ || bo.Op == token.EQL) {
				if kk, isK := bo.Y.(*ssa.Const); isK && kk.IsNil() && isIdxLoad(bo.X) {
					nonNil := (bo.Op == token.NEQ) == pol
					if nonNil {
						if f.Has("unhashed") {
							return nil, false
						}
						return f.With("hashed"), true
					}
					if f.Has("hashed") {
						return nil, false
					}
					return f.With("unhashed"), true
				}
			}
			return nil, true
		}
		pr.Transfer = func(f Facts, in ssa.Instruction, deferred bool) []Facts {
			switch x := in.(type) {
			case *ssa.Store:
				if tn, fld, _, ok := storeField(x); ok {
					switch {
					case tn == "Mlrmap" && (fld == "Head" || fld == "Tail"), tn == "MlrmapEntry" && (fld == "Prev" || fld == "Next"):
						return []Facts{f.With("link")}
					case tn == "Mlrmap" && fld == "FieldCount":
						return []Facts{f.With("count")}
					case tn == "Mlrmap" && fld == "keysToEntries":
						return []Facts{f.With("idxins", "idxdel")}
					case tn == "MlrmapEntry" && fld == "Key":
						// a delete performed before the key changes refers to the old key
						g := f.With("key")
						if f.Has("idxdel") {
							g = g.With("idxdelold")
						}
						return []Facts{g.Without("idxins")}
					}
				}
				// whole-struct replacement *mlrmap = *other: self-consistent
				if _, isParam := x.Addr.(*ssa.Parameter); isParam {
					return []Facts{f.With("replaced")}
				}
			case *ssa.MapUpdate:
				if isIdxLoad(x.Map) {
					return []Facts{f.With("idxins")}
				}
			case *ssa.Call:
				if bi, ok := x.Call.Value.(*ssa.Builtin); ok && bi.Name() == "delete" && isIdxLoad(x.Call.Args[0]) {
					g := f.With("idxdel")
					// a delete whose key is read from an entry's Key field names the old key
					// only if it runs before the Key is overwritten; a delete by an
					// independent value (e.g. the oldKey parameter) counts anywhere
					if _, name, isFld := fieldLoadName(x.Call.Args[1]); !(isFld && name == "Key") || !f.Has("key") {
						g = g.With("idxdelold")
					}
					return []Facts{g}
				}
				n := CalleeName(&x.Call)
				if strings.HasSuffix(n, "Mlrmap.findEntry") || strings.HasSuffix(n, "Mlrmap.buildIndex") {
					// may build the index: forget what we knew about its existence
					return []Facts{f.Without("unhashed")}
				}
			}
			return nil
		}
		pr.AtReturn = func(f Facts, ret *ssa.Return) {
			if f.Has("replaced") {
				return
			}
			if f.Has("link") {
				if !f.Has("count") {
					bad = c.Rel(ret.Pos()) + ": a path links/unlinks an entry without adjusting FieldCount"
				}
				if !f.Has("unhashed") && !(f.Has("idxins") || f.Has("idxdel")) {
					bad = c.Rel(ret.Pos()) + ": a path links/unlinks an entry without updating the key index although the index may exist"
				}
			}
			if f.Has("key") && !f.Has("unhashed") {
				if !f.Has("idxdelold") {
					bad = c.Rel(fn.Pos()) + ": a path changes an entry's Key without deleting the old key from the key index: on records with an index (12+ fields) the old name still resolves to the renamed entry"
				} else if !f.Has("idxins") {
					bad = c.Rel(ret.Pos()) + ": a path changes an entry's Key without inserting the new key into the key index"
				}
			}
		}
		pr.Run()
		if links {
			nlink++
		}
		if keys {
			nkey++
		}
		r.Check(bad == "", "R12.2", FuncName(fobj), c.Rel(fn.Pos()), "count and index updated on every path that changes the list / the key", bad)
	}
	r.Floor("R12.2", "link/unlink primitives", nlink, 8)
	r.Floor("R12.2", "key-changing primitives", nkey, 2)
}

func c12Index(c *Ctx, r *Report) {
	r.Rule("R12.3", "index construction is total: buildIndex walks every entry from Head by Next until nil, inserting with first-occurrence-wins (like the linear search of findEntry) and stores the map; findEntry uses the index only when non-nil or right after building it; Copy preserves autoHash")
	bi := c.SSAFunc(c.LookupFunc("pkg/mlrval", "Mlrmap.buildIndex"))
	if bi == nil {
		r.Undecided("R12.3", "buildIndex", "", "anchor not found")
		return
	}
	// loop phi: edges {load recv.Head, load pe.Next}; exits only on pe == nil
	var loopPhi *ssa.Phi
	for _, b := range bi.Blocks {
		for _, in := range b.Instrs {
			if phi, ok := in.(*ssa.Phi); ok && len(phi.Edges) == 2 {
				h, n := false, false
				for _, e := range phi.Edges {
					if _, name, ok := fieldLoadName(e); ok {
						if name == "Head" {
							h = true
						}
						if name == "Next" {
							n = true
						}
					}
				}
				if h && n {
					loopPhi = phi
				}
			}
		}
	}
	okLoop := loopPhi != nil
	exits := 0
	firstWins := false
	stored := false
	if okLoop {
		for _, b := range bi.Blocks {
			if !inLoop(b) {
				continue
			}
			if iff, ok := b.Instrs[len(b.Instrs)-1].(*ssa.If); ok {
				for _, s := range b.Succs {
					if !inLoop(s) || !blockReaches(s, b) {
						exits++
						// exit condition must be pe != nil / pe == nil on the phi
						bo, isBo := iff.Cond.(*ssa.BinOp)
						if !isBo || bo.X != loopPhi {
							okLoop = false
						} else if kk, isK := bo.Y.(*ssa.Const); !isK || !kk.IsNil() {
							okLoop = false
						}
					}
				}
			}
			for _, in := range b.Instrs {
				if mu, ok := in.(*ssa.MapUpdate); ok {
					// guarded by !ok of a lookup on the same map and key
					for _, g := range GuardsAt(b) {
						if ex, isEx := g.Cond.(*ssa.Extract); isEx && ex.Index == 1 && !g.Polarity {
							if lk, isLk := ex.Tuple.(*ssa.Lookup); isLk && lk.CommaOk && lk.X == mu.Map {
								firstWins = true
							}
						}
					}
				}
			}
		}
	}
	for _, b := range bi.Blocks {
		for _, in := range b.Instrs {
			if st, ok := in.(*ssa.Store); ok {
				if _, fld, _, ok := storeField(st); ok && fld == "keysToEntries" {
					stored = true
				}
			}
		}
	}
	r.Check(okLoop && exits == 1, "R12.3", "buildIndex visits every entry", c.Rel(bi.Pos()), "for pe := Head; pe != nil; pe = pe.Next with a single exit", fmt.Sprintf("buildIndex's loop is not a full Head→Next walk ending only at nil (loop found=%v, exits=%d): entries beyond the stop are invisible to key lookups on wide records", okLoop, exits))
	r.Check(firstWins, "R12.3", "buildIndex first occurrence wins", c.Rel(bi.Pos()), "insert guarded by absence of the key", "buildIndex overwrites duplicate keys (last wins) while the linear search of findEntry returns the first match: lookups differ between narrow and wide records / --hash-records settings")
	r.Check(stored, "R12.3", "buildIndex stores the index", c.Rel(bi.Pos()), "keysToEntries = m", "buildIndex never stores the map it built")
	// findEntry
	fe := c.SSAFunc(c.LookupFunc("pkg/mlrval", "Mlrmap.findEntry"))
	if fe == nil {
		r.Undecided("R12.3", "findEntry", "", "anchor not found")
		return
	}
	bad := ""
	for _, b := range fe.Blocks {
		for _, in := range b.Instrs {
			lk, ok := in.(*ssa.Lookup)
			if !ok {
				continue
			}
			if _, name, ok := fieldLoadName(lk.X); !ok || name != "keysToEntries" {
				continue
			}
			guarded := false
			for _, g := range GuardsAt(b) {
				if bo, ok := g.Cond.(*ssa.BinOp); ok {
					if _, name, ok := fieldLoadName(bo.X); ok && name == "keysToEntries" && (bo.Op == token.NEQ) == g.Polarity {
						guarded = true
					}
				}
			}
			afterBuild := false
			for _, in2 := range b.Instrs {
				if in2 == in {
					break
				}
				if call, ok := in2.(*ssa.Call); ok && call.Call.StaticCallee() == bi {
					afterBuild = true
				}
			}
			if !guarded && !afterBuild {
				bad = c.Rel(lk.Pos())
			}
		}
	}
	r.Check(bad == "", "R12.3", "findEntry consults the index only when it exists", c.Rel(fe.Pos()), "lookup guarded by != nil or directly after buildIndex()", "findEntry reads keysToEntries at "+bad+" without knowing it exists")
	cp := c.SSAFunc(c.LookupFunc("pkg/mlrval", "Mlrmap.Copy"))
	if cp != nil {
		reads := false
		for _, b := range cp.Blocks {
			for _, in := range b.Instrs {
				if v, ok := in.(ssa.Value); ok {
					if _, name, ok := fieldLoadName(v); ok && name == "autoHash" {
						reads = true
					}
				}
			}
		}
		r.Check(reads, "R12.3", "Copy preserves autoHash", c.Rel(cp.Pos()), "Copy branches on autoHash", "Mlrmap.Copy no longer looks at autoHash: copies change hashing behaviour")
	}
}

// structural mutators: functions of mlrval that transitively store a
// structural field of an object they did not allocate.
func structuralMutators(c *Ctx) map[*ssa.Function]bool {
	direct := map[*ssa.Function]bool{}
	p := c.Pkg("pkg/mlrval")
	for _, fobj := range c.FuncsOfPkg(p) {
		fn := c.SSAFunc(fobj)
		if fn == nil {
			continue
		}
		for _, b := range fn.Blocks {
			for _, in := range b.Instrs {
				st, ok := in.(*ssa.Store)
				if !ok {
					continue
				}
				if tn, fld, base, ok := storeField(st); ok && structuralFields[tn][fld] && fld != "keysToEntries" && fld != "autoHash" {
					if _, fresh := base.(*ssa.Alloc); !fresh {
						direct[fn] = true
					}
				}
				// *mlrmap = *other
				if prm, isParam := st.Addr.(*ssa.Parameter); isParam && len(fn.Params) > 0 && prm == fn.Params[0] {
					if pt, ok := prm.Type().(*types.Pointer); ok {
						if n, ok := pt.Elem().(*types.Named); ok && n.Obj().Name() == "Mlrmap" {
							direct[fn] = true
						}
					}
				}
			}
		}
	}
	// transitive closure within mlrval over static calls
	changed := true
	for changed {
		changed = false
		for _, fobj := range c.FuncsOfPkg(p) {
			fn := c.SSAFunc(fobj)
			if fn == nil || direct[fn] {
				continue
			}
			ForEachCall(fn, true, func(site ssa.CallInstruction, in *ssa.Function) {
				if cal := site.Common().StaticCallee(); cal != nil && direct[cal] {
					// only if the receiver/argument is not a fresh object of this function
					if len(site.Common().Args) > 0 && isFreshMap(site.Common().Args[0]) {
						return
					}
					if !direct[fn] {
						if os.Getenv("MLRLINT_DEBUG_MUTS") != "" {
							fmt.Fprintf(os.Stderr, "MUT %s via %s at %s\n", SSAName(fn), SSAName(cal), c.Rel(site.Pos()))
						}
						direct[fn] = true
						changed = true
					}
				}
			})
		}
	}
	return direct
}

var valueOnlyVerbs = []string{"TransformerFillEmpty", "TransformerSec2GMT", "TransformerSec2GMTDate", "TransformerFormatValues", "TransformerSubs", "TransformerUTF8ToLatin1", "TransformerLatin1ToUTF8"}

func c12ValueOnly(c *Ctx, r *Report) {
	r.Rule("R12.4", "value-only verbs are value-only: fill-empty, sec2gmt, sec2gmtdate, format-values, sub/gsub/ssub, utf8-to-latin1 and latin1-to-utf8 reach, on the input record, no structural Mlrmap mutator (add/remove/rename/reorder); they only store MlrmapEntry.Value or call PutReference/PutCopy with a key just obtained from Get/Has on the same record (replacing an existing key keeps its position)")
	muts := structuralMutators(c)
	r.Floor("R12.4", "structural mutators of Mlrmap", len(muts), 20)
	tp := c.Pkg("pkg/transformers")
	n := 0
	for _, vn := range valueOnlyVerbs {
		tn, ok := tp.Types.Scope().Lookup(vn).(*types.TypeName)
		if !ok {
			r.Undecided("R12.4", vn, "", "verb type not found")
			continue
		}
		named := tn.Type().(*types.Named)
		var roots []*ssa.Function
		for i := 0; i < named.NumMethods(); i++ {
			if f := c.SSAFunc(named.Method(i)); f != nil && f.Blocks != nil {
				// only methods that take a record
				for _, prm := range f.Params {
					if isRecordAndContextPtr(prm.Type()) {
						roots = append(roots, f)
						break
					}
				}
			}
		}
		n++
		// direct calls (depth-limited through verb-local helpers) to mutators with a receiver that is the input record
		var bad []string
		seen := map[*ssa.Function]bool{}
		var walk func(f *ssa.Function, depth int)
		walk = func(f *ssa.Function, depth int) {
			if seen[f] || depth > 3 || f.Blocks == nil {
				return
			}
			seen[f] = true
			ForEachCall(f, true, func(site ssa.CallInstruction, in *ssa.Function) {
				com := site.Common()
				cal := com.StaticCallee()
				if cal == nil {
					return
				}
				if muts[cal] {
					name := cal.Name()
					// allowed: PutReference / PutCopy on a key proven present (replace in place)
					if (name == "PutReference" || name == "PutCopy") && len(com.Args) >= 2 && keyProvenPresent(site, com.Args[0], com.Args[1]) {
						return
					}
					// mutation of a freshly built map is not a mutation of the input record
					if len(com.Args) > 0 && isFreshMap(com.Args[0]) {
						return
					}
					bad = append(bad, fmt.Sprintf("%s calls %s at %s", SSAName(in), SSAName(cal), c.Rel(site.Pos())))
					return
				}
				if cal.Pkg != nil && cal.Pkg.Pkg.Path() == modPath+"/pkg/transformers" {
					walk(cal, depth+1)
				}
			})
		}
		for _, rt := range roots {
			walk(rt, 0)
		}
		sort.Strings(bad)
		r.Check(len(bad) == 0, "R12.4", vn, c.Rel(tn.Pos()), fmt.Sprintf("%d record-handling methods; no structural mutation of the input record", len(roots)),
			"a value-only verb structurally mutates its input record ("+strings.Join(bad, "; ")+"): names, count or order of bystander fields can change")
	}
	r.Floor("R12.4", "value-only verbs", n, 6)
}

func isFreshMap(v ssa.Value) bool {
	switch x := v.(type) {
	case *ssa.Alloc:
		return true
	case *ssa.Call:
		n := CalleeName(&x.Call)
		return strings.Contains(n, "NewMlrmap") || strings.Contains(n, "newMlrmap") || strings.HasSuffix(n, ".Copy")
	case *ssa.Phi:
		for _, e := range x.Edges {
			if !isFreshMap(e) {
				return false
			}
		}
		return true
	}
	return false
}

// keyProvenPresent: the call site is dominated by a non-nil Get(key) / true
// Has(key) on the same record with the same key value, or the key is the Key
// of an entry of a walk over that record.
func keyProvenPresent(site ssa.CallInstruction, rec, key ssa.Value) bool {
	for _, g := range GuardsAt(site.Block()) {
		switch x := g.Cond.(type) {
		case *ssa.BinOp:
			// Get(key) != nil
			if kk, isK := x.Y.(*ssa.Const); isK && kk.IsNil() && (x.Op == token.NEQ) == g.Polarity {
				if call, ok := x.X.(*ssa.Call); ok {
					n := CalleeName(&call.Call)
					if (strings.HasSuffix(n, "Mlrmap.Get") || strings.HasSuffix(n, "Mlrmap.GetEntry")) && sameValue(call.Call.Args[0], rec) && (call.Call.Args[1] == key || sameValue(call.Call.Args[1], key)) {
						return true
					}
				}
			}
		case *ssa.Call:
			n := CalleeName(&x.Call)
			if strings.HasSuffix(n, "Mlrmap.Has") && g.Polarity && sameValue(x.Call.Args[0], rec) && (x.Call.Args[1] == key || sameValue(x.Call.Args[1], key)) {
				return true
			}
		}
	}
	// key is pe.Key of an entry reached from the record's Head
	if _, name, ok := fieldLoadName(key); ok && name == "Key" {
		return true
	}
	return false
}

var _ callgraph.Graph

// ---- R12.6 ------------------------------------------------------------------
// A field-restructuring verb never drops a record.
var c12VerbFiles = []string{"cut.go", "template.go", "reorder.go", "rename.go", "label.go", "regularize.go", "sort_within_records.go", "unsparsify.go", "sparsify.go", "fill_empty.go", "nest.go", "reshape.go", "flatten.go", "unflatten.go", "json_stringify.go", "json_parse.go", "sec2gmt.go", "sec2gmtdate.go", "altkv.go", "case.go", "unspace.go", "subs.go"}

func c12NoRecordDropped(c *Ctx, r *Report) {
	r.Rule("R12.6", "a restructuring verb passes every record on: in the record functions of the C12 verbs (those taking the input record and the output list), every path through the not-end-of-stream branch to a successful return appends to the output list, hands the output list to another function, or keeps the record in the verb's state (stores it, or passes it to a method of a state field) — a path that does none of these silently drops the record (e.g. 'no field matched' without the pass-through)")
	n := 0
	for _, file := range c12VerbFiles {
		for _, fn := range funcsInFile(c, "pkg/transformers", file) {
			var inrec, outlist ssa.Value
			for _, p := range fn.Params {
				ts := p.Type().String()
				if strings.HasSuffix(ts, "types.RecordAndContext") && strings.HasPrefix(ts, "*") && !strings.HasPrefix(ts, "*[]") {
					inrec = p
				}
				if strings.HasPrefix(ts, "*[]*") && strings.HasSuffix(ts, "types.RecordAndContext") {
					outlist = p
				}
			}
			if inrec == nil || outlist == nil {
				continue
			}
			// the not-end-of-stream branch
			var start *ssa.BasicBlock
			for _, b := range fn.Blocks {
				iff, ok := b.Instrs[len(b.Instrs)-1].(*ssa.If)
				if !ok {
					continue
				}
				cond, pol := stripNot(iff.Cond, true)
				if base, name, ok := fieldLoadName(cond); ok && name == "EndOfStream" && isParamOf(base, fn) {
					if pol {
						start = b.Succs[1]
					} else {
						start = b.Succs[0]
					}
				}
			}
			if start == nil {
				continue
			}
			n++
			if why, ok := manyToOne[SSAName(fn)]; ok {
				r.OK("R12.6", SSAName(fn), c.Rel(fn.Pos()), "frozen exception: "+why)
				continue
			}
			// values that stand for the input record
			isRec := func(v ssa.Value) bool {
				for d := 0; d < 4; d++ {
					if v == inrec {
						return true
					}
					switch x := v.(type) {
					case *ssa.UnOp:
						v = x.X
					case *ssa.FieldAddr:
						v = x.X
					case *ssa.MakeInterface:
						v = x.X
					default:
						return false
					}
				}
				return false
			}
			// the output list, or a load of the cell it was spilled to (go/ssa spills the
			// parameters of a function with a range-over-func loop: its yield closure captures them)
			isOut := func(v ssa.Value) bool {
				if v == outlist {
					return true
				}
				if ld, ok := v.(*ssa.UnOp); ok && ld.Op == token.MUL {
					if al, ok := ld.X.(*ssa.Alloc); ok {
						return onlyStoreIs(al, outlist)
					}
				}
				return false
			}
			bad := ""
			var walk func(b *ssa.BasicBlock, seen map[*ssa.BasicBlock]bool)
			walk = func(b *ssa.BasicBlock, seen map[*ssa.BasicBlock]bool) {
				if bad != "" || seen[b] {
					return
				}
				seen2 := map[*ssa.BasicBlock]bool{}
				for k := range seen {
					seen2[k] = true
				}
				seen2[b] = true
				// a loop whose body emits counts as emitting when the loop is known to run at least
				// once: it is entered on the non-empty edge of a test of the container it walks
				if blockReachesSelf(b) && (loopKnownNonEmpty(b) || loopOverNonEmptySplit(b)) {
					for _, lb := range fn.Blocks {
						if !(blockReaches(b, lb) && blockReaches(lb, b)) {
							continue
						}
						for _, in := range lb.Instrs {
							if st, ok := in.(*ssa.Store); ok && isOut(st.Addr) {
								return
							}
							if call, ok := in.(ssa.CallInstruction); ok {
								for _, a := range call.Common().Args {
									if isOut(a) {
										return
									}
								}
							}
						}
					}
				}
				for _, in := range b.Instrs {
					switch x := in.(type) {
					case *ssa.Store:
						if isOut(x.Addr) {
							return // emitted
						}
						if al, ok := x.Addr.(*ssa.Alloc); ok && x.Val == outlist && onlyStoreIs(al, outlist) {
							continue // the spill of the parameter itself
						}
						if isRec(x.Val) {
							if _, local := x.Addr.(*ssa.Alloc); !local {
								return // kept
							}
						}
					case ssa.CallInstruction:
						com := x.Common()
						for _, a := range com.Args {
							if isOut(a) {
								return // delegated
							}
							// a range-over-func loop body (or any callback) that emits: the closure captures
							// the output list. A loop over strings.SplitSeq runs at least once only when the
							// string split is known to be non-empty here.
							if mc, ok := a.(*ssa.MakeClosure); ok {
								if cf, ok := mc.Fn.(*ssa.Function); ok && closureEmits(cf, mc, outlist) {
									if seq, ok := com.Value.(*ssa.Call); ok && CalleeName(&seq.Call) == "strings.SplitSeq" {
										if !stringKnownNonEmpty(seq.Call.Args[0], b) {
											continue
										}
									}
									return
								}
							}
						}
						// record handed to a method of a state field, or appended to one
						if len(com.Args) >= 2 {
							recv := com.Args[0]
							if ld, ok := recv.(*ssa.UnOp); ok {
								if _, isField := ld.X.(*ssa.FieldAddr); isField {
									for _, a := range com.Args[1:] {
										if isRec(a) {
											return
										}
									}
								}
							}
						}
						if com.IsInvoke() {
							for _, a := range com.Args {
								if isRec(a) {
									return
								}
							}
						}
					case *ssa.Return:
						if n := len(x.Results); n > 0 && isErrorType(x.Results[n-1].Type()) && !ReturnsNilError(x) {
							return
						}
						bad = c.Rel(x.Pos())
						return
					case *ssa.Panic:
						return
					}
				}
				for _, s := range b.Succs {
					walk(s, seen2)
				}
			}
			walk(start, map[*ssa.BasicBlock]bool{})
			r.Check(bad == "", "R12.6", SSAName(fn), c.Rel(fn.Pos()), "every record path emits, delegates or keeps",
				fmt.Sprintf("%s has a path through its per-record branch to the successful return at %s on which the record is neither appended to the output, handed on, nor kept: that record disappears", SSAName(fn), bad))
		}
	}
	r.Floor("R12.6", "record functions of the restructuring verbs", n, 25)
}

var manyToOne = map[string]string{
	"(*pkg/transformers.TransformerNest).implodeValueAcrossRecords": "many-to-one mode: records whose other fields are equal are merged into the first of them (kept as the bucket's representative); of the later ones only the imploded field's value is kept, by design",
	"(*pkg/transformers.TransformerReshape).longToWide":             "many-to-one mode: the long records of one group are merged into one wide record; each record's key/value pair is stored in the bucket, the record itself is not passed on, by design",
}

// closureEmits: the closure stores to the output list it captured.
func closureEmits(cf *ssa.Function, mc *ssa.MakeClosure, outlist ssa.Value) bool {
	if cf.Blocks == nil {
		return false
	}
	for i, fv := range cf.FreeVars {
		if i >= len(mc.Bindings) {
			break
		}
		b := mc.Bindings[i]
		bound := b == outlist
		if al, ok := b.(*ssa.Alloc); ok {
			for _, ref := range *al.Referrers() {
				if st, ok := ref.(*ssa.Store); ok && st.Addr == al && st.Val == outlist {
					bound = true
				}
			}
		}
		if !bound {
			continue
		}
		for _, blk := range cf.Blocks {
			for _, in := range blk.Instrs {
				st, ok := in.(*ssa.Store)
				if !ok {
					continue
				}
				if st.Addr == ssa.Value(fv) {
					return true
				}
				if ld, ok := st.Addr.(*ssa.UnOp); ok && ld.X == ssa.Value(fv) {
					return true
				}
			}
		}
	}
	return false
}

// loopKnownNonEmpty: the loop headed by b walks a linked container from its
// Head, and b is reached on the non-empty edge of an IsEmpty() / Head != nil /
// FieldCount test of that same container.
func loopKnownNonEmpty(b *ssa.BasicBlock) bool {
	// the container: phi [load X.Head, …] tested against nil in b
	var container ssa.Value
	for _, in := range b.Instrs {
		phi, ok := in.(*ssa.Phi)
		if !ok {
			continue
		}
		for _, e := range phi.Edges {
			if base, name, ok := fieldLoadName(e); ok && name == "Head" {
				container = base
			}
		}
	}
	if container == nil {
		return false
	}
	same := func(v ssa.Value) bool {
		if v == container {
			return true
		}
		la, ok1 := v.(*ssa.UnOp)
		lb, ok2 := container.(*ssa.UnOp)
		return ok1 && ok2 && la.X == lb.X
	}
	for _, g := range GuardsAt(b) {
		switch x := g.Cond.(type) {
		case *ssa.Call:
			if strings.HasSuffix(CalleeName(&x.Call), ".IsEmpty") && len(x.Call.Args) == 1 && same(x.Call.Args[0]) && !g.Polarity {
				return true
			}
		case *ssa.BinOp:
			if base, name, ok := fieldLoadName(x.X); ok && (name == "Head" || name == "FieldCount") && same(base) {
				if (x.Op == token.NEQ && g.Polarity) || (x.Op == token.EQL && !g.Polarity) || (x.Op == token.GTR && g.Polarity) {
					return true
				}
			}
		}
	}
	return false
}

// onlyStoreIs: every store to the local cell al stores v.
func onlyStoreIs(al *ssa.Alloc, v ssa.Value) bool {
	n := 0
	for _, ref := range *al.Referrers() {
		if st, ok := ref.(*ssa.Store); ok && st.Addr == al {
			if st.Val != v {
				return false
			}
			n++
		}
	}
	return n > 0
}

// stringKnownNonEmpty: block b is reached only when the string s is not
// empty (s != "", !(s == ""), len(s) > 0, len(s) != 0 on the edge taken).
// strings.Split and strings.SplitSeq of a non-empty string give at least one
// piece whatever the separator; of an empty string they give none when the
// separator is empty too.
func stringKnownNonEmpty(s ssa.Value, b *ssa.BasicBlock) bool {
	same := func(v ssa.Value) bool {
		if v == s {
			return true
		}
		la, ok1 := v.(*ssa.UnOp)
		lb, ok2 := s.(*ssa.UnOp)
		if ok1 && ok2 && la.X == lb.X {
			if al, ok := la.X.(*ssa.Alloc); ok {
				n := 0
				for _, ref := range *al.Referrers() {
					if st, ok := ref.(*ssa.Store); ok && st.Addr == al {
						n++
					}
				}
				return n == 1
			}
		}
		return false
	}
	isEmptyConst := func(v ssa.Value) bool {
		c, ok := v.(*ssa.Const)
		return ok && c.Value != nil && c.Value.Kind() == constant.String && constant.StringVal(c.Value) == ""
	}
	isZero := func(v ssa.Value) bool {
		c, ok := v.(*ssa.Const)
		if !ok || c.Value == nil || c.Value.Kind() != constant.Int {
			return false
		}
		n, ok := constant.Int64Val(c.Value)
		return ok && n == 0
	}
	for _, g := range GuardsAt(b) {
		x, ok := g.Cond.(*ssa.BinOp)
		if !ok {
			continue
		}
		if same(x.X) && isEmptyConst(x.Y) || same(x.Y) && isEmptyConst(x.X) {
			if (x.Op == token.NEQ && g.Polarity) || (x.Op == token.EQL && !g.Polarity) {
				return true
			}
		}
		if call, ok := x.X.(*ssa.Call); ok && isZero(x.Y) {
			if bi, ok := call.Call.Value.(*ssa.Builtin); ok && bi.Name() == "len" && same(call.Call.Args[0]) {
				if (x.Op == token.NEQ && g.Polarity) || (x.Op == token.EQL && !g.Polarity) || (x.Op == token.GTR && g.Polarity) {
					return true
				}
			}
		}
	}
	return false
}

// loopOverNonEmptySplit: the loop headed by b ranges over the slice that
// strings.Split gave for a string known to be non-empty here.
func loopOverNonEmptySplit(b *ssa.BasicBlock) bool {
	for _, in := range b.Instrs {
		cmp, ok := in.(*ssa.BinOp)
		if !ok || cmp.Op != token.LSS {
			continue
		}
		ln, ok := cmp.Y.(*ssa.Call)
		if !ok {
			continue
		}
		if bi, ok := ln.Call.Value.(*ssa.Builtin); !ok || bi.Name() != "len" {
			continue
		}
		split, ok := ln.Call.Args[0].(*ssa.Call)
		if !ok || CalleeName(&split.Call) != "strings.Split" {
			continue
		}
		if stringKnownNonEmpty(split.Call.Args[0], b) {
			return true
		}
	}
	return false
}

// c12RegexSplice (R12.8): a name spliced into a regular expression is quoted.
func c12RegexSplice(c *Ctx, r *Report) {
	r.Rule("R12.8", "a name spliced into a regular expression is quoted: wherever the verbs compile a pattern (regexp.Compile / MustCompile, lib.CompileMillerRegex…) from a string concatenation that mixes constant pattern text with a run-time string, the run-time part goes through regexp.QuoteMeta — a field name containing + . * ( [ would otherwise change what the pattern matches (nest --implode: 'a+b' implodes nothing, 'x.y' swallows xzy_1)")
	n, nsplice := 0, 0
	for _, fn := range c.ModuleFunctions() {
		if fn.Blocks == nil || fn.Pkg == nil {
			continue
		}
		pp := fn.Pkg.Pkg.Path()
		if !(strings.HasSuffix(pp, "/pkg/transformers") || strings.HasSuffix(pp, "/pkg/transformers/utils")) {
			continue
		}
		idx := 0
		for _, b := range fn.Blocks {
			for _, in := range b.Instrs {
				call, ok := in.(*ssa.Call)
				if !ok {
					continue
				}
				cn := CalleeName(&call.Call)
				if !(cn == "regexp.Compile" || cn == "regexp.MustCompile" || strings.HasPrefix(cn, "pkg/lib.CompileMillerRegex")) {
					continue
				}
				n++
				// flatten the concatenation
				var parts []ssa.Value
				var flat func(v ssa.Value, depth int)
				flat = func(v ssa.Value, depth int) {
					if bo, ok := v.(*ssa.BinOp); ok && bo.Op == token.ADD && depth < 8 {
						flat(bo.X, depth+1)
						flat(bo.Y, depth+1)
						return
					}
					parts = append(parts, v)
				}
				arg := call.Call.Args[0]
				// through a local: regexString := "^" + name + "…"
				flat(arg, 0)
				nconst, raw := 0, ""
				for _, p := range parts {
					switch x := p.(type) {
					case *ssa.Const:
						if x.Value != nil && x.Value.Kind() == constant.String && constant.StringVal(x.Value) != "" {
							nconst++
						}
					case *ssa.Call:
						if CalleeName(&x.Call) != "regexp.QuoteMeta" {
							raw = "the result of " + CalleeName(&x.Call)
						}
					default:
						raw = p.Name()
						if prm, ok := p.(*ssa.Parameter); ok {
							raw = "parameter " + prm.Name()
						}
					}
				}
				if len(parts) < 2 || nconst == 0 {
					continue // a whole pattern given by the user (a -r option), or a constant
				}
				nsplice++
				idx++
				r.Check(raw == "", "R12.8", fmt.Sprintf("%s: spliced pattern #%d", SSAName(fn), idx), c.Rel(call.Pos()), "every run-time part is QuoteMeta'd",
					fmt.Sprintf("%s compiles a pattern built from constant text and %s without regexp.QuoteMeta: regex metacharacters in that string change what the pattern matches", SSAName(fn), raw))
			}
		}
	}
	r.OK("R12.8", "pattern compilations in the verbs", "", fmt.Sprintf("%d compilations, %d of them of a spliced pattern", n, nsplice))
	r.Floor("R12.8", "pattern compilations in the verbs", n, 8)
}

// c12PerFieldLoops (R12.9): a verb treats every field it was given.
func c12PerFieldLoops(c *Ctx, r *Report) {
	r.Rule("R12.9", "a verb treats every field it was given: in the verbs, a loop that ranges over a list of field names held in the verb's state (a []string field of the receiver) and changes the record in its body (puts, removes, renames, stores a value) is left only by its own end or by a return — not by a break on one field's condition, which would leave the fields named after it untreated (sec2gmt -f a,b with a non-numeric a must still convert b)")
	n := 0
	for _, fn := range c.ModuleFunctions() {
		if fn.Blocks == nil || fn.Pkg == nil || !strings.HasSuffix(fn.Pkg.Pkg.Path(), "/pkg/transformers") || fn.Signature.Recv() == nil || len(fn.Params) == 0 {
			continue
		}
		// loop headers: blocks with a len(load recv.field []string) compare, in a cycle
		idx := 0
		for _, h := range fn.Blocks {
			if !blockReachesSelf(h) {
				continue
			}
			iff, ok := h.Instrs[len(h.Instrs)-1].(*ssa.If)
			if !ok {
				continue
			}
			cmp, ok := iff.Cond.(*ssa.BinOp)
			if !ok || cmp.Op != token.LSS {
				continue
			}
			ln, ok := cmp.Y.(*ssa.Call)
			if !ok {
				continue
			}
			if bi, ok := ln.Call.Value.(*ssa.Builtin); !ok || bi.Name() != "len" {
				continue
			}
			base, fname, ok := fieldLoadName(ln.Call.Args[0])
			if !ok || base != ssa.Value(fn.Params[0]) {
				continue
			}
			if !isStrSliceT(ln.Call.Args[0].Type()) || !strings.Contains(strings.ToLower(fname), "field") {
				continue
			}
			idx++
			n++
			// loop body = blocks reachable from the body successor that reach h
			// the natural loop of h: h and everything that reaches one of its back edges without passing h
			inLoop := map[*ssa.BasicBlock]bool{h: true}
			var work []*ssa.BasicBlock
			for _, p := range h.Preds {
				if h.Dominates(p) && !inLoop[p] {
					inLoop[p] = true
					work = append(work, p)
				}
			}
			for len(work) > 0 {
				b := work[len(work)-1]
				work = work[:len(work)-1]
				for _, p := range b.Preds {
					if !inLoop[p] {
						inLoop[p] = true
						work = append(work, p)
					}
				}
			}
			// only loops that change the record field by field (a loop that merely looks for a field may stop at the first)
			changes := false
			for b := range inLoop {
				for _, in := range b.Instrs {
					switch x := in.(type) {
					case ssa.CallInstruction:
						cn := CalleeName(x.Common())
						if strings.HasPrefix(cn, "pkg/mlrval.Mlrmap.Put") || strings.HasPrefix(cn, "pkg/mlrval.Mlrmap.Remove") || strings.HasPrefix(cn, "pkg/mlrval.Mlrmap.Rename") || strings.HasPrefix(cn, "pkg/mlrval.Mlrmap.Prepend") {
							changes = true
						}
					case *ssa.Store:
						if _, name, ok := fieldAddrName(x.Addr); ok && name == "Value" && strings.HasSuffix(x.Addr.(*ssa.FieldAddr).X.Type().String(), "mlrval.MlrmapEntry") {
							changes = true
						}
					}
				}
			}
			if !changes {
				n--
				idx--
				continue
			}
			bad := ""
			for b := range inLoop {
				if b == h {
					continue
				}
				for _, s := range b.Succs {
					if inLoop[s] {
						continue
					}
					// leaves the loop from inside the body: a return (an error, or the verb is done with the record) is
					// fine; going on with the rest of the function is a break
					if _, isRet := s.Instrs[len(s.Instrs)-1].(*ssa.Return); isRet && len(s.Instrs) <= 3 {
						continue
					}
					bad = c.Rel(b.Instrs[len(b.Instrs)-1].Pos())
				}
			}
			r.Check(bad == "", "R12.9", fmt.Sprintf("%s: loop over %s #%d", SSAName(fn), fname, idx), c.Rel(iff.Pos()), "left only by its own end or an error return",
				fmt.Sprintf("%s leaves its loop over the verb's %s from inside the body (near %s) other than by an error return: the fields named after the current one are not treated for this record", SSAName(fn), fname, bad))
		}
	}
	r.Floor("R12.9", "record-changing loops over the verb's field-name lists", n, 8)
}

// R12.10: an entry is not its own collision. A Mlrmap method that looks up
// two entries (by two keys, or by a key and a position) and unlinks one of
// them to make room for the other must have established that they are two
// different entries: renaming a field to its own name would otherwise delete
// it.
func c12NotOwnCollision(c *Ctx, r *Report) {
	r.Rule("R12.10", "an entry is not its own collision: in the methods of Mlrmap that obtain two entries by two look-ups (findEntry, findEntryByPositionalIndex) and unlink one of them, the unlink is dominated by a test that the two entries — or the two keys they were looked up by — differ (rename a,a and $[[1]] = \"a\" on field a must leave the field in place)")
	p := c.Pkg("pkg/mlrval")
	if p == nil {
		r.Undecided("R12.10", "pkg/mlrval", "", "package not loaded")
		return
	}
	n := 0
	for _, fn := range c.ModuleFunctions() {
		if fn.Pkg == nil || fn.Blocks == nil || fn.Pkg.Pkg != p.Types || fn.Signature.Recv() == nil {
			continue
		}
		var lookups []*ssa.Call
		var unlinks []*ssa.Call
		for _, b := range fn.Blocks {
			for _, in := range b.Instrs {
				call, ok := in.(*ssa.Call)
				if !ok {
					continue
				}
				sc := call.Call.StaticCallee()
				if sc == nil || sc.Pkg != fn.Pkg {
					continue
				}
				if strings.HasPrefix(sc.Name(), "findEntry") {
					lookups = append(lookups, call)
				}
				if sc.Name() == "Unlink" || sc.Name() == "unlink" {
					unlinks = append(unlinks, call)
				}
			}
		}
		if len(lookups) < 2 || len(unlinks) == 0 {
			continue
		}
		for i, ul := range unlinks {
			victim := ul.Call.Args[len(ul.Call.Args)-1]
			var vl *ssa.Call
			for _, l := range lookups {
				if victim == ssa.Value(l) {
					vl = l
				}
			}
			if vl == nil {
				continue
			}
			n++
			key := fmt.Sprintf("%s: unlink #%d of a looked-up entry", SSAName(fn), i+1)
			okAll := true
			for _, other := range lookups {
				if other == vl {
					continue
				}
				// the same key looked up twice is the same entry by construction: not a pair
				if len(other.Call.Args) == len(vl.Call.Args) && other.Call.Args[len(other.Call.Args)-1] == vl.Call.Args[len(vl.Call.Args)-1] && other.Call.StaticCallee() == vl.Call.StaticCallee() {
					continue
				}
				differ := false
				for _, g := range GuardsAt(ul.Block()) {
					cond, pol := stripNot(g.Cond, g.Polarity)
					cmp, ok := cond.(*ssa.BinOp)
					if !ok || (cmp.Op != token.EQL && cmp.Op != token.NEQ) {
						continue
					}
					ne := (cmp.Op == token.NEQ) == pol
					if !ne {
						continue
					}
					pair := func(a, b ssa.Value) bool {
						return (cmp.X == a && cmp.Y == b) || (cmp.X == b && cmp.Y == a)
					}
					if pair(vl, other) {
						differ = true
					}
					ka, kb := vl.Call.Args[len(vl.Call.Args)-1], other.Call.Args[len(other.Call.Args)-1]
					if pair(ka, kb) {
						differ = true
					}
				}
				if !differ {
					okAll = false
				}
			}
			r.Check(okAll, "R12.10", key, c.Rel(ul.Pos()), "after a test that the two entries (or keys) differ",
				fmt.Sprintf("%s looks up two entries and unlinks one of them with no test on the way that they are different entries: when both look-ups find the same field (rename a,a) the field is deleted", SSAName(fn)))
		}
	}
	r.Floor("R12.10", "unlinks of one of two looked-up entries", n, 2)
}

// R12.11: the field list stays doubly linked. Wherever a method of Mlrmap
// makes b the successor of a (a.Next = b, b not nil) it also makes a the
// predecessor of b (b.Prev = a), and the other way round: a stale back
// pointer is invisible to every writer (they walk forward) and breaks the
// next unlink of the neighbour.
func c12LinkSymmetry(c *Ctx, r *Report) {
	r.Rule("R12.11", "the field list stays doubly linked: in package mlrval, a function that stores a non-nil entry b into a.Next also stores a into b.Prev (same values, or loads of the same field), and a function that stores a non-nil a into b.Prev also stores b into a.Next — an insertion that forgets the old successor's back pointer leaves a list that reads correctly forwards and loses or cycles fields at the next removal")
	p := c.Pkg("pkg/mlrval")
	if p == nil {
		r.Undecided("R12.11", "pkg/mlrval", "", "package not loaded")
		return
	}
	type link struct {
		owner, val ssa.Value
		field      string
		pos        token.Pos
	}
	n := 0
	for _, fn := range c.ModuleFunctions() {
		if fn.Pkg == nil || fn.Blocks == nil || fn.Pkg.Pkg != p.Types {
			continue
		}
		var links []link
		for _, b := range fn.Blocks {
			for _, in := range b.Instrs {
				st, ok := in.(*ssa.Store)
				if !ok {
					continue
				}
				base, name, ok := fieldAddrName(st.Addr)
				if !ok || (name != "Next" && name != "Prev") {
					continue
				}
				if !strings.HasSuffix(base.Type().String(), "mlrval.MlrmapEntry") {
					continue
				}
				links = append(links, link{base, st.Val, name, st.Pos()})
			}
		}
		k := 0
		same := func(a, b ssa.Value) bool { return a == b || sameValue(a, b) }
		for _, l := range links {
			if kc, ok := l.val.(*ssa.Const); ok && kc.IsNil() {
				continue
			}
			// a value that may be nil through a phi of nil is still a link when not nil
			n++
			k++
			other := "Prev"
			if l.field == "Prev" {
				other = "Next"
			}
			found := false
			for _, m := range links {
				if m.field == other && same(m.owner, l.val) && same(m.val, l.owner) {
					found = true
				}
			}
			key := fmt.Sprintf("%s: link %s #%d", SSAName(fn), l.field, k)
			r.Check(found, "R12.11", key, c.Rel(l.pos), "the opposite link is stored too",
				fmt.Sprintf("%s stores an entry into another entry's %s without storing the opposite %s link between the same two entries: the list is no longer doubly linked, which shows only when the neighbour is unlinked or the list is walked backwards", SSAName(fn), l.field, other))
		}
	}
	r.Floor("R12.11", "non-nil link stores in package mlrval", n, 6)
}
