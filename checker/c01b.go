package main

// R01.3g: a separator is looked for in text that can hold all of it.
// bufio.Reader.ReadString(d) ends a piece at every occurrence of the byte d.
// A suffix S tested on one piece can therefore be recognised only if d does
// not occur in S before its last byte; otherwise S arrives split across two
// pieces and has to be looked for in the accumulated text.

import (
	"fmt"
	"go/constant"
	"go/token"
	"go/types"
	"sort"
	"strings"

	"golang.org/x/tools/go/ssa"
)

func c01SuffixOnPieces(c *Ctx, r *Report) {
	r.Rule("R01.3g", "a separator is looked for in text that can hold all of it: where the text returned by (*bufio.Reader).ReadString(d) is itself tested with strings.HasSuffix / TrimSuffix / CutSuffix against S, S is a constant in which the byte d occurs only last — a separator that is not a constant (the multi-character IRS) is looked for in the accumulated line, not in the last piece, because ReadString cuts it in two whenever its last byte also occurs earlier in it (--irs ';;')")
	n := 0
	for _, fn := range c.ModuleFunctions() {
		if fn.Pkg == nil || fn.Blocks == nil {
			continue
		}
		k := 0
		for _, b := range fn.Blocks {
			for _, in := range b.Instrs {
				call, ok := in.(*ssa.Call)
				if !ok {
					continue
				}
				cn := CalleeName(&call.Call)
				if cn != "strings.HasSuffix" && cn != "strings.TrimSuffix" && cn != "strings.CutSuffix" {
					continue
				}
				ex, ok := call.Call.Args[0].(*ssa.Extract)
				var rd *ssa.Call
				if ok && ex.Index == 0 {
					rd, _ = ex.Tuple.(*ssa.Call)
				}
				if rd == nil || !strings.HasSuffix(CalleeName(&rd.Call), "bufio.Reader.ReadString") {
					// text built from pieces
					for _, b2 := range fn.Blocks {
						for _, in2 := range b2.Instrs {
							ex2, ok := in2.(*ssa.Extract)
							if !ok || ex2.Index != 0 {
								continue
							}
							if rd2, ok := ex2.Tuple.(*ssa.Call); ok && strings.HasSuffix(CalleeName(&rd2.Call), "bufio.Reader.ReadString") &&
								dependsOnValue(call.Call.Args[0], ex2, b, map[ssa.Value]bool{}, 0) {
								n++
								k++
								r.OK("R01.3g", fmt.Sprintf("%s: %s on accumulated text #%d", SSAName(fn), cn, k), c.Rel(call.Pos()), "the tested text is built from the pieces read so far")
							}
						}
					}
					continue
				}
				n++
				k++
				key := fmt.Sprintf("%s: %s on a piece #%d", SSAName(fn), cn, k)
				delim := rd.Call.Args[len(rd.Call.Args)-1]
				sfx, isK := call.Call.Args[1].(*ssa.Const)
				if !isK || sfx.Value == nil || sfx.Value.Kind() != constant.String {
					r.Fail("R01.3g", key, c.Rel(call.Pos()), fmt.Sprintf("%s looks for a separator that is not a constant in the piece ReadString has just returned: ReadString ends a piece at every occurrence of the separator's last byte, so a separator in which that byte also occurs earlier (';;', '||') arrives in two pieces and is never recognised — test the accumulated line", SSAName(fn)))
					continue
				}
				s := constant.StringVal(sfx.Value)
				dk, dIsK := delim.(*ssa.Const)
				if !dIsK || dk.Value == nil || dk.Value.Kind() != constant.Int {
					r.Check(len(s) <= 1, "R01.3g", key, c.Rel(call.Pos()), "one-byte suffix", fmt.Sprintf("%s tests a piece for the %d-byte suffix %q while the byte ReadString stops at is not a constant: the suffix can arrive split across two pieces", SSAName(fn), len(s), s))
					continue
				}
				d, _ := constant.Int64Val(dk.Value)
				inside := len(s) > 0 && strings.IndexByte(s[:len(s)-1], byte(d)) >= 0
				r.Check(!inside, "R01.3g", key, c.Rel(call.Pos()), fmt.Sprintf("%q holds the stop byte %q only last", s, rune(d)),
					fmt.Sprintf("%s tests a piece for the suffix %q, in which the stop byte %q occurs before the end: ReadString ends the piece there and the suffix is never seen whole", SSAName(fn), s, rune(d)))
			}
		}
	}
	_ = token.NoPos
	r.Floor("R01.3g", "suffix tests on ReadString pieces", n, 3)
}

// R01.3h: a reused buffer goes out fully written. A slice kept in a struct
// field between calls still holds the previous call's cells; re-sliced to
// [:n] and handed on, every cell below n has to be assigned first. Decided
// for the counting idiom: loops whose counter starts at 0 (or where the
// previous such loop stopped), assign cell [counter] on every turn and step
// by one, the last of them running while counter < n.
func c01ReusedBuffers(c *Ctx, r *Report) {
	r.Rule("R01.3h", "a reused buffer goes out fully written: where a slice held in a struct field is re-sliced to [:n] (n not a constant) and the result is handed on (call argument, return, store), the hand-over comes after a chain of counting loops that assign cell [i] on every turn and step i by one, the first starting at 0 and the last running while i < n — otherwise a record shorter than the previous one goes out with the previous record's cells in the columns it lacks (CSV unset-fill)")
	n := 0
	for _, fn := range c.ModuleFunctions() {
		if fn.Pkg == nil || fn.Blocks == nil {
			continue
		}
		pp := fn.Pkg.Pkg.Path()
		if !(strings.HasSuffix(pp, "/pkg/output") || strings.HasSuffix(pp, "/pkg/input") || strings.Contains(pp, "/pkg/transformers")) {
			continue
		}
		var loops []*natLoop
		k := 0
		for _, b := range fn.Blocks {
			for _, in := range b.Instrs {
				sl, ok := in.(*ssa.Slice)
				if !ok || sl.Low != nil || sl.High == nil || sl.Referrers() == nil {
					continue
				}
				if _, isK := sl.High.(*ssa.Const); isK {
					continue
				}
				ld, ok := sl.X.(*ssa.UnOp)
				if !ok || ld.Op != token.MUL {
					continue
				}
				if _, ok := ld.X.(*ssa.FieldAddr); !ok {
					continue
				}
				if _, ok := sl.Type().Underlying().(*types.Slice); !ok {
					continue
				}
				// hand-overs and cell stores
				var uses []ssa.Instruction
				for _, ref := range *sl.Referrers() {
					switch x := ref.(type) {
					case *ssa.IndexAddr:
					case *ssa.DebugRef:
					case *ssa.Call:
						if bi, ok := x.Call.Value.(*ssa.Builtin); ok && (bi.Name() == "len" || bi.Name() == "cap") {
							continue
						}
						uses = append(uses, ref)
					default:
						uses = append(uses, ref)
					}
				}
				if len(uses) == 0 {
					continue
				}
				n++
				k++
				key := fmt.Sprintf("%s: field buffer re-sliced #%d", SSAName(fn), k)
				if loops == nil {
					loops = naturalLoops(fn)
				}
				// a counting loop over the cells of sl: returns the header phi's entry value
				countingLoop := func(l *natLoop, ph *ssa.Phi) (entry ssa.Value, ok bool) {
					stored := false
					for lb := range l.Blocks {
						for _, li := range lb.Instrs {
							st, isSt := li.(*ssa.Store)
							if !isSt {
								continue
							}
							ia, isIA := st.Addr.(*ssa.IndexAddr)
							if isIA && ia.X == ssa.Value(sl) && ia.Index == ssa.Value(ph) && l.everyTurn(lb) {
								stored = true
							}
						}
					}
					if !stored {
						return nil, false
					}
					for i, p := range l.Header.Preds {
						e := ph.Edges[i]
						if l.Blocks[p] {
							inc, isInc := e.(*ssa.BinOp)
							if !isInc || inc.Op != token.ADD || inc.X != ssa.Value(ph) {
								return nil, false
							}
							if one, isK := inc.Y.(*ssa.Const); !isK || one.Value == nil || one.Value.ExactString() != "1" {
								return nil, false
							}
						} else {
							if entry != nil && entry != e {
								return nil, false
							}
							entry = e
						}
					}
					return entry, entry != nil
				}
				loopOfHeader := func(h *ssa.BasicBlock) *natLoop {
					for _, l := range loops {
						if l.Header == h {
							return l
						}
					}
					return nil
				}
				// the last loop: runs while counter < n
				var last *natLoop
				var lastPhi *ssa.Phi
				for _, l := range loops {
					if !(b == l.Header || b.Dominates(l.Header)) || len(l.Header.Instrs) == 0 {
						continue
					}
					iff, ok := l.Header.Instrs[len(l.Header.Instrs)-1].(*ssa.If)
					if !ok || !l.Blocks[l.Header.Succs[0]] || l.Blocks[l.Header.Succs[1]] {
						continue
					}
					cmp, ok := iff.Cond.(*ssa.BinOp)
					if !ok || cmp.Op != token.LSS || !(cmp.Y == sl.High || sameValue(cmp.Y, sl.High)) {
						continue
					}
					ph, ok := cmp.X.(*ssa.Phi)
					if !ok || ph.Block() != l.Header {
						continue
					}
					last, lastPhi = l, ph
				}
				why := ""
				if last == nil {
					why = "no loop running while a counter is below the new length"
				} else {
					l, ph := last, lastPhi
					for depth := 0; ; depth++ {
						entry, ok := countingLoop(l, ph)
						if !ok {
							why = "the loop at " + c.Rel(l.Header.Instrs[0].Pos()) + " does not assign cell [counter] on every turn with the counter stepping by one"
							break
						}
						if k0, isK := entry.(*ssa.Const); isK && k0.Value != nil && k0.Value.ExactString() == "0" {
							break
						}
						p2, isPhi := entry.(*ssa.Phi)
						l2 := (*natLoop)(nil)
						if isPhi {
							l2 = loopOfHeader(p2.Block())
						}
						if l2 == nil || depth > 4 {
							why = "the counter does not start at 0 or where an earlier counting loop over the same cells stopped"
							break
						}
						l, ph = l2, p2
					}
				}
				if why == "" {
					for _, u := range uses {
						ub := u.Block()
						if last.Blocks[ub] || !last.Header.Dominates(ub) {
							why = "handed on at " + c.Rel(u.Pos()) + " before the filling loops have run to the end"
						}
					}
				}
				r.Check(why == "", "R01.3h", key, c.Rel(sl.Pos()), "every cell below the new length is assigned before the hand-over",
					fmt.Sprintf("%s re-slices a buffer kept in a struct field to a length that is not a constant and hands it on, and it is not shown that every cell below that length is assigned first (%s): a call with fewer cells than the previous one sends out the previous call's values", SSAName(fn), why))
			}
		}
	}
	r.Floor("R01.3h", "field buffers re-sliced to a computed length and handed on", n, 1)
}

// R01.9: the CSV and TSV line readers agree on the byte-order mark. The
// functions stored in the CSV-lite and TSV readers' batch-getter slots
// (explicit and implicit header, two each) are siblings: each looks for the
// UTF-8 byte-order mark at the start of the text, as the CSV reader does
// through its BOM-stripping io.Reader.
func c01BOMSiblings(c *Ctx, r *Report) {
	r.Rule("R01.9", "the CSV and TSV line readers agree on the byte-order mark: every function stored in a batch-getter slot of the CSV-lite and TSV readers (func types recordBatchGetterCSV, recordBatchGetterTSV) tests its text for the prefix EF BB BF (strings.HasPrefix / TrimPrefix / CutPrefix with that constant, directly or in a function it calls) — otherwise a file saved by a spreadsheet comes back with the mark inside the first field name")
	p := c.Pkg("pkg/input")
	if p == nil {
		r.Undecided("R01.9", "pkg/input", "", "package not loaded")
		return
	}
	sibs := map[*ssa.Function]string{}
	for _, fn := range c.ModuleFunctions() {
		if fn.Pkg == nil || fn.Blocks == nil || fn.Pkg.Pkg != p.Types {
			continue
		}
		for _, b := range fn.Blocks {
			for _, in := range b.Instrs {
				st, ok := in.(*ssa.Store)
				if !ok {
					continue
				}
				tn := st.Val.Type().String()
				if !(strings.HasSuffix(tn, "input.recordBatchGetterCSV") || strings.HasSuffix(tn, "input.recordBatchGetterTSV")) {
					continue
				}
				v := st.Val
				if ct, ok := v.(*ssa.ChangeType); ok {
					v = ct.X
				}
				if f, ok := v.(*ssa.Function); ok {
					sibs[f] = tn[strings.LastIndex(tn, ".")+1:]
				} else {
					r.Undecided("R01.9", SSAName(fn)+": batch getter stored", c.Rel(st.Pos()), "the stored getter is not a named function")
				}
			}
		}
	}
	var looks func(f *ssa.Function, depth int) bool
	looks = func(f *ssa.Function, depth int) bool {
		if f == nil || f.Blocks == nil || depth > 1 {
			return false
		}
		for _, b := range f.Blocks {
			for _, in := range b.Instrs {
				call, ok := in.(*ssa.Call)
				if !ok {
					continue
				}
				cn := CalleeName(&call.Call)
				if cn == "strings.HasPrefix" || cn == "strings.TrimPrefix" || cn == "strings.CutPrefix" {
					if k, ok := call.Call.Args[1].(*ssa.Const); ok && k.Value != nil && k.Value.Kind() == constant.String && constant.StringVal(k.Value) == "\xef\xbb\xbf" {
						return true
					}
				}
				if sc := call.Call.StaticCallee(); sc != nil && IsModuleFunc(sc) && looks(sc, depth+1) {
					return true
				}
			}
		}
		return false
	}
	var names []string
	byName := map[string]*ssa.Function{}
	for f := range sibs {
		names = append(names, SSAName(f))
		byName[SSAName(f)] = f
	}
	sort.Strings(names)
	for _, nm := range names {
		f := byName[nm]
		r.Check(looks(f, 0), "R01.9", nm+" ("+sibs[f]+")", c.Rel(f.Pos()), "tests for the byte-order mark",
			fmt.Sprintf("%s is stored in a %s slot but never tests its text for the byte-order mark EF BB BF, which its siblings and the CSV reader strip: the mark stays in the first field name (or first cell)", nm, sibs[f]))
	}
	r.Floor("R01.9", "batch getters of the CSV-lite and TSV readers", len(names), 4)
}
