package main

// R15.6: each printf verb reaches a formatter that hands fmt an argument of
// the verb's own kind. fmt renders %d %x %X %o %b only for integers and
// %e %E %f %F %g %G only for floats; given a string it prints
// "%!x(string=…)" or, for %x/%X, the hex of the text. The table (verb →
// kind) is Go's fmt package's, which the documentation names as the supported
// set; the deciding step reads which constructor each letter test of
// mlrval.newFormatter leads to.

import (
	"fmt"
	"go/constant"
	"go/token"
	"go/types"
	"sort"
	"strings"

	"golang.org/x/tools/go/ssa"
)

func c15FormatterVerbs(c *Ctx, r *Report) {
	r.Rule("R15.6", "each printf verb reaches a formatter of its own kind: in mlrval.newFormatter the letter tests (a byte compared with a letter constant, or strings.HasSuffix with a constant ending in the letter) that lead to the integer formatters cover d x X o b, those that lead to the float formatters cover e E f F g G, and no letter leads to a formatter of the other kind — fmt given a string for %X prints the hex of the text, for %o \"%!o(string=…)\"")
	var fn *ssa.Function
	if tf := c.LookupFunc("pkg/mlrval", "newFormatter"); tf != nil {
		fn = c.SSAFunc(tf)
	}
	if fn == nil || fn.Blocks == nil {
		r.Undecided("R15.6", "newFormatter", "", "function not found")
		return
	}
	// constructor class reachable from a block before the next letter test
	classOf := func(name string) string {
		switch {
		case strings.HasSuffix(name, "newFormatterToInt"), strings.HasSuffix(name, "newFormatterToSeparatedInt"):
			return "int"
		case strings.HasSuffix(name, "newFormatterToFloat"), strings.HasSuffix(name, "newFormatterToSeparatedFloat"):
			return "float"
		case strings.HasSuffix(name, "newFormatterToString"):
			return "string"
		}
		return ""
	}
	letterTest := func(v ssa.Value) (byte, bool) {
		switch x := v.(type) {
		case *ssa.BinOp:
			if x.Op != token.EQL {
				return 0, false
			}
			for _, side := range []ssa.Value{x.X, x.Y} {
				if k, ok := side.(*ssa.Const); ok && k.Value != nil && k.Value.Kind() == constant.Int {
					if ch, exact := constant.Int64Val(k.Value); exact && ((ch >= 'a' && ch <= 'z') || (ch >= 'A' && ch <= 'Z')) {
						return byte(ch), true
					}
				}
			}
		case *ssa.Call:
			if CalleeName(&x.Call) == "strings.HasSuffix" {
				if k, ok := x.Call.Args[1].(*ssa.Const); ok && k.Value != nil && k.Value.Kind() == constant.String {
					s := constant.StringVal(k.Value)
					if len(s) > 0 {
						return s[len(s)-1], true
					}
				}
			}
		}
		return 0, false
	}
	isLetterIf := func(b *ssa.BasicBlock) bool {
		if len(b.Instrs) == 0 {
			return false
		}
		iff, ok := b.Instrs[len(b.Instrs)-1].(*ssa.If)
		if !ok {
			return false
		}
		_, is := letterTest(iff.Cond)
		return is
	}
	var classesFrom func(b *ssa.BasicBlock, seen map[*ssa.BasicBlock]bool, out map[string]bool)
	classesFrom = func(b *ssa.BasicBlock, seen map[*ssa.BasicBlock]bool, out map[string]bool) {
		if seen[b] {
			return
		}
		seen[b] = true
		for _, in := range b.Instrs {
			if call, ok := in.(*ssa.Call); ok {
				if cl := classOf(CalleeName(&call.Call)); cl != "" {
					out[cl] = true
					return
				}
			}
		}
		if isLetterIf(b) {
			// another letter's test: this letter's body has ended (a chain of tests for one body shares the body block)
			return
		}
		for _, s := range b.Succs {
			classesFrom(s, seen, out)
		}
	}
	got := map[byte]map[string]bool{}
	for _, b := range fn.Blocks {
		if len(b.Instrs) == 0 {
			continue
		}
		iff, ok := b.Instrs[len(b.Instrs)-1].(*ssa.If)
		if !ok {
			continue
		}
		ch, ok := letterTest(iff.Cond)
		if !ok {
			continue
		}
		out := map[string]bool{}
		classesFrom(b.Succs[0], map[*ssa.BasicBlock]bool{}, out)
		if got[ch] == nil {
			got[ch] = map[string]bool{}
		}
		for k := range out {
			got[ch][k] = true
		}
	}
	want := map[byte]string{'d': "int", 'x': "int", 'X': "int", 'o': "int", 'b': "int", 'e': "float", 'E': "float", 'f': "float", 'F': "float", 'g': "float", 'G': "float"}
	var letters []int
	for ch := range want {
		letters = append(letters, int(ch))
	}
	sort.Ints(letters)
	for _, chi := range letters {
		ch := byte(chi)
		cls := got[ch]
		var names []string
		for k := range cls {
			names = append(names, k)
		}
		sort.Strings(names)
		ok := len(cls) == 1 && cls[want[ch]]
		key := fmt.Sprintf("verb %%%c", ch)
		why := fmt.Sprintf("the letter %q is not tested in newFormatter, so \"%%%c\" falls to the string formatter and fmt is handed the number's text: it prints \"%%!%c(string=…)\" (for x/X the hex of the text)", ch, ch, ch)
		if len(cls) > 0 {
			why = fmt.Sprintf("the test for the letter %q leads to the %s formatter, not the %s one: fmt is handed an argument of the wrong kind for \"%%%c\"", ch, strings.Join(names, "/"), want[ch], ch)
		}
		r.Check(ok, "R15.6", key, c.Rel(fn.Pos()), "leads to the "+want[ch]+" formatter", why)
	}
	r.Floor("R15.6", "letter tests in newFormatter", len(got), 8)
}

// R15.7: byte offsets do not reach the user. The regexp and strings search
// functions report byte offsets; everything the DSL shows a user (strlen,
// substr, index, format-values …) counts UTF-8 characters. So an integer
// derived from such an offset by arithmetic alone must not become a value:
// it has to pass through a character count (utf8.RuneCountInString of the
// text before it) — using it to slice the text is of course fine.
type offsetTaint struct {
	c       *Ctx
	results map[*ssa.Function]map[int]bool // module functions whose result i is a byte offset (or a slice of them)
	memo    map[ssa.Value]int              // 0 unknown, 1 in progress/false, 2 true
}

var byteOffsetAPIs = map[string]bool{
	"strings.Index": true, "strings.IndexByte": true, "strings.IndexRune": true, "strings.IndexAny": true, "strings.LastIndex": true, "strings.LastIndexByte": true, "strings.LastIndexAny": true, "strings.IndexFunc": true,
	"bytes.Index": true, "bytes.IndexByte": true, "bytes.LastIndex": true,
}

func intish(t types.Type) bool {
	switch u := t.Underlying().(type) {
	case *types.Basic:
		return u.Info()&types.IsInteger != 0
	case *types.Slice:
		return intish(u.Elem())
	case *types.Array:
		return intish(u.Elem())
	}
	return false
}

func (ot *offsetTaint) sourceCall(call *ssa.CallCommon) (all bool, idx map[int]bool) {
	cn := CalleeName(call)
	if byteOffsetAPIs[cn] {
		return true, nil
	}
	if strings.HasPrefix(cn, "regexp.Regexp.Find") && strings.HasSuffix(cn, "Index") {
		return true, nil
	}
	if sc := call.StaticCallee(); sc != nil {
		if m := ot.results[sc]; len(m) > 0 {
			return false, m
		}
	}
	return false, nil
}

func (ot *offsetTaint) tainted(v ssa.Value, depth int) bool {
	if v == nil || depth > 60 || !intish(v.Type()) {
		if tup, ok := v.(*ssa.Call); !ok || tup.Type() == nil {
			return false
		} else if _, isTuple := tup.Type().(*types.Tuple); !isTuple {
			return false
		}
	}
	switch ot.memo[v] {
	case 1:
		return false
	case 2:
		return true
	}
	ot.memo[v] = 1
	res := false
	switch x := v.(type) {
	case *ssa.Call:
		if bi, ok := x.Call.Value.(*ssa.Builtin); ok {
			if bi.Name() == "append" {
				for _, a := range x.Call.Args {
					if ot.tainted(a, depth+1) {
						res = true
					}
				}
			}
			break
		}
		all, idx := ot.sourceCall(&x.Call)
		res = all || idx[0]
	case *ssa.Extract:
		if call, ok := x.Tuple.(*ssa.Call); ok {
			all, idx := ot.sourceCall(&call.Call)
			res = all || idx[x.Index]
		}
	case *ssa.UnOp:
		if x.Op == token.MUL {
			switch a := x.X.(type) {
			case *ssa.IndexAddr:
				res = ot.tainted(a.X, depth+1)
			case *ssa.Alloc:
				if a.Referrers() != nil {
					for _, ref := range *a.Referrers() {
						if st, ok := ref.(*ssa.Store); ok && st.Addr == ssa.Value(a) && ot.tainted(st.Val, depth+1) {
							res = true
						}
					}
				}
			}
		} else {
			res = ot.tainted(x.X, depth+1)
		}
	case *ssa.Index:
		res = ot.tainted(x.X, depth+1)
	case *ssa.BinOp:
		switch x.Op {
		case token.ADD, token.SUB, token.MUL, token.QUO:
			res = ot.tainted(x.X, depth+1) || ot.tainted(x.Y, depth+1)
		}
	case *ssa.Convert:
		res = ot.tainted(x.X, depth+1)
	case *ssa.ChangeType:
		res = ot.tainted(x.X, depth+1)
	case *ssa.Phi:
		for _, e := range x.Edges {
			if ot.tainted(e, depth+1) {
				res = true
			}
		}
	case *ssa.Slice:
		switch a := x.X.(type) {
		case *ssa.Alloc: // variadic argument array
			if a.Referrers() != nil {
				for _, ref := range *a.Referrers() {
					if ia, ok := ref.(*ssa.IndexAddr); ok && ia.Referrers() != nil {
						for _, r2 := range *ia.Referrers() {
							if st, ok := r2.(*ssa.Store); ok && st.Addr == ssa.Value(ia) && ot.tainted(st.Val, depth+1) {
								res = true
							}
						}
					}
				}
			}
		default:
			res = ot.tainted(x.X, depth+1)
		}
	}
	if res {
		ot.memo[v] = 2
	} else {
		ot.memo[v] = 0
	}
	return res
}

func c15ByteOffsets(c *Ctx, r *Report) {
	r.Rule("R15.7", "byte offsets do not reach the user: an integer obtained from a regexp Find…Index function or a strings/bytes Index function (directly, by arithmetic, through slices of such integers or through the results of module functions that return them) is not made into a value (mlrval.FromInt) — the DSL counts UTF-8 characters, so an offset has to go through a character count of the text before it (utf8.RuneCountInString); slicing the text with it is fine")
	ot := &offsetTaint{c: c, results: map[*ssa.Function]map[int]bool{}, memo: map[ssa.Value]int{}}
	inScope := func(fn *ssa.Function) bool {
		if fn.Pkg == nil || fn.Blocks == nil {
			return false
		}
		pp := fn.Pkg.Pkg.Path()
		return strings.HasSuffix(pp, "/pkg/lib") || strings.HasSuffix(pp, "/pkg/bifs") || strings.HasSuffix(pp, "/pkg/mlrval") || strings.Contains(pp, "/pkg/transformers") || strings.HasSuffix(pp, "/pkg/dsl/cst")
	}
	var fns []*ssa.Function
	for _, fn := range c.ModuleFunctions() {
		if inScope(fn) {
			fns = append(fns, fn)
		}
	}
	// which module functions return byte offsets: to a fixpoint
	for round := 0; round < 6; round++ {
		changed := false
		ot.memo = map[ssa.Value]int{}
		for _, fn := range fns {
			for _, b := range fn.Blocks {
				ret, ok := b.Instrs[len(b.Instrs)-1].(*ssa.Return)
				if !ok {
					continue
				}
				for i, res := range ret.Results {
					if intish(res.Type()) && ot.tainted(res, 0) {
						if ot.results[fn] == nil {
							ot.results[fn] = map[int]bool{}
						}
						if !ot.results[fn][i] {
							ot.results[fn][i] = true
							changed = true
						}
					}
				}
			}
		}
		if !changed {
			break
		}
	}
	ot.memo = map[ssa.Value]int{}
	n, nsrc := 0, 0
	for _, fn := range fns {
		k := 0
		for _, b := range fn.Blocks {
			for _, in := range b.Instrs {
				call, ok := in.(*ssa.Call)
				if !ok {
					continue
				}
				if all, idx := ot.sourceCall(&call.Call); all || len(idx) > 0 {
					nsrc++
				}
				cn := CalleeName(&call.Call)
				if !(strings.HasSuffix(cn, "pkg/mlrval.FromInt") || strings.HasSuffix(cn, "pkg/mlrval.TryFromInt")) || len(call.Call.Args) == 0 {
					continue
				}
				// only the constructions whose argument has anything to do with a search
				arg := call.Call.Args[0]
				n++
				if !ot.tainted(arg, 0) {
					continue
				}
				// the "not found" result of a search is not an offset
				base := arg
				for {
					if cv, ok := base.(*ssa.Convert); ok {
						base = cv.X
						continue
					}
					break
				}
				notFound := false
				for _, g := range GuardsAt(b) {
					cond, pol := stripNot(g.Cond, g.Polarity)
					cmp, ok := cond.(*ssa.BinOp)
					if !ok || cmp.X != base {
						continue
					}
					if k0, ok := cmp.Y.(*ssa.Const); ok && k0.Value != nil {
						z := k0.Value.ExactString()
						if (cmp.Op == token.LSS && z == "0" && pol) || (cmp.Op == token.GEQ && z == "0" && !pol) || (cmp.Op == token.EQL && z == "-1" && pol) || (cmp.Op == token.NEQ && z == "-1" && !pol) {
							notFound = true
						}
					}
				}
				if notFound {
					continue
				}
				k++
				r.Fail("R15.7", fmt.Sprintf("%s: value made from a byte offset #%d", SSAName(fn), k), c.Rel(call.Pos()),
					fmt.Sprintf("%s makes a value from an integer that is a byte offset reported by a regexp/strings search (no character count in between): for text with multi-byte characters the position disagrees with substr, index and strlen, which count characters", SSAName(fn)))
			}
		}
	}
	var carriers []string
	for fn := range ot.results {
		carriers = append(carriers, SSAName(fn))
	}
	sort.Strings(carriers)
	r.OK("R15.7", "integer values made in lib, bifs, mlrval, transformers, dsl/cst", "", fmt.Sprintf("%d FromInt constructions examined, %d search calls as sources; module functions returning byte offsets: %s", n, nsrc, strings.Join(carriers, ", ")))
	r.Floor("R15.7", "searches reporting byte offsets", nsrc, 8)
}
