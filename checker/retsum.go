package main

// Analysis D: return summaries for functions returning *mlrval.Mlrval.
// The summary is a set of abstract tokens:
//   ARG0..ARGn   the k-th SSA parameter returned unchanged (for functions
//                ARG1 is the first parameter; for methods ARG0 is the receiver)
//   NEG(ARGk)    BIF_minus_unary applied to parameter k
//   one of the 12 kind names (INT, FLOAT, ...), TRUE/FALSE (refining BOOL),
//   INT:<c> (FromInt of a constant), PENDING, NIL, OTHER (unknown)

import (
	"fmt"
	"go/ast"
	"go/constant"
	"go/token"
	"go/types"
	"sort"
	"strings"

	"golang.org/x/tools/go/ssa"
)

type TokSet map[string]bool

func (s TokSet) Add(t string) { s[t] = true }
func (s TokSet) AddAll(o TokSet) {
	for k := range o {
		s[k] = true
	}
}
func (s TokSet) Has(t string) bool { return s[t] }
func (s TokSet) List() []string {
	out := make([]string, 0, len(s))
	for k := range s {
		out = append(out, k)
	}
	sort.Strings(out)
	return out
}
func (s TokSet) String() string { return "{" + strings.Join(s.List(), ",") + "}" }
func (s TokSet) Equal(o TokSet) bool {
	if len(s) != len(o) {
		return false
	}
	for k := range s {
		if !o[k] {
			return false
		}
	}
	return true
}

// Only reports whether every token is in the allowed list.
func (s TokSet) SubsetOf(allowed ...string) bool {
	for k := range s {
		ok := false
		for _, a := range allowed {
			if k == a {
				ok = true
				break
			}
		}
		if !ok {
			return false
		}
	}
	return true
}

// Kinds maps tokens to plain kind names (TRUE/FALSE->BOOL, INT:c->INT).
func (s TokSet) Kinds() TokSet {
	out := TokSet{}
	for k := range s {
		switch {
		case k == "TRUE" || k == "FALSE":
			out.Add("BOOL")
		case strings.HasPrefix(k, "INT:"):
			out.Add("INT")
		default:
			out.Add(k)
		}
	}
	return out
}

func tokset(toks ...string) TokSet {
	s := TokSet{}
	for _, t := range toks {
		s.Add(t)
	}
	return s
}

type RetSum struct {
	c       *Ctx
	memo    map[*ssa.Function]TokSet
	active  map[*ssa.Function]bool
	globals map[*ssa.Global]string // token of an mlrval singleton
	tables  map[*types.Var]*DispTable
	mvtype  *types.Var
	// stores to recv.mvtype by setter methods
	setMemo map[*ssa.Function]TokSet
}

func NewRetSum(c *Ctx) *RetSum {
	rs := &RetSum{c: c, memo: map[*ssa.Function]TokSet{}, active: map[*ssa.Function]bool{},
		globals: map[*ssa.Global]string{}, tables: map[*types.Var]*DispTable{}, setMemo: map[*ssa.Function]TokSet{}}
	mp := c.Pkg("pkg/mlrval")
	if mp != nil {
		if tn, ok := mp.Types.Scope().Lookup("Mlrval").(*types.TypeName); ok {
			if st, ok := tn.Type().Underlying().(*types.Struct); ok {
				for i := 0; i < st.NumFields(); i++ {
					if st.Field(i).Name() == "mvtype" {
						rs.mvtype = st.Field(i)
					}
				}
			}
		}
		rs.readSingletons()
	}
	for _, rel := range []string{"pkg/bifs", "pkg/mlrval"} {
		if p := c.Pkg(rel); p != nil {
			for _, t := range c.DispTables(p) {
				rs.tables[t.Var] = t
			}
		}
	}
	return rs
}

// readSingletons maps the package-level *Mlrval singletons of package mlrval
// (TRUE, FALSE, VOID, NULL, ABSENT, ...) to tokens, from their literals.
func (rs *RetSum) readSingletons() {
	p := rs.c.Pkg("pkg/mlrval")
	sp := rs.c.SSA["github.com/johnkerl/miller/v6/pkg/mlrval"]
	for _, f := range p.Syntax {
		for _, d := range f.Decls {
			gd, ok := d.(*ast.GenDecl)
			if !ok || gd.Tok != token.VAR {
				continue
			}
			for _, s := range gd.Specs {
				vs := s.(*ast.ValueSpec)
				for i, nm := range vs.Names {
					if i >= len(vs.Values) {
						continue
					}
					v, ok := p.TypesInfo.Defs[nm].(*types.Var)
					if !ok || !isMlrvalPtr(v.Type()) {
						continue
					}
					ue, ok := vs.Values[i].(*ast.UnaryExpr)
					if !ok || ue.Op != token.AND {
						continue
					}
					lit, ok := ue.X.(*ast.CompositeLit)
					if !ok {
						continue
					}
					tok := ""
					var intfVal ast.Expr
					for _, el := range lit.Elts {
						kv, ok := el.(*ast.KeyValueExpr)
						if !ok {
							continue
						}
						k, _ := kv.Key.(*ast.Ident)
						if k == nil {
							continue
						}
						if k.Name == "mvtype" {
							if n, ok := constIndex(p.TypesInfo, kv.Value); ok && n >= 0 && n < K_DIM {
								tok = kindNames[n]
							}
						}
						if k.Name == "intf" {
							intfVal = kv.Value
						}
					}
					if tok == "BOOL" && intfVal != nil {
						if tv, ok := p.TypesInfo.Types[intfVal]; ok && tv.Value != nil && tv.Value.Kind() == constant.Bool {
							if constant.BoolVal(tv.Value) {
								tok = "TRUE"
							} else {
								tok = "FALSE"
							}
						}
					}
					if tok == "INT" && intfVal != nil {
						if tv, ok := p.TypesInfo.Types[intfVal]; ok && tv.Value != nil {
							if n, ok := constant.Int64Val(constant.ToInt(tv.Value)); ok {
								tok = fmt.Sprintf("INT:%d", n)
							}
						}
					}
					if tok == "" || sp == nil {
						continue
					}
					if g, ok := sp.Members[v.Name()].(*ssa.Global); ok {
						rs.globals[g] = tok
					}
				}
			}
		}
	}
}

func isNoReturnCall(instr ssa.Instruction) bool {
	call, ok := instr.(*ssa.Call)
	if !ok {
		if _, isPanic := instr.(*ssa.Panic); isPanic {
			return true
		}
		return false
	}
	callee := call.Call.StaticCallee()
	if callee == nil {
		return false
	}
	name := callee.String()
	switch name {
	case "os.Exit":
		return true
	}
	if strings.HasSuffix(name, "/pkg/lib.InternalCodingErrorIf") || strings.HasSuffix(name, "/pkg/lib.InternalCodingErrorWithMessageIf") {
		if len(call.Call.Args) > 0 {
			if k, ok := call.Call.Args[0].(*ssa.Const); ok && k.Value != nil && k.Value.Kind() == constant.Bool && constant.BoolVal(k.Value) {
				return true
			}
		}
	}
	if strings.HasSuffix(name, "/pkg/lib.InternalCodingErrorPanic") {
		return true
	}
	return false
}

// Of returns the summary of result index ri of fn.
func (rs *RetSum) Of(fn *ssa.Function) TokSet {
	if fn == nil {
		return tokset("OTHER")
	}
	if s, ok := rs.memo[fn]; ok {
		return s
	}
	if rs.active[fn] {
		return tokset("OTHER")
	}
	if fn.Blocks == nil {
		return tokset("OTHER")
	}
	rs.active[fn] = true
	out := TokSet{}
	for _, b := range fn.Blocks {
		dead := false
		for _, in := range b.Instrs {
			if isNoReturnCall(in) {
				dead = true
			}
			ret, ok := in.(*ssa.Return)
			if !ok || dead {
				continue
			}
			for _, res := range ret.Results {
				if isMlrvalPtr(res.Type()) {
					out.AddAll(rs.eval(res, fn, map[ssa.Value]bool{}))
					break
				}
			}
		}
	}
	delete(rs.active, fn)
	rs.memo[fn] = out
	return out
}

func (rs *RetSum) paramToken(fn *ssa.Function, p *ssa.Parameter) string {
	for i, q := range fn.Params {
		if q == p {
			if fn.Signature.Recv() != nil {
				return fmt.Sprintf("ARG%d", i)
			}
			return fmt.Sprintf("ARG%d", i+1)
		}
	}
	return "OTHER"
}

func (rs *RetSum) argIndex(fn *ssa.Function, tok string) int {
	var k int
	if _, err := fmt.Sscanf(tok, "ARG%d", &k); err != nil {
		return -1
	}
	if fn.Signature.Recv() != nil {
		return k
	}
	return k - 1
}

// mvtypeStores: kinds stored to param0.mvtype by method fn (transitively
// through calls with the receiver forwarded as receiver).
func (rs *RetSum) mvtypeStores(fn *ssa.Function, depth int) TokSet {
	if s, ok := rs.setMemo[fn]; ok {
		return s
	}
	out := TokSet{}
	rs.setMemo[fn] = out
	if fn.Blocks == nil || len(fn.Params) == 0 || depth > 4 {
		out.Add("OTHER")
		return out
	}
	recv := fn.Params[0]
	rs.collectMvtypeStores(fn, recv, out, depth)
	return out
}

func (rs *RetSum) collectMvtypeStores(fn *ssa.Function, obj ssa.Value, out TokSet, depth int) {
	for _, b := range fn.Blocks {
		for _, in := range b.Instrs {
			switch x := in.(type) {
			case *ssa.Store:
				if fa, ok := x.Addr.(*ssa.FieldAddr); ok && fa.X == obj {
					st := fa.X.Type().Underlying().(*types.Pointer).Elem().Underlying().(*types.Struct)
					if st.Field(fa.Field) == rs.mvtype {
						if k, ok := x.Val.(*ssa.Const); ok && k.Value != nil {
							if n, ok := constant.Int64Val(k.Value); ok {
								if n >= 0 && n < K_DIM {
									out.Add(kindNames[n])
								} else if n == -1 {
									out.Add("PENDING")
								} else {
									out.Add("OTHER")
								}
								continue
							}
						}
						out.Add("OTHER")
					}
				} else if x.Addr == obj {
					// whole-struct store *obj = v
					out.Add("OTHER")
				}
			case ssa.CallInstruction:
				com := x.Common()
				for ai, a := range com.Args {
					if a != obj {
						continue
					}
					callee := com.StaticCallee()
					if callee == nil || !IsModuleFunc(callee) {
						if callee != nil && !IsModuleFunc(callee) {
							continue // stdlib cannot touch unexported field
						}
						out.Add("OTHER")
						continue
					}
					if ai == 0 && callee.Signature.Recv() != nil {
						out.AddAll(rs.mvtypeStores(callee, depth+1))
					} else {
						// passed as ordinary argument: does the callee store mvtype on it?
						tmp := TokSet{}
						if callee.Blocks != nil && ai < len(callee.Params) && depth < 4 {
							rs.collectMvtypeStores(callee, callee.Params[ai], tmp, depth+1)
						} else {
							tmp.Add("OTHER")
						}
						out.AddAll(tmp)
					}
				}
				if com.StaticCallee() == nil && !com.IsInvoke() {
					// indirect call with obj as argument (e.g. packageLevelInferrer(mv))
					for _, a := range com.Args {
						if a == obj {
							out.Add("PENDING")
						}
					}
				}
			}
		}
	}
}

func (rs *RetSum) eval(v ssa.Value, fn *ssa.Function, seen map[ssa.Value]bool) TokSet {
	out := TokSet{}
	if seen[v] {
		return out
	}
	seen[v] = true
	switch x := v.(type) {
	case *ssa.Parameter:
		out.Add(rs.paramToken(fn, x))
	case *ssa.Phi:
		for _, e := range x.Edges {
			out.AddAll(rs.eval(e, fn, seen))
		}
	case *ssa.Const:
		if x.IsNil() {
			out.Add("NIL")
		} else {
			out.Add("OTHER")
		}
	case *ssa.UnOp:
		if x.Op == token.MUL {
			if g, ok := x.X.(*ssa.Global); ok {
				if tok, ok := rs.globals[g]; ok {
					out.Add(tok)
					return out
				}
			}
			// load of a local cell (closure-captured or address-taken variable)
			if a, ok := x.X.(*ssa.Alloc); ok {
				n := 0
				for _, ref := range *a.Referrers() {
					if st, ok := ref.(*ssa.Store); ok && st.Addr == a {
						out.AddAll(rs.eval(st.Val, fn, seen))
						n++
					}
				}
				if n > 0 {
					return out
				}
			}
		}
		out.Add("OTHER")
	case *ssa.Alloc:
		// &Mlrval{...}
		if isMlrvalPtr(x.Type()) {
			tmp := TokSet{}
			rs.collectMvtypeStores(fn, x, tmp, 0)
			if len(tmp) == 0 {
				tmp.Add("OTHER")
			}
			out.AddAll(tmp)
		} else {
			out.Add("OTHER")
		}
	case *ssa.Call:
		out.AddAll(rs.evalCall(x, fn, seen))
	case *ssa.Extract:
		out.Add("OTHER")
	default:
		out.Add("OTHER")
	}
	return out
}

// dispatchTable recognises  T[a.Type()](..) / T[a.Type()][b.Type()](..)
func (rs *RetSum) dispatchTable(callee ssa.Value) *DispTable {
	u, ok := callee.(*ssa.UnOp)
	if !ok || u.Op != token.MUL {
		return nil
	}
	ia, ok := u.X.(*ssa.IndexAddr)
	if !ok {
		return nil
	}
	base := ia.X
	if ia2, ok := base.(*ssa.IndexAddr); ok {
		base = ia2.X
	}
	g, ok := base.(*ssa.Global)
	if !ok {
		return nil
	}
	if v, ok := g.Object().(*types.Var); ok {
		return rs.tables[v]
	}
	return nil
}

func (rs *RetSum) evalCall(call *ssa.Call, fn *ssa.Function, seen map[ssa.Value]bool) TokSet {
	out := TokSet{}
	com := call.Common()
	callee := com.StaticCallee()
	subst := func(sum TokSet, cf *ssa.Function, args []ssa.Value) {
		for tok := range sum {
			if strings.HasPrefix(tok, "ARG") {
				k := rs.argIndex(cf, tok)
				if k >= 0 && k < len(args) {
					out.AddAll(rs.eval(args[k], fn, seen))
				} else {
					out.Add("OTHER")
				}
			} else if strings.HasPrefix(tok, "NEG(ARG") {
				k := rs.argIndex(cf, strings.TrimSuffix(strings.TrimPrefix(tok, "NEG("), ")"))
				if k >= 0 && k < len(args) {
					inner := rs.eval(args[k], fn, seen)
					for t := range inner {
						if strings.HasPrefix(t, "ARG") {
							out.Add("NEG(" + t + ")")
						} else {
							out.Add("OTHER")
						}
					}
				} else {
					out.Add("OTHER")
				}
			} else {
				out.Add(tok)
			}
		}
	}
	if callee == nil {
		if t := rs.dispatchTable(com.Value); t != nil && !com.IsInvoke() {
			for i := 0; i < K_DIM; i++ {
				for j := 0; j < K_DIM; j++ {
					if t.Dim == 1 && j > 0 {
						break
					}
					cf := t.Cell(i, j)
					if cf == nil {
						out.Add("OTHER")
						continue
					}
					sf := rs.c.SSAFunc(cf)
					subst(rs.Of(sf), sf, com.Args)
				}
			}
			return out
		}
		out.Add("OTHER")
		return out
	}
	if !IsModuleFunc(callee) || callee.Blocks == nil {
		out.Add("OTHER")
		return out
	}
	if callee.Object() != nil && FuncName(callee.Object().(*types.Func)) == "pkg/bifs.BIF_minus_unary" && len(com.Args) == 1 {
		inner := rs.eval(com.Args[0], fn, seen)
		allArgs := len(inner) > 0
		for t := range inner {
			if !strings.HasPrefix(t, "ARG") {
				allArgs = false
			}
		}
		if allArgs {
			for t := range inner {
				out.Add("NEG(" + t + ")")
			}
			return out
		}
	}
	if !isMlrvalPtrResult(callee.Signature) {
		out.Add("OTHER")
		return out
	}
	subst(rs.Of(callee), callee, com.Args)
	return out
}

func isMlrvalPtrResult(sig *types.Signature) bool {
	if sig.Results().Len() == 0 {
		return false
	}
	return isMlrvalPtr(sig.Results().At(0).Type())
}
