package main

import (
	"fmt"
	"go/ast"
	"go/constant"
	"go/types"
	"sort"
	"strings"

	"golang.org/x/tools/go/ssa"
)

// R08.9 / R08.10: assignments.
func runC08Assign(c *Ctx, r *Report, reg []*BIFEntry) {
	r.Rule("R08.9", "an assignment whose right-hand side is absent is skipped for every lvalue kind: every call of IAssignable.Assign/AssignIndexed outside the lvalue implementations themselves is dominated by the false edge of IsAbsent() on the very value it passes")
	iface := c.LookupInterface("pkg/dsl/cst", "IAssignable")
	if iface == nil {
		r.Undecided("R08.9", "IAssignable", "", "interface pkg/dsl/cst.IAssignable not found")
	} else {
		impls := c.Implementers(iface)
		implSet := map[string]bool{}
		for _, n := range impls {
			implSet[n.Obj().Name()] = true
		}
		r.Floor("R08.9", "IAssignable implementations", len(impls), 9)
		nsites := 0
		for _, fn := range c.ModuleFunctions() {
			ForEachCall(fn, false, func(site ssa.CallInstruction, in *ssa.Function) {
				com := site.Common()
				if !com.IsInvoke() || (com.Method.Name() != "Assign" && com.Method.Name() != "AssignIndexed") {
					return
				}
				it, ok := com.Value.Type().Underlying().(*types.Interface)
				if !ok || !types.Identical(it, iface) {
					return
				}
				// delegation inside an lvalue implementation: passes its own rvalue parameter on
				recvName := ""
				if in.Signature.Recv() != nil {
					t := in.Signature.Recv().Type()
					if pt, ok := t.(*types.Pointer); ok {
						t = pt.Elem()
					}
					if n, ok := t.(*types.Named); ok {
						recvName = n.Obj().Name()
					}
				}
				rv := com.Args[0]
				key := fmt.Sprintf("%s calls %s", SSAName(in), com.Method.Name())
				if implSet[recvName] && (in.Name() == "Assign" || in.Name() == "AssignIndexed") {
					if prm, ok := rv.(*ssa.Parameter); ok && prm == in.Params[1] {
						r.OK("R08.9", key, c.Rel(site.Pos()), "delegates its own rvalue parameter")
						return
					}
				}
				nsites++
				guarded := false
				for _, g := range GuardsAt(site.Block()) {
					if !g.Polarity && IsPredCall(g.Cond, "pkg/mlrval.Mlrval.IsAbsent", rv) {
						guarded = true
					}
				}
				r.Check(guarded, "R08.9", key, c.Rel(site.Pos()), "dominated by !rvalue.IsAbsent()",
					"the rvalue passed to "+com.Method.Name()+" is not guarded by a dominating !IsAbsent() test on the same value: an absent right-hand side would be assigned (or abort in the lvalue's assertion)")
			})
		}
		r.Floor("R08.9", "external Assign call sites", nsites, 1)
	}

	// R08.9b: map literals and emitf skip absent values before Put
	r.Rule("R08.9b", "an absent value never becomes a map entry: in the interpreter (pkg/dsl/cst), every call that puts a value into a map or record (Mlrval.MapPut, Mlrmap.PutCopy / PutReference / PutCopyWithMlrvalIndex …) where the value is the direct result of evaluating an expression node (IEvaluable.Evaluate) is dominated by the false edge of IsAbsent() on that value — map literals, emitf and the like skip absent entries as assignments do")
	nput := 0
	for _, fn := range c.ModuleFunctions() {
		if fn.Pkg == nil || !strings.HasSuffix(fn.Pkg.Pkg.Path(), "/pkg/dsl/cst") {
			continue
		}
		ForEachCall(fn, false, func(site ssa.CallInstruction, in *ssa.Function) {
			com := site.Common()
			cn := CalleeName(com)
			if !(strings.HasPrefix(cn, "pkg/mlrval.Mlrmap.Put") || cn == "pkg/mlrval.Mlrval.MapPut" || cn == "pkg/mlrval.Mlrval.ArrayAppend") {
				return
			}
			// the value is the last argument (keys and anchors come before it)
			for _, a := range com.Args[len(com.Args)-1:] {
				ev, ok := a.(*ssa.Call)
				if !ok || !ev.Call.IsInvoke() || ev.Call.Method.Name() != "Evaluate" {
					continue
				}
				if !strings.HasSuffix(a.Type().String(), "mlrval.Mlrval") {
					continue
				}
				if cn == "pkg/mlrval.Mlrval.ArrayAppend" {
					continue // array literals keep absent elements (documented: absent in arrays is an error value at output), not in scope
				}
				nput++
				guarded := false
				for _, g := range GuardsAt(site.Block()) {
					if !g.Polarity && IsPredCall(g.Cond, "pkg/mlrval.Mlrval.IsAbsent", a) {
						guarded = true
					}
				}
				key := fmt.Sprintf("%s puts Evaluate() via %s", SSAName(in), cn)
				r.Check(guarded, "R08.9b", key, c.Rel(site.Pos()), "dominated by !value.IsAbsent()",
					"the evaluated value put into the map is not guarded by a dominating !IsAbsent() test on that same value: an absent value would become an entry (and abort JSON output with 'absent-values should not have been assigned')")
			}
		})
	}
	r.Floor("R08.9b", "map puts of evaluated values", nput, 1)
	r.Rule("R08.10", "compound assignment X= applies operator X: each case label of compoundOpToBaseOp is its returned operator followed by '=', and the operator is registered with a binary implementation")
	fobj := c.LookupFunc("pkg/dsl/cst", "compoundOpToBaseOp")
	if fobj == nil {
		r.Undecided("R08.10", "compoundOpToBaseOp", "", "anchor function not found")
		return
	}
	p := c.PkgOfFunc(fobj)
	decl := c.Decl(fobj)
	n := 0
	ast.Inspect(decl.Body, func(nd ast.Node) bool {
		cc, ok := nd.(*ast.CaseClause)
		if !ok || cc.List == nil {
			return true
		}
		var ret string
		haveRet := false
		if len(cc.Body) == 1 {
			if rs, ok := cc.Body[0].(*ast.ReturnStmt); ok && len(rs.Results) == 1 {
				if tv, ok := p.TypesInfo.Types[rs.Results[0]]; ok && tv.Value != nil && tv.Value.Kind() == constant.String {
					ret = constant.StringVal(tv.Value)
					haveRet = true
				}
			}
		}
		for _, l := range cc.List {
			tv := p.TypesInfo.Types[l]
			if tv.Value == nil || tv.Value.Kind() != constant.String {
				r.Undecided("R08.10", "case at "+c.Rel(l.Pos()), c.Rel(l.Pos()), "non-constant case label")
				continue
			}
			lab := constant.StringVal(tv.Value)
			n++
			if !haveRet {
				r.Undecided("R08.10", "case "+lab, c.Rel(l.Pos()), "case body is not a single constant return")
				continue
			}
			e := c.BIFByName(reg, ret)
			okReg := e != nil && (e.Funcs["binaryFunc"] != nil || e.Funcs["binaryFuncWithState"] != nil || e.FuncLits["binaryFunc"] || isShortCircuitOp(ret))
			r.Check(lab == ret+"=" && okReg, "R08.10", "case "+lab, c.Rel(l.Pos()), fmt.Sprintf("%q → %q, registered", lab, ret),
				fmt.Sprintf("compound operator %q maps to base operator %q (expected %q, registered as a binary operator: %v)", lab, ret, strings.TrimSuffix(lab, "="), okReg))
		}
		return true
	})
	r.Floor("R08.10", "compound operator cases", n, 19)
}

func isShortCircuitOp(op string) bool {
	switch op {
	case "&&", "||", "??", "???":
		return true
	}
	return false
}

// R08.11: is_* predicates classify consistently.
// documented true-sets over the 12 kinds (from the functions' help texts /
// reference-main-null-data.md). "?" marks kinds where the answer is
// value-dependent (may be either).
var isDoc = map[string]struct {
	True  []int // must be able to return true, and never false unless listed in Dep
	Dep   []int // value-dependent: may return either
	Other string
}{
	"is_absent":       {True: []int{K_ABSENT}},
	"is_present":      {True: []int{K_INT, K_FLOAT, K_BOOL, K_VOID, K_STRING, K_BYTES, K_ARRAY, K_MAP, K_FUNC, K_ERROR, K_NULL}},
	"is_error":        {True: []int{K_ERROR}},
	"is_boolean":      {True: []int{K_BOOL}},
	"is_bytes":        {True: []int{K_BYTES}},
	"is_float":        {True: []int{K_FLOAT}},
	"is_int":          {True: []int{K_INT}},
	"is_numeric":      {True: []int{K_INT, K_FLOAT}},
	"is_map":          {True: []int{K_MAP}},
	"is_array":        {True: []int{K_ARRAY}},
	"is_not_map":      {True: []int{K_INT, K_FLOAT, K_BOOL, K_VOID, K_STRING, K_BYTES, K_ARRAY, K_FUNC, K_ERROR, K_NULL, K_ABSENT}},
	"is_not_array":    {True: []int{K_INT, K_FLOAT, K_BOOL, K_VOID, K_STRING, K_BYTES, K_MAP, K_FUNC, K_ERROR, K_NULL, K_ABSENT}},
	"is_null":         {True: []int{K_ABSENT, K_VOID, K_NULL}},
	"is_not_null":     {True: []int{K_INT, K_FLOAT, K_BOOL, K_STRING, K_BYTES, K_ARRAY, K_MAP, K_FUNC, K_ERROR}},
	"is_empty":        {True: []int{K_VOID}, Dep: []int{K_STRING}},
	"is_not_empty":    {True: []int{K_INT, K_FLOAT, K_BOOL, K_BYTES, K_ARRAY, K_MAP, K_FUNC, K_ERROR, K_NULL}, Dep: []int{K_STRING}},
	"is_string":       {True: []int{K_STRING, K_VOID}},
	"is_empty_map":    {Dep: []int{K_MAP}},
	"is_nonempty_map": {Dep: []int{K_MAP}},
	"is_nan":          {Dep: []int{K_FLOAT}},
	"is_inf":          {Dep: []int{K_FLOAT}},
}

func runC08Is(c *Ctx, r *Report, rs *RetSum, reg []*BIFEntry) {
	r.Rule("R08.11", "each is_X built-in's true-set over the 12 kinds (computed by abstract evaluation of its body with the kind predicates' meaning derived from package mlrval) equals the documented classification; documented negation pairs are complementary; each asserting_X checks is_X")
	ke := NewKindEval(c, rs)
	names := []string{}
	for n := range isDoc {
		names = append(names, n)
	}
	sort.Strings(names)
	trueSets := map[string]uint16{}
	falseSets := map[string]uint16{}
	found := 0
	for _, name := range names {
		e := c.BIFByName(reg, name)
		if e == nil {
			if name == "is_inf" {
				continue
			}
			r.Undecided("R08.11", name, "", "not in the registry")
			continue
		}
		f := e.Funcs["unaryFunc"]
		if f == nil {
			r.Undecided("R08.11", name, c.Rel(e.Pos), "no unary implementation")
			continue
		}
		found++
		pf := ke.UnaryPred(c.SSAFunc(f), 0, 0)
		if pf.Bailed {
			r.Undecided("R08.11", name, c.Rel(e.Pos), "abstract evaluation of "+FuncName(f)+" gave up")
			continue
		}
		mt, mf := pf.kindsWhere(pf.MayTrue), pf.kindsWhere(pf.MayFalse)
		// pending variants must agree with their resolved kind
		pendOK := true
		for _, kv := range AllKindVariants(true) {
			if !kv.Pend {
				continue
			}
			base := KindVariant{kv.Kind, false}
			if pf.MayTrue[kv] != pf.MayTrue[base] || pf.MayFalse[kv] != pf.MayFalse[base] {
				pendOK = false
				r.Fail("R08.11", name+" on un-inferred "+kindNames[kv.Kind], c.Rel(e.Pos),
					fmt.Sprintf("%s answers differently for a value whose type is not yet inferred (true:%v false:%v) and the same value after inference (true:%v false:%v)", name, pf.MayTrue[kv], pf.MayFalse[kv], pf.MayTrue[base], pf.MayFalse[base]))
			}
		}
		mt &^= 1 << K_PENDING
		mf &^= 1 << K_PENDING
		trueSets[name], falseSets[name] = mt, mf
		doc := isDoc[name]
		var wantT, dep uint16
		for _, k := range doc.True {
			wantT |= 1 << uint(k)
		}
		for _, k := range doc.Dep {
			dep |= 1 << uint(k)
		}
		all := uint16(1<<K_DIM) - 1
		// definite true on wantT, definite false on the rest, either on dep
		okT := mt&^dep == wantT && (mf&^dep) == all&^wantT&^dep && (mt&dep) == dep && (mf&dep) == dep
		anyAbort := ""
		for kv, at := range pf.Abort {
			anyAbort = kv.String() + ": " + at
		}
		if anyAbort != "" {
			r.Fail("R08.11", name+" aborts", c.Rel(e.Pos), name+" can abort on "+anyAbort)
		}
		if pendOK {
			r.Check(okT, "R08.11", name, c.Rel(e.Pos), fmt.Sprintf("true on %s, value-dependent on %s", maskString(wantT), maskString(dep)),
				fmt.Sprintf("%s: may-true set %s, may-false set %s; documented: true exactly on %s, value-dependent on %s", name, maskString(mt), maskString(mf), maskString(wantT), maskString(dep)))
		}
	}
	r.Floor("R08.11", "is_* predicates", found, 18)
	for _, pr := range [][2]string{{"is_map", "is_not_map"}, {"is_array", "is_not_array"}, {"is_null", "is_not_null"}, {"is_absent", "is_present"}} {
		a, okA := trueSets[pr[0]]
		b, okB := trueSets[pr[1]]
		if !okA || !okB {
			continue
		}
		all := uint16(1<<K_DIM) - 1
		r.Check(a^b == all && a&b == 0, "R08.11", pr[0]+"/"+pr[1]+" complementary", "", maskString(a)+" vs "+maskString(b),
			fmt.Sprintf("%s true-set %s and %s true-set %s are not complementary", pr[0], maskString(a), pr[1], maskString(b)))
	}
	// asserting_X passes is_X(input1) to assertingCommon
	nass := 0
	for _, e := range reg {
		if !strings.HasPrefix(e.Name, "asserting_") {
			continue
		}
		f := e.Funcs["unaryFuncWithContext"]
		if f == nil {
			r.Undecided("R08.11", e.Name, c.Rel(e.Pos), "no unaryFuncWithContext implementation")
			continue
		}
		nass++
		isName := "is_" + strings.TrimPrefix(e.Name, "asserting_")
		ie := c.BIFByName(reg, isName)
		if ie == nil || ie.Funcs["unaryFunc"] == nil {
			r.Undecided("R08.11", e.Name, c.Rel(e.Pos), "no matching "+isName)
			continue
		}
		want := ie.Funcs["unaryFunc"]
		sf := c.SSAFunc(f)
		ok := false
		got := ""
		ForEachCall(sf, false, func(site ssa.CallInstruction, in *ssa.Function) {
			com := site.Common()
			if CalleeName(com) != "pkg/bifs.assertingCommon" || len(com.Args) < 2 {
				return
			}
			if com.Args[0] != sf.Params[0] {
				got = "first argument is not input1"
				return
			}
			if call, isCall := com.Args[1].(*ssa.Call); isCall {
				cf := call.Call.StaticCallee()
				if cf != nil && cf.Object() == want && len(call.Call.Args) == 1 && call.Call.Args[0] == sf.Params[0] {
					ok = true
				} else if cf != nil {
					got = "checks " + SSAName(cf)
				}
			}
		})
		r.Check(ok, "R08.11", e.Name, c.Rel(e.Pos), "assertingCommon(input1, "+want.Name()+"(input1))",
			fmt.Sprintf("%s must check %s(input1); %s", e.Name, want.Name(), got))
	}
	r.Floor("R08.11", "asserting_* wrappers", nass, 18)
}

// ---- R08.12 -----------------------------------------------------------------
// The short-circuit operators && and || follow the documented table of the
// null-data reference.
func c08ShortCircuit(c *Ctx, r *Report) {
	r.Rule("R08.12", "&& and || follow the documented table: the Evaluate methods of LogicalANDOperatorNode and LogicalOROperatorNode, evaluated abstractly with their two operands ranging over true, false, 3 (a non-boolean), empty, absent and error, give in every cell the result kind / truth value printed in the '(&&)' and '(||)' tables of reference-main-null-data.md")
	doc, err := c.ReadRepoFile("docs/src/reference-main-null-data.md")
	if err != nil {
		r.Undecided("R08.12", "null-data reference", "", err.Error())
		return
	}
	// parse the two tables
	tables := map[string]map[string]map[string]string{}
	cur := ""
	var cols []string
	for _, line := range strings.Split(string(doc), "\n") {
		if strings.HasPrefix(line, "(&&)") || strings.HasPrefix(line, "(||)") {
			cur = line[:4]
			cols = strings.Fields(strings.ReplaceAll(line[4:], "|", " "))
			tables[cur] = map[string]map[string]string{}
			continue
		}
		f := strings.Fields(strings.ReplaceAll(line, "|", " "))
		if len(f) == 0 {
			cur = ""
			continue
		}
		if cur == "" || strings.HasPrefix(f[0], "---") {
			continue
		}
		if len(f) == len(cols)+1 {
			row := map[string]string{}
			for i, cname := range cols {
				row[cname] = f[i+1]
			}
			tables[cur][f[0]] = row
		}
	}
	operand := func(name string) AV {
		switch name {
		case "true":
			return AV{T: 'm', MK: K_BOOL, Toks: tokset("TRUE")}
		case "false":
			return AV{T: 'm', MK: K_BOOL, Toks: tokset("FALSE")}
		case "3":
			return AV{T: 'm', MK: K_INT, Toks: tokset("INT")}
		case "(empty)":
			return AV{T: 'm', MK: K_VOID, Toks: tokset("VOID")}
		case "(absent)":
			return AV{T: 'm', MK: K_ABSENT, Toks: tokset("ABSENT")}
		case "(error)":
			return AV{T: 'm', MK: K_ERROR, Toks: tokset("ERROR")}
		}
		return AV{}
	}
	rs := NewRetSum(c)
	n := 0
	for _, op := range []struct{ sym, typ string }{{"(&&)", "LogicalANDOperatorNode"}, {"(||)", "LogicalOROperatorNode"}} {
		tab := tables[op.sym]
		if len(tab) != 6 {
			r.Undecided("R08.12", "table "+op.sym, "docs/src/reference-main-null-data.md", fmt.Sprintf("documented table not found or not 6x6 (%d rows)", len(tab)))
			continue
		}
		fn := c.SSAFunc(c.LookupMethod("pkg/dsl/cst", op.typ, "Evaluate"))
		if fn == nil {
			r.Undecided("R08.12", op.typ, "", "Evaluate method not found")
			continue
		}
		// the two operand evaluations, in source order
		var sites []*ssa.Call
		for _, b := range fn.Blocks {
			for _, in := range b.Instrs {
				if call, ok := in.(*ssa.Call); ok && call.Call.IsInvoke() && call.Call.Method.Name() == "Evaluate" {
					sites = append(sites, call)
				}
			}
		}
		// which operand does a site evaluate: field a or b of the node
		fieldOf := func(call *ssa.Call) string {
			if _, name, ok := fieldLoadName(call.Call.Value); ok {
				return name
			}
			return ""
		}
		for _, an := range []string{"true", "false", "3", "(empty)", "(absent)", "(error)"} {
			for _, bn := range []string{"true", "false", "3", "(empty)", "(absent)", "(error)"} {
				n++
				key := fmt.Sprintf("%s %s %s", an, strings.Trim(op.sym, "()"), bn)
				ke := NewKindEval(c, rs)
				a, b := operand(an), operand(bn)
				a.Toks.Add("A")
				b.Toks.Add("B")
				ke.InvokeOracle = func(x *ssa.Call) (AV, bool) {
					switch fieldOf(x) {
					case "a":
						return a, true
					case "b":
						return b, true
					}
					return AV{}, false
				}
				args := make([]AV, len(fn.Params))
				for i, p := range fn.Params {
					args[i] = avUnknownFor(p.Type())
				}
				res := ke.Eval(fn, args)
				want := tab[an][bn]
				if res.Bailed || len(res.Results) == 0 {
					r.Undecided("R08.12", key, c.Rel(fn.Pos()), "kind evaluation gave up")
					continue
				}
				t := res.Results[0].Toks
				got := describeSC(t, an, bn)
				r.Check(got == want, "R08.12", key, c.Rel(fn.Pos()), got,
					fmt.Sprintf("%s.Evaluate gives %s for %s %s %s (tokens %s); the null-data reference tabulates %s", op.typ, got, an, strings.Trim(op.sym, "()"), bn, t, want))
			}
		}
	}
	r.Floor("R08.12", "cells of the && and || tables", n, 72)
}

// describeSC renders an abstract result in the vocabulary of the documented table.
func describeSC(t TokSet, an, bn string) string {
	ident := func(name string) string {
		switch name {
		case "3":
			return "3"
		}
		return name
	}
	has := func(x string) bool { return t.Has(x) }
	kinds := 0
	out := "?"
	if has("A") && !has("B") {
		return ident(an)
	}
	if has("B") && !has("A") {
		return ident(bn)
	}
	for _, k := range []struct{ tok, name string }{{"TRUE", "true"}, {"FALSE", "false"}, {"ABSENT", "(absent)"}, {"ERROR", "(error)"}, {"VOID", "(empty)"}} {
		if has(k.tok) {
			kinds++
			out = k.name
		}
	}
	if kinds == 1 {
		return out
	}
	return "ambiguous" + t.String()
}

// ---- R08.13 -----------------------------------------------------------------
func c08Coalesce(c *Ctx, r *Report) {
	r.Rule("R08.13", "the coalescing operators do what their help says: `a ?? b` is b exactly when a is absent and otherwise a itself; `a ??? b` is b exactly when a is absent or empty and otherwise a itself — evaluated abstractly for a ranging over the 12 kinds (the registry help texts 'isn't defined in the current record' / 'or has empty value' are the oracle)")
	rs := NewRetSum(c)
	n := 0
	for _, op := range []struct {
		sym, typ string
		takesB   map[int]bool
	}{
		{"??", "AbsentCoalesceOperatorNode", map[int]bool{K_ABSENT: true}},
		{"???", "EmptyCoalesceOperatorNode", map[int]bool{K_ABSENT: true, K_VOID: true}},
	} {
		fn := c.SSAFunc(c.LookupMethod("pkg/dsl/cst", op.typ, "Evaluate"))
		if fn == nil {
			r.Undecided("R08.13", op.typ, "", "Evaluate method not found")
			continue
		}
		for k := 0; k < K_DIM; k++ {
			n++
			key := fmt.Sprintf("%s %s b", kindNames[k], op.sym)
			ke := NewKindEval(c, rs)
			a := AV{T: 'm', MK: k, Toks: tokset("A")}
			b := AV{T: 'm', MK: -1, Toks: tokset("B")}
			ke.InvokeOracle = func(x *ssa.Call) (AV, bool) {
				if _, name, ok := fieldLoadName(x.Call.Value); ok {
					switch name {
					case "a":
						return a, true
					case "b":
						return b, true
					}
				}
				return AV{}, false
			}
			args := make([]AV, len(fn.Params))
			for i, p := range fn.Params {
				args[i] = avUnknownFor(p.Type())
			}
			res := ke.Eval(fn, args)
			if res.Bailed || len(res.Results) == 0 {
				r.Undecided("R08.13", key, c.Rel(fn.Pos()), "kind evaluation gave up")
				continue
			}
			t := res.Results[0].Toks
			want := "A"
			if op.takesB[k] {
				want = "B"
			}
			// a STRING can be the empty string at run time: ??? may take either way there
			okCell := t.Has(want) && len(t) == 1
			if op.sym == "???" && k == K_STRING {
				okCell = t.SubsetOf("A", "B") && t.Has("A")
			}
			r.Check(okCell, "R08.13", key, c.Rel(fn.Pos()), "returns "+t.String(),
				fmt.Sprintf("%s.Evaluate returns %s for a %s left operand; the operator is documented to give %s there", op.typ, t, kindNames[k], map[string]string{"A": "the left operand", "B": "the right operand"}[want]))
		}
	}
	r.Floor("R08.13", "kinds × coalescing operators", n, 24)
}

// runC08MathAbsent (R08.4b): math-library functions of two or three arguments
// that are not dispatched through a disposition table return absent when an
// argument is absent.
func runC08MathAbsent(c *Ctx, r *Report, reg []*BIFEntry, rs *RetSum) {
	r.Rule("R08.4b", "math-library functions of an absent argument return absent, also beyond one argument: for every function of the math class with a fixed arity of two or three whose implementation is not a disposition-table dispatch, evaluating it abstractly with an absent value in one position and numbers in the others gives only absent (or that very argument)")
	n := 0
	for _, e := range reg {
		if !strings.Contains(strings.ToUpper(e.Class), "MATH") {
			continue
		}
		for _, field := range []string{"binaryFunc", "ternaryFunc"} {
			fobj := e.Funcs[field]
			if fobj == nil {
				continue
			}
			fn := c.SSAFunc(fobj)
			if fn == nil || fn.Blocks == nil {
				continue
			}
			viaTable := false
			for _, b := range fn.Blocks {
				for _, in := range b.Instrs {
					if call, ok := in.(*ssa.Call); ok && rs.dispatchTable(call.Call.Value) != nil {
						viaTable = true
					}
				}
			}
			if viaTable {
				continue // covered cell by cell by R08.1–R08.3
			}
			for pos := range fn.Params {
				n++
				key := fmt.Sprintf("%s: argument %d absent", e.Name, pos+1)
				ke := NewKindEval(c, rs)
				args := make([]AV, len(fn.Params))
				for i := range fn.Params {
					if i == pos {
						args[i] = AV{T: 'm', MK: K_ABSENT, Toks: tokset("THEABSENT")}
					} else {
						args[i] = AV{T: 'm', MK: K_INT, Toks: tokset("OTHER")}
					}
				}
				res := ke.Eval(fn, args)
				if res.Bailed || len(res.Results) == 0 {
					r.Undecided("R08.4b", key, c.Rel(fn.Pos()), "kind evaluation gave up")
					continue
				}
				okAll := true
				desc := []string{}
				for _, rv := range res.Results {
					d := fmt.Sprintf("kind %d %s", rv.MK, rv.Toks)
					desc = append(desc, d)
					if !(rv.MK == K_ABSENT || (rv.Toks.Has("THEABSENT") && len(rv.Toks) == 1)) {
						okAll = false
					}
				}
				r.Check(okAll, "R08.4b", key, c.Rel(fn.Pos()), "returns absent", fmt.Sprintf("%s(…) with argument %d absent returns %s: the reference says functions of an absent argument return absent ($y = %s(…) must not create y=(error) on a record lacking the field)", e.Name, pos+1, strings.Join(desc, " / "), e.Name))
			}
		}
	}
	r.Floor("R08.4b", "argument positions of binary and ternary math functions", n, 3)
}

// c08CompoundIsOperator (R08.10b): x op= y is x = x op y, nothing in between.
func c08CompoundIsOperator(c *Ctx, r *Report) {
	r.Rule("R08.10b", "x op= y is x = x op y: in the builder of compound assignments (the function that maps the compound operator to its base operator with compoundOpToBaseOp), the right-hand side stored in the assignment node is the binary operator node built for (x, y) itself — not a node wrapped around it that could decide, for some kinds of x, to bypass the operator's table (an unset x combined with an empty, string or boolean y goes through the table like every other pair)")
	var builder *ssa.Function
	for _, fn := range c.ModuleFunctions() {
		if fn.Blocks == nil || fn.Pkg == nil || !strings.HasSuffix(fn.Pkg.Pkg.Path(), "/pkg/dsl/cst") {
			continue
		}
		for _, b := range fn.Blocks {
			for _, in := range b.Instrs {
				if call, ok := in.(*ssa.Call); ok && strings.HasSuffix(CalleeName(&call.Call), ".compoundOpToBaseOp") {
					builder = fn
				}
			}
		}
	}
	if builder == nil {
		r.Undecided("R08.10b", "compound-assignment builder", "", "no function calling compoundOpToBaseOp found")
		return
	}
	// the operator node: first result of a call that takes the base operator (the result of compoundOpToBaseOp)
	var opNode ssa.Value
	for _, b := range builder.Blocks {
		for _, in := range b.Instrs {
			call, ok := in.(*ssa.Call)
			if !ok {
				continue
			}
			takesBase := false
			for _, a := range call.Call.Args {
				if bc, ok := a.(*ssa.Call); ok && strings.HasSuffix(CalleeName(&bc.Call), ".compoundOpToBaseOp") {
					takesBase = true
				}
			}
			if !takesBase {
				continue
			}
			for _, ref := range *call.Referrers() {
				if ex, ok := ref.(*ssa.Extract); ok && ex.Index == 0 {
					opNode = ex
				}
			}
		}
	}
	// the store into the assignment node's rvalue field
	found, okStore := false, false
	where := ""
	for _, b := range builder.Blocks {
		for _, in := range b.Instrs {
			st, ok := in.(*ssa.Store)
			if !ok {
				continue
			}
			_, name, ok := fieldAddrName(st.Addr)
			if !ok || !strings.Contains(strings.ToLower(name), "rvalue") {
				continue
			}
			found = true
			where = c.Rel(st.Pos())
			v := st.Val
			for {
				if mi, ok := v.(*ssa.MakeInterface); ok {
					v = mi.X
					continue
				}
				if ci, ok := v.(*ssa.ChangeInterface); ok {
					v = ci.X
					continue
				}
				break
			}
			if opNode != nil && v == opNode {
				okStore = true
			}
		}
	}
	if !found || opNode == nil {
		r.Undecided("R08.10b", SSAName(builder), c.Rel(builder.Pos()), "the operator node or the store into the assignment node's right-hand side was not recognised")
		return
	}
	r.Check(okStore, "R08.10b", SSAName(builder), where, "the operator node itself is the right-hand side",
		SSAName(builder)+" stores something other than the binary operator node for (x, y) as the right-hand side of the compound assignment: x op= y no longer means x = x op y for every kind of x and y")
}
