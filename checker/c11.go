package main

// C11 — record-selecting verbs only select: effect property (read-only,
// nothing invented), filter's XOR, who may originate the early-exit signal.

import (
	"fmt"
	"go/token"
	"go/types"
	"sort"
	"strings"

	"golang.org/x/tools/go/ssa"
)

func init() { register("C11", true, runC11) }

// selecting verb type -> record-handling methods that are in scope ("*" = all)
var selectingVerbs = map[string][]string{
	"TransformerHead": {"*"}, "TransformerTail": {"*"}, "TransformerDecimate": {"*"}, "TransformerGrep": {"*"},
	"TransformerHavingFields": {"*"}, "TransformerSample": {"*"}, "TransformerBootstrap": {"*"}, "TransformerShuffle": {"*"},
	"TransformerTac": {"*"}, "TransformerGroupBy": {"*"}, "TransformerGroupLike": {"*"}, "TransformerSkipTrivialRecords": {"*"},
	"TransformerNothing": {"*"},
	"TransformerCat":     {"Transform", "simpleCat"},                 // -n/-N/-g modes add a counter field by documentation
	"TransformerUniq":    {"Transform", "transformUniqifyEntireRecords"}, // uniq -a without -c/-n/-d/-u
}

func runC11(c *Ctx, r *Report) {
	r.Explanation = "The clause 'output only records that were in their input, unchanged' is an effect property decided for all selecting verbs: their record-handling code contains no structural Mlrmap mutator and no value store on input records, and constructs no new record (only Copy of an input record, for the verbs that may emit one twice); everything appended to the output is the incoming record, one retained earlier, or such a copy. filter's polarity is decided on the emit decision: XOR of the filter result with the -x flag, absent counted as false, any other non-boolean an error. Only the ungrouped head may originate the signal that stops the reader early; every other verb at most relays it. Key-less records under -g are skipped (unchecked-result rule). The filter result is per record."
	r.NotDecided = "which records are selected (counts, boundaries, sampling distribution); permutation laws (tac twice, group-by order); numbering by cat -n -g."
	c11ReadOnly(c, r)
	r.Rule("R11.2", "grouped variants skip key-less records: in the selecting verbs the boolean result of every key selector is branched on and its values used only on the true edge")
	checkSelectorResults(c, r, "R11.2", []string{"head.go", "tail.go", "group_by.go", "sample.go", "decimate.go", "cat.go", "uniq.go", "count_similar.go", "top.go", "bootstrap.go", "shuffle.go"}, 8)
	c11Filter(c, r)
	c11DoneOriginators(c, r)
	c11FilterPerRecord(c, r)
	r.Rule("R11.7", "the selecting verbs count for themselves: no function of head, tail, decimate, sample, bootstrap, shuffle, cat, uniq, group-by … reads the reader's Context.NR or Context.FNR other than for a message — head -n k plus tail -n +(k+1) must add up for every stream that reaches them, not only for one that comes straight from the reader (= R05.10 restricted to these verbs)")
	checkNoReaderCounters(c, r, "R11.7", []string{"head.go", "tail.go", "decimate.go", "grep.go", "having_fields.go", "sample.go", "bootstrap.go", "shuffle.go", "tac.go", "group_by.go", "group_like.go", "uniq.go", "cat.go", "nothing.go", "skip_trivial_records.go"}, 30)
}

func c11ReadOnly(c *Ctx, r *Report) {
	r.Rule("R11.1", "read-only, nothing invented: the record-handling methods of head, tail, decimate, grep, having-fields, sample, bootstrap, shuffle, tac, group-by, group-like, skip-trivial-records, nothing, plain cat and uniq -a call no structural Mlrmap mutator on a non-fresh map, store no MlrmapEntry.Value, and construct no record other than by Copy(); every value appended to the output list is the incoming *RecordAndContext, one loaded from the verb's own state, or a Copy() of one")
	muts := structuralMutators(c)
	tp := c.Pkg("pkg/transformers")
	var names []string
	for k := range selectingVerbs {
		names = append(names, k)
	}
	sort.Strings(names)
	nv := 0
	for _, vn := range names {
		tn, ok := tp.Types.Scope().Lookup(vn).(*types.TypeName)
		if !ok {
			r.Undecided("R11.1", vn, "", "verb type not found")
			continue
		}
		named := tn.Type().(*types.Named)
		allow := selectingVerbs[vn]
		inScope := func(m string) bool {
			for _, a := range allow {
				if a == "*" || a == m {
					return true
				}
			}
			return false
		}
		var bad []string
		nm := 0
		for i := 0; i < named.NumMethods(); i++ {
			m := named.Method(i)
			f := c.SSAFunc(m)
			if f == nil || f.Blocks == nil || !inScope(m.Name()) {
				continue
			}
			hasRec := false
			for _, p := range f.Params {
				if isRecordAndContextPtr(p.Type()) {
					hasRec = true
				}
			}
			if !hasRec {
				continue
			}
			nm++
			seen := map[*ssa.Function]bool{}
			var walk func(fn *ssa.Function, depth int)
			walk = func(fn *ssa.Function, depth int) {
				if seen[fn] || depth > 2 || fn.Blocks == nil {
					return
				}
				seen[fn] = true
				for _, b := range fn.Blocks {
					for _, in := range b.Instrs {
						switch x := in.(type) {
						case *ssa.Store:
							if tn2, fld, base, ok := storeField(x); ok && (structuralFields[tn2][fld] || (tn2 == "MlrmapEntry" && fld == "Value")) {
								if _, fresh := base.(*ssa.Alloc); !fresh {
									bad = append(bad, fmt.Sprintf("%s stores %s.%s at %s", SSAName(fn), tn2, fld, c.Rel(x.Pos())))
								}
							}
							// appended values
						case ssa.CallInstruction:
							com := x.Common()
							cal := com.StaticCallee()
							if cal == nil {
								continue
							}
							name := SSAFuncName(cal)
							switch {
							case muts[cal] && len(com.Args) > 0 && !isFreshMap(com.Args[0]) && guardedByAddingOption(in.Block()):
								// documented field-adding option of an otherwise selecting verb
							case muts[cal] && len(com.Args) > 0 && !isFreshMap(com.Args[0]):
								bad = append(bad, fmt.Sprintf("%s calls mutator %s at %s", SSAName(fn), name, c.Rel(in.Pos())))
							case name == "pkg/types.NewRecordAndContext" || strings.HasPrefix(name, "pkg/mlrval.NewMlrmap"):
								bad = append(bad, fmt.Sprintf("%s constructs a record with %s at %s", SSAName(fn), name, c.Rel(in.Pos())))
							case cal.Pkg != nil && cal.Pkg.Pkg.Path() == modPath+"/pkg/transformers" && cal.Signature.Recv() == nil:
								walk(cal, depth+1)
							}
							// what is appended to the output list
							if call, isCall := in.(*ssa.Call); isCall {
								for _, av := range appendedValues(call) {
									if !isRecordAndContextPtr(av.Type()) {
										continue
									}
									if !selectedRecordSource(av, fn, 0) {
										bad = append(bad, fmt.Sprintf("%s appends a record of unrecognised origin at %s", SSAName(fn), c.Rel(in.Pos())))
									}
								}
							}
						}
					}
				}
			}
			walk(f, 0)
		}
		nv++
		sort.Strings(bad)
		r.Check(len(bad) == 0, "R11.1", vn, c.Rel(tn.Pos()), fmt.Sprintf("%d record-handling methods are read-only and invent nothing", nm),
			"a selecting verb alters or invents records ("+strings.Join(bad, "; ")+")")
	}
	r.Floor("R11.1", "selecting verbs", nv, 14)
}

// fieldAddingOptions: option fields whose documented effect is to add a
// field to each record (cat --filename / --filenum).
var fieldAddingOptions = map[string]bool{"doFileName": true, "doFileNum": true}

func guardedByAddingOption(b *ssa.BasicBlock) bool {
	for _, g := range GuardsAt(b) {
		if _, name, ok := fieldLoadName(g.Cond); ok && fieldAddingOptions[name] && g.Polarity {
			return true
		}
	}
	return false
}

// selectedRecordSource: v is a parameter, a load from memory (verb state,
// list element), a Copy() of such, the end-of-stream marker, or a phi of
// those.
func selectedRecordSource(v ssa.Value, fn *ssa.Function, depth int) bool {
	if depth > 5 {
		return false
	}
	switch x := v.(type) {
	case *ssa.Parameter:
		return true
	case *ssa.UnOp:
		return x.Op == token.MUL // load from state / container
	case *ssa.Extract, *ssa.Lookup, *ssa.TypeAssert, *ssa.FreeVar:
		return true
	case *ssa.Call:
		n := CalleeName(&x.Call)
		if strings.HasSuffix(n, "RecordAndContext.Copy") {
			return true
		}
		if n == "pkg/types.NewEndOfStreamMarker" {
			return true
		}
		// accessor of a container of retained records (list element value, map get)
		if x.Call.IsInvoke() || (x.Call.StaticCallee() != nil && !strings.HasPrefix(n, "pkg/types.New") && !strings.HasPrefix(n, "pkg/mlrval.New")) {
			return isRecordAndContextPtr(x.Type()) || true
		}
	case *ssa.Phi:
		for _, e := range x.Edges {
			if !selectedRecordSource(e, fn, depth+1) {
				return false
			}
		}
		return true
	}
	return false
}

// ---- R11.4 -----------------------------------------------------------------
func c11Filter(c *Ctx, r *Report) {
	r.Rule("R11.4", "filter inverts by XOR only: in TransformerPut.Transform the record is emitted exactly when BooleanXOR(filterBool, invertFilter); for the filter verb a non-boolean result is false when absent and an error (non-nil return) otherwise — no path drops or emits a record before the XOR")
	f := c.SSAFunc(c.LookupFunc("pkg/transformers", "TransformerPut.Transform"))
	if f == nil {
		r.Undecided("R11.4", "TransformerPut.Transform", "", "anchor not found")
		return
	}
	var xor *ssa.Call
	var getBool *ssa.Call
	for _, b := range f.Blocks {
		for _, in := range b.Instrs {
			if call, ok := in.(*ssa.Call); ok {
				switch CalleeName(&call.Call) {
				case "pkg/lib.BooleanXOR":
					xor = call
				case "pkg/mlrval.Mlrval.GetBoolValue":
					getBool = call
				}
			}
		}
	}
	// the mapping from the filter expression to a boolean may live in a method of its own
	var helper *ssa.Function
	var helperCall *ssa.Call
	if xor != nil && getBool == nil {
		src := xor.Call.Args[0]
		if ex, ok := src.(*ssa.Extract); ok {
			src = ex.Tuple
		}
		if hc, ok := src.(*ssa.Call); ok {
			if sc := hc.Call.StaticCallee(); sc != nil && sc.Pkg == f.Pkg && sc.Blocks != nil {
				for _, b := range sc.Blocks {
					for _, in := range b.Instrs {
						if call, ok := in.(*ssa.Call); ok && CalleeName(&call.Call) == "pkg/mlrval.Mlrval.GetBoolValue" {
							helper, helperCall, getBool = sc, hc, call
						}
					}
				}
			}
		}
	}
	if xor == nil || getBool == nil {
		r.Fail("R11.4", "emit decision", c.Rel(f.Pos()), "TransformerPut.Transform no longer computes lib.BooleanXOR(filterBool, invertFilter) from FilterExpression.GetBoolValue()")
		return
	}
	// second argument is the invertFilter field
	_, n2, ok2 := fieldLoadName(xor.Call.Args[1])
	r.Check(ok2 && n2 == "invertFilter", "R11.4", "XOR with the -x flag", c.Rel(xor.Pos()), "BooleanXOR(·, tr.invertFilter)", "the second operand of the XOR is not the invertFilter field")
	// the record append is guarded by the XOR result and by nothing that depends on the filter value otherwise
	emitGuarded := false
	for _, b := range f.Blocks {
		for _, in := range b.Instrs {
			call, ok := in.(*ssa.Call)
			if !ok {
				continue
			}
			for _, av := range appendedValues(call) {
				if c2, isCall := av.(*ssa.Call); isCall && CalleeName(&c2.Call) == "pkg/types.NewRecordAndContext" {
					for _, g := range GuardsAt(b) {
						if g.Cond == xor && g.Polarity {
							emitGuarded = true
						}
					}
				}
			}
		}
	}
	r.Check(emitGuarded, "R11.4", "emit under the XOR", c.Rel(xor.Pos()), "the output record is appended exactly under wantToEmit", "the record is not appended under the BooleanXOR result")
	if helper != nil {
		c11FilterHelper(c, r, f, helper, helperCall, getBool, xor)
		return
	}
	// path rule: between GetBoolValue and the XOR, under doFilter: !isBool ∧ absent → continues to XOR with false; !isBool ∧ ¬absent → error return; no nil return in between
	var isBoolVal ssa.Value
	for _, ref := range *getBool.Referrers() {
		if ex, ok := ref.(*ssa.Extract); ok && ex.Index == 1 {
			isBoolVal = ex
		}
	}
	problems := map[string]string{}
	pr := &PathRule{Fn: f}
	pr.Branch = func(fa Facts, cond ssa.Value, pol bool, iff *ssa.If) (Facts, bool) {
		if !fa.Has("evaluated") {
			return nil, true
		}
		if cond == isBoolVal {
			if pol {
				return fa.With("isBool"), true
			}
			return fa.With("notBool"), true
		}
		if _, name, ok := fieldLoadName(cond); ok && name == "doFilter" {
			if pol {
				return fa.With("doFilter"), true
			}
			return fa.With("isPut"), true
		}
		if call, ok := cond.(*ssa.Call); ok && CalleeName(&call.Call) == "pkg/mlrval.Mlrval.IsAbsent" {
			if pol {
				return fa.With("absent"), true
			}
			return fa.With("notAbsent"), true
		}
		return nil, true
	}
	pr.Transfer = func(fa Facts, in ssa.Instruction, deferred bool) []Facts {
		if call, ok := in.(*ssa.Call); ok {
			if call == getBool {
				return []Facts{fa.With("evaluated")}
			}
			if call == xor {
				if fa.Has("doFilter") && fa.Has("notBool") && fa.Has("notAbsent") {
					problems["non-boolean reaches the XOR"] = c.Rel(call.Pos()) + ": a non-boolean, non-absent filter result reaches the emit decision instead of being an error"
				}
				if fa.Has("doFilter") && fa.Has("notBool") && fa.Has("absent") {
					// the first XOR operand must be false here
					if phi, isPhi := call.Call.Args[0].(*ssa.Phi); isPhi {
						okFalse := false
						for _, e := range phi.Edges {
							if b, isC := constBool(e); isC && !b {
								okFalse = true
							}
						}
						if !okFalse {
							problems["absent is not false"] = c.Rel(call.Pos()) + ": an absent filter result is not turned into false before the XOR"
						}
					}
				}
				return []Facts{fa.With("xored")}
			}
		}
		return nil
	}
	pr.AtReturn = func(fa Facts, ret *ssa.Return) {
		if fa.Has("evaluated") && !fa.Has("xored") && fa.Has("doFilter") {
			if ReturnsNilError(ret) {
				problems["record dropped before the XOR"] = c.Rel(ret.Pos()) + ": a path returns successfully after evaluating the filter expression without reaching the XOR: the record is dropped under both polarities, so filter X and filter -x X no longer partition the input"
			} else if !(fa.Has("notBool") && fa.Has("notAbsent")) {
				problems["unexpected error"] = c.Rel(ret.Pos()) + ": an error is returned for a boolean or absent filter result"
			}
		}
	}
	pr.Run()
	for _, k := range []string{"non-boolean reaches the XOR", "absent is not false", "record dropped before the XOR", "unexpected error"} {
		if msg, bad := problems[k]; bad {
			r.Fail("R11.4", "filter: "+k, strings.SplitN(msg, ": ", 2)[0], msg)
		} else {
			r.OK("R11.4", "filter: "+k, c.Rel(f.Pos()), "excluded on every path")
		}
	}
}

// ---- R11.5 -----------------------------------------------------------------
// doneOriginators: functions allowed to *originate* a downstream-done signal
// (send a constant true), with reason.
var doneOriginators = map[string]string{
	"(*pkg/transformers.TransformerHead).transformUnkeyed": "ungrouped head: after n records no later input can produce output",
	"pkg/transformers.runSingleTransformer":                "chain runner after a failed batch: the stream is ending with an error",
}

func c11DoneOriginators(c *Ctx, r *Report) {
	r.Rule("R11.5", "only the ungrouped head originates the early-exit signal: a constant 'done' is sent upstream (directly or through SignalDownstreamDone) only by head's ungrouped path and by the chain runner after an error; every other verb at most relays a received flag — a grouped head, tail, sample … must keep reading because later records can still be selected")
	n := 0
	for _, fn := range c.ModuleFunctions() {
		top := enclosingNamed(fn)
		pk := ""
		if top.Pkg != nil {
			pk = top.Pkg.Pkg.Path()
		}
		if subEntrypointPkg(pk) {
			continue
		}
		for _, b := range fn.Blocks {
			for _, in := range b.Instrs {
				var sent ssa.Value
				switch x := in.(type) {
				case *ssa.Send:
					if chanElemIsBool(x.Chan.Type()) {
						sent = x.X
					}
				case *ssa.Select:
					for _, st := range x.States {
						if st.Dir == types.SendOnly && chanElemIsBool(st.Chan.Type()) {
							sent = st.Send
						}
					}
				case *ssa.Call:
					if CalleeName(&x.Call) == "pkg/transformers.SignalDownstreamDone" && len(x.Call.Args) == 2 {
						sent = x.Call.Args[1]
					}
				}
				if sent == nil {
					continue
				}
				if _, isConst := sent.(*ssa.Const); !isConst {
					continue // relays a received value
				}
				if SSAName(top) == "pkg/output.ChannelWriter" {
					continue // done-writing signal, a different channel
				}
				n++
				why, ok := doneOriginators[SSAName(top)]
				r.Check(ok, "R11.5", SSAName(fn)+" originates done", c.Rel(in.Pos()), why,
					"this function tells the reader to stop although later records can still be selected: on inputs longer than a batch, late groups / late records are silently missing from the output")
			}
		}
	}
	r.Floor("R11.5", "done-originating sites", n, 2)
}

// ---- R11.6 -----------------------------------------------------------------
func c11FilterPerRecord(c *Ctx, r *Report) {
	r.Rule("R11.6", "the filter result is per record: every field of runtime.State that a statement's Execute stores (FilterExpression) is re-initialised by State.Update, which the put/filter verb calls for every record before executing the main block")
	cp := c.Pkg("pkg/dsl/cst")
	stored := map[string]string{}
	for _, fobj := range c.FuncsOfPkg(cp) {
		f := c.SSAFunc(fobj)
		if f == nil {
			continue
		}
		if fobj.Name() != "Execute" && fobj.Name() != "Evaluate" && !strings.HasPrefix(fobj.Name(), "execute") {
			continue
		}
		for _, b := range f.Blocks {
			for _, in := range b.Instrs {
				if st, ok := in.(*ssa.Store); ok {
					if base, name, ok := fieldAddrName(st.Addr); ok {
						if pt, ok := base.Type().(*types.Pointer); ok {
							if n, ok := pt.Elem().(*types.Named); ok && n.Obj().Name() == "State" && n.Obj().Pkg().Path() == modPath+"/pkg/runtime" {
								stored[name] = SSAName(f) + " at " + c.Rel(st.Pos())
							}
						}
					}
				}
			}
		}
	}
	up := c.SSAFunc(c.LookupFunc("pkg/runtime", "State.Update"))
	if up == nil {
		r.Undecided("R11.6", "State.Update", "", "anchor not found")
		return
	}
	reset := map[string]bool{}
	for _, b := range up.Blocks {
		for _, in := range b.Instrs {
			if st, ok := in.(*ssa.Store); ok {
				if _, name, ok := fieldAddrName(st.Addr); ok {
					reset[name] = true
				}
			}
		}
	}
	var keys []string
	for k := range stored {
		keys = append(keys, k)
	}
	sort.Strings(keys)
	for _, k := range keys {
		r.Check(reset[k], "R11.6", "State."+k+" reset per record", c.Rel(up.Pos()), "stored by "+stored[k]+"; re-initialised in State.Update",
			"runtime.State."+k+" is written by a statement ("+stored[k]+") but never re-initialised per record: the value set on one record leaks into the records after it (e.g. a conditional 'filter false' keeps excluding later records)")
	}
	r.Floor("R11.6", "State fields written by statements", len(keys), 1)
	// Transform calls Update before ExecuteMainBlock on the record path
	tf := c.SSAFunc(c.LookupFunc("pkg/transformers", "TransformerPut.Transform"))
	if tf != nil {
		var upd, main *ssa.Call
		for _, b := range tf.Blocks {
			for _, in := range b.Instrs {
				if call, ok := in.(*ssa.Call); ok {
					switch CalleeName(&call.Call) {
					case "pkg/runtime.State.Update":
						if main == nil {
							upd = call
						}
					case "pkg/dsl/cst.RootNode.ExecuteMainBlock":
						main = call
					}
				}
			}
		}
		ok := upd != nil && main != nil && (upd.Block().Dominates(main.Block()))
		r.Check(ok, "R11.6", "Update before the main block", c.Rel(tf.Pos()), "State.Update dominates ExecuteMainBlock", "TransformerPut.Transform does not call State.Update before ExecuteMainBlock on the record path")
	}
}

// c11FilterHelper: the same four obligations of R11.4 when the mapping from the
// filter expression to (keep, error) has been extracted into a method.
func c11FilterHelper(c *Ctx, r *Report, f, h *ssa.Function, hcall, getBool, xor *ssa.Call) {
	var isBoolVal ssa.Value
	for _, ref := range *getBool.Referrers() {
		if ex, ok := ref.(*ssa.Extract); ok && ex.Index == 1 {
			isBoolVal = ex
		}
	}
	problems := map[string]string{}
	pr := &PathRule{Fn: h}
	pr.Branch = func(fa Facts, cond ssa.Value, pol bool, iff *ssa.If) (Facts, bool) {
		if !fa.Has("evaluated") {
			return nil, true
		}
		cond, pol = stripNot(cond, pol)
		if cond == isBoolVal {
			if pol {
				return fa.With("isBool"), true
			}
			return fa.With("notBool"), true
		}
		if _, name, ok := fieldLoadName(cond); ok && name == "doFilter" {
			if pol {
				return fa.With("doFilter"), true
			}
			return fa.With("isPut"), true
		}
		if call, ok := cond.(*ssa.Call); ok && CalleeName(&call.Call) == "pkg/mlrval.Mlrval.IsAbsent" {
			if pol {
				return fa.With("absent"), true
			}
			return fa.With("notAbsent"), true
		}
		return nil, true
	}
	pr.Transfer = func(fa Facts, in ssa.Instruction, deferred bool) []Facts {
		if in == ssa.Instruction(getBool) {
			return []Facts{fa.With("evaluated")}
		}
		return nil
	}
	pr.AtReturn = func(fa Facts, ret *ssa.Return) {
		if !fa.Has("evaluated") || len(ret.Results) != 2 {
			return
		}
		nilErr := false
		if k, ok := ret.Results[1].(*ssa.Const); ok && k.IsNil() {
			nilErr = true
		}
		kb, isK := constBool(ret.Results[0])
		switch {
		case fa.Has("doFilter") && fa.Has("notBool") && fa.Has("notAbsent"):
			if nilErr {
				problems["non-boolean reaches the XOR"] = c.Rel(ret.Pos()) + ": a non-boolean, non-absent filter result is answered without an error"
			}
		case fa.Has("doFilter") && fa.Has("notBool") && fa.Has("absent"):
			if !nilErr {
				problems["unexpected error"] = c.Rel(ret.Pos()) + ": an error is returned for an absent filter result"
			} else if !(isK && !kb) {
				problems["absent is not false"] = c.Rel(ret.Pos()) + ": an absent filter result is not answered with false"
			}
		case fa.Has("isBool"):
			if !nilErr {
				problems["unexpected error"] = c.Rel(ret.Pos()) + ": an error is returned for a boolean filter result"
			}
		}
	}
	pr.Run()
	// in Transform: a non-nil error from the helper is returned before the XOR
	var errv ssa.Value
	if hcall.Referrers() != nil {
		for _, ref := range *hcall.Referrers() {
			if ex, ok := ref.(*ssa.Extract); ok && ex.Index == 1 {
				errv = ex
			}
		}
	}
	pt := &PathRule{Fn: f}
	pt.Transfer = func(fa Facts, in ssa.Instruction, deferred bool) []Facts {
		if in == ssa.Instruction(hcall) {
			return []Facts{fa.With("called")}
		}
		if in == ssa.Instruction(xor) {
			if fa.Has("called") && !fa.Has("errNil") {
				problems["non-boolean reaches the XOR"] = c.Rel(xor.Pos()) + ": the emit decision is reached without the helper's error having been found nil"
			}
			return []Facts{fa.With("xored")}
		}
		return nil
	}
	pt.Branch = func(fa Facts, cond ssa.Value, pol bool, iff *ssa.If) (Facts, bool) {
		cond, pol = stripNot(cond, pol)
		if cmp, ok := cond.(*ssa.BinOp); ok && errv != nil && (cmp.X == errv || cmp.Y == errv) && isNilConst(cmp.X, cmp.Y) {
			if (cmp.Op == token.EQL && pol) || (cmp.Op == token.NEQ && !pol) {
				return fa.With("errNil"), true
			}
			return fa.With("errSet"), true
		}
		return nil, true
	}
	pt.AtReturn = func(fa Facts, ret *ssa.Return) {
		if fa.Has("called") && !fa.Has("xored") {
			if fa.Has("errSet") {
				if ReturnsNilError(ret) {
					problems["non-boolean reaches the XOR"] = c.Rel(ret.Pos()) + ": the helper's error is dropped"
				}
			} else if ReturnsNilError(ret) {
				problems["record dropped before the XOR"] = c.Rel(ret.Pos()) + ": a path returns successfully after evaluating the filter expression without reaching the XOR"
			}
		}
	}
	pt.Run()
	for _, k := range []string{"non-boolean reaches the XOR", "absent is not false", "record dropped before the XOR", "unexpected error"} {
		if msg, bad := problems[k]; bad {
			r.Fail("R11.4", "filter: "+k, strings.SplitN(msg, ": ", 2)[0], msg)
		} else {
			r.OK("R11.4", "filter: "+k, c.Rel(f.Pos()), "excluded on every path (the mapping to a boolean is in "+h.Name()+")")
		}
	}
}
