package main

// C13 — join pairs exactly the matching records.
//
// Which records pair is a relation over run-time key values and is not
// decided. Decided are the shape facts every pairing rests on: the option
// wiring of the verb's own parser; that each side is keyed by its own list of
// field names; that each of the three kinds of output is emitted under its
// own option and under no other; that the was-paired flag is set wherever a
// right record finds its bucket, whether or not pairs are emitted; that
// --ignore-empty is applied wherever a key is formed; and that every left
// record read is kept (in a bucket or in the unpairable list).

import (
	"fmt"
	"go/constant"
	"go/token"
	"go/types"
	"sort"
	"strings"

	"golang.org/x/tools/go/ssa"
)

func init() { register("C13", true, runC13) }

// what each flag of the join verb stores, by the flags' documented meaning
var joinFlagWiring = map[string]struct {
	field string
	val   string // "" = the flag's argument
}{
	"--np":                    {"emitPairables", "false"},
	"--ul":                    {"emitLeftUnpairables", "true"},
	"--ur":                    {"emitRightUnpairables", "true"},
	"--ignore-empty":          {"ignoreEmptyJoinFields", "true"},
	"-u":                      {"allowUnsortedInput", "true"},
	"-s":                      {"allowUnsortedInput", "false"},
	"--sorted-input":          {"allowUnsortedInput", "false"},
	"-j":                      {"outputJoinFieldNames", ""},
	"-l":                      {"leftJoinFieldNames", ""},
	"-r":                      {"rightJoinFieldNames", ""},
	"--lp":                    {"leftPrefix", ""},
	"--rp":                    {"rightPrefix", ""},
	"--prepipe":               {"prepipe", ""},
	"--prepipex":              {"prepipe", ""},
	"--lk":                    {"leftKeepFieldNames", ""},
	"--left-keep-field-names": {"leftKeepFieldNames", ""},
	"-f":                      {"leftFileName", ""},
}

func joinFuncs(c *Ctx) []*ssa.Function {
	var out []*ssa.Function
	for _, fn := range c.ModuleFunctions() {
		if fn.Pkg == nil || fn.Blocks == nil || !strings.HasSuffix(fn.Pkg.Pkg.Path(), "/pkg/transformers") {
			continue
		}
		if strings.HasSuffix(c.RelFile(fn.Pos()), "pkg/transformers/join.go") {
			out = append(out, fn)
		}
	}
	sort.Slice(out, func(i, j int) bool { return SSAName(out[i]) < SSAName(out[j]) })
	return out
}

// guardOnOption: block b is dominated by a branch on a load of the options
// field `name` with the given polarity.
func guardOnOption(b *ssa.BasicBlock, name string) (found bool, pol bool) {
	for _, g := range GuardsAt(b) {
		cond, p := stripNot(g.Cond, g.Polarity)
		if _, fname, ok := fieldLoadName(cond); ok && fname == name {
			return true, p
		}
	}
	return false, false
}

func runC13(c *Ctx, r *Report) {
	r.Explanation = "Which left and right records pair, in which order, and the accounting of unpaired ones are relations over run-time key values and bucket contents and are not decided. Decided are the shape facts every pairing rests on: the join verb's own option parser stores each flag into the field the flag's documentation names; the right stream's records are keyed by the right join-field names and the left file's by the left ones; paired records are formed only under emitPairables, unpaired right records are emitted only under emitRightUnpairables and unpaired left ones only under emitLeftUnpairables; the was-paired flag of a bucket is set wherever a right record finds it, independently of --np; --ignore-empty is applied at every site that forms a key; every left record read from the left file is appended to a bucket or to the unpairable list on every path."
	r.NotDecided = "equality of keys as text, order of pairs (right-stream order, left-file order within a key), composition of the paired record (join fields, then left, then right; --lp/--rp collisions), the sorted-mode bucket keeper's state machine, equivalence of -s and -u on sorted input."
	fns := joinFuncs(c)
	if len(fns) == 0 {
		r.Undecided("R13.0", "join.go", "", "no function of pkg/transformers/join.go was loaded")
		return
	}

	// ---- R13.1 option wiring -------------------------------------------------
	r.Rule("R13.1", "the join verb's parser stores each flag where its documentation says: --np clears emitPairables, --ul / --ur set emitLeftUnpairables / emitRightUnpairables, --ignore-empty sets ignoreEmptyJoinFields, -u sets and -s / --sorted-input clear allowUnsortedInput, and -j -l -r --lp --rp --lk -f store their argument into the output, left and right join-field lists, the two prefixes, the left keep list and the left file name — read from the case blocks of the parser's switch on the option string")
	var parser *ssa.Function
	for _, fn := range fns {
		if strings.Contains(fn.Name(), "ParseCLI") {
			parser = fn
		}
	}
	if parser == nil {
		r.Undecided("R13.1", "parser", "", "the join verb's ParseCLI function was not found")
	} else {
		// case blocks: reached on the true edge of opt == "flag" (several tests may share a block)
		blockFlags := map[*ssa.BasicBlock][]string{}
		for _, b := range parser.Blocks {
			iff, ok := b.Instrs[len(b.Instrs)-1].(*ssa.If)
			if !ok {
				continue
			}
			cmp, ok := iff.Cond.(*ssa.BinOp)
			if !ok || cmp.Op != token.EQL {
				continue
			}
			k, ok := cmp.Y.(*ssa.Const)
			if !ok || k.Value == nil || k.Value.Kind() != constant.String {
				continue
			}
			flag := constant.StringVal(k.Value)
			if !strings.HasPrefix(flag, "-") {
				continue
			}
			blockFlags[b.Succs[0]] = append(blockFlags[b.Succs[0]], flag)
		}
		seen := map[string]bool{}
		for body, flags := range blockFlags {
			// stores into option fields in the case body: the body block and what it dominates up to the loop
			stores := map[string]string{}
			for _, b := range parser.Blocks {
				if !(b == body || body.Dominates(b)) {
					continue
				}
				for _, in := range b.Instrs {
					st, ok := in.(*ssa.Store)
					if !ok {
						continue
					}
					_, fname, ok := fieldAddrName(st.Addr)
					if !ok {
						continue
					}
					if k, ok := st.Val.(*ssa.Const); ok && k.Value != nil {
						stores[fname] = k.Value.ExactString()
					} else {
						stores[fname] = ""
					}
				}
			}
			for _, flag := range flags {
				want, known := joinFlagWiring[flag]
				if !known {
					continue
				}
				seen[flag] = true
				got, has := stores[want.field]
				ok := has && got == want.val
				what := "its argument"
				if want.val != "" {
					what = want.val
				}
				r.Check(ok, "R13.1", "flag "+flag, c.Rel(body.Instrs[0].Pos()), "stores "+what+" into "+want.field,
					fmt.Sprintf("the case for %s in the join verb's parser does not store %s into the option field %s (stores found: %v): the flag selects something else than its documentation says", flag, what, want.field, stores))
			}
		}
		var missing []string
		for flag := range joinFlagWiring {
			if !seen[flag] {
				missing = append(missing, flag)
			}
		}
		sort.Strings(missing)
		for _, flag := range missing {
			r.Undecided("R13.1", "flag "+flag, c.Rel(parser.Pos()), "no case for this flag was found in the parser's switch")
		}
		r.Floor("R13.1", "flags of the join verb read from its parser", len(seen), 14)
	}

	// ---- R13.2 each side keyed by its own names; R13.5 --ignore-empty at every keying
	r.Rule("R13.2", "each side is keyed by its own field names: in join.go, a record that derives from a record-function's input (the right stream) has its key taken with the options' rightJoinFieldNames, and a record received from the left file's reader channel with leftJoinFieldNames (GetSelectedValuesJoined, GetSelectedValuesAndJoined, ReferenceSelectedValues, GetSelectedValues)")
	r.Rule("R13.5", "--ignore-empty is applied wherever a key is formed: every function of join.go that takes a record's key values also calls anyValueIsEmpty on values taken with the same list, in a block dominated by the true side of ignoreEmptyJoinFields")
	nkeys := 0
	var fromSide func(v ssa.Value, depth int) string
	fromSide = func(v ssa.Value, depth int) string {
		if v == nil || depth > 12 {
			return ""
		}
		switch x := v.(type) {
		case *ssa.Parameter:
			if strings.HasSuffix(x.Type().String(), "types.RecordAndContext") {
				return "right"
			}
		case *ssa.UnOp:
			if x.Op == token.ARROW {
				return "left"
			}
			return fromSide(x.X, depth+1)
		case *ssa.FieldAddr:
			return fromSide(x.X, depth+1)
		case *ssa.IndexAddr:
			return fromSide(x.X, depth+1)
		case *ssa.Index:
			return fromSide(x.X, depth+1)
		case *ssa.Extract:
			return fromSide(x.Tuple, depth+1)
		case *ssa.Select:
			return "left"
		case *ssa.Phi:
			side := ""
			for _, e := range x.Edges {
				s := fromSide(e, depth+1)
				if s != "" {
					if side != "" && side != s {
						return "mixed"
					}
					side = s
				}
			}
			return side
		case *ssa.Call:
			// KeepLeftFieldNames(rec, …) and the like: the record argument
			for _, a := range x.Call.Args {
				if strings.HasSuffix(a.Type().String(), "mlrval.Mlrmap") || strings.HasSuffix(a.Type().String(), "types.RecordAndContext") {
					if s := fromSide(a, depth+1); s != "" {
						return s
					}
				}
			}
		case *ssa.Alloc:
			// a local cell: what is stored into it
			if x.Referrers() != nil {
				for _, ref := range *x.Referrers() {
					if st, ok := ref.(*ssa.Store); ok && st.Addr == ssa.Value(x) {
						if s := fromSide(st.Val, depth+1); s != "" {
							return s
						}
					}
				}
			}
		}
		return ""
	}
	for _, fn := range fns {
		k := 0
		var keyLists []string
		hasEmptyTest := map[string]bool{}
		for _, b := range fn.Blocks {
			for _, in := range b.Instrs {
				call, ok := in.(*ssa.Call)
				if !ok {
					continue
				}
				cn := CalleeName(&call.Call)
				if strings.HasSuffix(cn, ".anyValueIsEmpty") {
					if found, pol := guardOnOption(b, "ignoreEmptyJoinFields"); found && pol {
						hasEmptyTest[SSAName(fn)] = true
					}
					// the && form: the test is the second operand, in a block entered on the true edge
					for _, p := range b.Preds {
						if iff, ok := p.Instrs[len(p.Instrs)-1].(*ssa.If); ok && p.Succs[0] == b {
							if _, fname, ok := fieldLoadName(iff.Cond); ok && fname == "ignoreEmptyJoinFields" {
								hasEmptyTest[SSAName(fn)] = true
							}
						}
					}
				}
				if !(strings.HasSuffix(cn, "Mlrmap.GetSelectedValuesJoined") || strings.HasSuffix(cn, "Mlrmap.GetSelectedValuesAndJoined") || strings.HasSuffix(cn, "Mlrmap.ReferenceSelectedValues") || strings.HasSuffix(cn, "Mlrmap.GetSelectedValues")) || len(call.Call.Args) < 2 {
					continue
				}
				_, list, ok := fieldLoadName(call.Call.Args[1])
				if !ok || !(list == "leftJoinFieldNames" || list == "rightJoinFieldNames") {
					continue
				}
				side := fromSide(call.Call.Args[0], 0)
				nkeys++
				k++
				key := fmt.Sprintf("%s: key of a record #%d", SSAName(fn), k)
				want := side + "JoinFieldNames"
				switch side {
				case "left", "right":
					r.Check(list == want, "R13.2", key, c.Rel(call.Pos()), "a "+side+" record keyed by "+list,
						fmt.Sprintf("%s takes the key of a record of the %s side with %s: records are paired by the other side's field names", SSAName(fn), side, list))
				default:
					r.Undecided("R13.2", key, c.Rel(call.Pos()), "the side the record comes from could not be determined")
				}
				keyLists = append(keyLists, list)
			}
		}
		if len(keyLists) > 0 {
			r.Check(hasEmptyTest[SSAName(fn)], "R13.5", SSAName(fn)+": keys under --ignore-empty", c.Rel(fn.Pos()), "anyValueIsEmpty under ignoreEmptyJoinFields",
				fmt.Sprintf("%s forms join keys and never tests them with anyValueIsEmpty under the ignoreEmptyJoinFields option: with --ignore-empty, empty keys pair on this path", SSAName(fn)))
		}
	}
	r.Floor("R13.2", "key computations in join.go", nkeys, 3)

	// ---- R13.3 each kind of output under its own option; R13.4 was-paired independent of --np
	r.Rule("R13.3", "each kind of output under its own option and no other: in the record functions of join.go every call of formAndEmitPairs is dominated by the true side of emitPairables, every call of transformRightUnpairedRecord by the true side of emitRightUnpairables, and every call of emitLeftUnpairedBuckets / emitLeftUnpairables / outputLeftUnpaireds by the true side of emitLeftUnpairables — and by no test of either of the other two options")
	r.Rule("R13.4", "a bucket is marked paired wherever a right record finds it: the store of true into JoinBucket.WasPaired is dominated by a nil test of the bucket and by no test of emitPairables — with --np --ul the left records that did pair must not come out as unpaired")
	emitOpt := map[string]string{
		"formAndEmitPairs":             "emitPairables",
		"transformRightUnpairedRecord": "emitRightUnpairables",
		"emitLeftUnpairedBuckets":      "emitLeftUnpairables",
		"emitLeftUnpairables":          "emitLeftUnpairables",
		"outputLeftUnpaireds":          "emitLeftUnpairables",
	}
	nemit, npaired := 0, 0
	for _, fn := range fns {
		// only the record functions (they take the input record and the output list)
		if len(fn.Params) < 3 || !strings.HasPrefix(fn.Name(), "transform") || strings.Contains(fn.Name(), "Unpaired") {
			continue
		}
		k := 0
		for _, b := range fn.Blocks {
			for _, in := range b.Instrs {
				switch x := in.(type) {
				case *ssa.Call:
					sc := x.Call.StaticCallee()
					if sc == nil {
						continue
					}
					opt, ok := emitOpt[sc.Name()]
					if !ok {
						continue
					}
					nemit++
					k++
					key := fmt.Sprintf("%s: %s #%d", SSAName(fn), sc.Name(), k)
					found, pol := guardOnOption(b, opt)
					other := ""
					for _, o := range []string{"emitPairables", "emitRightUnpairables", "emitLeftUnpairables"} {
						if o != opt {
							if f2, _ := guardOnOption(b, o); f2 {
								other = o
							}
						}
					}
					r.Check(found && pol && other == "", "R13.3", key, c.Rel(x.Pos()), "under "+opt+" only",
						fmt.Sprintf("%s calls %s where %s is not known to be set, or under a test of %q as well: that kind of output then appears, or is missing, with the wrong option", SSAName(fn), sc.Name(), opt, other))
				case *ssa.Store:
					_, fname, ok := fieldAddrName(x.Addr)
					if !ok || fname != "WasPaired" {
						continue
					}
					if kc, ok := x.Val.(*ssa.Const); !ok || kc.Value == nil || kc.Value.ExactString() != "true" {
						continue
					}
					npaired++
					fa := x.Addr.(*ssa.FieldAddr)
					nilTested := false
					for _, g := range GuardsAt(b) {
						cond, pol := stripNot(g.Cond, g.Polarity)
						cmp, ok := cond.(*ssa.BinOp)
						if ok && isNilConst(cmp.X, cmp.Y) && (cmp.X == fa.X || cmp.Y == fa.X) && ((cmp.Op == token.NEQ && pol) || (cmp.Op == token.EQL && !pol)) {
							nilTested = true
						}
					}
					underNP, _ := guardOnOption(b, "emitPairables")
					r.Check(nilTested && !underNP, "R13.4", SSAName(fn)+": WasPaired = true", c.Rel(x.Pos()), "where the bucket was found, whatever --np says",
						fmt.Sprintf("%s marks the bucket as paired under a test of emitPairables (or without having found the bucket): with --np the left records that did pair are then emitted as unpaired by --ul", SSAName(fn)))
				}
			}
		}
	}
	r.Floor("R13.3", "emission calls in the record functions of join.go", nemit, 6)
	r.Floor("R13.4", "stores of true into WasPaired in join.go", npaired, 1)

	// ---- R13.6 every left record is kept --------------------------------------
	r.Rule("R13.6", "every left record read is kept: in the function that reads the left file, every path from the computation of a left record's key back to the loop head (or to a return of nil) passes an append — to a bucket's list or to the unpairable list — or the false side of emitLeftUnpairables (a record that cannot pair need not be kept when --ul is off); a path that drops the record otherwise loses it from --ul and from every pairing")
	nleft := 0
	for _, fn := range fns {
		var keyCall *ssa.Call
		for _, b := range fn.Blocks {
			for _, in := range b.Instrs {
				if call, ok := in.(*ssa.Call); ok && len(call.Call.Args) >= 2 {
					cn := CalleeName(&call.Call)
					if strings.HasSuffix(cn, "Mlrmap.GetSelectedValuesAndJoined") || strings.HasSuffix(cn, "Mlrmap.GetSelectedValuesJoined") {
						if _, list, ok := fieldLoadName(call.Call.Args[1]); ok && list == "leftJoinFieldNames" && fromSide(call.Call.Args[0], 0) == "left" {
							keyCall = call
						}
					}
				}
			}
		}
		if keyCall == nil {
			continue
		}
		nleft++
		bad := token.NoPos
		loops := naturalLoops(fn)
		l := innermostLoop(loops, keyCall.Block())
		pr := &PathRule{Fn: fn, Init: Facts{}}
		pr.Transfer = func(f Facts, in ssa.Instruction, deferred bool) []Facts {
			if in == ssa.Instruction(keyCall) {
				return []Facts{{"live": true}}
			}
			if !f.Has("live") {
				return nil
			}
			if call, ok := in.(*ssa.Call); ok {
				if bi, ok := call.Call.Value.(*ssa.Builtin); ok && bi.Name() == "append" {
					return []Facts{f.Without("live")}
				}
			}
			// back at the loop head with the record still in hand
			if l != nil && in == l.Header.Instrs[0] && bad == token.NoPos {
				bad = keyCall.Pos()
			}
			return nil
		}
		pr.Branch = func(f Facts, cond ssa.Value, pol bool, iff *ssa.If) (Facts, bool) {
			// a left record that cannot pair need not be kept when unpaired left records are not asked for
			cond, pol = stripNot(cond, pol)
			if _, fname, ok := fieldLoadName(cond); ok && fname == "emitLeftUnpairables" && !pol {
				return f.Without("live"), true
			}
			return f, true
		}
		pr.AtReturn = func(f Facts, ret *ssa.Return) {
			if f.Has("live") && ReturnsNilError(ret) && bad == token.NoPos {
				bad = ret.Pos()
			}
		}
		pr.Run()
		if pr.Overflow {
			r.Undecided("R13.6", SSAName(fn)+": left records", c.Rel(fn.Pos()), "too many path states")
			continue
		}
		r.Check(bad == token.NoPos, "R13.6", SSAName(fn)+": left records", c.Rel(keyCall.Pos()), "appended on every path",
			fmt.Sprintf("%s has a path on which a left record whose key was taken is appended neither to a bucket nor to the unpairable list: the record is lost", SSAName(fn)))
	}
	r.Floor("R13.6", "left-file ingest loops", nleft, 1)

	// ---- R13.8 the constructor does not mix the sides ---------------------------
	r.Rule("R13.8", "the constructor keeps the sides apart: in NewTransformerJoin, what is stored into a field of the verb named left… or right… (a set of field names, a list), and every key put into a map loaded from such a field, derives from option fields of the same side only (leftJoinFieldNames, leftKeepFieldNames / rightJoinFieldNames) — the output names given with -j are neither side's field names")
	nside := 0
	sideOf := func(name string) string {
		switch {
		case strings.HasPrefix(name, "left"):
			return "left"
		case strings.HasPrefix(name, "right"):
			return "right"
		}
		return ""
	}
	var optFieldsIn func(v ssa.Value, depth int, out map[string]bool)
	optFieldsIn = func(v ssa.Value, depth int, out map[string]bool) {
		if v == nil || depth > 10 {
			return
		}
		if base, name, ok := fieldLoadName(v); ok {
			if pt, ok := base.Type().Underlying().(*types.Pointer); ok && strings.Contains(strings.ToLower(pt.Elem().String()), "joinoptions") {
				out[name] = true
				return
			}
		}
		switch x := v.(type) {
		case *ssa.Call:
			for _, a := range x.Call.Args {
				optFieldsIn(a, depth+1, out)
			}
		case *ssa.Extract:
			optFieldsIn(x.Tuple, depth+1, out)
		case *ssa.Next:
			optFieldsIn(x.Iter, depth+1, out)
		case *ssa.Range:
			optFieldsIn(x.X, depth+1, out)
		case *ssa.UnOp:
			optFieldsIn(x.X, depth+1, out)
		case *ssa.IndexAddr:
			optFieldsIn(x.X, depth+1, out)
		case *ssa.Index:
			optFieldsIn(x.X, depth+1, out)
		case *ssa.Phi:
			for _, e := range x.Edges {
				optFieldsIn(e, depth+1, out)
			}
		case *ssa.Slice:
			optFieldsIn(x.X, depth+1, out)
		case *ssa.Convert:
			optFieldsIn(x.X, depth+1, out)
		case *ssa.ChangeType:
			optFieldsIn(x.X, depth+1, out)
		}
	}
	for _, fn := range fns {
		if fn.Name() != "NewTransformerJoin" {
			continue
		}
		k := 0
		check := func(target string, v ssa.Value, pos token.Pos) {
			side := sideOf(target)
			if side == "" {
				return
			}
			srcs := map[string]bool{}
			optFieldsIn(v, 0, srcs)
			if len(srcs) == 0 {
				return
			}
			nside++
			k++
			var bad []string
			for nm := range srcs {
				if sideOf(nm) != side {
					bad = append(bad, nm)
				}
			}
			sort.Strings(bad)
			r.Check(len(bad) == 0, "R13.8", fmt.Sprintf("NewTransformerJoin: %s #%d", target, k), c.Rel(pos), "from the "+side+" side's option fields only",
				fmt.Sprintf("NewTransformerJoin fills %s from the option field(s) %v, which are not the %s side's: the set or list then holds names the %s records do not use", target, bad, side, side))
		}
		for _, b := range fn.Blocks {
			for _, in := range b.Instrs {
				switch x := in.(type) {
				case *ssa.Store:
					if _, name, ok := fieldAddrName(x.Addr); ok {
						if pt, ok := x.Addr.(*ssa.FieldAddr).X.Type().Underlying().(*types.Pointer); ok && strings.HasSuffix(pt.Elem().String(), "TransformerJoin") {
							check(name, x.Val, x.Pos())
						}
					}
				case *ssa.MapUpdate:
					if _, name, ok := fieldLoadName(x.Map); ok {
						check(name, x.Key, x.Pos())
					}
				}
			}
		}
	}
	r.Floor("R13.8", "side-named fields filled in the constructor", nside, 3)

	// ---- R13.9 the left file is read whatever the right stream holds -----------
	r.Rule("R13.9", "the left file is read whatever the right stream holds: the call of ingestLeftFile in a record function stands under no test of the input's EndOfStream flag — read only when the first right record arrives, an empty right stream leaves the left file unread and --ul emits nothing")
	ningest := 0
	for _, fn := range fns {
		for _, b := range fn.Blocks {
			for _, in := range b.Instrs {
				call, ok := in.(*ssa.Call)
				if !ok || call.Call.StaticCallee() == nil || call.Call.StaticCallee().Name() != "ingestLeftFile" {
					continue
				}
				ningest++
				underEOS, _ := guardOnOption(b, "EndOfStream")
				r.Check(!underEOS, "R13.9", SSAName(fn)+": ingestLeftFile", c.Rel(call.Pos()), "on the end-of-stream path as well as on the record path",
					fmt.Sprintf("%s reads the left file only on one side of a test of EndOfStream: when no right record ever arrives the left records are never read, and --ul has nothing to emit", SSAName(fn)))
			}
		}
	}
	r.Floor("R13.9", "calls of ingestLeftFile", ningest, 1)

	// ---- R13.7 no flag is parsed and then ignored -----------------------------
	r.Rule("R13.7", "no flag of the join verb is parsed and then ignored: every field of the verb's options struct that its parser stores into is read somewhere in package transformers (by the parser's own hand-over to the reader options, by the constructor or by a record function) — --prepipe was stored and never read, and the left file was read raw")
	if parser != nil {
		stored := map[string]token.Pos{}
		var optsType types.Type
		for _, b := range parser.Blocks {
			for _, in := range b.Instrs {
				st, ok := in.(*ssa.Store)
				if !ok {
					continue
				}
				fa, ok := st.Addr.(*ssa.FieldAddr)
				if !ok {
					continue
				}
				pt, ok := fa.X.Type().Underlying().(*types.Pointer)
				if !ok || !strings.Contains(strings.ToLower(pt.Elem().String()), "joinoptions") {
					continue
				}
				optsType = pt.Elem()
				_, name, _ := fieldAddrName(fa)
				if _, dup := stored[name]; !dup {
					stored[name] = st.Pos()
				}
			}
		}
		loaded := map[string]bool{}
		if optsType != nil {
			for _, fn := range c.ModuleFunctions() {
				if fn.Pkg == nil || fn.Blocks == nil || !strings.Contains(fn.Pkg.Pkg.Path(), "/pkg/transformers") {
					continue
				}
				for _, b := range fn.Blocks {
					for _, in := range b.Instrs {
						fa, ok := in.(*ssa.FieldAddr)
						if !ok || fa.Referrers() == nil {
							continue
						}
						pt, ok := fa.X.Type().Underlying().(*types.Pointer)
						if !ok || !types.Identical(pt.Elem(), optsType) {
							continue
						}
						_, name, _ := fieldAddrName(fa)
						for _, ref := range *fa.Referrers() {
							switch x := ref.(type) {
							case *ssa.UnOp:
								loaded[name] = true
							case *ssa.FieldAddr, *ssa.Call:
								loaded[name] = true // a nested struct handed on or reached into
								_ = x
							}
						}
					}
				}
			}
		}
		var names []string
		for nm := range stored {
			names = append(names, nm)
		}
		sort.Strings(names)
		for _, nm := range names {
			r.Check(loaded[nm], "R13.7", "option field "+nm, c.Rel(stored[nm]), "read somewhere in package transformers",
				fmt.Sprintf("the join verb's parser stores into the option field %s and nothing ever reads it: the flag is accepted and has no effect", nm))
		}
		r.Floor("R13.7", "option fields the join parser stores into", len(names), 10)
	}
	_ = types.Typ
}
