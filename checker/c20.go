package main

// C20 — fan-out outputs: the handle-cache protocol of
// output.MultiOutputHandlerManager and its users.

import (
	"fmt"
	"go/constant"
	"go/token"
	"go/types"
	"sort"
	"strings"

	"golang.org/x/tools/go/ssa"
)

func init() { register("C20", true, runC20) }

func fieldLoadName(v ssa.Value) (base ssa.Value, name string, ok bool) {
	u, isU := v.(*ssa.UnOp)
	if !isU || u.Op != token.MUL {
		return nil, "", false
	}
	fa, isFA := u.X.(*ssa.FieldAddr)
	if !isFA {
		return nil, "", false
	}
	st, isSt := fa.X.Type().Underlying().(*types.Pointer).Elem().Underlying().(*types.Struct)
	if !isSt {
		return nil, "", false
	}
	return fa.X, st.Field(fa.Field).Name(), true
}

func fieldAddrName(v ssa.Value) (base ssa.Value, name string, ok bool) {
	fa, isFA := v.(*ssa.FieldAddr)
	if !isFA {
		return nil, "", false
	}
	st, isSt := fa.X.Type().Underlying().(*types.Pointer).Elem().Underlying().(*types.Struct)
	if !isSt {
		return nil, "", false
	}
	return fa.X, st.Field(fa.Field).Name(), true
}

func runC20(c *Ctx, r *Report) {
	r.Explanation = "Fan-out correctness for any number of targets rests on the handle-cache protocol, decided structurally: an evicted handler is closed (flushed) outside the lock with its error kept and the *evicted* name recorded; a recorded name can only be reopened with O_APPEND (the truncating constructor is control-dependent on the evicted-names lookup); the manager's mutex is released exactly once on every path and the LRU helpers run only under it; every manager created by a DSL redirect is registered for end-of-stream closing and the redirect operator selects the matching manager kind; tee/split close at end of stream; a per-target writer is told end-of-stream and awaited before flush and close; tee/split hand the file writer a copy and tee does not relay downstream-done; per-target writer state must survive eviction (known finding)."
	r.NotDecided = "which records reach which target and in which order (data-dependent routing); contents of files."
	fn := c.SSAFunc(c.LookupFunc("pkg/output", "MultiOutputHandlerManager.getOutputHandlerFor"))
	// the cache protocol may have been moved out of the entry point: it is the method of the
	// manager that evicts (calls lruRemove); follow the entry point to it when it only dispatches
	if fn != nil {
		evicts := func(f *ssa.Function) bool {
			if f == nil || f.Blocks == nil {
				return false
			}
			for _, b := range f.Blocks {
				for _, in := range b.Instrs {
					if call, ok := in.(*ssa.Call); ok && call.Call.StaticCallee() != nil && call.Call.StaticCallee().Name() == "lruRemove" {
						return true
					}
				}
			}
			return false
		}
		if !evicts(fn) {
			for _, b := range fn.Blocks {
				for _, in := range b.Instrs {
					if call, ok := in.(*ssa.Call); ok {
						if sc := call.Call.StaticCallee(); sc != nil && sc.Pkg == fn.Pkg && sc.Signature.Recv() != nil && evicts(sc) {
							fn = sc
						}
					}
				}
			}
		}
	}
	if fn == nil {
		r.Undecided("R20.0", "getOutputHandlerFor", "", "anchor not found")
		return
	}
	c20Evict(c, r, fn)
	c20Reopen(c, r, fn)
	c20Locks(c, r, fn)
	c20Managers(c, r)
	c20HandlerClose(c, r)
	c20TeeSplit(c, r)
	c20WriterState(c, r, fn)
	c20LRULinks(c, r)
	c20SplitPassThrough(c, r)
	c20CloseLoops(c, r)
}

// ---- R20.1 -------------------------------------------------------------------
func c20Evict(c *Ctx, r *Report, fn *ssa.Function) {
	r.Rule("R20.1", "evicted targets are flushed: on the eviction path the handler removed from the LRU has Close() called before the function returns, outside the lock region, its error is used, and the name recorded in evictedFilenames is the evicted node's own key")
	var removeCall *ssa.Call
	for _, b := range fn.Blocks {
		for _, in := range b.Instrs {
			if call, ok := in.(*ssa.Call); ok && strings.HasSuffix(CalleeName(&call.Call), ".lruRemove") {
				removeCall = call
			}
		}
	}
	if removeCall == nil {
		r.Undecided("R20.1", "eviction", c.Rel(fn.Pos()), "no call of lruRemove in getOutputHandlerFor: the eviction path cannot be located")
		return
	}
	node := removeCall.Call.Args[len(removeCall.Call.Args)-1]
	// evictedFilenames[k] = true with k = node.key
	recorded, wrongKey := false, ""
	var closeCall *ssa.Call
	for _, b := range fn.Blocks {
		for _, in := range b.Instrs {
			switch x := in.(type) {
			case *ssa.MapUpdate:
				if _, name, ok := fieldLoadName(x.Map); ok && name == "evictedFilenames" {
					if bv, isB := constBool(x.Value); isB && bv {
						if base, kn, ok := fieldLoadName(x.Key); ok && kn == "key" && sameValue(base, node) {
							recorded = true
						} else {
							wrongKey = c.Rel(x.Pos())
						}
					}
				}
			case *ssa.Call:
				if strings.HasSuffix(CalleeName(&x.Call), "FileOutputHandler.Close") && len(x.Call.Args) == 1 {
					// receiver derives from node.handler
					recv := x.Call.Args[0]
					if base, hn, ok := fieldLoadName(recv); ok && hn == "handler" && sameValue(base, node) {
						closeCall = x
					}
				}
			}
		}
	}
	r.Check(recorded && wrongKey == "", "R20.1", "evicted name recorded", c.Rel(removeCall.Pos()), "evictedFilenames[<evicted node>.key] = true",
		"the name stored in evictedFilenames is not the evicted node's key (store at "+wrongKey+"): the evicted file is later reopened with O_TRUNC and loses what was already written, or an unrelated new file is opened in append mode")
	if closeCall == nil {
		r.Fail("R20.1", "evicted handler closed", c.Rel(removeCall.Pos()), "the handler of the evicted LRU node is not closed: its buffered output is never flushed and the descriptor leaks")
		return
	}
	r.OK("R20.1", "evicted handler closed", c.Rel(closeCall.Pos()), "Close() on <evicted node>.handler")
	r.Check(hasRealReferrer(closeCall), "R20.1", "eviction close error kept", c.Rel(closeCall.Pos()), "result is used", "the error of closing (flushing) the evicted handler is discarded")
	// outside the lock: Unlock precedes and Lock follows in the same block
	blk := closeCall.Block()
	pos := -1
	for i, in := range blk.Instrs {
		if in == closeCall {
			pos = i
		}
	}
	unl, lck := false, false
	for i, in := range blk.Instrs {
		if call, ok := in.(*ssa.Call); ok {
			n := CalleeName(&call.Call)
			if n == "sync.Mutex.Unlock" && i < pos {
				unl = true
			}
			if n == "sync.Mutex.Lock" && i < pos && unl {
				unl = false
			}
			if n == "sync.Mutex.Lock" && i > pos {
				lck = true
			}
		}
	}
	r.Check(unl && lck, "R20.1", "eviction close outside the lock", c.Rel(closeCall.Pos()), "Unlock(); Close(); Lock()",
		"Close() of the evicted handler waits for its writer goroutine; it must run with the manager's mutex released and the mutex re-acquired afterwards")
}

// ---- R20.2 -------------------------------------------------------------------
func valueDependsOn(v ssa.Value, pred func(ssa.Value) bool, depth int, seen map[ssa.Value]bool) bool {
	if v == nil || depth > 10 || seen[v] {
		return false
	}
	seen[v] = true
	if pred(v) {
		return true
	}
	switch x := v.(type) {
	case *ssa.Phi:
		for _, e := range x.Edges {
			if valueDependsOn(e, pred, depth+1, seen) {
				return true
			}
		}
		// control dependence of the phi: conditions deciding its edges
		for _, p := range x.Block().Preds {
			for _, g := range GuardsAt(p) {
				if valueDependsOn(g.Cond, pred, depth+1, seen) {
					return true
				}
			}
			if len(p.Instrs) > 0 {
				if iff, ok := p.Instrs[len(p.Instrs)-1].(*ssa.If); ok && valueDependsOn(iff.Cond, pred, depth+1, seen) {
					return true
				}
			}
		}
	case *ssa.BinOp:
		return valueDependsOn(x.X, pred, depth+1, seen) || valueDependsOn(x.Y, pred, depth+1, seen)
	case *ssa.UnOp:
		return valueDependsOn(x.X, pred, depth+1, seen)
	case *ssa.Extract:
		return valueDependsOn(x.Tuple, pred, depth+1, seen)
	case *ssa.Lookup:
		return valueDependsOn(x.X, pred, depth+1, seen)
	}
	return false
}

func openFileFlags(c *Ctx, f *ssa.Function) (int64, bool) {
	var flags int64
	found := false
	ForEachCall(f, false, func(site ssa.CallInstruction, in *ssa.Function) {
		com := site.Common()
		if CalleeName(com) == "os.OpenFile" && len(com.Args) == 3 {
			if n, ok := constInt(com.Args[1]); ok {
				flags = n
				found = true
			}
		}
	})
	return flags, found
}

func c20Reopen(c *Ctx, r *Report, fn *ssa.Function) {
	r.Rule("R20.2", "reopen never truncates: the truncating constructor is reached only under a condition that depends on the evictedFilenames[filename] lookup (and the manager's append flag); the two constructors differ exactly in O_TRUNC versus O_APPEND")
	findCtors := func(h *ssa.Function) (trunc, app *ssa.Call) {
		for _, b := range h.Blocks {
			for _, in := range b.Instrs {
				if call, ok := in.(*ssa.Call); ok {
					switch CalleeName(&call.Call) {
					case "pkg/output.NewFileWriteOutputHandler":
						trunc = call
					case "pkg/output.NewFileAppendOutputHandler":
						app = call
					}
				}
			}
		}
		return
	}
	strParam := func(h *ssa.Function) ssa.Value {
		var v ssa.Value
		for _, p := range h.Params {
			if isStringType(p.Type()) {
				v = p
			}
		}
		return v
	}
	trunc, app := findCtors(fn)
	filename := strParam(fn)
	if trunc == nil || app == nil {
		// the choice may live in a helper method of the manager, called with the same file name
		for _, b := range fn.Blocks {
			for _, in := range b.Instrs {
				call, ok := in.(*ssa.Call)
				if !ok {
					continue
				}
				h := call.Call.StaticCallee()
				if h == nil || h.Blocks == nil || h.Signature.Recv() == nil || fn.Signature.Recv() == nil || !types.Identical(h.Signature.Recv().Type(), fn.Signature.Recv().Type()) {
					continue
				}
				t2, a2 := findCtors(h)
				if t2 == nil || a2 == nil {
					continue
				}
				passes := false
				hp := strParam(h)
				for i, a := range call.Call.Args {
					if a == filename && i < len(h.Params) && h.Params[i] == hp {
						passes = true
					}
				}
				if !passes {
					r.Fail("R20.2", "helper receives the file name", c.Rel(call.Pos()), SSAName(h)+" chooses between truncating and appending but is not called with getOutputHandlerFor's own file name")
					return
				}
				trunc, app, filename = t2, a2, hp
			}
		}
	}
	if trunc == nil || app == nil {
		r.Undecided("R20.2", "constructors", c.Rel(fn.Pos()), "neither getOutputHandlerFor nor a manager method it calls with the file name calls both NewFileWriteOutputHandler and NewFileAppendOutputHandler")
		return
	}
	isEvictedLookup := func(v ssa.Value) bool {
		lk, ok := v.(*ssa.Lookup)
		if !ok {
			return false
		}
		_, name, ok := fieldLoadName(lk.X)
		return ok && name == "evictedFilenames" && lk.Index == filename
	}
	isAppendFlag := func(v ssa.Value) bool {
		_, name, ok := fieldLoadName(v)
		return ok && name == "append"
	}
	depEv, depApp := false, false
	for _, g := range GuardsAt(trunc.Block()) {
		if valueDependsOn(g.Cond, isEvictedLookup, 0, map[ssa.Value]bool{}) {
			depEv = true
		}
		if valueDependsOn(g.Cond, isAppendFlag, 0, map[ssa.Value]bool{}) {
			depApp = true
		}
	}
	r.Check(depEv, "R20.2", "truncating open depends on the evicted-names lookup", c.Rel(trunc.Pos()), "control-dependent on evictedFilenames[filename]",
		"NewFileWriteOutputHandler (O_TRUNC) is reachable without consulting evictedFilenames[filename]: a target evicted from the cache and written again is truncated, losing its earlier records")
	r.Check(depApp, "R20.2", "truncating open depends on the append flag", c.Rel(trunc.Pos()), "control-dependent on mgr.append", "NewFileWriteOutputHandler is reachable without consulting the manager's append flag: '>>' would truncate")
	tf, ok1 := openFileFlags(c, c.SSAFunc(c.LookupFunc("pkg/output", "NewFileWriteOutputHandler")))
	af, ok2 := openFileFlags(c, c.SSAFunc(c.LookupFunc("pkg/output", "NewFileAppendOutputHandler")))
	// the flag values are platform-dependent: take them from the os package as loaded
	osConst := func(name string) int64 {
		if p := c.PkgByPath["os"]; p != nil {
			if k, ok := p.Types.Scope().Lookup(name).(*types.Const); ok {
				if v, ok := constant.Int64Val(k.Val()); ok {
					return v
				}
			}
		}
		return -1
	}
	oAPPEND, oTRUNC, oCREAT, oWRONLY := osConst("O_APPEND"), osConst("O_TRUNC"), osConst("O_CREATE"), osConst("O_WRONLY")
	if oAPPEND < 0 || oTRUNC < 0 || oCREAT < 0 || oWRONLY < 0 {
		r.Undecided("R20.2", "constructor open flags", "", "os.O_* constants not found in the loaded program")
		return
	}
	okFlags := ok1 && ok2 && tf&oTRUNC != 0 && tf&oAPPEND == 0 && af&oAPPEND != 0 && af&oTRUNC == 0 && tf&oCREAT != 0 && af&oCREAT != 0 && tf&oWRONLY != 0 && af&oWRONLY != 0 && (tf^af) == (oTRUNC|oAPPEND)
	r.Check(okFlags, "R20.2", "constructor open flags", "pkg/output/file_output_handlers.go", fmt.Sprintf("write=%#x append=%#x", tf, af),
		fmt.Sprintf("the write/append constructors must differ exactly in O_TRUNC vs O_APPEND: write=%#x append=%#x", tf, af))
}

// ---- R20.3 -------------------------------------------------------------------
func c20Locks(c *Ctx, r *Report, fn *ssa.Function) {
	r.Rule("R20.3", "lock discipline of the manager: on every path the mutex is unlocked exactly once per lock, never returned locked, never locked twice; lruTouch/lruRemove/lruInsert and writes of the LRU maps run only with the mutex held")
	for _, f := range []*ssa.Function{fn, c.SSAFunc(c.LookupFunc("pkg/output", "MultiOutputHandlerManager.Close"))} {
		if f == nil {
			r.Undecided("R20.3", "Close", "", "MultiOutputHandlerManager.Close not found")
			continue
		}
		problems := map[string]string{}
		nlocks := 0
		pr := &PathRule{Fn: f}
		pr.Transfer = func(fa Facts, in ssa.Instruction, deferred bool) []Facts {
			var com *ssa.CallCommon
			switch x := in.(type) {
			case *ssa.Call:
				com = &x.Call
			case *ssa.Defer:
				if !deferred {
					return nil
				}
				com = &x.Call
			case *ssa.MapUpdate:
				if _, name, ok := fieldLoadName(x.Map); ok && (name == "lruNodes" || name == "outputHandlers" || name == "evictedFilenames") && !fa.Has("locked") {
					problems["unlocked map write"] = c.Rel(x.Pos()) + ": " + name + " is written without the mutex held"
				}
				return nil
			default:
				return nil
			}
			n := CalleeName(com)
			switch {
			case n == "sync.Mutex.Lock":
				nlocks++
				if fa.Has("locked") {
					problems["double lock"] = c.Rel(in.Pos()) + ": Lock() while already locked on this path (self-deadlock)"
				}
				return []Facts{fa.With("locked")}
			case n == "sync.Mutex.Unlock":
				if !fa.Has("locked") {
					problems["double unlock"] = c.Rel(in.Pos()) + ": Unlock() of an unlocked mutex on this path (runtime fatal error)"
				}
				return []Facts{fa.Without("locked")}
			case strings.HasSuffix(n, ".lruTouch") || strings.HasSuffix(n, ".lruRemove") || strings.HasSuffix(n, ".lruInsert"):
				if !fa.Has("locked") {
					problems["lru helper unlocked"] = c.Rel(in.Pos()) + ": " + n + " called without the mutex held"
				}
			}
			return nil
		}
		pr.AtReturn = func(fa Facts, ret *ssa.Return) {
			if fa.Has("locked") {
				problems["return locked"] = c.Rel(ret.Pos()) + ": a path returns with the manager's mutex still held: the next redirected write deadlocks"
			}
		}
		pr.Run()
		for _, k := range []string{"double lock", "double unlock", "lru helper unlocked", "unlocked map write", "return locked"} {
			key := SSAName(f) + ": " + k
			if msg, bad := problems[k]; bad {
				r.Fail("R20.3", key, strings.SplitN(msg, ": ", 2)[0], msg)
			} else {
				r.OK("R20.3", key, c.Rel(f.Pos()), "holds on every path")
			}
		}
		r.Floor("R20.3", "Lock() sites in "+f.Name(), nlocks, 1)
	}
}

// ---- R20.4 / R20.8 -------------------------------------------------------------
type mgrKind struct{ append, pipe, single bool }

func managerCtorKinds(c *Ctx) map[*ssa.Function]mgrKind {
	out := map[*ssa.Function]mgrKind{}
	p := c.Pkg("pkg/output")
	for _, fobj := range c.FuncsOfPkg(p) {
		if !strings.HasSuffix(fobj.Name(), "HandlerManager") || !strings.HasPrefix(fobj.Name(), "New") {
			continue
		}
		f := c.SSAFunc(fobj)
		k := mgrKind{}
		lit := false
		for _, b := range f.Blocks {
			for _, in := range b.Instrs {
				st, ok := in.(*ssa.Store)
				if !ok {
					continue
				}
				_, name, ok := fieldAddrName(st.Addr)
				if !ok {
					continue
				}
				switch name {
				case "append":
					if v, ok := constBool(st.Val); ok {
						k.append = v
						lit = true
					}
				case "pipe":
					if v, ok := constBool(st.Val); ok {
						k.pipe = v
						lit = true
					}
				case "singleHandler":
					if kk, ok := st.Val.(*ssa.Const); !ok || !kk.IsNil() {
						k.single = true
					}
				}
			}
		}
		if lit {
			out[f] = k
		}
	}
	return out
}

func c20Managers(c *Ctx, r *Report) {
	r.Rule("R20.4", "every manager is closed at end of stream: each output-handler manager created while building a DSL redirect node is registered with the root on every non-error path; RegisterOutputHandlerManager appends to the list ProcessEndOfStream iterates; MultiOutputHandlerManager.Close visits the single handler, every pipe handler and every cached file handler; tee/split close their manager in the end-of-stream branch")
	r.Rule("R20.8", "the redirect operator selects the manager of its own kind in every statement builder: '>' → write (append=false,pipe=false), '>>' → append (append=true), '|' → pipe (pipe=true); kinds are read from the constructors' literals, not from their names")
	kinds := managerCtorKinds(c)
	r.Floor("R20.8", "manager constructors with literal kinds", len(kinds), 3)
	want := map[string]mgrKind{"RedirectWrite": {false, false, false}, "RedirectAppend": {true, false, false}, "RedirectPipe": {false, true, false}}
	p := c.Pkg("pkg/dsl/cst")
	nb, nsel := 0, 0
	for _, fobj := range c.FuncsOfPkg(p) {
		f := c.SSAFunc(fobj)
		if f == nil {
			continue
		}
		var created []*ssa.Call
		for _, b := range f.Blocks {
			for _, in := range b.Instrs {
				if call, ok := in.(*ssa.Call); ok {
					if cal := call.Call.StaticCallee(); cal != nil {
						if _, isCtor := kinds[cal]; isCtor {
							created = append(created, call)
						}
					}
				}
			}
		}
		if len(created) == 0 {
			continue
		}
		nb++
		// R20.8: guard of each creation
		for _, call := range created {
			k := kinds[call.Call.StaticCallee()]
			if k.single {
				continue
			}
			op := ""
			for _, g := range GuardsAt(call.Block()) {
				bo, ok := g.Cond.(*ssa.BinOp)
				if !ok || bo.Op != token.EQL || !g.Polarity {
					continue
				}
				for _, side := range []ssa.Value{bo.X, bo.Y} {
					if kk, ok := side.(*ssa.Const); ok && kk.Value != nil && kk.Value.Kind() == constant.String {
						s := constant.StringVal(kk.Value)
						if _, known := want[s]; known && op == "" {
							op = s
						}
					}
				}
			}
			if op == "" {
				continue
			}
			nsel++
			w := want[op]
			r.Check(k.append == w.append && k.pipe == w.pipe, "R20.8", fmt.Sprintf("%s: %s", fobj.Name(), op), c.Rel(call.Pos()),
				fmt.Sprintf("%s (append=%v,pipe=%v)", call.Call.StaticCallee().Name(), k.append, k.pipe),
				fmt.Sprintf("redirect operator %s builds a manager with append=%v pipe=%v (constructor %s); expected append=%v pipe=%v: e.g. '>>' would truncate existing files", op, k.append, k.pipe, call.Call.StaticCallee().Name(), w.append, w.pipe))
		}
		// R20.4: registration path rule
		bad := ""
		pr := &PathRule{Fn: f}
		pr.Transfer = func(fa Facts, in ssa.Instruction, deferred bool) []Facts {
			if call, ok := in.(*ssa.Call); ok {
				if cal := call.Call.StaticCallee(); cal != nil {
					if _, isCtor := kinds[cal]; isCtor {
						return []Facts{fa.With("created").Without("registered")}
					}
				}
				if strings.HasSuffix(CalleeName(&call.Call), ".RegisterOutputHandlerManager") {
					return []Facts{fa.With("registered")}
				}
			}
			return nil
		}
		pr.Branch = func(fa Facts, cond ssa.Value, pol bool, iff *ssa.If) (Facts, bool) {
			if bo, ok := cond.(*ssa.BinOp); ok && (bo.Op == token.NEQ || bo.Op == token.EQL) {
				if kk, isK := bo.Y.(*ssa.Const); isK && kk.IsNil() {
					if _, name, ok := fieldLoadName(bo.X); ok && name == "outputHandlerManager" {
						nonNil := (bo.Op == token.NEQ) == pol
						if nonNil != fa.Has("created") {
							return nil, false
						}
					}
				}
			}
			return nil, true
		}
		pr.AtReturn = func(fa Facts, ret *ssa.Return) {
			if fa.Has("created") && !fa.Has("registered") && ReturnsNilError(ret) {
				bad = c.Rel(ret.Pos()) + ": a manager is created but not registered on a path that returns successfully: its files are never flushed or closed at end of stream"
			}
		}
		pr.Run()
		r.Check(bad == "", "R20.4", fobj.Name()+": manager registered", c.Rel(f.Pos()), "RegisterOutputHandlerManager on every successful path after creation", bad)
	}
	r.Floor("R20.4", "DSL builders creating managers", nb, 5)
	r.Floor("R20.8", "operator-guarded manager creations", nsel, 12)

	// Register appends to the list; ProcessEndOfStream ranges over the same field
	reg := c.SSAFunc(c.LookupFunc("pkg/dsl/cst", "RootNode.RegisterOutputHandlerManager"))
	eos := c.SSAFunc(c.LookupFunc("pkg/dsl/cst", "RootNode.ProcessEndOfStream"))
	if reg == nil || eos == nil {
		r.Undecided("R20.4", "root registration", "", "RegisterOutputHandlerManager / ProcessEndOfStream not found")
	} else {
		storeField, rangeField := "", ""
		for _, b := range reg.Blocks {
			for _, in := range b.Instrs {
				if st, ok := in.(*ssa.Store); ok {
					if _, name, ok := fieldAddrName(st.Addr); ok {
						if call, ok := st.Val.(*ssa.Call); ok && len(appendedValues(call)) > 0 {
							storeField = name
						}
					}
				}
			}
		}
		closes := false
		for _, b := range eos.Blocks {
			for _, in := range b.Instrs {
				if v, ok := in.(ssa.Value); ok {
					if _, name, ok := fieldLoadName(v); ok && strings.Contains(name, "anagers") {
						rangeField = name
					}
				}
				if call, ok := in.(*ssa.Call); ok && call.Call.IsInvoke() && call.Call.Method.Name() == "Close" && inLoop(b) {
					closes = true
				}
			}
		}
		r.Check(storeField != "" && storeField == rangeField && closes, "R20.4", "registered managers are closed at end of stream", c.Rel(eos.Pos()), "append to root."+storeField+"; ProcessEndOfStream loops over it calling Close()",
			fmt.Sprintf("RegisterOutputHandlerManager stores into %q, ProcessEndOfStream iterates %q (Close in loop: %v)", storeField, rangeField, closes))
	}
	// manager Close visits all three collections
	cl := c.SSAFunc(c.LookupFunc("pkg/output", "MultiOutputHandlerManager.Close"))
	if cl != nil {
		seen := map[string]bool{}
		for _, b := range cl.Blocks {
			for _, in := range b.Instrs {
				switch x := in.(type) {
				case *ssa.Range:
					if _, name, ok := fieldLoadName(x.X); ok {
						seen[name] = true
					}
				case *ssa.Call:
					if strings.HasSuffix(CalleeName(&x.Call), "FileOutputHandler.Close") {
						if _, name, ok := fieldLoadName(x.Call.Args[0]); ok {
							seen[name] = true
						}
					}
				}
			}
		}
		for _, name := range []string{"singleHandler", "outputHandlers", "lruNodes"} {
			r.Check(seen[name], "R20.4", "manager Close visits "+name, c.Rel(cl.Pos()), "visited", "MultiOutputHandlerManager.Close does not visit "+name+": those targets are never flushed")
		}
	}
}

// ---- R20.5 -------------------------------------------------------------------
func c20HandlerClose(c *Ctx, r *Report) {
	r.Rule("R20.5", "per-target writer shutdown: in FileOutputHandler.Close, when a record writer was started, the end-of-stream marker is sent (or the writer's error received) and done/error awaited before bufferedOutputStream.Flush(), and Flush() precedes handle.Close()")
	f := c.SSAFunc(c.LookupFunc("pkg/output", "FileOutputHandler.Close"))
	if f == nil {
		r.Undecided("R20.5", "FileOutputHandler.Close", "", "anchor not found")
		return
	}
	problems := map[string]string{}
	sawFlush, sawClose := false, false
	pr := &PathRule{Fn: f}
	pr.Branch = func(fa Facts, cond ssa.Value, pol bool, iff *ssa.If) (Facts, bool) {
		if bo, ok := cond.(*ssa.BinOp); ok && (bo.Op == token.NEQ || bo.Op == token.EQL) {
			if kk, isK := bo.Y.(*ssa.Const); isK && kk.IsNil() {
				if _, name, ok := fieldLoadName(bo.X); ok && name == "recordOutputChannel" {
					if (bo.Op == token.NEQ) == pol {
						return fa.With("hasWriter"), true
					}
					return fa.With("noWriter"), true
				}
			}
		}
		return nil, true
	}
	pr.Transfer = func(fa Facts, in ssa.Instruction, deferred bool) []Facts {
		switch x := in.(type) {
		case *ssa.Send:
			if _, name, ok := fieldLoadName(x.Chan); ok && name == "recordOutputChannel" {
				return []Facts{fa.With("eosSent")}
			}
		case *ssa.Select:
			g := fa
			for _, st := range x.States {
				if _, name, ok := fieldLoadName(st.Chan); ok {
					if name == "recordOutputChannel" && st.Dir == types.SendOnly {
						g = g.With("eosSent")
					}
					if (name == "recordDoneChannel" || name == "recordErroredChannel") && st.Dir == types.RecvOnly && x.Blocking {
						g = g.With("waited")
					}
				}
			}
			return []Facts{g}
		case *ssa.Call:
			n := CalleeName(&x.Call)
			// a method of the handler that finishes the writer: on each of its paths to a
			// return there is no writer, or the marker was sent (or the error received) and done/error awaited
			if sc := x.Call.StaticCallee(); sc != nil && sc != f && sc.Pkg == f.Pkg && sc.Blocks != nil && sc.Signature.Recv() != nil && len(x.Call.Args) > 0 && x.Call.Args[0] == ssa.Value(f.Params[0]) {
				if finishesWriter(sc) {
					return []Facts{fa.With("helperFinished")}
				}
			}
			if n == "bufio.Writer.Flush" {
				sawFlush = true
				if !(fa.Has("noWriter") || fa.Has("helperFinished") || (fa.Has("eosSent") && fa.Has("waited"))) {
					problems["flush before writer finished"] = c.Rel(x.Pos()) + ": Flush() is reachable while the writer goroutine may still be producing output (end-of-stream not sent or done not awaited): the tail of the file is lost"
				}
				return []Facts{fa.With("flushed")}
			}
			if x.Call.IsInvoke() && x.Call.Method.Name() == "Close" {
				sawClose = true
				if !fa.Has("flushed") {
					problems["close before flush"] = c.Rel(x.Pos()) + ": the handle is closed before the buffered writer is flushed"
				}
			}
		}
		return nil
	}
	pr.Run()
	for _, k := range []string{"flush before writer finished", "close before flush"} {
		if msg, bad := problems[k]; bad {
			r.Fail("R20.5", "FileOutputHandler.Close: "+k, strings.SplitN(msg, ": ", 2)[0], msg)
		} else {
			r.OK("R20.5", "FileOutputHandler.Close: "+k, c.Rel(f.Pos()), "excluded on every path")
		}
	}
	r.Check(sawFlush && sawClose, "R20.5", "FileOutputHandler.Close: flush and close present", c.Rel(f.Pos()), "both found", "Flush() or handle.Close() is missing from FileOutputHandler.Close")
}

// ---- R20.6 -------------------------------------------------------------------
func c20TeeSplit(c *Ctx, r *Report) {
	r.Rule("R20.6", "tee and split do not relay downstream-done (a later head must not stop the reader while the tee'd or split files are incomplete), and tee/split give the file writer a Copy() of any record that is also forwarded downstream; both close their output in the end-of-stream branch")
	tee := c.SSAFunc(c.LookupFunc("pkg/transformers", "TransformerTee.Transform"))
	split := c.SSAFunc(c.LookupFunc("pkg/transformers", "TransformerSplit.Transform"))
	if tee == nil || split == nil {
		r.Undecided("R20.6", "anchors", "", "TransformerTee.Transform / TransformerSplit.Transform not found")
		return
	}
	// tee: no send on the output done channel, directly or via helpers
	outDone := paramOfType(tee, chanElemIsBool, types.SendOnly, 0)
	relays := ""
	for _, b := range tee.Blocks {
		for _, in := range b.Instrs {
			switch x := in.(type) {
			case *ssa.Send:
				if outDone != nil && sameChan(x.Chan, outDone) {
					relays = c.Rel(x.Pos())
				}
			case *ssa.Select:
				for _, st := range x.States {
					if st.Dir == types.SendOnly && outDone != nil && sameChan(st.Chan, outDone) {
						relays = c.Rel(x.Pos())
					}
				}
			case *ssa.Call:
				for _, a := range x.Call.Args {
					if outDone != nil && sameChan(a, outDone) {
						relays = c.Rel(x.Pos()) + " (passes the channel to " + CalleeName(&x.Call) + ")"
					}
				}
			}
		}
	}
	r.Check(relays == "" && outDone != nil, "R20.6", "tee does not relay downstream-done", c.Rel(tee.Pos()), "the upstream done channel is never sent on or handed out", "tee forwards the downstream-done signal upstream at "+relays+": with 'tee file then head' the reader stops early and the tee'd file is incomplete")

	// split: the same, through the per-mode functions it delegates to (all record functions of split.go)
	{
		var relay func(fn *ssa.Function, depth int) string
		relay = func(fn *ssa.Function, depth int) string {
			if fn == nil || fn.Blocks == nil || depth > 2 {
				return ""
			}
			od := paramOfType(fn, chanElemIsBool, types.SendOnly, 0)
			if od == nil {
				return ""
			}
			for _, b := range fn.Blocks {
				for _, in := range b.Instrs {
					switch x := in.(type) {
					case *ssa.Send:
						if sameChan(x.Chan, od) {
							return c.Rel(x.Pos())
						}
					case *ssa.Select:
						for _, st := range x.States {
							if st.Dir == types.SendOnly && sameChan(st.Chan, od) {
								return c.Rel(x.Pos())
							}
						}
					case *ssa.Call:
						passes := false
						for _, a := range x.Call.Args {
							if sameChan(a, od) {
								passes = true
							}
						}
						if !passes {
							continue
						}
						cn := CalleeName(&x.Call)
						if strings.Contains(cn, "DownstreamDone") {
							return c.Rel(x.Pos()) + " (through " + cn + ")"
						}
						if callee := x.Call.StaticCallee(); callee != nil {
							if why := relay(callee, depth+1); why != "" {
								return why
							}
						}
					}
				}
			}
			return ""
		}
		why := relay(split, 0)
		nsub := 0
		for _, f := range funcsInFile(c, "pkg/transformers", "split.go") {
			if f == split || f.Signature.Recv() == nil || paramOfType(f, chanElemIsBool, types.SendOnly, 0) == nil {
				continue
			}
			nsub++
			if w := relay(f, 0); w != "" && why == "" {
				why = w
			}
		}
		r.Check(why == "" && nsub >= 2, "R20.6", "split does not relay downstream-done", c.Rel(split.Pos()), fmt.Sprintf("neither Transform nor the %d per-mode record functions send on the upstream done channel", nsub),
			"split forwards the downstream-done signal upstream at "+why+": with 'split -v then head' the reader stops early and the split files hold only what had been read by then")
	}

	// the chain runner must leave the relay decision to the verb: it may hand the
	// upstream done channel only to Transform / ProduceStream (and to its own batch
	// helper) and may signal on it itself only after a failed batch
	for _, name := range []string{"runSingleTransformer", "runSingleTransformerBatch"} {
		f := c.SSAFunc(c.LookupFunc("pkg/transformers", name))
		if f == nil {
			r.Undecided("R20.6", name, "", "anchor not found")
			continue
		}
		od := paramOfType(f, chanElemIsBool, types.SendOnly, 0)
		bad := ""
		for _, b := range f.Blocks {
			for _, in := range b.Instrs {
				switch x := in.(type) {
				case *ssa.Call:
					for _, a := range x.Call.Args {
						if od != nil && sameChan(a, od) {
							ok := x.Call.IsInvoke() && (x.Call.Method.Name() == "Transform" || x.Call.Method.Name() == "ProduceStream")
							if cal := x.Call.StaticCallee(); cal != nil && cal.Name() == "runSingleTransformerBatch" {
								ok = true
							}
							if !ok {
								bad = c.Rel(x.Pos()) + ": hands the upstream done channel to " + CalleeName(&x.Call)
							}
						}
					}
				case *ssa.Send:
					if od != nil && sameChan(x.Chan, od) {
						bad = c.Rel(x.Pos()) + ": sends on the upstream done channel"
					}
				case *ssa.Select:
					for _, st := range x.States {
						if st.Dir == types.SendOnly && od != nil && sameChan(st.Chan, od) {
							failed := false
							for _, g := range GuardsAt(b) {
								if _, nonNil, ok := ErrCheck(g.Cond); ok && nonNil == g.Polarity {
									failed = true
								}
							}
							if !failed {
								bad = c.Rel(x.Pos()) + ": signals upstream outside the failed-batch path"
							}
						}
					}
				}
			}
		}
		r.Check(bad == "" && od != nil, "R20.6", name+": leaves the done relay to the verb", c.Rel(f.Pos()), "the upstream done channel only reaches Transform/ProduceStream, or is signalled after a failed batch",
			"the chain runner relays downstream-done on behalf of every verb ("+bad+"): tee's deliberate refusal to relay is bypassed, so 'tee file then head' stops the reader early and the tee'd file is truncated")
	}

	// every verb function that hands records to an output handler
	var writers []*ssa.Function
	tp := c.Pkg("pkg/transformers")
	for _, fobj := range c.FuncsOfPkg(tp) {
		f := c.SSAFunc(fobj)
		if f == nil || len(f.Params) < 2 || !isRecordAndContextPtr(f.Params[1].Type()) {
			continue
		}
		has := false
		ForEachCall(f, false, func(site ssa.CallInstruction, in *ssa.Function) {
			com := site.Common()
			if (com.IsInvoke() && com.Method.Name() == "WriteRecordAndContext") || strings.HasSuffix(CalleeName(com), ".WriteRecordAndContext") {
				has = true
			}
		})
		if has {
			writers = append(writers, f)
		}
	}
	r.Floor("R20.6", "verb functions writing records to output handlers", len(writers), 4)
	_ = split
	for _, f := range writers {
		in := f.Params[1]
		// writer argument
		okCopy, found := false, false
		closeInEOS := false
		for _, b := range f.Blocks {
			for _, ins := range b.Instrs {
				call, ok := ins.(*ssa.Call)
				if !ok {
					continue
				}
				isWrite := (call.Call.IsInvoke() && call.Call.Method.Name() == "WriteRecordAndContext") || strings.HasSuffix(CalleeName(&call.Call), ".WriteRecordAndContext")
				if isWrite {
					found = true
					arg := call.Call.Args[0]
					if !call.Call.IsInvoke() {
						arg = call.Call.Args[1]
					}
					okCopy = isCopyOf(arg, in) || phiCopyWhenForwarded(arg, in)
				}
				isClose := (call.Call.IsInvoke() && call.Call.Method.Name() == "Close") || strings.HasSuffix(CalleeName(&call.Call), ".Close")
				// or a method of the same verb that does the closing
				if sc := call.Call.StaticCallee(); !isClose && sc != nil && sc.Pkg == f.Pkg && sc.Blocks != nil && sc.Signature.Recv() != nil {
					for _, b2 := range sc.Blocks {
						for _, in2 := range b2.Instrs {
							if c2, ok := in2.(*ssa.Call); ok {
								if (c2.Call.IsInvoke() && c2.Call.Method.Name() == "Close") || strings.HasSuffix(CalleeName(&c2.Call), ".Close") {
									isClose = true
								}
							}
						}
					}
				}
				if isClose {
					for _, g := range GuardsAt(b) {
						if _, name, ok := fieldLoadName(g.Cond); ok && name == "EndOfStream" && g.Polarity {
							closeInEOS = true
						}
					}
				}
			}
		}
		r.Check(found && okCopy, "R20.6", SSAName(f)+": writer gets a copy", c.Rel(f.Pos()), "WriteRecordAndContext(inrecAndContext.Copy()) whenever the record also continues downstream",
			"the record handed to the asynchronous file writer is the same object that is forwarded downstream: later verbs mutate it while it is being written")
		r.Check(closeInEOS, "R20.6", SSAName(f)+": closes at end of stream", c.Rel(f.Pos()), "Close() in the EndOfStream branch", "the verb does not close its output in the end-of-stream branch: buffered output is never flushed")
	}
}

func isCopyOf(v, in ssa.Value) bool {
	call, ok := v.(*ssa.Call)
	if !ok {
		return false
	}
	return strings.HasSuffix(CalleeName(&call.Call), "RecordAndContext.Copy") && len(call.Call.Args) == 1 && call.Call.Args[0] == in
}

// phiCopyWhenForwarded: v = phi[in, in.Copy()] where the Copy edge is taken
// under the same field condition that guards forwarding `in` downstream.
func phiCopyWhenForwarded(v, in ssa.Value) bool {
	phi, ok := v.(*ssa.Phi)
	if !ok {
		return false
	}
	copyCond := ""
	for i, e := range phi.Edges {
		if isCopyOf(e, in) {
			for _, g := range GuardsAt(phi.Block().Preds[i]) {
				if _, name, ok := fieldLoadName(g.Cond); ok && g.Polarity {
					copyCond = name
				}
			}
		} else if e != in {
			return false
		}
	}
	if copyCond == "" {
		return false
	}
	// every append of `in` to the output list is guarded by the same field being true
	fn := phi.Parent()
	for _, b := range fn.Blocks {
		for _, ins := range b.Instrs {
			call, ok := ins.(*ssa.Call)
			if !ok {
				continue
			}
			for _, av := range appendedValues(call) {
				if av != in {
					continue
				}
				guarded := false
				eos := false
				for _, g := range GuardsAt(b) {
					if _, name, ok := fieldLoadName(g.Cond); ok {
						if name == copyCond && g.Polarity {
							guarded = true
						}
						if name == "EndOfStream" && g.Polarity {
							eos = true
						}
					}
				}
				if !guarded && !eos {
					return false
				}
			}
		}
	}
	return true
}

// ---- R20.7 -------------------------------------------------------------------
func c20WriterState(c *Ctx, r *Report, fn *ssa.Function) {
	r.Rule("R20.7", "per-target writer state survives eviction: for a target to stay one well-formed document (one header, one bracket pair) across evict–reopen, the evicted handler's record writer (or a token derived from it) must flow into manager state keyed by the file name and into the reopened handler; ending and discarding it makes every reopen start a new document")
	flows := false
	for _, b := range fn.Blocks {
		for _, in := range b.Instrs {
			var val ssa.Value
			switch x := in.(type) {
			case *ssa.MapUpdate:
				val = x.Value
			case *ssa.Store:
				if _, _, ok := fieldAddrName(x.Addr); ok {
					val = x.Val
				}
			}
			if val == nil {
				continue
			}
			if valueDependsOn(val, func(v ssa.Value) bool {
				_, name, ok := fieldLoadName(v)
				return ok && (name == "recordWriter")
			}, 0, map[ssa.Value]bool{}) {
				flows = true
			}
		}
	}
	r.Check(flows, "R20.7", "getOutputHandlerFor: evicted writer state is kept", c.Rel(fn.Pos()), "the evicted handler's record writer flows into manager state",
		"on eviction the per-target record writer (which holds header-printed / bracket-opened state) is ended by Close() and discarded; only a bool is remembered, so a target written again after eviction gets a second CSV header / a second JSON '[ … ]' document")
}

var _ = sort.Strings

// c20LRULinks (R20.9): the handle cache's recency list is doubly linked with a
// head and a tail pointer. Any function that rewrites a node's links can move
// a node to or from either end, so it must maintain both end pointers. The
// node type and the end pointers are found by shape: a struct of pkg/output
// with two fields that point to its own type, and the fields of that pointer
// type in the struct that owns the list.
func c20LRULinks(c *Ctx, r *Report) {
	r.Rule("R20.9", "the recency list keeps both ends: every function that stores a link of a cache node (a field of the node struct that points to another node) also stores both end pointers held by the manager (its fields of that node-pointer type) on some path — a move-to-front that forgets the tail leaves the tail pointer on a node that is no longer last, and the next eviction closes a handler that is in use")
	p := c.Pkg("pkg/output")
	if p == nil {
		r.Undecided("R20.9", "pkg/output", "", "package not loaded")
		return
	}
	// node type: named struct with exactly two fields of type *itself
	var node *types.Named
	linkFields := map[string]bool{}
	scope := p.Types.Scope()
	for _, nm := range scope.Names() {
		tn, ok := scope.Lookup(nm).(*types.TypeName)
		if !ok {
			continue
		}
		named, ok := tn.Type().(*types.Named)
		if !ok {
			continue
		}
		st, ok := named.Underlying().(*types.Struct)
		if !ok {
			continue
		}
		var self []string
		for i := 0; i < st.NumFields(); i++ {
			if pt, ok := st.Field(i).Type().(*types.Pointer); ok && types.Identical(pt.Elem(), named) {
				self = append(self, st.Field(i).Name())
			}
		}
		if len(self) == 2 {
			node = named
			for _, f := range self {
				linkFields[f] = true
			}
		}
	}
	if node == nil {
		r.Undecided("R20.9", "node type", "", "no doubly linked node type (a struct with two fields pointing to its own type) found in pkg/output")
		return
	}
	// owner: struct with >= 2 fields of type *node
	var owner *types.Named
	endFields := []string{}
	for _, nm := range scope.Names() {
		tn, ok := scope.Lookup(nm).(*types.TypeName)
		if !ok {
			continue
		}
		named, ok := tn.Type().(*types.Named)
		if !ok || named == node {
			continue
		}
		st, ok := named.Underlying().(*types.Struct)
		if !ok {
			continue
		}
		var ends []string
		for i := 0; i < st.NumFields(); i++ {
			if pt, ok := st.Field(i).Type().(*types.Pointer); ok && types.Identical(pt.Elem(), node) {
				ends = append(ends, st.Field(i).Name())
			}
		}
		if len(ends) >= 2 {
			owner, endFields = named, ends
		}
	}
	if owner == nil {
		r.Undecided("R20.9", "list owner", "", "no struct with two pointers to "+node.Obj().Name()+" found in pkg/output")
		return
	}
	n := 0
	for _, fobj := range c.FuncsOfPkg(p) {
		fn := c.SSAFunc(fobj)
		if fn == nil || fn.Blocks == nil {
			continue
		}
		links, ends := 0, map[string]bool{}
		var first token.Pos
		for _, b := range fn.Blocks {
			for _, in := range b.Instrs {
				st, ok := in.(*ssa.Store)
				if !ok {
					continue
				}
				fa, ok := st.Addr.(*ssa.FieldAddr)
				if !ok {
					continue
				}
				_, fld, ok := fieldAddrName(fa)
				if !ok {
					continue
				}
				pt, ok := fa.X.Type().Underlying().(*types.Pointer)
				if !ok {
					continue
				}
				if types.Identical(pt.Elem(), node) && linkFields[fld] {
					links++
					if first == token.NoPos {
						first = st.Pos()
					}
				}
				if types.Identical(pt.Elem(), owner) {
					ends[fld] = true
				}
			}
		}
		if links == 0 {
			continue
		}
		n++
		var missing []string
		for _, e := range endFields {
			if !ends[e] {
				missing = append(missing, e)
			}
		}
		r.Check(len(missing) == 0, "R20.9", SSAName(fn), c.Rel(fn.Pos()), fmt.Sprintf("%d link stores; end pointers %s maintained", links, strings.Join(endFields, ", ")),
			fmt.Sprintf("%s rewrites links of %s (first at %s) but never stores %s.%s: when the node it moves is at that end of the list the end pointer goes stale", SSAName(fn), node.Obj().Name(), c.Rel(first), owner.Obj().Name(), strings.Join(missing, " or ")))
	}
	r.Floor("R20.9", "functions that rewrite recency-list links", n, 2)
}

// c20SplitPassThrough (R20.10): with -v, split passes every record on.
func c20SplitPassThrough(c *Ctx, r *Report) {
	r.Rule("R20.10", "split -v passes every record on: in each per-mode record function of the split verb, every path through the not-end-of-stream branch to a successful return consults the pass-through option (the receiver's boolean field that guards the append to the output list) or appends to the output list — an early return for one kind of record (one lacking the group-by field) silently takes those records out of the main stream")
	n := 0
	for _, fn := range funcsInFile(c, "pkg/transformers", "split.go") {
		if fn.Signature.Recv() == nil || len(fn.Params) == 0 {
			continue
		}
		var outlist ssa.Value
		for _, p := range fn.Params {
			ts := p.Type().String()
			if strings.HasPrefix(ts, "*[]*") && strings.HasSuffix(ts, "types.RecordAndContext") {
				outlist = p
			}
		}
		if outlist == nil {
			continue
		}
		// the option: a bool field of the receiver whose true edge dominates a store to the output list
		optField := -1
		for _, b := range fn.Blocks {
			for _, in := range b.Instrs {
				st, ok := in.(*ssa.Store)
				if !ok || st.Addr != outlist {
					continue
				}
				for _, g := range GuardsAt(b) {
					if !g.Polarity {
						continue
					}
					if ld, ok := g.Cond.(*ssa.UnOp); ok && ld.Op == token.MUL {
						if fa, ok := ld.X.(*ssa.FieldAddr); ok && fa.X == ssa.Value(fn.Params[0]) {
							optField = fa.Field
						}
					}
				}
			}
		}
		if optField < 0 {
			continue // not a per-mode record function (Transform delegates)
		}
		// the not-end-of-stream branch
		var start *ssa.BasicBlock
		for _, b := range fn.Blocks {
			iff, ok := b.Instrs[len(b.Instrs)-1].(*ssa.If)
			if !ok {
				continue
			}
			cond, pol := stripNot(iff.Cond, true)
			if base, name, ok := fieldLoadName(cond); ok && name == "EndOfStream" && isParamOf(base, fn) {
				if pol {
					start = b.Succs[1]
				} else {
					start = b.Succs[0]
				}
			}
		}
		if start == nil {
			continue
		}
		n++
		consults := func(b *ssa.BasicBlock) bool {
			for _, in := range b.Instrs {
				switch x := in.(type) {
				case *ssa.FieldAddr:
					if x.X == ssa.Value(fn.Params[0]) && x.Field == optField {
						return true
					}
				case *ssa.Store:
					if x.Addr == outlist {
						return true
					}
				}
			}
			return false
		}
		bad := ""
		seen := map[*ssa.BasicBlock]bool{}
		var walk func(b *ssa.BasicBlock)
		walk = func(b *ssa.BasicBlock) {
			if bad != "" || seen[b] {
				return
			}
			seen[b] = true
			if consults(b) {
				return
			}
			if ret, ok := b.Instrs[len(b.Instrs)-1].(*ssa.Return); ok {
				// a return of a call's error result may be nil: it counts as a successful return
				if nres := len(ret.Results); nres > 0 && isErrorType(ret.Results[nres-1].Type()) {
					if k, isConst := ret.Results[nres-1].(*ssa.Const); isConst && !k.IsNil() {
						return
					}
					if _, isPhiOrCall := ret.Results[nres-1].(*ssa.Const); !isPhiOrCall {
						// err variable: fine only if this block is on the err != nil edge
						for _, g := range GuardsAt(b) {
							if cmp, ok := g.Cond.(*ssa.BinOp); ok && cmp.Op == token.NEQ && g.Polarity && cmp.X == ret.Results[nres-1] {
								return
							}
						}
					}
				}
				bad = c.Rel(ret.Pos())
				return
			}
			for _, s := range b.Succs {
				walk(s)
			}
		}
		walk(start)
		r.Check(bad == "", "R20.10", SSAName(fn), c.Rel(fn.Pos()), "every successful path consults the pass-through option or appends",
			fmt.Sprintf("%s can return successfully at %s for a record without having consulted the pass-through option or appended the record to the output: with -v such records leave the main stream", SSAName(fn), bad))
	}
	r.Floor("R20.10", "per-mode record functions of split", n, 3)
}

// R20.11: a loop that closes things closes all of them. A loop whose body
// calls Close() on what it walks leaves only through its condition: a return
// or break after one element's error leaves the others open, and what their
// buffers hold is lost.
func c20CloseLoops(c *Ctx, r *Report) {
	r.Rule("R20.11", "a loop that closes things closes all of them: in the output layer, the DSL's root and redirect nodes, the verbs and the stream driver, a loop whose body calls a Close method leaves only through its header — no return and no break on one element's error (the errors are collected) — so that every manager and handler is flushed and closed at end of stream even when another one failed")
	n := 0
	for _, fn := range c.ModuleFunctions() {
		if fn.Pkg == nil || fn.Blocks == nil {
			continue
		}
		pp := fn.Pkg.Pkg.Path()
		if !(strings.HasSuffix(pp, "/pkg/output") || strings.HasSuffix(pp, "/pkg/dsl/cst") || strings.Contains(pp, "/pkg/transformers") || strings.HasSuffix(pp, "/pkg/stream") || strings.HasSuffix(pp, "/pkg/entrypoint")) {
			continue
		}
		loops := naturalLoops(fn)
		k := 0
		for _, l := range loops {
			closes := token.NoPos
			for b := range l.Blocks {
				for _, in := range b.Instrs {
					call, ok := in.(ssa.CallInstruction)
					if !ok {
						continue
					}
					if _, isDefer := in.(*ssa.Defer); isDefer {
						continue
					}
					name := ""
					if call.Common().IsInvoke() {
						name = call.Common().Method.Name()
					} else if sc := call.Common().StaticCallee(); sc != nil && sc.Signature.Recv() != nil {
						name = sc.Name()
					}
					if name == "Close" && innermostLoop(loops, b) == l {
						closes = in.Pos()
					}
				}
			}
			if closes == token.NoPos {
				continue
			}
			n++
			k++
			bad := ""
			for b := range l.Blocks {
				if b == l.Header {
					continue
				}
				for _, s := range b.Succs {
					if !l.Blocks[s] {
						bad = c.Rel(b.Instrs[len(b.Instrs)-1].Pos())
						if bad == "" {
							bad = "block " + b.String()
						}
					}
				}
				if _, ok := b.Instrs[len(b.Instrs)-1].(*ssa.Return); ok {
					bad = c.Rel(b.Instrs[len(b.Instrs)-1].Pos())
				}
			}
			key := fmt.Sprintf("%s: closing loop #%d", SSAName(fn), k)
			r.Check(bad == "", "R20.11", key, c.Rel(closes), "leaves only through its header",
				fmt.Sprintf("%s closes things in a loop that can be left from inside (%s): after one element's Close fails the remaining ones are never closed, and what they have buffered is lost", SSAName(fn), bad))
		}
	}
	r.Floor("R20.11", "loops that call Close", n, 2)
}

// finishesWriter: h, a method of FileOutputHandler, brings the record-writer
// goroutine to its end on every path: where recordOutputChannel is not nil it
// sends on it (or receives the writer's error) and waits on the done or error
// channel in a blocking select before returning.
func finishesWriter(h *ssa.Function) bool {
	ok, saw := true, false
	pr := &PathRule{Fn: h}
	pr.Branch = func(fa Facts, cond ssa.Value, pol bool, iff *ssa.If) (Facts, bool) {
		if bo, isB := cond.(*ssa.BinOp); isB && (bo.Op == token.NEQ || bo.Op == token.EQL) {
			if kk, isK := bo.Y.(*ssa.Const); isK && kk.IsNil() {
				if _, name, okf := fieldLoadName(bo.X); okf && name == "recordOutputChannel" {
					if (bo.Op == token.NEQ) == pol {
						return fa.With("hasWriter"), true
					}
					return fa.With("noWriter"), true
				}
			}
		}
		return nil, true
	}
	pr.Transfer = func(fa Facts, in ssa.Instruction, deferred bool) []Facts {
		switch x := in.(type) {
		case *ssa.Send:
			if _, name, okf := fieldLoadName(x.Chan); okf && name == "recordOutputChannel" {
				return []Facts{fa.With("eosSent")}
			}
		case *ssa.Select:
			g := fa
			for _, st := range x.States {
				if _, name, okf := fieldLoadName(st.Chan); okf {
					if name == "recordOutputChannel" && st.Dir == types.SendOnly {
						g = g.With("eosSent")
					}
					if (name == "recordDoneChannel" || name == "recordErroredChannel") && st.Dir == types.RecvOnly && x.Blocking {
						g = g.With("waited")
					}
				}
			}
			return []Facts{g}
		}
		return nil
	}
	pr.AtReturn = func(fa Facts, ret *ssa.Return) {
		saw = true
		if !(fa.Has("noWriter") || (fa.Has("eosSent") && fa.Has("waited"))) {
			ok = false
		}
	}
	pr.Run()
	return ok && saw && !pr.Overflow
}
