package main

// Analysis A: path rules / typestate on a function's SSA control-flow graph.
// A state is a finite set of facts (strings). The engine propagates *sets of
// states* forward (path-sensitive up to the fact abstraction), refines states
// on branch edges, executes deferred calls at RunDefers, and calls back at
// every exit. panic / os.Exit / InternalCodingErrorIf(true) blocks are dead
// ends (no exit callback).

import (
	"go/token"
	"go/types"
	"sort"
	"strings"

	"golang.org/x/tools/go/ssa"
)

type Facts map[string]bool

func (f Facts) Clone() Facts {
	g := Facts{}
	for k := range f {
		g[k] = true
	}
	return g
}
func (f Facts) Key() string {
	ks := make([]string, 0, len(f))
	for k := range f {
		ks = append(ks, k)
	}
	sort.Strings(ks)
	return strings.Join(ks, ";")
}
func (f Facts) Has(k string) bool { return f[k] }
func (f Facts) With(ks ...string) Facts {
	g := f.Clone()
	for _, k := range ks {
		g[k] = true
	}
	return g
}
func (f Facts) Without(ks ...string) Facts {
	g := f.Clone()
	for _, k := range ks {
		delete(g, k)
	}
	return g
}

type PathRule struct {
	Fn   *ssa.Function
	Init Facts
	// Transfer returns the successor states of executing instruction in
	// state f. deferred is true when the instruction is a *ssa.Defer being
	// executed at function exit. Return nil to keep the state unchanged.
	Transfer func(f Facts, in ssa.Instruction, deferred bool) []Facts
	// Branch refines the state along the edge on which cond == pol; return
	// (nil,false) if infeasible. May be nil.
	Branch func(f Facts, cond ssa.Value, pol bool, iff *ssa.If) (Facts, bool)
	// AtReturn is called for every state reaching a return.
	AtReturn func(f Facts, ret *ssa.Return)
	// MaxStates bounds the exploration; exceeding it reports Overflow.
	MaxStates int
	Overflow  bool
}

func (pr *PathRule) Run() {
	fn := pr.Fn
	if fn == nil || fn.Blocks == nil {
		return
	}
	if pr.MaxStates == 0 {
		pr.MaxStates = 20000
	}
	type item struct {
		b *ssa.BasicBlock
		f Facts
	}
	seen := map[*ssa.BasicBlock]map[string]bool{}
	var work []item
	push := func(b *ssa.BasicBlock, f Facts) {
		k := f.Key()
		if seen[b] == nil {
			seen[b] = map[string]bool{}
		}
		if seen[b][k] {
			return
		}
		seen[b][k] = true
		work = append(work, item{b, f})
	}
	init := pr.Init
	if init == nil {
		init = Facts{}
	}
	push(fn.Blocks[0], init)
	nstates := 0
	for len(work) > 0 {
		it := work[len(work)-1]
		work = work[:len(work)-1]
		nstates++
		if nstates > pr.MaxStates {
			pr.Overflow = true
			return
		}
		states := []Facts{it.f}
		dead := false
		for _, in := range it.b.Instrs {
			if dead {
				break
			}
			switch x := in.(type) {
			case *ssa.If:
				for _, st := range states {
					for k, pol := range []bool{true, false} {
						cond, p := stripNot(x.Cond, pol)
						ns := st
						ok := true
						if cb, isConst := constBool(cond); isConst {
							ok = cb == p
						} else if pr.Branch != nil {
							ns, ok = pr.Branch(st, cond, p, x)
							if ns == nil && ok {
								ns = st
							}
						}
						if ok {
							push(it.b.Succs[k], ns)
						}
					}
				}
			case *ssa.Jump:
				for _, st := range states {
					push(it.b.Succs[0], st)
				}
			case *ssa.Return:
				if pr.AtReturn != nil {
					for _, st := range states {
						pr.AtReturn(st, x)
					}
				}
			case *ssa.Panic:
				dead = true
			case *ssa.RunDefers:
				// execute registered defers (facts "defer#<n>") in reverse order
				var next []Facts
				for _, st := range states {
					cur := []Facts{st}
					var ds []*ssa.Defer
					for _, b := range fn.Blocks {
						for _, i2 := range b.Instrs {
							if d, ok := i2.(*ssa.Defer); ok && st.Has(deferFact(d)) {
								ds = append(ds, d)
							}
						}
					}
					for i := len(ds) - 1; i >= 0; i-- {
						var nn []Facts
						for _, s2 := range cur {
							if pr.Transfer != nil {
								if out := pr.Transfer(s2, ds[i], true); out != nil {
									nn = append(nn, out...)
									continue
								}
							}
							nn = append(nn, s2)
						}
						cur = nn
					}
					next = append(next, cur...)
				}
				states = next
			default:
				if isNoReturnCall(in) {
					dead = true
					break
				}
				var next []Facts
				for _, st := range states {
					if d, ok := in.(*ssa.Defer); ok {
						st = st.With(deferFact(d))
						next = append(next, st)
						continue
					}
					if pr.Transfer != nil {
						if out := pr.Transfer(st, in, false); out != nil {
							next = append(next, out...)
							continue
						}
					}
					next = append(next, st)
				}
				states = next
			}
		}
	}
}

func deferFact(d *ssa.Defer) string {
	return "defer#" + itoa(int(d.Pos()))
}

func itoa(n int) string {
	if n == 0 {
		return "0"
	}
	neg := n < 0
	if neg {
		n = -n
	}
	var b []byte
	for n > 0 {
		b = append([]byte{byte('0' + n%10)}, b...)
		n /= 10
	}
	if neg {
		b = append([]byte{'-'}, b...)
	}
	return string(b)
}

// ErrValueOf returns the SSA value holding the error result of call (the
// call itself for a single error result, else the Extract of the last
// result), or nil.
func ErrValueOf(call *ssa.Call) ssa.Value {
	res := call.Call.Signature().Results()
	if res.Len() == 0 {
		return nil
	}
	last := res.At(res.Len() - 1).Type()
	if !isErrorType(last) {
		return nil
	}
	if res.Len() == 1 {
		return call
	}
	for _, ref := range *call.Referrers() {
		if ex, ok := ref.(*ssa.Extract); ok && ex.Index == res.Len()-1 {
			return ex
		}
	}
	return nil
}

func isErrorType(t types.Type) bool {
	n, ok := t.(*types.Named)
	return ok && n.Obj().Pkg() == nil && n.Obj().Name() == "error"
}

// ErrCheck recognises cond as `<err of call> != nil` (nonNil=true) or
// `== nil` (nonNil=false) and returns the call.
func ErrCheck(cond ssa.Value) (call *ssa.Call, nonNil bool, ok bool) {
	b, isBin := cond.(*ssa.BinOp)
	if !isBin || (b.Op != token.NEQ && b.Op != token.EQL) {
		return nil, false, false
	}
	x, y := b.X, b.Y
	if k, isK := x.(*ssa.Const); isK && k.IsNil() {
		x, y = y, x
	}
	k, isK := y.(*ssa.Const)
	if !isK || !k.IsNil() {
		return nil, false, false
	}
	switch v := x.(type) {
	case *ssa.Call:
		if isErrorType(v.Type()) {
			return v, b.Op == token.NEQ, true
		}
	case *ssa.Extract:
		if c, isCall := v.Tuple.(*ssa.Call); isCall && isErrorType(v.Type()) {
			return c, b.Op == token.NEQ, true
		}
	}
	return nil, false, false
}

// ReturnsNilError: the return's last result is the nil constant.
func ReturnsNilError(ret *ssa.Return) bool {
	if len(ret.Results) == 0 {
		return true
	}
	last := unspillResult(ret, ret.Results[len(ret.Results)-1])
	k, ok := last.(*ssa.Const)
	return ok && k.IsNil()
}

// unspillResult undoes go/ssa's result spilling in functions with defers: the
// return site is "*r = v; rundefers; t = *r; return t" — give back v.
func unspillResult(ret *ssa.Return, v ssa.Value) ssa.Value {
	ld, ok := v.(*ssa.UnOp)
	if !ok || ld.Op != token.MUL {
		return v
	}
	al, ok := ld.X.(*ssa.Alloc)
	if !ok {
		return v
	}
	instrs := ret.Block().Instrs
	for i := len(instrs) - 1; i >= 0; i-- {
		if st, ok := instrs[i].(*ssa.Store); ok && st.Addr == al {
			return st.Val
		}
	}
	return v
}

// FlowsFrom reports whether v is derived from src through value-preserving
// operations (phi, conversions, interface wrapping, extracts of src tuple).
func FlowsFrom(v, src ssa.Value, depth int) bool {
	if v == src {
		return true
	}
	if depth > 8 {
		return false
	}
	switch x := v.(type) {
	case *ssa.Phi:
		for _, e := range x.Edges {
			if FlowsFrom(e, src, depth+1) {
				return true
			}
		}
	case *ssa.MakeInterface:
		return FlowsFrom(x.X, src, depth+1)
	case *ssa.ChangeInterface:
		return FlowsFrom(x.X, src, depth+1)
	case *ssa.ChangeType:
		return FlowsFrom(x.X, src, depth+1)
	case *ssa.Convert:
		return FlowsFrom(x.X, src, depth+1)
	case *ssa.Extract:
		return FlowsFrom(x.Tuple, src, depth+1)
	case *ssa.TypeAssert:
		return FlowsFrom(x.X, src, depth+1)
	case *ssa.UnOp:
		if x.Op == token.MUL {
			// load from a local cell: any store of src into it
			if a, ok := x.X.(*ssa.Alloc); ok {
				for _, ref := range *a.Referrers() {
					if st, ok := ref.(*ssa.Store); ok && st.Addr == a && FlowsFrom(st.Val, src, depth+1) {
						return true
					}
				}
			}
		}
	}
	return false
}
