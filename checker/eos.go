package main

// R04.1: every verb forwards the end-of-stream marker. A forwarding analysis
// with callee summaries, one bit of context (is end-of-stream excluded on
// this path?).

import (
	"fmt"
	"go/token"
	"go/types"
	"strings"

	"golang.org/x/tools/go/ssa"
)

type eosAnalysis struct {
	c         *Ctx
	memo      map[string]*eosResult
	active    map[string]bool
	fieldFns  map[*types.Var][]*ssa.Function
	fieldDone bool
	analysed  map[*ssa.Function]bool
}

type eosResult struct {
	ok   bool
	why  string
	pos  token.Pos
	path []string
}

func isRecordAndContextPtr(t types.Type) bool {
	pt, ok := t.(*types.Pointer)
	if !ok {
		return false
	}
	n, ok := pt.Elem().(*types.Named)
	return ok && n.Obj().Name() == "RecordAndContext"
}

func isOutputListPtr(t types.Type) bool {
	pt, ok := t.(*types.Pointer)
	if !ok {
		return false
	}
	sl, ok := pt.Elem().Underlying().(*types.Slice)
	if !ok {
		return false
	}
	return isRecordAndContextPtr(sl.Elem())
}

// appendedValues: the values appended by an append(...) call whose variadic
// argument is a literal slice.
func appendedValues(call *ssa.Call) []ssa.Value {
	bi, ok := call.Call.Value.(*ssa.Builtin)
	if !ok || bi.Name() != "append" || len(call.Call.Args) != 2 {
		return nil
	}
	sl, ok := call.Call.Args[1].(*ssa.Slice)
	if !ok {
		return nil
	}
	al, ok := sl.X.(*ssa.Alloc)
	if !ok {
		return nil
	}
	var out []ssa.Value
	for _, ref := range *al.Referrers() {
		ia, ok := ref.(*ssa.IndexAddr)
		if !ok {
			continue
		}
		for _, r2 := range *ia.Referrers() {
			if st, ok := r2.(*ssa.Store); ok && st.Addr == ia {
				out = append(out, st.Val)
			}
		}
	}
	return out
}

func isEOSMarkerCall(v ssa.Value) bool {
	call, ok := v.(*ssa.Call)
	if !ok {
		return false
	}
	n := CalleeName(&call.Call)
	return n == "pkg/types.NewEndOfStreamMarker"
}

// fieldFuncTargets: functions ever stored into a func-typed struct field.
func (ea *eosAnalysis) fieldFuncTargets(field *types.Var) []*ssa.Function {
	if !ea.fieldDone {
		ea.fieldDone = true
		ea.fieldFns = map[*types.Var][]*ssa.Function{}
		for _, fn := range ea.c.ModuleFunctions() {
			for _, b := range fn.Blocks {
				for _, in := range b.Instrs {
					st, ok := in.(*ssa.Store)
					if !ok {
						continue
					}
					fa, ok := st.Addr.(*ssa.FieldAddr)
					if !ok {
						continue
					}
					stt, ok := fa.X.Type().Underlying().(*types.Pointer).Elem().Underlying().(*types.Struct)
					if !ok {
						continue
					}
					fv := stt.Field(fa.Field)
					if _, isSig := fv.Type().Underlying().(*types.Signature); !isSig {
						continue
					}
					for _, tf := range funcValueTargets(st.Val, 0) {
						ea.fieldFns[fv] = append(ea.fieldFns[fv], tf)
					}
				}
			}
		}
	}
	return ea.fieldFns[field]
}

func funcValueTargets(v ssa.Value, depth int) []*ssa.Function {
	if depth > 5 {
		return nil
	}
	switch x := v.(type) {
	case *ssa.Function:
		return []*ssa.Function{x}
	case *ssa.MakeClosure:
		if f, ok := x.Fn.(*ssa.Function); ok {
			return []*ssa.Function{f}
		}
	case *ssa.ChangeType:
		return funcValueTargets(x.X, depth+1)
	case *ssa.Phi:
		var out []*ssa.Function
		for _, e := range x.Edges {
			out = append(out, funcValueTargets(e, depth+1)...)
		}
		return out
	}
	return nil
}

// forwards: does fn, called with the incoming record at parameter inIdx and
// the output list at parameter outIdx, forward the end-of-stream marker on
// every nil-returning path on which end-of-stream is not excluded?
func (ea *eosAnalysis) forwards(fn *ssa.Function, inIdx, outIdx int, depth int) *eosResult {
	key := fmt.Sprintf("%p/%d/%d", fn, inIdx, outIdx)
	if r, ok := ea.memo[key]; ok {
		return r
	}
	if ea.active[key] || depth > 6 {
		return &eosResult{ok: false, why: "recursion / depth limit in " + SSAName(fn), pos: fn.Pos()}
	}
	if fn.Blocks == nil || inIdx >= len(fn.Params) || outIdx >= len(fn.Params) {
		return &eosResult{ok: false, why: "no body for " + SSAName(fn), pos: fn.Pos()}
	}
	ea.active[key] = true
	defer delete(ea.active, key)
	ea.analysed[fn] = true
	in, out := ssa.Value(fn.Params[inIdx]), ssa.Value(fn.Params[outIdx])
	res := &eosResult{ok: true}
	fail := func(pos token.Pos, why string) {
		if res.ok {
			res.ok = false
			res.why = why
			res.pos = pos
		}
	}
	isIn := func(v ssa.Value) bool { return v == in || FlowsFrom(v, in, 0) }
	isOut := func(v ssa.Value) bool { return v == out || FlowsFrom(v, out, 0) }
	isEOSLoad := func(v ssa.Value) bool {
		u, ok := v.(*ssa.UnOp)
		if !ok || u.Op != token.MUL {
			return false
		}
		fa, ok := u.X.(*ssa.FieldAddr)
		if !ok || !isIn(fa.X) {
			return false
		}
		st := fa.X.Type().Underlying().(*types.Pointer).Elem().Underlying().(*types.Struct)
		return st.Field(fa.Field).Name() == "EndOfStream"
	}
	// a record is non-nil only when not end-of-stream: `inrec != nil` / `Record != nil` also excludes EOS
	isRecordLoad := func(v ssa.Value) bool {
		u, ok := v.(*ssa.UnOp)
		if !ok || u.Op != token.MUL {
			return false
		}
		fa, ok := u.X.(*ssa.FieldAddr)
		if !ok || !isIn(fa.X) {
			return false
		}
		st := fa.X.Type().Underlying().(*types.Pointer).Elem().Underlying().(*types.Struct)
		return st.Field(fa.Field).Name() == "Record"
	}
	pr := &PathRule{Fn: fn}
	pr.Branch = func(f Facts, cond ssa.Value, pol bool, iff *ssa.If) (Facts, bool) {
		if isEOSLoad(cond) {
			if pol {
				if f.Has("noteos") {
					return nil, false
				}
				return f.With("eos"), true
			}
			if f.Has("eos") {
				return nil, false
			}
			return f.With("noteos"), true
		}
		if bo, ok := cond.(*ssa.BinOp); ok && (bo.Op == token.NEQ || bo.Op == token.EQL) {
			if k, isK := bo.Y.(*ssa.Const); isK && k.IsNil() && isRecordLoad(bo.X) {
				nonNil := (bo.Op == token.NEQ) == pol
				if nonNil {
					if f.Has("eos") {
						return nil, false
					}
					return f.With("noteos"), true
				}
			}
		}
		return nil, true
	}
	pr.Transfer = func(f Facts, inst ssa.Instruction, deferred bool) []Facts {
		if f.Has("forwarded") || f.Has("noteos") {
			return nil
		}
		switch x := inst.(type) {
		case *ssa.Store:
			if isOut(x.Addr) {
				if call, ok := x.Val.(*ssa.Call); ok {
					for _, v := range appendedValues(call) {
						if isIn(v) || isEOSMarkerCall(v) {
							return []Facts{f.With("forwarded")}
						}
					}
				}
			}
		case *ssa.Call:
			com := &x.Call
			ai, ao := -1, -1
			for i, a := range com.Args {
				if isIn(a) {
					ai = i
				}
				if isOut(a) {
					ao = i
				}
			}
			if ao < 0 {
				return nil
			}
			if ai < 0 {
				// helper that gets only the output list plus the marker built inside? look for context arg
				return nil
			}
			var targets []*ssa.Function
			if callee := com.StaticCallee(); callee != nil {
				targets = []*ssa.Function{callee}
			} else if com.IsInvoke() {
				// interface dispatch with (in,out): all implementers of the method in the module
				for _, e := range ea.c.CHA().Nodes[fn].Out {
					if e.Site == x {
						targets = append(targets, e.Callee.Func)
					}
				}
				// invoke: receiver is not part of Args, parameter indices shift by one
				ai, ao = ai+1, ao+1
			} else if u, ok := com.Value.(*ssa.UnOp); ok && u.Op == token.MUL {
				if fa, ok := u.X.(*ssa.FieldAddr); ok {
					st := fa.X.Type().Underlying().(*types.Pointer).Elem().Underlying().(*types.Struct)
					targets = ea.fieldFuncTargets(st.Field(fa.Field))
				}
			}
			if len(targets) == 0 {
				return nil
			}
			all := true
			for _, t := range targets {
				pi, po := ai, ao
				if !com.IsInvoke() && t.Signature.Recv() != nil && com.StaticCallee() != nil {
					// static method call: Args[0] is the receiver = Params[0]; indices already aligned
				}
				if len(t.FreeVars) > 0 && com.StaticCallee() == nil && !com.IsInvoke() {
					// bound-method closure: params align with call args
				}
				r := ea.forwards(t, pi, po, depth+1)
				if !r.ok {
					all = false
				}
			}
			if all {
				return []Facts{f.With("forwarded")}
			}
		}
		return nil
	}
	pr.AtReturn = func(f Facts, ret *ssa.Return) {
		if f.Has("noteos") || f.Has("forwarded") {
			return
		}
		if len(ret.Results) > 0 && !ReturnsNilError(ret) && isErrorType(ret.Results[len(ret.Results)-1].Type()) {
			return // error return: the chain runner appends the marker itself (R17.1)
		}
		fail(ret.Pos(), fmt.Sprintf("%s: a path on which the record may be the end-of-stream marker returns without appending it (or a new marker) to the output list", SSAName(fn)))
	}
	pr.Run()
	if pr.Overflow {
		fail(fn.Pos(), "state space exceeded in "+SSAName(fn))
	}
	ea.memo[key] = res
	return res
}

func runR041(c *Ctx, r *Report) {
	r.Rule("R04.1", "end-of-stream is always forwarded: for every type implementing RecordTransformer.Transform (and every function it dispatches to through a function-valued field), every path to a nil-error return on which the incoming record may be the end-of-stream marker appends that marker or a NewEndOfStreamMarker to the output list")
	iface := c.LookupInterface("pkg/transformers", "RecordTransformer")
	if iface == nil {
		r.Undecided("R04.1", "RecordTransformer", "", "interface not found")
		return
	}
	ea := &eosAnalysis{c: c, memo: map[string]*eosResult{}, active: map[string]bool{}, analysed: map[*ssa.Function]bool{}}
	n := 0
	for _, named := range c.Implementers(iface) {
		m := MethodOf(named, "Transform")
		if m == nil {
			continue
		}
		fn := c.SSAFunc(m)
		if fn == nil || fn.Blocks == nil {
			continue
		}
		pk := m.Pkg().Path()
		if strings.Contains(pk, "/pkg/terminals") {
			continue
		}
		n++
		// params: recv, in, out, ...
		inIdx, outIdx := -1, -1
		for i, p := range fn.Params {
			if isRecordAndContextPtr(p.Type()) && inIdx < 0 {
				inIdx = i
			}
			if isOutputListPtr(p.Type()) && outIdx < 0 {
				outIdx = i
			}
		}
		key := named.Obj().Name() + ".Transform"
		if inIdx < 0 || outIdx < 0 {
			r.Undecided("R04.1", key, c.Rel(fn.Pos()), "cannot identify record / output-list parameters")
			continue
		}
		res := ea.forwards(fn, inIdx, outIdx, 0)
		if res.ok {
			r.OK("R04.1", key, c.Rel(fn.Pos()), "marker forwarded on every end-of-stream path")
		} else {
			r.Fail("R04.1", key, c.Rel(res.pos), res.why+": downstream verbs and the writer never see end of stream (hang) or lose their end-of-stream output")
		}
	}
	r.Floor("R04.1", "RecordTransformer implementations", n, 45)
	r.Extra["eos_functions_analysed"] = len(ea.analysed)
}
