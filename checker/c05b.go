package main

// C05, continued: values are not shared between records (R05.11).

import (
	"fmt"
	"go/constant"
	"go/token"
	"go/types"
	"sort"
	"strings"

	"golang.org/x/tools/go/ssa"
)

// sharedValueOK: state values that may enter a record by reference, one line of reason each.
var sharedValueOK = map[string]string{}

// c05NoSharedValues: in the verbs, a *Mlrval that is put into a record by
// reference — a store to MlrmapEntry.Value, or the value argument of a
// Put…Reference… / PrependReference call — is not a value that the verb keeps
// in its own state (loaded from a field of the transformer, directly or
// through a map/slice/ordered-map held there, or a package-level value). Such
// a value would be shared by every record it is put into (and with the verb),
// and Miller changes values in place (type inference, indexed assignment
// $a[1]=…, format-values): a later verb in the same chain would change "all of
// them", which a pipe between the two verbs would not.
func c05NoSharedValues(c *Ctx, r *Report) {
	r.Rule("R05.11", "values are not shared between records: in the verbs, every *Mlrval put into a record by reference (a store to MlrmapEntry.Value, the value argument of PutReference / PutReferenceAfter / PrependReference …) is the incoming record's own value, a freshly constructed one, or a Copy() — not a value loaded from the verb's state or a package-level singleton, which every record it went into would then share")
	n := 0
	for _, fn := range c.ModuleFunctions() {
		if fn.Blocks == nil || fn.Pkg == nil {
			continue
		}
		pp := fn.Pkg.Pkg.Path()
		if !(strings.HasSuffix(pp, "/pkg/transformers") || strings.HasSuffix(pp, "/pkg/transformers/utils")) {
			continue
		}
		if fn.Signature.Recv() == nil && fn.Parent() == nil {
			continue
		}
		root := fn
		for root.Parent() != nil {
			root = root.Parent()
		}
		if root.Signature.Recv() == nil || len(root.Params) == 0 {
			continue
		}
		// is v (a *Mlrval) loaded from the receiver's state?
		var fromState func(v ssa.Value, depth int) string
		fromState = func(v ssa.Value, depth int) string {
			if depth > 6 {
				return ""
			}
			switch x := v.(type) {
			case *ssa.UnOp:
				if x.Op != token.MUL {
					return ""
				}
				switch a := x.X.(type) {
				case *ssa.FieldAddr:
					if derivesFromRecv(a.X, fn, 0) {
						_, name, _ := fieldAddrName(a)
						return "the verb's field " + name
					}
				case *ssa.Global:
					return "the package-level value " + a.Name()
				case *ssa.IndexAddr:
					if derivesFromRecv(a.X, fn, 0) {
						return "an element of a slice in the verb's state"
					}
				}
			case *ssa.Lookup:
				if derivesFromRecv(x.X, fn, 0) {
					return "an element of a map in the verb's state"
				}
			case *ssa.Extract:
				return fromState(x.Tuple, depth+1)
			case *ssa.Call:
				// Get / value accessors on a state container return the stored pointer
				cn := CalleeName(&x.Call)
				if (strings.Contains(cn, "OrderedMap") && (strings.HasSuffix(cn, ".Get") || strings.HasSuffix(cn, ".GetWithCheck"))) && len(x.Call.Args) > 0 && derivesFromRecv(x.Call.Args[0], fn, 0) {
					return "a value held in an ordered map of the verb's state"
				}
				// a method of a state object that hands out one of its own fields (an accumulator's Emit)
				if callee := x.Call.StaticCallee(); callee != nil && callee.Blocks != nil && callee.Signature.Recv() != nil && len(x.Call.Args) > 0 && derivesFromRecv(x.Call.Args[0], fn, 0) {
					if f := returnsOwnField(callee); f != "" {
						return "the field " + f + " of a state object, handed out by " + SSAName(callee)
					}
				}
			case *ssa.Phi:
				for _, e := range x.Edges {
					if s := fromState(e, depth+1); s != "" {
						return s
					}
				}
			}
			return ""
		}
		check := func(v ssa.Value, pos token.Pos, how string, idx int) {
			if !isMlrvalPtr(v.Type()) {
				return
			}
			n++
			key := fmt.Sprintf("%s: %s #%d", SSAName(fn), how, idx)
			src := fromState(v, 0)
			if src != "" {
				if why, ok := sharedValueOK[SSAName(root)]; ok {
					r.OK("R05.11", key, c.Rel(pos), "frozen exception: "+why)
					return
				}
			}
			r.Check(src == "", "R05.11", key, c.Rel(pos), "the value is the record's own, fresh, or a copy",
				fmt.Sprintf("%s puts %s into a record by reference (%s): every record it goes into shares that one value with the verb, so an in-place change downstream (indexed assignment, format-values, inference) shows in all of them — put a Copy()", SSAName(fn), src, how))
		}
		idx := 0
		for _, b := range fn.Blocks {
			for _, in := range b.Instrs {
				switch x := in.(type) {
				case *ssa.Store:
					if _, name, ok := fieldAddrName(x.Addr); ok && name == "Value" && strings.HasSuffix(x.Addr.(*ssa.FieldAddr).X.Type().String(), "mlrval.MlrmapEntry") {
						idx++
						check(x.Val, x.Pos(), "store to MlrmapEntry.Value", idx)
					}
				case ssa.CallInstruction:
					cn := CalleeName(x.Common())
					if strings.HasPrefix(cn, "pkg/mlrval.Mlrmap.") && strings.Contains(cn, "Reference") && (strings.Contains(cn, "Put") || strings.Contains(cn, "Prepend")) {
						args := x.Common().Args
						idx++
						check(args[len(args)-1], x.Pos(), cn, idx)
					}
				}
			}
		}
	}
	r.Floor("R05.11", "values put into records by reference in the verbs", n, 40)
}

// derivesFromRecv: v is the receiver of the enclosing method (or, in a
// closure, the captured receiver), or is loaded from it through fields.
func derivesFromRecv(v ssa.Value, fn *ssa.Function, depth int) bool {
	if depth > 6 {
		return false
	}
	switch x := v.(type) {
	case *ssa.Parameter:
		return fn.Signature.Recv() != nil && len(fn.Params) > 0 && x == fn.Params[0] && fn.Parent() == nil
	case *ssa.FreeVar:
		// a captured receiver: find the binding in the parent
		p := fn.Parent()
		if p == nil {
			return false
		}
		for _, b := range p.Blocks {
			for _, in := range b.Instrs {
				if mc, ok := in.(*ssa.MakeClosure); ok && mc.Fn == fn {
					for i, fv := range fn.FreeVars {
						if fv == x && i < len(mc.Bindings) {
							return derivesFromRecv(mc.Bindings[i], p, depth+1)
						}
					}
				}
			}
		}
		return false
	case *ssa.UnOp:
		if x.Op == token.MUL {
			return derivesFromRecv(x.X, fn, depth+1)
		}
	case *ssa.FieldAddr:
		return derivesFromRecv(x.X, fn, depth+1)
	case *ssa.Field:
		return derivesFromRecv(x.X, fn, depth+1)
	case *ssa.IndexAddr:
		return derivesFromRecv(x.X, fn, depth+1)
	case *ssa.Alloc:
		// a spilled receiver
		var stored ssa.Value
		cnt := 0
		for _, ref := range *x.Referrers() {
			if st, ok := ref.(*ssa.Store); ok && st.Addr == x {
				stored = st.Val
				cnt++
			}
		}
		if cnt == 1 {
			return derivesFromRecv(stored, fn, depth+1)
		}
	}
	return false
}

// returnsOwnField: some return of the method is a plain load of a *Mlrval
// field of its receiver.
func returnsOwnField(callee *ssa.Function) string {
	for _, b := range callee.Blocks {
		ret, ok := b.Instrs[len(b.Instrs)-1].(*ssa.Return)
		if !ok {
			continue
		}
		for _, res := range ret.Results {
			if !isMlrvalPtr(res.Type()) {
				continue
			}
			vals := []ssa.Value{res}
			if phi, ok := res.(*ssa.Phi); ok {
				vals = phi.Edges
			}
			for _, v := range vals {
				if base, name, ok := fieldLoadName(v); ok && base == ssa.Value(callee.Params[0]) {
					return name
				}
			}
		}
	}
	return ""
}

// c03NoSingletonInCollections (R03.6): a package-level *Mlrval (mlrval.NULL,
// VOID, ABSENT, TRUE …) is not stored into an array slot or put into a map by
// reference in the packages that build collections: indexed assignment
// converts a slot's value in place, and would convert the singleton for the
// whole process.
func c03NoSingletonInCollections(c *Ctx, r *Report) {
	r.Rule("R03.6", "indexed assignment installs no singleton: in the functions reachable from (*Mlrval).PutIndexed and (*Mlrmap).PutIndexed — the code that auto-extends arrays and auto-creates levels while assigning — no package-level *Mlrval (NULL, VOID, ABSENT …) is stored into an element of a []*Mlrval or handed to a Put…Reference… call: the very next step of the assignment converts such a slot's value in place, and would convert the singleton for the whole process")
	n := 0
	scope := map[*ssa.Function]bool{}
	for _, root := range []string{"Mlrval.PutIndexed", "Mlrmap.PutIndexed"} {
		if f := c.SSAFunc(c.LookupFunc("pkg/mlrval", root)); f != nil {
			scope[f] = true
			for g := range staticReach(c, f) {
				scope[g] = true
			}
		}
	}
	if len(scope) < 4 {
		r.Undecided("R03.6", "PutIndexed", "", "the indexed-assignment functions of package mlrval were not found")
		return
	}
	isSingleton := func(v ssa.Value) string {
		vals := []ssa.Value{v}
		if phi, ok := v.(*ssa.Phi); ok {
			vals = phi.Edges
		}
		for _, e := range vals {
			if u, ok := e.(*ssa.UnOp); ok && u.Op == token.MUL {
				if g, ok := u.X.(*ssa.Global); ok && isMlrvalPtr(u.Type()) {
					return g.Name()
				}
			}
		}
		return ""
	}
	for _, fn := range c.ModuleFunctions() {
		if fn.Blocks == nil || fn.Pkg == nil {
			continue
		}
		if !scope[fn] {
			continue
		}
		idx := 0
		for _, b := range fn.Blocks {
			for _, in := range b.Instrs {
				switch x := in.(type) {
				case *ssa.Store:
					ia, ok := x.Addr.(*ssa.IndexAddr)
					if !ok || !isMlrvalPtr(x.Val.Type()) {
						continue
					}
					// the varargs array of a call is not a collection value
					if al, ok := ia.X.(*ssa.Alloc); ok && al.Comment == "varargs" {
						continue
					}
					n++
					if g := isSingleton(x.Val); g != "" {
						idx++
						r.Fail("R03.6", fmt.Sprintf("%s stores %s into a slot #%d", SSAName(fn), g, idx), c.Rel(x.Pos()),
							fmt.Sprintf("%s stores the package-level value %s itself into an element of a []*Mlrval: an indexed assignment into that slot converts the value in place, for every other slot holding it and for every other user of %s — store a Copy()", SSAName(fn), g, g))
					}
				case ssa.CallInstruction:
					cn := CalleeName(x.Common())
					if strings.HasPrefix(cn, "pkg/mlrval.Mlrmap.") && strings.Contains(cn, "Reference") && (strings.Contains(cn, "Put") || strings.Contains(cn, "Prepend")) {
						args := x.Common().Args
						n++
						if g := isSingleton(args[len(args)-1]); g != "" {
							idx++
							r.Fail("R03.6", fmt.Sprintf("%s puts %s by reference #%d", SSAName(fn), g, idx), c.Rel(x.Pos()),
								fmt.Sprintf("%s puts the package-level value %s itself into a map: an indexed assignment through that entry converts the value in place for every user of %s — put a copy", SSAName(fn), g, g))
						}
					}
				}
			}
		}
	}
	r.OK("R03.6", "slot stores and reference puts on the indexed-assignment path", "", fmt.Sprintf("%d sites in %d functions scanned", n, len(scope)))
	r.Floor("R03.6", "slot stores and reference puts scanned", n, 4)
}

// c05EncodingConsulted (R05.12): the decompression flag applies to every
// source. A function that receives a handle and the encoding flag may hand
// the handle back unwrapped only where the flag is known to select no
// decompressor.
func c05EncodingConsulted(c *Ctx, r *Report) {
	r.Rule("R05.12", "the decompression flag is consulted for every source: in every function of pkg/lib that receives both an input handle (io.ReadCloser) and the encoding flag (TFileInputEncoding), a successful return of that handle itself, unwrapped, is dominated by the exclusion of every decompressing value of the flag (encoding == X false for each non-default constant, or encoding == default true) — an early return for standard input, say, would ignore --gzin there")
	p := c.Pkg("pkg/lib")
	if p == nil {
		r.Undecided("R05.12", "pkg/lib", "", "package not loaded")
		return
	}
	encT, _ := p.Types.Scope().Lookup("TFileInputEncoding").(*types.TypeName)
	if encT == nil {
		r.Undecided("R05.12", "TFileInputEncoding", "", "type not found")
		return
	}
	// the constants of the type
	consts := map[int64]string{}
	var dflt int64 = -1
	for _, nm := range p.Types.Scope().Names() {
		if k, ok := p.Types.Scope().Lookup(nm).(*types.Const); ok && types.Identical(k.Type(), encT.Type()) {
			if v, ok := constant.Int64Val(k.Val()); ok {
				consts[v] = nm
				if strings.HasSuffix(nm, "Default") {
					dflt = v
				}
			}
		}
	}
	if len(consts) < 3 || dflt < 0 {
		r.Undecided("R05.12", "TFileInputEncoding constants", "", "fewer than three constants, or no default, found")
		return
	}
	n := 0
	for _, fobj := range c.FuncsOfPkg(p) {
		fn := c.SSAFunc(fobj)
		if fn == nil || fn.Blocks == nil {
			continue
		}
		var enc, handle *ssa.Parameter
		for _, prm := range fn.Params {
			if types.Identical(prm.Type(), encT.Type()) {
				enc = prm
			}
			if strings.HasSuffix(prm.Type().String(), "io.ReadCloser") {
				handle = prm
			}
		}
		if enc == nil || handle == nil {
			continue
		}
		n++
		bad := ""
		nret := 0
		for _, b := range fn.Blocks {
			ret, ok := b.Instrs[len(b.Instrs)-1].(*ssa.Return)
			if !ok || len(ret.Results) == 0 {
				continue
			}
			v := ret.Results[0]
			if ci, ok := v.(*ssa.ChangeInterface); ok {
				v = ci.X
			}
			if v != ssa.Value(handle) {
				continue
			}
			nret++
			excluded := map[int64]bool{}
			isDefault := false
			for _, g := range GuardsAt(b) {
				cmp, ok := g.Cond.(*ssa.BinOp)
				if !ok || (cmp.Op != token.EQL && cmp.Op != token.NEQ) {
					continue
				}
				// the flag itself, or the effective encoding computed from it (FindInputEncoding
				// returns the flag whenever the flag is not the default)
				encLike := func(v ssa.Value) bool {
					if v == ssa.Value(enc) {
						return true
					}
					if call, ok := v.(*ssa.Call); ok && strings.HasSuffix(CalleeName(&call.Call), ".FindInputEncoding") {
						for _, a := range call.Call.Args {
							if a == ssa.Value(enc) {
								return true
							}
						}
					}
					return false
				}
				var k *ssa.Const
				if encLike(cmp.X) {
					k, _ = cmp.Y.(*ssa.Const)
				} else if encLike(cmp.Y) {
					k, _ = cmp.X.(*ssa.Const)
				}
				if k == nil || k.Value == nil {
					continue
				}
				kv, ok := constant.Int64Val(k.Value)
				if !ok {
					continue
				}
				eq := (cmp.Op == token.EQL) == g.Polarity // on this path enc == kv holds (true) or enc != kv holds (false)
				if eq && kv == dflt {
					isDefault = true
				}
				if !eq {
					excluded[kv] = true
				}
			}
			if isDefault {
				continue
			}
			var missing []string
			for kv, nm := range consts {
				if kv != dflt && !excluded[kv] {
					missing = append(missing, nm)
				}
			}
			if len(missing) > 0 {
				sort.Strings(missing)
				bad = fmt.Sprintf("the return at %s hands back the handle unwrapped although the flag may still be %s", c.Rel(ret.Pos()), strings.Join(missing, ", "))
			}
		}
		r.Check(bad == "", "R05.12", SSAName(fn), c.Rel(fn.Pos()), fmt.Sprintf("%d unwrapped return(s), each with every decompressing value excluded", nret), SSAName(fn)+": "+bad)
	}
	r.Floor("R05.12", "functions taking a handle and the encoding flag", n, 1)
}

// c03NoArgumentArrayMutation (R03.7): a built-in function does not reorder or
// overwrite the elements of an array it was given.
func c03NoArgumentArrayMutation(c *Ctx, r *Report) {
	r.Rule("R03.7", "built-in functions leave their arguments' arrays alone: in package bifs, a slice of values obtained from a *Mlrval parameter (AcquireArrayValue, GetArray, a type assertion of its payload), or a re-slice or merge of one, is never passed to a sorting function (sort.Slice, sort.SliceStable, sort.Sort, slices.Sort…) and none of its slots is stored to — sorting or filling happens on a copy. $m = median($v) must not reorder the field $v")
	n, nsrc := 0, 0
	for _, fn := range c.ModuleFunctions() {
		if fn.Blocks == nil || fn.Pkg == nil || !strings.HasSuffix(fn.Pkg.Pkg.Path(), "/pkg/bifs") {
			continue
		}
		root := fn
		for root.Parent() != nil {
			root = root.Parent()
		}
		isMlrvalParam := func(v ssa.Value) bool {
			p, ok := v.(*ssa.Parameter)
			return ok && isMlrvalPtr(p.Type())
		}
		tainted := map[ssa.Value]bool{}
		changed := true
		for changed {
			changed = false
			for _, b := range fn.Blocks {
				for _, in := range b.Instrs {
					v, ok := in.(ssa.Value)
					if !ok || tainted[v] {
						continue
					}
					t := false
					switch x := in.(type) {
					case *ssa.Call:
						cn := CalleeName(&x.Call)
						if (strings.HasSuffix(cn, "Mlrval.AcquireArrayValue") || strings.HasSuffix(cn, "Mlrval.GetArray") || strings.HasSuffix(cn, "Mlrval.GetArrayValue")) && len(x.Call.Args) > 0 && isMlrvalParam(x.Call.Args[0]) {
							t = true
							nsrc++
						}
					case *ssa.Extract:
						t = tainted[x.Tuple]
					case *ssa.Slice:
						t = tainted[x.X]
					case *ssa.Phi:
						for _, e := range x.Edges {
							if tainted[e] {
								t = true
							}
						}
					case *ssa.ChangeType:
						t = tainted[x.X]
					case *ssa.UnOp:
						// a load from a local cell (a variable captured by a closure) that was assigned a tainted slice
						if al, ok := x.X.(*ssa.Alloc); ok && x.Op == token.MUL {
							for _, ref := range *al.Referrers() {
								if st, ok := ref.(*ssa.Store); ok && st.Addr == ssa.Value(al) && tainted[st.Val] {
									t = true
								}
							}
						}
					}
					if t {
						tainted[v] = true
						changed = true
					}
				}
			}
		}
		if len(tainted) == 0 {
			continue
		}
		idx := 0
		for _, b := range fn.Blocks {
			for _, in := range b.Instrs {
				switch x := in.(type) {
				case ssa.CallInstruction:
					cn := CalleeName(x.Common())
					if i := strings.Index(cn, "["); i > 0 {
						cn = cn[:i]
					}
					if !(stableSortAPIs[cn] || unstableSortAPIs[cn] || identicalTieSortAPIs[cn]) {
						continue
					}
					args := x.Common().Args
					if len(args) == 0 {
						continue
					}
					a0 := args[0]
					if mi, ok := a0.(*ssa.MakeInterface); ok {
						a0 = mi.X
					}
					n++
					if tainted[a0] {
						idx++
						r.Fail("R03.7", fmt.Sprintf("%s sorts an argument's array #%d", SSAName(fn), idx), c.Rel(x.Pos()),
							fmt.Sprintf("%s passes the slice it obtained from its *Mlrval parameter to %s: the caller's array — a record field that was only read — is reordered in place", SSAName(fn), cn))
					}
				case *ssa.Store:
					if ia, ok := x.Addr.(*ssa.IndexAddr); ok && tainted[ia.X] {
						idx++
						n++
						r.Fail("R03.7", fmt.Sprintf("%s stores into an argument's array #%d", SSAName(fn), idx), c.Rel(x.Pos()),
							fmt.Sprintf("%s stores into a slot of the slice it obtained from its *Mlrval parameter: the caller's array is altered in place", SSAName(fn)))
					}
				}
			}
		}
	}
	r.OK("R03.7", "arrays taken from arguments in package bifs", "", fmt.Sprintf("%d arrays taken from parameters, %d sort calls and slot stores examined", nsrc, n))
	r.Floor("R03.7", "arrays taken from parameters", nsrc, 10)
}

// c04SubsliceIndex (R04.14): the index of a range over a sub-slice is not an
// index into the whole slice.
func c04SubsliceIndex(c *Ctx, r *Report) {
	r.Rule("R04.14", "an index into a sub-slice stays with the sub-slice: where a loop ranges over s[a:] (a lower bound that is not the constant 0) and its index variable i is used to index s itself — the same slice value, or a re-load of the same variable — the element addressed is s[i], not s[a+i]: freshly appended records overwrite the ones emitted earlier in the same batch, and how many there are depends on the batch size. Expected count on a correct tree: zero; the thorough tier's variant C04-6 is the positive example")
	n := 0
	for _, fn := range c.ModuleFunctions() {
		if fn.Blocks == nil {
			continue
		}
		pk := ""
		if fn.Pkg != nil {
			pk = fn.Pkg.Pkg.Path()
		}
		if subEntrypointPkg(pk) {
			continue
		}
		idxN := 0
		for _, b := range fn.Blocks {
			for _, in := range b.Instrs {
				sub, ok := in.(*ssa.Slice)
				if !ok || sub.Low == nil {
					continue
				}
				if k, isK := sub.Low.(*ssa.Const); isK && k.Value != nil && k.Value.Kind() == constant.Int {
					if v, ok := constant.Int64Val(k.Value); ok && v == 0 {
						continue
					}
				}
				if _, isSlice := sub.Type().Underlying().(*types.Slice); !isSlice {
					continue
				}
				// a range loop over sub: its index value i satisfies i < len(sub) and indexes sub
				var idxs []ssa.Value
				for _, ref := range *sub.Referrers() {
					ia, ok := ref.(*ssa.IndexAddr)
					if ok && ia.X == ssa.Value(sub) {
						// is the index compared with len(sub)?
						if ia.Index.Referrers() != nil {
							for _, r2 := range *ia.Index.Referrers() {
								if cmp, ok := r2.(*ssa.BinOp); ok && cmp.Op == token.LSS && cmp.X == ia.Index {
									if call, ok := cmp.Y.(*ssa.Call); ok {
										if bi, ok := call.Call.Value.(*ssa.Builtin); ok && bi.Name() == "len" && call.Call.Args[0] == ssa.Value(sub) {
											idxs = append(idxs, ia.Index)
										}
									}
								}
							}
						}
					}
				}
				if len(idxs) == 0 {
					continue
				}
				n++
				// the same index applied to the whole slice
				for _, idx := range idxs {
					for _, r2 := range *idx.Referrers() {
						ia, ok := r2.(*ssa.IndexAddr)
						if !ok || ia.Index != idx || ia.X == ssa.Value(sub) {
							continue
						}
						if ia.X == sub.X || sameStr(ia.X, sub.X) {
							idxN++
							r.Fail("R04.14", fmt.Sprintf("%s: sub-slice index on the whole slice #%d", SSAName(fn), idxN), c.Rel(ia.Pos()),
								fmt.Sprintf("%s ranges over a sub-slice s[a:] and uses the loop index to address s itself at %s: that is element i, not a+i — the loop overwrites the first elements of s instead of the ones it reads", SSAName(fn), c.Rel(ia.Pos())))
						}
					}
				}
			}
		}
	}
	r.OK("R04.14", "range loops over sub-slices", "", fmt.Sprintf("%d loops over s[a:] examined", n))
	r.Floor("R04.14", "range loops over sub-slices with a non-zero lower bound", n, 1)
}

// c05PopenFileName (R05.13): a file name reaches a shell command line only
// through the quoting function.
func c05PopenFileName(c *Ctx, r *Report) {
	r.Rule("R05.13", "a file name reaches the shell quoted: in package lib, every string handed to OpenInboundHalfPipe (the command line of a --prepipe / --prepipex child) is put together from the prepipe command, constants and escapeFileNameForPopen(name) — a string parameter of the function other than the command itself never goes into the concatenation directly (a name with a space or a ; would be read as shell syntax: other files read under this FILENAME, other commands run)")
	open := c.SSAFunc(c.LookupFunc("pkg/lib", "OpenInboundHalfPipe"))
	esc := c.SSAFunc(c.LookupFunc("pkg/lib", "escapeFileNameForPopen"))
	if open == nil || esc == nil {
		r.Undecided("R05.13", "anchors", "", "OpenInboundHalfPipe / escapeFileNameForPopen not found")
		return
	}
	n := 0
	for _, fn := range c.ModuleFunctions() {
		if fn.Blocks == nil || fn.Pkg == nil || !strings.HasSuffix(fn.Pkg.Pkg.Path(), "/pkg/lib") {
			continue
		}
		for _, b := range fn.Blocks {
			for _, in := range b.Instrs {
				call, ok := in.(*ssa.Call)
				if !ok || call.Call.StaticCallee() != open {
					continue
				}
				n++
				// leaves of the concatenation tree (through phis and local cells)
				var raw []string
				seen := map[ssa.Value]bool{}
				var leaves func(v ssa.Value, depth int)
				leaves = func(v ssa.Value, depth int) {
					if seen[v] || depth > 10 {
						return
					}
					seen[v] = true
					switch x := v.(type) {
					case *ssa.BinOp:
						if x.Op == token.ADD {
							leaves(x.X, depth+1)
							leaves(x.Y, depth+1)
							return
						}
					case *ssa.Phi:
						for _, e := range x.Edges {
							leaves(e, depth+1)
						}
						return
					case *ssa.UnOp:
						if al, ok := x.X.(*ssa.Alloc); ok && x.Op == token.MUL {
							for _, ref := range *al.Referrers() {
								if st, ok := ref.(*ssa.Store); ok && st.Addr == ssa.Value(al) {
									leaves(st.Val, depth+1)
								}
							}
							return
						}
					case *ssa.Const:
						return
					case *ssa.Call:
						if x.Call.StaticCallee() == esc {
							return
						}
					case *ssa.Parameter:
						// the command itself: the parameter that also appears alone (stdin case) or first in the concatenation
						raw = append(raw, x.Name())
						return
					}
					raw = append(raw, v.Name())
				}
				leaves(call.Call.Args[0], 0)
				// one raw string parameter is the prepipe command; more than one means a name went in unquoted
				uniq := map[string]bool{}
				for _, s := range raw {
					uniq[s] = true
				}
				var names []string
				for s := range uniq {
					names = append(names, s)
				}
				sort.Strings(names)
				r.Check(len(names) <= 1, "R05.13", SSAName(fn)+": command for OpenInboundHalfPipe", c.Rel(call.Pos()), "built from the command, constants and quoted names",
					fmt.Sprintf("%s builds the command line from %d unquoted run-time strings (%s): besides the prepipe command itself a file name goes to the shell as it is", SSAName(fn), len(names), strings.Join(names, ", ")))
			}
		}
	}
	r.Floor("R05.13", "command lines built for prepipe children", n, 1)
}

// c03PrintrepReads (R03.8): the retained text is read only when it is valid.
func c03PrintrepReads(c *Ctx, r *Report) {
	r.Rule("R03.8", "the text of a value is read only when it is there: a value computed in the process has no text until it is first needed (printrepValid is false and printrep empty), so every load of Mlrval.printrep in package mlrval either lies on the true edge of a test of printrepValid of the same value, follows a call that renders it (setPrintRep, String) on that value, reads a value under construction (the function stored printrep itself), or happens in a function whose callers establish validity (the inference entry points, which run on values that came from text). Elsewhere the text is obtained through String() / OriginalString()")
	p := c.Pkg("pkg/mlrval")
	if p == nil {
		r.Undecided("R03.8", "pkg/mlrval", "", "package not loaded")
		return
	}
	n := 0
	tableCells := map[*ssa.Function]bool{}
	rs := NewRetSum(c)
	for _, t := range rs.tables {
		for i := 0; i < K_DIM; i++ {
			for j := 0; j < K_DIM; j++ {
				if t.Dim == 1 && j > 0 {
					break
				}
				if cf := t.Cell(i, j); cf != nil {
					if sf := c.SSAFunc(cf); sf != nil {
						tableCells[sf] = true
					}
				}
			}
		}
	}
	for _, fn := range c.ModuleFunctions() {
		if fn.Blocks == nil || fn.Pkg == nil || fn.Pkg.Pkg != p.Types {
			continue
		}
		// functions that run on from-text values by construction: inferrers and scan helpers (names frozen by role)
		root := fn
		for root.Parent() != nil {
			root = root.Parent()
		}
		rn := root.Name()
		fromText := strings.HasPrefix(rn, "infer") || strings.HasPrefix(rn, "Infer") || strings.Contains(rn, "Infer") || strings.HasPrefix(rn, "SetFrom") || strings.HasPrefix(rn, "setFrom")
		idx := 0
		for _, b := range fn.Blocks {
			for ii, in := range b.Instrs {
				ld, ok := in.(*ssa.UnOp)
				if !ok || ld.Op != token.MUL {
					continue
				}
				base, name, ok := mlrvalField(ld.X)
				if !ok || name != "printrep" {
					continue
				}
				n++
				idx++
				key := fmt.Sprintf("%s: read of printrep #%d", SSAName(fn), idx)
				if fromText {
					r.OK("R03.8", key, c.Rel(ld.Pos()), "an inference / from-text function: the value came from text")
					continue
				}
				okRead := false
				// (a) guard on printrepValid of the same value
				for _, g := range GuardsAt(b) {
					if u, ok := g.Cond.(*ssa.UnOp); ok && u.Op == token.MUL && g.Polarity {
						if bb, nm, ok := mlrvalField(u.X); ok && nm == "printrepValid" && (bb == base || sameValue(bb, base) || sameStr(bb, base)) {
							okRead = true
						}
					}
				}
				// (b) a rendering call on the same value, or a store of printrep to it, earlier in this block or in a dominator
				if !okRead {
					for d := b; d != nil && !okRead; d = d.Idom() {
						for jj, din := range d.Instrs {
							if d == b && jj >= ii {
								break
							}
							switch x := din.(type) {
							case ssa.CallInstruction:
								cn := CalleeName(x.Common())
								if (strings.HasSuffix(cn, "Mlrval.setPrintRep") || strings.HasSuffix(cn, "Mlrval.String") || strings.HasSuffix(cn, "Mlrval.OriginalString")) && len(x.Common().Args) > 0 && (x.Common().Args[0] == base || sameStr(x.Common().Args[0], base)) {
									okRead = true
								}
							case *ssa.Store:
								if bb, nm, ok := mlrvalField(x.Addr); ok && nm == "printrep" && (bb == base || sameStr(bb, base)) {
									okRead = true
								}
							}
						}
					}
				}
				// (c) a fresh value built in this function with its text
				if !okRead {
					if _, isAlloc := base.(*ssa.Alloc); isAlloc {
						okRead = true
					}
				}
				// (d) the read is decided by the value's kind: for strings, empties and values whose type is still
				// pending the text *is* the value — a branch on the kind of the same value dominates the read
				if !okRead {
					for _, g := range GuardsAt(b) {
						var kindOf func(v ssa.Value, depth int) bool
						kindOf = func(v ssa.Value, depth int) bool {
							if depth > 4 {
								return false
							}
							switch x := v.(type) {
							case *ssa.UnOp:
								if x.Op == token.MUL {
									if bb, nm, ok := mlrvalField(x.X); ok && nm == "mvtype" && (bb == base || sameStr(bb, base)) {
										return true
									}
								}
								return kindOf(x.X, depth+1)
							case *ssa.BinOp:
								return kindOf(x.X, depth+1) || kindOf(x.Y, depth+1)
							case *ssa.Call:
								cn := CalleeName(&x.Call)
								if strings.HasPrefix(cn, "pkg/mlrval.Mlrval.") && len(x.Call.Args) > 0 && (x.Call.Args[0] == base || sameStr(x.Call.Args[0], base)) {
									m := cn[len("pkg/mlrval.Mlrval."):]
									return m == "Type" || strings.HasPrefix(m, "Is")
								}
							case *ssa.Phi:
								for _, e := range x.Edges {
									if kindOf(e, depth+1) {
										return true
									}
								}
							}
							return false
						}
						if kindOf(g.Cond, 0) {
							okRead = true
						}
					}
				}
				// (d') the same through an || of kind tests (the block is entered from tests of the kind only), or an
				// assertion on the kind earlier in the function (InternalCodingErrorIf(mv.mvtype != …))
				if !okRead {
					var kindOf2 func(v ssa.Value, depth int) bool
					kindOf2 = func(v ssa.Value, depth int) bool {
						if depth > 4 {
							return false
						}
						switch x := v.(type) {
						case *ssa.UnOp:
							if x.Op == token.MUL {
								if bb, nm, ok := mlrvalField(x.X); ok && nm == "mvtype" && (bb == base || sameStr(bb, base)) {
									return true
								}
							}
							return kindOf2(x.X, depth+1)
						case *ssa.BinOp:
							return kindOf2(x.X, depth+1) || kindOf2(x.Y, depth+1)
						case *ssa.Call:
							cn := CalleeName(&x.Call)
							if strings.HasPrefix(cn, "pkg/mlrval.Mlrval.") && len(x.Call.Args) > 0 && (x.Call.Args[0] == base || sameStr(x.Call.Args[0], base)) {
								m := cn[len("pkg/mlrval.Mlrval."):]
								return m == "Type" || strings.HasPrefix(m, "Is")
							}
						case *ssa.Phi:
							for _, e := range x.Edges {
								if kindOf2(e, depth+1) {
									return true
								}
							}
						}
						return false
					}
					allPreds := len(b.Preds) > 0
					for _, pb := range b.Preds {
						iff, isIf := pb.Instrs[len(pb.Instrs)-1].(*ssa.If)
						if !isIf || !kindOf2(iff.Cond, 0) {
							allPreds = false
						}
					}
					if allPreds {
						okRead = true
					}
					for d := b; d != nil && !okRead; d = d.Idom() {
						for jj, din := range d.Instrs {
							if d == b && jj >= ii {
								break
							}
							if call, ok := din.(*ssa.Call); ok && strings.HasSuffix(CalleeName(&call.Call), "InternalCodingErrorIf") && len(call.Call.Args) == 1 && kindOf2(call.Call.Args[0], 0) {
								okRead = true
							}
						}
					}
				}
				// (e) a cell of a disposition table: it runs only for the kinds of its position
				if !okRead && tableCells[root] {
					okRead = true
				}
				r.Check(okRead, "R03.8", key, c.Rel(ld.Pos()), "valid text established",
					fmt.Sprintf("%s reads the printrep field of a value at %s with nothing that establishes its validity (no printrepValid test, no rendering call on the same value before): for a value computed in the process the text is still empty there", SSAName(fn), c.Rel(ld.Pos())))
			}
		}
	}
	r.Floor("R03.8", "reads of Mlrval.printrep in package mlrval", n, 20)
}

// c03ResliceClears (R03.6b): growing a slice within its capacity overwrites
// what the spare capacity still holds.
func c03ResliceClears(c *Ctx, r *Report) {
	r.Rule("R03.6b", "growing within capacity overwrites the old contents: where a function of package mlrval re-slices a slice of values upward within its capacity (s[:n] under a test n <= cap(s)), the loop that follows assigns every slot from the old length to the new one unconditionally — the store is not under a test of the slot's present contents, because an earlier shrink (unset of the last elements) leaves the old values in the spare capacity, and a conditional fill would bring them back")
	p := c.Pkg("pkg/mlrval")
	if p == nil {
		r.Undecided("R03.6b", "pkg/mlrval", "", "package not loaded")
		return
	}
	n := 0
	for _, fn := range c.ModuleFunctions() {
		if fn.Blocks == nil || fn.Pkg == nil || fn.Pkg.Pkg != p.Types {
			continue
		}
		for _, b := range fn.Blocks {
			for _, in := range b.Instrs {
				sl, ok := in.(*ssa.Slice)
				if !ok || sl.High == nil || sl.Low != nil {
					continue
				}
				if !strings.HasSuffix(sl.Type().String(), "[]*"+modPath+"/pkg/mlrval.Mlrval") && !strings.HasSuffix(sl.Type().String(), "[]*Mlrval") {
					continue
				}
				// under a test against cap(s)
				underCap := false
				for _, g := range GuardsAt(b) {
					if cmp, ok := g.Cond.(*ssa.BinOp); ok {
						for _, side := range []ssa.Value{cmp.X, cmp.Y} {
							if call, ok := side.(*ssa.Call); ok {
								if bi, ok := call.Call.Value.(*ssa.Builtin); ok && bi.Name() == "cap" {
									underCap = true
								}
							}
						}
					}
				}
				if !underCap {
					continue
				}
				n++
				// stores into slots of the re-sliced value
				bad, nst := "", 0
				for _, ref := range *sl.Referrers() {
					ia, ok := ref.(*ssa.IndexAddr)
					if !ok {
						continue
					}
					for _, r2 := range *ia.Referrers() {
						st, ok := r2.(*ssa.Store)
						if !ok || st.Addr != ssa.Value(ia) {
							continue
						}
						nst++
						// guards between the re-slice and the store other than the loop bound: a test that reads the slot
						for _, g := range GuardsAt(st.Block()) {
							if g.Block == nil || !b.Dominates(g.Block) {
								continue
							}
							readsSlot := false
							var walk func(v ssa.Value, depth int)
							walk = func(v ssa.Value, depth int) {
								if depth > 4 {
									return
								}
								switch x := v.(type) {
								case *ssa.UnOp:
									if ia2, ok := x.X.(*ssa.IndexAddr); ok && ia2.X == ssa.Value(sl) {
										readsSlot = true
									}
									walk(x.X, depth+1)
								case *ssa.BinOp:
									walk(x.X, depth+1)
									walk(x.Y, depth+1)
								}
							}
							walk(g.Cond, 0)
							if readsSlot {
								bad = c.Rel(st.Pos())
							}
						}
					}
				}
				if nst == 0 {
					bad = "(no slot is assigned at all)"
				}
				r.Check(bad == "", "R03.6b", SSAName(fn)+": growth within capacity", c.Rel(sl.Pos()), "every new slot is assigned unconditionally",
					fmt.Sprintf("%s grows a slice of values within its capacity at %s and fills the new slots only under a test of what they hold now (store at %s): values removed by an earlier shrink are still there and come back instead of the fill value", SSAName(fn), c.Rel(sl.Pos()), bad))
			}
		}
	}
	r.Floor("R03.6b", "growths of a value slice within its capacity", n, 1)
}

// R05.14: end blocks run in the context of the end of the stream. put/filter
// hands its runtime state the context that came with the end-of-stream marker
// (final NR, FNR, FILENAME, FILENUM) before it runs the end blocks, on every
// path — not only when no record was seen.
func c05EndContext(c *Ctx, r *Report) {
	r.Rule("R05.14", "end blocks run in the context of the end of the stream: in the verbs, every call of RootNode.ExecuteEndBlocks is dominated by a call of runtime.State.Update that no record-path call (ExecuteMainBlock) is dominated by — the state is brought up to the context carried by the end-of-stream marker on every path to the end blocks, or NR / FILENAME in an end block are those of the last record this put happened to receive")
	n := 0
	for _, fn := range c.ModuleFunctions() {
		if fn.Pkg == nil || fn.Blocks == nil || !strings.Contains(fn.Pkg.Pkg.Path(), "/pkg/transformers") {
			continue
		}
		var ends, mains, updates []*ssa.Call
		for _, b := range fn.Blocks {
			for _, in := range b.Instrs {
				call, ok := in.(*ssa.Call)
				if !ok {
					continue
				}
				cn := CalleeName(&call.Call)
				switch {
				case strings.HasSuffix(cn, "RootNode.ExecuteEndBlocks"):
					ends = append(ends, call)
				case strings.HasSuffix(cn, "RootNode.ExecuteMainBlock"):
					mains = append(mains, call)
				case strings.HasSuffix(cn, "runtime.State.Update"):
					updates = append(updates, call)
				}
			}
		}
		for i, e := range ends {
			n++
			key := fmt.Sprintf("%s: ExecuteEndBlocks #%d", SSAName(fn), i+1)
			ok := false
			for _, u := range updates {
				dominatesEnd := u.Block() == e.Block() || u.Block().Dominates(e.Block())
				if u.Block() == e.Block() {
					// same block: the update must come first
					for _, in := range u.Block().Instrs {
						if in == ssa.Instruction(u) {
							break
						}
						if in == ssa.Instruction(e) {
							dominatesEnd = false
						}
					}
				}
				onRecordPath := false
				for _, m := range mains {
					if u.Block() == m.Block() || u.Block().Dominates(m.Block()) {
						onRecordPath = true
					}
				}
				if dominatesEnd && !onRecordPath {
					ok = true
				}
			}
			r.Check(ok, "R05.14", key, c.Rel(e.Pos()), "after an unconditional State.Update in the end-of-stream branch",
				fmt.Sprintf("%s runs the end blocks on a path on which the runtime state has not been updated with the end-of-stream context: NR, FNR, FILENAME and FILENUM in an end block are then those of the last record this verb received, not of the end of the input", SSAName(fn)))
		}
	}
	r.Floor("R05.14", "calls of ExecuteEndBlocks in the verbs", n, 1)
}

// R05.15: file-name flags add to the list. --from, --mfrom, --files, --load
// and --mload may be repeated and mixed; each adds to what is there.
func c05FileNameFlagsAppend(c *Ctx, r *Report) {
	r.Rule("R05.15", "file-name flags add to the list: in package cli (the flag table's closures), every store to the options' FileNames or DSLPreloadFileNames field stores append(…) of a list that starts from the field's own present value — a flag that assigns a list it collected on the side drops the files named by the flags before it (--from a --mfrom b c --)")
	n := 0
	for _, fn := range c.ModuleFunctions() {
		if fn.Pkg == nil || fn.Blocks == nil || !strings.HasSuffix(fn.Pkg.Pkg.Path(), "/pkg/cli") {
			continue
		}
		k := 0
		for _, b := range fn.Blocks {
			for _, in := range b.Instrs {
				st, ok := in.(*ssa.Store)
				if !ok {
					continue
				}
				base, fname, ok := fieldAddrName(st.Addr)
				if !ok || (fname != "FileNames" && fname != "DSLPreloadFileNames") {
					continue
				}
				// the options handed to a flag parser, not a struct under construction
				if _, isParam := base.(*ssa.Parameter); !isParam {
					continue
				}
				n++
				k++
				key := fmt.Sprintf("%s: store to %s #%d", flagClosureName(c, fn), fname, k)
				var fromField func(v ssa.Value, depth int) bool
				fromField = func(v ssa.Value, depth int) bool {
					if depth > 8 {
						return false
					}
					switch x := v.(type) {
					case *ssa.Call:
						if bi, ok := x.Call.Value.(*ssa.Builtin); ok && bi.Name() == "append" {
							return fromField(x.Call.Args[0], depth+1)
						}
					case *ssa.Phi:
						for _, e := range x.Edges {
							if e == v {
								continue
							}
							if !fromField(e, depth+1) {
								return false
							}
						}
						return len(x.Edges) > 0
					case *ssa.UnOp:
						_, name, ok := fieldLoadName(x)
						return ok && name == fname
					}
					return false
				}
				isAppend := false
				if call, ok := st.Val.(*ssa.Call); ok {
					if bi, ok := call.Call.Value.(*ssa.Builtin); ok && bi.Name() == "append" {
						isAppend = true
					}
				}
				r.Check(isAppend && fromField(st.Val, 0), "R05.15", key, c.Rel(st.Pos()), "append onto the field's present value",
					fmt.Sprintf("%s assigns %s a list that does not start from the field's present value: the names put there by earlier flags on the same command line are dropped", SSAName(fn), fname))
			}
		}
	}
	r.Floor("R05.15", "stores to the file-name lists in package cli", n, 5)
}
