package main

// C07 — arithmetic: the no-crash clause and the dispatch wiring (kernels sit
// in the right cell, keep int-ness where documented, and apply the operator
// the DSL operator denotes).

import (
	"fmt"
	"go/token"
	"go/types"
	"sort"
	"strings"

	"golang.org/x/tools/go/ssa"
)

func init() { register("C07", true, runC07) }

func runC07(c *Ctx, r *Report) {
	r.Explanation = "Exactness, overflow detection and sign conventions quantify over operand values and are not decided. Decided are the no-crash clause (every integer division/modulus has a divisor proven non-zero, every shift an unsigned count) and the dispatch wiring of all arithmetic/bit/min/max/comparison operators: each operator has its own disposition matrix; every kernel can only sit in a cell whose operand kinds its typed accesses accept (a transposed _if/_fi pair aborts); the cells the statement lists as int-preserving construct no float; mixed int/float cells return floats; and each numeric kernel applies the Go operator that the DSL operator denotes, with the left operand on the left."
	r.NotDecided = "exact results, detection of overflow (sign-change tests, float thresholds), floor/modulus sign conventions, exponentiation by squaring, modular arithmetic values, NaN/Inf handling."
	if err := c.MTKinds(); err != nil {
		r.Undecided("R07.0", "MT kinds", "", err.Error())
		return
	}
	r.Rule("R07.1", "guarded integer division: every integer / % whose divisor is not a non-zero constant has a divisor proven non-zero (dominating test, or all stores/arguments proven non-zero)")
	checkIntDivision(c, r, "R07.1")
	r.Rule("R07.2", "shifts cannot panic: every shift with a non-constant count has an unsigned count type (or a dominating non-negativity test)")
	checkShifts(c, r, "R07.2")

	c07RoundTrips(c, r)
	c07NumericToFloatBack(c, r)

	r.Rule("R07.3", "kernels match their cell: for every disposition table the kernel in cell (i,j) accepts operand kinds (i,j) — derived from the typed accesses in the kernel (kind-guard analysis)")
	kg := runKindGuard(c, r, "R07.3", func(*DispTable) bool { return true })
	var tabs []*DispTable
	for _, t := range kg.rs.tables {
		tabs = append(tabs, t)
	}
	sort.Slice(tabs, func(i, j int) bool { return tabs[i].Name < tabs[j].Name })
	checkCells(c, r, kg, "R07.3", tabs)

	rs := kg.rs
	reg, msg := c.BIFRegistry()
	if msg != "" {
		r.Undecided("R07.4", "registry", "", msg)
		return
	}
	allBin := []string{"+", "-", "*", "/", "//", "%", "**", ".+", ".-", ".*", "./", "&", "|", "^", "<<", ">>", ">>>", "<", "<=", ">", ">=", "==", "!=", "min", "max"}
	ot := operatorTables(c, r, rs, reg, "R07.5", allBin)
	sum := func(t *DispTable, i, j int) TokSet {
		f := t.Cell(i, j)
		if f == nil {
			return tokset("OTHER")
		}
		return rs.Of(c.SSAFunc(f)).Kinds()
	}
	// ---- R07.4
	r.Rule("R07.4", "int-preserving cells: for .+ .- .* & | ^ << >> >>> min max the (INT,INT) cell constructs no float (./ only for a zero divisor); for + - * / // ** % it returns INT or FLOAT only; mixed INT/FLOAT cells of the arithmetic operators return FLOAT only; unary ~ and abs/ceil/floor/round/sgn keep INT")
	for _, op := range []string{".+", ".-", ".*", "&", "|", "^", "<<", ">>", ">>>", "min", "max"} {
		if o := ot[op]; o != nil {
			s := sum(o.Tab, K_INT, K_INT)
			r.Check(s.SubsetOf("INT", "ARG1", "ARG2"), "R07.4", "operator "+op+" (INT,INT)", c.Rel(o.Tab.Pos), o.Tab.Cell(K_INT, K_INT).Name()+" → "+s.String(),
				fmt.Sprintf("operator %s is documented as int-preserving but its (INT,INT) kernel %s can return %s", op, o.Tab.Cell(K_INT, K_INT).Name(), s))
		}
	}
	if o := ot["./"]; o != nil {
		s := sum(o.Tab, K_INT, K_INT)
		r.Check(s.SubsetOf("INT", "FLOAT"), "R07.4", "operator ./ (INT,INT)", c.Rel(o.Tab.Pos), s.String()+" (FLOAT only for a zero divisor)", "the (INT,INT) kernel of ./ returns "+s.String())
	}
	for _, op := range []string{"+", "-", "*", "/", "//", "**", "%"} {
		if o := ot[op]; o != nil {
			s := sum(o.Tab, K_INT, K_INT)
			r.Check(s.SubsetOf("INT", "FLOAT", "ERROR"), "R07.4", "operator "+op+" (INT,INT)", c.Rel(o.Tab.Pos), s.String(), fmt.Sprintf("the (INT,INT) kernel of %s returns %s, expected INT or FLOAT", op, s))
			for _, ij := range [][2]int{{K_INT, K_FLOAT}, {K_FLOAT, K_INT}, {K_FLOAT, K_FLOAT}} {
				s2 := sum(o.Tab, ij[0], ij[1])
				okMix := s2.SubsetOf("FLOAT", "ERROR")
				if op == "//" || op == "%" || op == "**" {
					okMix = s2.SubsetOf("FLOAT", "INT", "ERROR")
				}
				r.Check(okMix, "R07.4", fmt.Sprintf("operator %s (%s,%s)", op, kindNames[ij[0]], kindNames[ij[1]]), c.Rel(o.Tab.Pos), s2.String(),
					fmt.Sprintf("the (%s,%s) kernel of %s returns %s, expected FLOAT", kindNames[ij[0]], kindNames[ij[1]], op, s2))
			}
		}
	}
	// unary ~ and the int-preserving math functions
	if e := c.BIFByName(reg, "~"); e != nil && e.Funcs["unaryFunc"] != nil {
		for _, t := range rs.DispatchTablesOf(c.SSAFunc(e.Funcs["unaryFunc"]), 0) {
			s := rs.Of(c.SSAFunc(t.Cell(K_INT, 0))).Kinds()
			r.Check(s.SubsetOf("INT"), "R07.4", "operator ~ (INT)", c.Rel(t.Pos), s.String(), "unary ~ on an int returns "+s.String())
		}
	}
	for _, name := range []string{"abs", "ceil", "floor", "round", "sgn"} {
		e := c.BIFByName(reg, name)
		if e == nil || e.Funcs["unaryFunc"] == nil {
			r.Undecided("R07.4", "function "+name, "", "not registered as a unary function")
			continue
		}
		tl := rs.DispatchTablesOf(c.SSAFunc(e.Funcs["unaryFunc"]), 0)
		if len(tl) != 1 {
			r.Undecided("R07.4", "function "+name, c.Rel(e.Pos), "does not dispatch through exactly one vector")
			continue
		}
		s := rs.Of(c.SSAFunc(tl[0].Cell(K_INT, 0))).Kinds()
		r.Check(s.SubsetOf("INT", "ARG1"), "R07.4", "function "+name+" (INT)", c.Rel(tl[0].Pos), tl[0].Name+"[INT] → "+s.String(), fmt.Sprintf("%s of an int goes through %s whose INT cell returns %s: int-ness is lost", name, tl[0].Name, s))
	}
	for _, name := range []string{"madd", "msub", "mmul", "mexp"} {
		e := c.BIFByName(reg, name)
		if e == nil || e.Funcs["ternaryFunc"] == nil {
			r.Undecided("R07.4", "function "+name, "", "not registered as a ternary function")
			continue
		}
		s := rs.Of(c.SSAFunc(e.Funcs["ternaryFunc"])).Kinds()
		r.Check(!s.Has("FLOAT"), "R07.4", "function "+name, c.Rel(e.Pos), s.String(), name+" can return a float: "+s.String())
	}

	// ---- R07.10
	var dotKernel *types.Func
	if o := ot["./"]; o != nil {
		dotKernel = o.Tab.Cell(K_INT, K_INT)
	}
	c07UnfitQuotient(c, r, dotKernel)

	// ---- R07.5 operator signature
	r.Rule("R07.5", "operator signature of the kernels: no two operators share a disposition matrix, and the numeric kernels ((INT|FLOAT)×(INT|FLOAT)) of each operator apply the Go operator the DSL operator denotes to values derived from both operands, left operand on the left for the non-commutative ones (+ ADD, - SUB, * MUL, / and // QUO, % REM, & AND, | OR, ^ XOR, << SHL, >> SHR of a signed and >>> SHR of an unsigned left operand, relational LSS/LEQ/GTR/GEQ/EQL/NEQ, min/max a comparison or math.Min/Max)")
	used := map[*DispTable]string{}
	for _, op := range allBin {
		o := ot[op]
		if o == nil {
			continue
		}
		if prev, dup := used[o.Tab]; dup {
			r.Fail("R07.5", "operator "+op+" table", c.Rel(o.Entry.Pos), fmt.Sprintf("operators %s and %s dispatch through the same matrix %s", prev, op, o.Tab.Name))
			continue
		}
		used[o.Tab] = op
		want := opTokens[op]
		if len(want.toks) == 0 && len(want.calls) == 0 {
			continue
		}
		cells := [][2]int{{K_INT, K_INT}, {K_INT, K_FLOAT}, {K_FLOAT, K_INT}, {K_FLOAT, K_FLOAT}}
		if want.intOnly {
			cells = [][2]int{{K_INT, K_INT}}
		}
		for _, ij := range cells {
			f := c.SSAFunc(o.Tab.Cell(ij[0], ij[1]))
			if f == nil {
				continue
			}
			ok, found := kernelApplies(f, want, 0)
			key := fmt.Sprintf("operator %s kernel (%s,%s)", op, kindNames[ij[0]], kindNames[ij[1]])
			r.Check(ok, "R07.5", key, c.Rel(f.Pos()), f.Name()+" applies "+found,
				fmt.Sprintf("kernel %s of operator %s does not apply %s to (left operand, right operand) — found %s: the operator computes something else for every operand pair", f.Name(), op, want.describe(), found))
		}
	}
}

type opSig struct {
	toks    []token.Token
	calls   []string // acceptable library calls instead (math.Pow, math.Min …)
	commut  bool
	intOnly bool
	altNegR bool // SUB may be written as ADD of the negated right operand
	// for the right shifts: the static type of the shifted operand decides
	// between sign extension and zero fill
	leftSign string
}

func (o opSig) describe() string {
	var parts []string
	for _, t := range o.toks {
		parts = append(parts, t.String())
	}
	parts = append(parts, o.calls...)
	return strings.Join(parts, " or ")
}

var opTokens = map[string]opSig{
	"+":   {toks: []token.Token{token.ADD}, commut: true},
	".+":  {toks: []token.Token{token.ADD}, commut: true},
	"-":   {toks: []token.Token{token.SUB}, altNegR: true},
	".-":  {toks: []token.Token{token.SUB}, altNegR: true},
	"*":   {toks: []token.Token{token.MUL}, commut: true, calls: []string{"math/bits.Mul64"}},
	".*":  {toks: []token.Token{token.MUL}, commut: true},
	"/":   {toks: []token.Token{token.QUO}},
	"./":  {toks: []token.Token{token.QUO}},
	"//":  {toks: []token.Token{token.QUO}, calls: []string{"math.Floor"}},
	"%":   {toks: []token.Token{token.REM}, calls: []string{"math.Mod", "math.Floor"}},
	"**":  {toks: []token.Token{token.MUL}, calls: []string{"math.Pow"}, commut: true},
	"&":   {toks: []token.Token{token.AND}, commut: true, intOnly: true},
	"|":   {toks: []token.Token{token.OR}, commut: true, intOnly: true},
	"^":   {toks: []token.Token{token.XOR}, commut: true, intOnly: true},
	"<<":  {toks: []token.Token{token.SHL}, intOnly: true},
	">>":  {toks: []token.Token{token.SHR}, intOnly: true, leftSign: "signed"},
	">>>": {toks: []token.Token{token.SHR}, intOnly: true, leftSign: "unsigned"},
	"<":   {toks: []token.Token{token.LSS}},
	"<=":  {toks: []token.Token{token.LEQ}},
	">":   {toks: []token.Token{token.GTR}},
	">=":  {toks: []token.Token{token.GEQ}},
	"==":  {toks: []token.Token{token.EQL}, commut: true},
	"!=":  {toks: []token.Token{token.NEQ}, commut: true},
	"min": {toks: []token.Token{token.LSS, token.GTR, token.LEQ, token.GEQ}, calls: []string{"math.Min"}, commut: true},
	"max": {toks: []token.Token{token.LSS, token.GTR, token.LEQ, token.GEQ}, calls: []string{"math.Max"}, commut: true},
}

// derivesFrom: v is computed from parameter p of fn through typed accessors,
// conversions, negation and local arithmetic.
func derivesFromParam(v ssa.Value, p *ssa.Parameter, depth int) bool {
	if v == ssa.Value(p) {
		return true
	}
	if depth > 6 {
		return false
	}
	switch x := v.(type) {
	case *ssa.Call:
		for _, a := range x.Call.Args {
			if derivesFromParam(a, p, depth+1) {
				return true
			}
		}
	case *ssa.Convert:
		return derivesFromParam(x.X, p, depth+1)
	case *ssa.ChangeType:
		return derivesFromParam(x.X, p, depth+1)
	case *ssa.UnOp:
		return derivesFromParam(x.X, p, depth+1)
	case *ssa.BinOp:
		return derivesFromParam(x.X, p, depth+1) || derivesFromParam(x.Y, p, depth+1)
	case *ssa.Phi:
		for _, e := range x.Edges {
			if derivesFromParam(e, p, depth+1) {
				return true
			}
		}
	case *ssa.TypeAssert:
		return derivesFromParam(x.X, p, depth+1)
	case *ssa.FieldAddr:
		return derivesFromParam(x.X, p, depth+1)
	case *ssa.Extract:
		return derivesFromParam(x.Tuple, p, depth+1)
	}
	return false
}

// kernelApplies: does kernel f (or a static helper it hands both operands
// to) contain the wanted operation on (operand0, operand1)?
func kernelApplies(f *ssa.Function, want opSig, depth int) (bool, string) {
	if f == nil || f.Blocks == nil || len(f.Params) < 2 || depth > 2 {
		return false, "nothing"
	}
	p0, p1 := f.Params[0], f.Params[1]
	var found []string
	for _, b := range f.Blocks {
		for _, in := range b.Instrs {
			switch x := in.(type) {
			case *ssa.BinOp:
				l0, r1 := derivesFromParam(x.X, p0, 0), derivesFromParam(x.Y, p1, 0)
				l1, r0 := derivesFromParam(x.X, p1, 0), derivesFromParam(x.Y, p0, 0)
				both := (l0 && r1) || (l1 && r0)
				if !both {
					continue
				}
				found = append(found, x.Op.String())
				for _, t := range want.toks {
					if x.Op != t {
						continue
					}
					if want.leftSign != "" {
						bt, _ := x.X.Type().Underlying().(*types.Basic)
						unsigned := bt != nil && bt.Info()&types.IsUnsigned != 0
						if (want.leftSign == "unsigned") != unsigned {
							found = append(found, x.Op.String()+" on a "+x.X.Type().String())
							continue
						}
					}
					if want.commut || (l0 && r1) {
						return true, x.Op.String() + "(left, right)"
					}
					// mirrored comparison: b > a for a < b
					if mirrorTok(t) == x.Op {
						continue
					}
				}
				// a < b written as b > a
				for _, t := range want.toks {
					if mirrorTok(t) == x.Op && mirrorTok(t) != t && l1 && r0 {
						return true, x.Op.String() + "(right, left)"
					}
				}
				if want.altNegR && x.Op == token.ADD {
					// a + (-b)
					if u, ok := x.Y.(*ssa.UnOp); ok && u.Op == token.SUB && l0 && derivesFromParam(u.X, p1, 0) {
						return true, "ADD(left, -right)"
					}
				}
			case *ssa.Call:
				name := CalleeName(&x.Call)
				a0, a1 := false, false
				for _, a := range x.Call.Args {
					if derivesFromParam(a, p0, 0) {
						a0 = true
					}
					if derivesFromParam(a, p1, 0) {
						a1 = true
					}
				}
				if !(a0 && a1) {
					continue
				}
				for _, cn := range want.calls {
					if name == cn {
						return true, "call " + cn
					}
				}
				// helper within the module that receives both operands
				if callee := x.Call.StaticCallee(); callee != nil && IsModuleFunc(callee) && len(x.Call.Args) >= 2 {
					// map our operands onto the helper's first two parameters
					if len(callee.Params) >= 2 && derivesFromParam(x.Call.Args[0], p0, 0) && derivesFromParam(x.Call.Args[1], p1, 0) {
						if ok, what := kernelApplies(callee, want, depth+1); ok {
							return true, "via " + callee.Name() + ": " + what
						}
					}
					if want.altNegR && len(callee.Params) >= 2 && derivesFromParam(x.Call.Args[0], p0, 0) {
						// minus as plus(a, -b): the helper must add
						if ok, what := kernelApplies(callee, opSig{toks: []token.Token{token.ADD}, commut: true}, depth+1); ok {
							return true, "via " + callee.Name() + " on the negated right operand: " + what
						}
					}
				}
			}
		}
	}
	if len(found) == 0 {
		return false, "no operation on both operands"
	}
	return false, strings.Join(uniqStrings(found), ",")
}

func mirrorTok(t token.Token) token.Token {
	switch t {
	case token.LSS:
		return token.GTR
	case token.GTR:
		return token.LSS
	case token.LEQ:
		return token.GEQ
	case token.GEQ:
		return token.LEQ
	}
	return t
}
