package main

// C08 — the null-data algebra, decided on the disposition tables written in
// the source (analysis C) and return summaries of the cell functions (D).

import (
	"fmt"
	"go/types"
	"strings"

	"golang.org/x/tools/go/ssa"
)

func init() { register("C08", true, runC08) }

type opTable struct {
	Op    string
	Entry *BIFEntry
	Fn    *types.Func
	Tab   *DispTable
}

// operatorTables maps DSL operator names to the binary disposition matrix
// their registered implementation dispatches through.
func operatorTables(c *Ctx, r *Report, rs *RetSum, reg []*BIFEntry, rule string, ops []string) map[string]*opTable {
	out := map[string]*opTable{}
	for _, op := range ops {
		e := c.BIFByName(reg, op)
		if e == nil {
			r.Undecided(rule, "operator "+op, "", "operator not found in the built-in function registry")
			continue
		}
		fn := e.Funcs["binaryFunc"]
		depth := 0
		if fn == nil {
			fn = e.Funcs["variadicFunc"]
			depth = 2
		}
		if fn == nil {
			r.Undecided(rule, "operator "+op, c.Rel(e.Pos), "no binary/variadic implementation registered")
			continue
		}
		var tabs []*DispTable
		for _, t := range rs.DispatchTablesOf(c.SSAFunc(fn), depth) {
			if t.Dim == 2 {
				tabs = append(tabs, t)
			}
		}
		if len(tabs) != 1 {
			names := []string{}
			for _, t := range tabs {
				names = append(names, t.Name)
			}
			r.Undecided(rule, "operator "+op, c.Rel(e.Pos), fmt.Sprintf("%s dispatches through %d binary tables %v, expected exactly 1", FuncName(fn), len(tabs), names))
			continue
		}
		out[op] = &opTable{Op: op, Entry: e, Fn: fn, Tab: tabs[0]}
	}
	return out
}

func cellKey(t *DispTable, i, j int) string {
	if t.Dim == 1 {
		return fmt.Sprintf("%s[%s]", t.Name, kindNames[i])
	}
	return fmt.Sprintf("%s[%s][%s]", t.Name, kindNames[i], kindNames[j])
}

func swapTok(t string) string {
	switch t {
	case "ARG1":
		return "ARG2"
	case "ARG2":
		return "ARG1"
	case "NEG(ARG1)":
		return "NEG(ARG2)"
	case "NEG(ARG2)":
		return "NEG(ARG1)"
	}
	return t
}

func swapSet(s TokSet) TokSet {
	o := TokSet{}
	for k := range s {
		o.Add(swapTok(k))
	}
	return o
}

var arithOps = []string{"+", "-", "*", "/", "//", "%", "**", ".+", ".-", ".*", "./"}
var bitOps = []string{"&", "|", "^", "<<", ">>", ">>>"}
var minmaxOps = []string{"min", "max"}
var dotOps = []string{"."}

func runC08(c *Ctx, r *Report) {
	r.Explanation = "The null-data algebra is a finite table written in the source: every operator's disposition matrix (12x12 function cells indexed by operand kinds) is read from its composite literal, every cell function is classified by a computed return summary (which argument / which constant kind it returns), and the statement's clauses (absent is the identity, absent∘absent=absent, unary of absent is absent, empty with a number, error absorbs scalars, commutative operators are symmetric, every cell populated) are checked cell by cell for all kind pairs. Assignment of an absent right-hand side is decided as a guard-dominance rule on the assignment node and the lvalue implementations; compound assignment operators are checked against the registry."
	r.NotDecided = "numeric results of the kernels; behaviour inside collections; that the DSL evaluator reaches these tables for every syntactic form (C14); the value-dependent residue of the is_* predicates (empty string, NaN, empty map)."
	if err := c.MTKinds(); err != nil {
		r.Undecided("R08.0", "MT kinds", "", err.Error())
		return
	}
	rs := NewRetSum(c)
	reg, msg := c.BIFRegistry()
	if msg != "" {
		r.Undecided("R08.0", "registry", "", msg)
		return
	}
	bp := c.Pkg("pkg/bifs")
	tabs := c.DispTables(bp)

	// R08.8 every cell populated
	r.Rule("R08.8", "every disposition table cell (incl. tables filled in init()) resolves to a named function; no nil or missing cell")
	for _, t := range append(tabs, c.DispTables(c.Pkg("pkg/mlrval"))...) {
		if len(t.Errs) == 0 {
			n := K_DIM
			if t.Dim == 2 {
				n = K_DIM * K_DIM
			}
			r.OK("R08.8", t.Name, c.Rel(t.Pos), fmt.Sprintf("%d cells resolved", n))
		} else {
			for _, e := range t.Errs {
				r.Fail("R08.8", t.Name+": "+e, c.Rel(t.Pos), e)
			}
		}
	}
	r.Floor("R08.8", "disposition tables in pkg/bifs", len(tabs), 40)

	sum := func(t *DispTable, i, j int) TokSet {
		f := t.Cell(i, j)
		if f == nil {
			return tokset("OTHER")
		}
		return rs.Of(c.SSAFunc(f))
	}
	cellDesc := func(t *DispTable, i, j int) string {
		f := t.Cell(i, j)
		if f == nil {
			return "<nil>"
		}
		return f.Name() + " → " + sum(t, i, j).String()
	}

	families := map[string][]string{"ARITH": arithOps, "BITS": bitOps, "MINMAX": minmaxOps, "DOT": dotOps}
	allOps := []string{}
	for _, fam := range []string{"ARITH", "BITS", "MINMAX", "DOT"} {
		allOps = append(allOps, families[fam]...)
	}
	ot := operatorTables(c, r, rs, reg, "R08.0", allOps)
	r.Rule("R08.0", "each arithmetic/bit/dot/min/max operator of the registry dispatches through exactly one binary disposition matrix, indexed [input1.Type()][input2.Type()] and called with (input1,input2)")
	usedBy := map[*DispTable]string{}
	for _, op := range allOps {
		o := ot[op]
		if o == nil {
			continue
		}
		if prev, dup := usedBy[o.Tab]; dup && !(prev == "**" || op == "**") {
			r.Fail("R08.0", "operator "+op, c.Rel(o.Entry.Pos), fmt.Sprintf("shares table %s with operator %s", o.Tab.Name, prev))
			continue
		}
		usedBy[o.Tab] = op
		// dispatch shape of the function that directly dispatches
		var direct = c.SSAFunc(o.Fn)
		if o.Entry.Funcs["binaryFunc"] == nil {
			// variadic: find the binary function that dispatches
			for _, f := range c.FuncsOfPkg(bp) {
				sf := c.SSAFunc(f)
				if sf == nil {
					continue
				}
				for _, t := range rs.DispatchTablesOf(sf, 0) {
					if t == o.Tab {
						direct = sf
					}
				}
			}
		}
		idx, args, ok := rs.DispatchShape(direct, o.Tab)
		good := ok && len(idx) == 2 && idx[0] == 0 && idx[1] == 1 && len(args) == 2 && args[0] == 0 && args[1] == 1
		r.Check(good, "R08.0", "operator "+op, c.Rel(o.Entry.Pos),
			fmt.Sprintf("%s → %s[p0.Type()][p1.Type()](p0,p1)", SSAName(direct), o.Tab.Name),
			fmt.Sprintf("dispatch in %s through %s is not [input1.Type()][input2.Type()](input1,input2): index params %v, arg params %v", SSAName(direct), o.Tab.Name, idx, args))
		// the matrix is the whole operator: no other way out of the dispatching function
		if good && direct != nil {
			other := ""
			for _, b := range direct.Blocks {
				ret, isRet := b.Instrs[len(b.Instrs)-1].(*ssa.Return)
				if !isRet || len(ret.Results) != 1 {
					continue
				}
				okRet := false
				var chk func(v ssa.Value, d int) bool
				chk = func(v ssa.Value, d int) bool {
					if d > 4 {
						return false
					}
					switch x := v.(type) {
					case *ssa.Call:
						return x.Call.StaticCallee() == nil && !x.Call.IsInvoke()
					case *ssa.Phi:
						for _, e := range x.Edges {
							if !chk(e, d+1) {
								return false
							}
						}
						return len(x.Edges) > 0
					}
					return false
				}
				okRet = chk(ret.Results[0], 0)
				if !okRet {
					other = c.Rel(ret.Pos())
				}
			}
			r.Check(other == "", "R08.0", "operator "+op+": the matrix is the whole operator", c.Rel(direct.Pos()), "every return is the matrix cell's result",
				fmt.Sprintf("%s has a way out that does not go through %s (return at %s): a pre-check or special case decides some kind combinations before the matrix is consulted, so the cell-by-cell algebra no longer describes the operator (e.g. an absent or empty operand turned into an error)", SSAName(direct), o.Tab.Name, other))
		}
	}

	num := []int{K_INT, K_FLOAT}
	identKinds := func(fam string) []int {
		switch fam {
		case "BITS":
			return []int{K_INT}
		case "MINMAX":
			return []int{K_INT, K_FLOAT, K_BOOL, K_VOID, K_STRING}
		case "DOT":
			return []int{K_INT, K_FLOAT, K_BOOL, K_VOID, K_STRING}
		}
		return num
	}

	r.Rule("R08.1", "absent ∘ absent is absent: cell[ABSENT][ABSENT] returns only ABSENT, in every operator family table")
	r.Rule("R08.2", "x ∘ absent = x: cell[k][ABSENT] returns its first argument (string-coerced for dot), k numeric (INT only for bit operators; plus BOOL/VOID/STRING for min, max and dot)")
	r.Rule("R08.3", "absent ∘ x = x: cell[ABSENT][k] returns its second argument, same k")
	for _, fam := range []string{"ARITH", "BITS", "MINMAX", "DOT"} {
		for _, op := range families[fam] {
			o := ot[op]
			if o == nil {
				continue
			}
			t := o.Tab
			s := sum(t, K_ABSENT, K_ABSENT)
			r.Check(s.Equal(tokset("ABSENT")), "R08.1", cellKey(t, K_ABSENT, K_ABSENT), c.Rel(t.Pos), "operator "+op+": "+cellDesc(t, K_ABSENT, K_ABSENT),
				fmt.Sprintf("operator %s: absent %s absent must be absent; cell is %s", op, op, cellDesc(t, K_ABSENT, K_ABSENT)))
			for _, k := range identKinds(fam) {
				s1 := sum(t, k, K_ABSENT)
				ok1 := s1.Equal(tokset("ARG1")) || (k == K_VOID && s1.Equal(tokset("VOID")))
				if fam == "DOT" {
					ok1 = ok1 || isStringOf(c, t.Cell(k, K_ABSENT), 1)
				}
				r.Check(ok1, "R08.2", cellKey(t, k, K_ABSENT), c.Rel(t.Pos), "operator "+op+": "+cellDesc(t, k, K_ABSENT),
					fmt.Sprintf("operator %s: %s %s absent must return the left operand; cell is %s", op, kindNames[k], op, cellDesc(t, k, K_ABSENT)))
				s2 := sum(t, K_ABSENT, k)
				ok2 := s2.Equal(tokset("ARG2")) || (k == K_VOID && s2.Equal(tokset("VOID")))
				if fam == "DOT" {
					ok2 = ok2 || isStringOf(c, t.Cell(K_ABSENT, k), 2)
				}
				r.Check(ok2, "R08.3", cellKey(t, K_ABSENT, k), c.Rel(t.Pos), "operator "+op+": "+cellDesc(t, K_ABSENT, k),
					fmt.Sprintf("operator %s: absent %s %s must return the right operand; cell is %s", op, op, kindNames[k], cellDesc(t, K_ABSENT, k)))
			}
		}
	}

	// R08.4 unary functions of absent are absent
	r.Rule("R08.4", "unary operators and functions dispatched through a disposition vector return absent for an absent argument; the math-library wrappers return their input when it is absent")
	nvec := 0
	for _, t := range tabs {
		if t.Dim != 1 || t.Arity != 1 {
			continue
		}
		nvec++
		s := sum(t, K_ABSENT, 0)
		ok := s.Equal(tokset("ABSENT")) || s.Equal(tokset("ARG1"))
		r.Check(ok, "R08.4", cellKey(t, K_ABSENT, 0), c.Rel(t.Pos), cellDesc(t, K_ABSENT, 0),
			fmt.Sprintf("unary vector %s: absent input must give absent; cell is %s", t.Name, cellDesc(t, K_ABSENT, 0)))
	}
	r.Floor("R08.4", "unary disposition vectors", nvec, 10)

	// R08.5 empty with a number yields the number for + - * min max (and dot forms)
	r.Rule("R08.5", "empty with a number yields the number for + - * .+ .- .* min max: cell[VOID][num] returns ARG2 (NEG(ARG2) for subtraction), cell[num][VOID] returns ARG1")
	for _, op := range []string{"+", "-", "*", ".+", ".-", ".*", "min", "max"} {
		o := ot[op]
		if o == nil {
			continue
		}
		t := o.Tab
		for _, k := range num {
			s := sum(t, K_VOID, k)
			want := tokset("ARG2")
			if op == "-" || op == ".-" {
				want = tokset("NEG(ARG2)")
			}
			r.Check(s.Equal(want), "R08.5", cellKey(t, K_VOID, k), c.Rel(t.Pos), "operator "+op+": "+cellDesc(t, K_VOID, k),
				fmt.Sprintf("operator %s: empty %s %s must give %s; cell is %s", op, op, kindNames[k], want, cellDesc(t, K_VOID, k)))
			s = sum(t, k, K_VOID)
			r.Check(s.Equal(tokset("ARG1")), "R08.5", cellKey(t, k, K_VOID), c.Rel(t.Pos), "operator "+op+": "+cellDesc(t, k, K_VOID),
				fmt.Sprintf("operator %s: %s %s empty must give the number; cell is %s", op, kindNames[k], op, cellDesc(t, k, K_VOID)))
		}
	}

	// R08.6 error with any scalar yields error
	r.Rule("R08.6", "error with any scalar yields error: cell[ERROR][k] and cell[k][ERROR] return only ERROR for k in INT, FLOAT, BOOL, VOID, STRING (arithmetic, bit, dot operators); for min/max the documented collation applies and is checked as 'ERROR or the error operand itself'")
	for _, fam := range []string{"ARITH", "BITS", "DOT", "MINMAX"} {
		for _, op := range families[fam] {
			o := ot[op]
			if o == nil {
				continue
			}
			t := o.Tab
			for _, k := range []int{K_INT, K_FLOAT, K_BOOL, K_VOID, K_STRING} {
				s := sum(t, K_ERROR, k)
				ok := s.Equal(tokset("ERROR")) || s.Equal(tokset("ARG1"))
				r.Check(ok, "R08.6", cellKey(t, K_ERROR, k), c.Rel(t.Pos), "operator "+op+": "+cellDesc(t, K_ERROR, k),
					fmt.Sprintf("operator %s: error %s %s must be an error; cell is %s", op, op, kindNames[k], cellDesc(t, K_ERROR, k)))
				s = sum(t, k, K_ERROR)
				ok = s.Equal(tokset("ERROR")) || s.Equal(tokset("ARG2"))
				r.Check(ok, "R08.6", cellKey(t, k, K_ERROR), c.Rel(t.Pos), "operator "+op+": "+cellDesc(t, k, K_ERROR),
					fmt.Sprintf("operator %s: %s %s error must be an error; cell is %s", op, kindNames[k], op, cellDesc(t, k, K_ERROR)))
			}
		}
	}

	// R08.7 commutative operators are symmetric
	r.Rule("R08.7", "commutative operators (+ * .+ .* & | ^ min max == !=) have a symmetric table: summary(cell[a][b]) = swap(summary(cell[b][a])) for all 144 kind pairs (swap exchanges ARG1/ARG2; mirrored kernels x_if/x_fi count as each other)")
	commOps := []string{"+", "*", ".+", ".*", "&", "|", "^", "min", "max"}
	cmpOT := operatorTables(c, r, rs, reg, "R08.7", []string{"==", "!="})
	for _, op := range append(commOps, "==", "!=") {
		o := ot[op]
		if o == nil {
			o = cmpOT[op]
		}
		if o == nil {
			continue
		}
		t := o.Tab
		for a := 0; a < K_DIM; a++ {
			for b := a; b < K_DIM; b++ {
				fa, fb := t.Cell(a, b), t.Cell(b, a)
				if fa == nil || fb == nil {
					continue
				}
				sa, sb := sum(t, a, b), sum(t, b, a)
				ok := false
				why := ""
				if a == b {
					ok = true // the diagonal is its own mirror
					why = "diagonal"
				} else if fa == fb {
					// same function both sides: symmetric iff it does not favour one argument
					ok = sa.Equal(swapSet(sa))
					why = "same cell function, argument-neutral summary " + sa.String()
				} else if sa.Equal(swapSet(sb)) && !sa.Has("OTHER") {
					ok = true
					why = fmt.Sprintf("%s %s mirrors %s %s", fa.Name(), sa, fb.Name(), sb)
				} else if mirrorNames(fa.Name(), fb.Name()) && sa.Kinds().Equal(swapSet(sb).Kinds()) {
					ok = true
					why = fmt.Sprintf("mirrored kernels %s / %s", fa.Name(), fb.Name())
				}
				if a == b {
					continue
				}
				r.Check(ok, "R08.7", fmt.Sprintf("%s[%s][%s]~[%s][%s]", t.Name, kindNames[a], kindNames[b], kindNames[b], kindNames[a]), c.Rel(t.Pos),
					"operator "+op+": "+why,
					fmt.Sprintf("operator %s is commutative but %s = %s while %s = %s", op, cellKey(t, a, b), cellDesc(t, a, b), cellKey(t, b, a), cellDesc(t, b, a)))
			}
		}
	}

	runC08Assign(c, r, reg)
	runC08MathAbsent(c, r, reg, rs)
	c08CompoundIsOperator(c, r)
	runC08Is(c, r, rs, reg)
	c08ShortCircuit(c, r)
	c08Coalesce(c, r)
	r.Extra["tables_read"] = len(tabs)
}

// mirrorNames: plus_f_if vs plus_f_fi, eq_b_xs vs eq_b_sx etc: same prefix,
// last two letters swapped.
func mirrorNames(a, b string) bool {
	if len(a) != len(b) || len(a) < 3 {
		return false
	}
	n := len(a)
	return a[:n-2] == b[:n-2] && a[n-2] == b[n-1] && a[n-1] == b[n-2]
}

// isStringOf: the cell's only return is mlrval.FromString(inputK.String()).
func isStringOf(c *Ctx, f *types.Func, k int) bool {
	sf := c.SSAFunc(f)
	if sf == nil || sf.Blocks == nil || k-1 >= len(sf.Params) {
		return false
	}
	n := 0
	for _, b := range sf.Blocks {
		for _, in := range b.Instrs {
			ret, ok := in.(*ssa.Return)
			if !ok {
				continue
			}
			n++
			if len(ret.Results) != 1 {
				return false
			}
			call, ok := ret.Results[0].(*ssa.Call)
			if !ok {
				return false
			}
			callee := call.Call.StaticCallee()
			if callee == nil || callee.Object() == nil || FuncName(callee.Object().(*types.Func)) != "pkg/mlrval.FromString" {
				return false
			}
			inner, ok := call.Call.Args[0].(*ssa.Call)
			if !ok {
				return false
			}
			ic := inner.Call.StaticCallee()
			if ic == nil || ic.Object() == nil || FuncName(ic.Object().(*types.Func)) != "pkg/mlrval.Mlrval.String" {
				return false
			}
			if inner.Call.Args[0] != sf.Params[k-1] {
				return false
			}
		}
	}
	return n == 1
}

var _ = strings.TrimSpace
