package main

// Readers for the repository's registries: the built-in function table, the
// verb lookup table, and a "which disposition table does this function
// dispatch through" query.

import (
	"go/ast"
	"go/constant"
	"go/token"
	"go/types"

	"golang.org/x/tools/go/ssa"
)

type BIFEntry struct {
	Name      string
	Class     string
	Pos       token.Pos
	Funcs     map[string]*types.Func // field name -> function
	FuncLits  map[string]bool        // field holds something that is not a named function
	MinVar    int
	MaxVar    int
	HasMinVar bool
	MultiAr   bool
	Help      string
}

// BIFRegistry reads makeBuiltinFunctionLookupTable's slice literal.
func (c *Ctx) BIFRegistry() ([]*BIFEntry, string) {
	p := c.Pkg("pkg/dsl/cst")
	if p == nil {
		return nil, "package pkg/dsl/cst not loaded"
	}
	fobj := c.LookupFunc("pkg/dsl/cst", "makeBuiltinFunctionLookupTable")
	if fobj == nil {
		return nil, "anchor makeBuiltinFunctionLookupTable not found"
	}
	decl := c.Decl(fobj)
	var lit *ast.CompositeLit
	ast.Inspect(decl.Body, func(n ast.Node) bool {
		if lit != nil {
			return false
		}
		if cl, ok := n.(*ast.CompositeLit); ok {
			if tv, ok := p.TypesInfo.Types[cl]; ok {
				if sl, ok := tv.Type.Underlying().(*types.Slice); ok {
					if n, ok := sl.Elem().(*types.Named); ok && n.Obj().Name() == "BuiltinFunctionInfo" {
						lit = cl
						return false
					}
				}
			}
		}
		return true
	})
	if lit == nil {
		return nil, "BuiltinFunctionInfo slice literal not found"
	}
	var out []*BIFEntry
	for _, el := range lit.Elts {
		cl, ok := el.(*ast.CompositeLit)
		if !ok {
			return nil, "registry element is not a composite literal at " + c.Rel(el.Pos())
		}
		e := &BIFEntry{Pos: cl.Pos(), Funcs: map[string]*types.Func{}, FuncLits: map[string]bool{}}
		for _, f := range cl.Elts {
			kv, ok := f.(*ast.KeyValueExpr)
			if !ok {
				return nil, "registry entry with positional fields at " + c.Rel(f.Pos())
			}
			key := kv.Key.(*ast.Ident).Name
			tv := p.TypesInfo.Types[kv.Value]
			switch key {
			case "name":
				if tv.Value != nil {
					e.Name = constant.StringVal(tv.Value)
				}
			case "help":
				if tv.Value != nil && tv.Value.Kind() == constant.String {
					e.Help = constant.StringVal(tv.Value)
				}
			case "class":
				if tv.Value != nil {
					e.Class = constant.StringVal(tv.Value)
				}
			case "minimumVariadicArity":
				if tv.Value != nil {
					n, _ := constant.Int64Val(tv.Value)
					e.MinVar = int(n)
					e.HasMinVar = true
				}
			case "maximumVariadicArity":
				if tv.Value != nil {
					n, _ := constant.Int64Val(tv.Value)
					e.MaxVar = int(n)
				}
			case "hasMultipleArities":
				if tv.Value != nil {
					e.MultiAr = constant.BoolVal(tv.Value)
				}
			case "examples":
			default:
				if _, isSig := tv.Type.Underlying().(*types.Signature); isSig {
					if fn := resolveFuncExpr(p.TypesInfo, kv.Value); fn != nil {
						e.Funcs[key] = fn
					} else {
						e.FuncLits[key] = true
					}
				}
			}
		}
		out = append(out, e)
	}
	return out, ""
}

func (c *Ctx) BIFByName(reg []*BIFEntry, name string) *BIFEntry {
	for _, e := range reg {
		if e.Name == name {
			return e
		}
	}
	return nil
}

// DispatchTablesOf returns the disposition tables fn dispatches through
// directly (call whose callee value is a load of a table cell), and with
// depth>0 also through static module callees.
func (rs *RetSum) DispatchTablesOf(fn *ssa.Function, depth int) []*DispTable {
	seen := map[*ssa.Function]bool{}
	var out []*DispTable
	have := map[*DispTable]bool{}
	var walk func(f *ssa.Function, d int)
	walk = func(f *ssa.Function, d int) {
		if f == nil || seen[f] || f.Blocks == nil {
			return
		}
		seen[f] = true
		for _, b := range f.Blocks {
			for _, in := range b.Instrs {
				ci, ok := in.(ssa.CallInstruction)
				if !ok {
					continue
				}
				com := ci.Common()
				if com.IsInvoke() {
					continue
				}
				if callee := com.StaticCallee(); callee != nil {
					if d > 0 && IsModuleFunc(callee) {
						walk(callee, d-1)
					}
					continue
				}
				if t := rs.dispatchTable(com.Value); t != nil && !have[t] {
					have[t] = true
					out = append(out, t)
				}
			}
		}
		for _, an := range f.AnonFuncs {
			walk(an, d)
		}
	}
	walk(fn, depth)
	return out
}

// DispatchIndexArgs: for a direct dispatch call in fn through table t,
// returns for each table dimension the index of the fn parameter whose
// .Type() selects it (or -1), and the parameter indices passed as arguments.
func (rs *RetSum) DispatchShape(fn *ssa.Function, t *DispTable) (idxParams []int, argParams []int, ok bool) {
	paramIdx := func(v ssa.Value) int {
		for i, p := range fn.Params {
			if p == v {
				return i
			}
		}
		return -1
	}
	typeOfParam := func(v ssa.Value) int {
		// v is the index expression: convert(call p.Type())
		for {
			switch x := v.(type) {
			case *ssa.Convert:
				v = x.X
				continue
			case *ssa.ChangeType:
				v = x.X
				continue
			case *ssa.Call:
				callee := x.Call.StaticCallee()
				if callee != nil && callee.Name() == "Type" && len(x.Call.Args) == 1 {
					return paramIdx(x.Call.Args[0])
				}
			}
			return -1
		}
	}
	for _, b := range fn.Blocks {
		for _, in := range b.Instrs {
			ci, isCall := in.(ssa.CallInstruction)
			if !isCall {
				continue
			}
			com := ci.Common()
			if com.StaticCallee() != nil || com.IsInvoke() {
				continue
			}
			if rs.dispatchTable(com.Value) != t {
				continue
			}
			u := com.Value.(*ssa.UnOp)
			ia := u.X.(*ssa.IndexAddr)
			if ia2, two := ia.X.(*ssa.IndexAddr); two {
				idxParams = []int{typeOfParam(ia2.Index), typeOfParam(ia.Index)}
			} else {
				idxParams = []int{typeOfParam(ia.Index)}
			}
			for _, a := range com.Args {
				argParams = append(argParams, paramIdx(a))
			}
			return idxParams, argParams, true
		}
	}
	return nil, nil, false
}
