package main

import (
	"bufio"
	"encoding/json"
	"fmt"
	"os"
	"path/filepath"
	"sort"
	"strings"
	"time"
)

type Obligation struct {
	Rule   string `json:"rule"`
	Key    string `json:"key"`    // rule-relative construct key (never a line number)
	Pos    string `json:"pos"`    // file:line for humans
	Status string `json:"status"` // ok | violation | known | undecided
	Fact   string `json:"fact,omitempty"`
	Reason string `json:"reason,omitempty"`
}

type Floor struct {
	Rule  string `json:"rule"`
	What  string `json:"what"`
	Found int    `json:"found"`
	Min   int    `json:"min"`
}

type KnownFinding struct {
	Property   string `json:"property"`
	Rule       string `json:"rule"`
	Key        string `json:"key"`
	What       string `json:"what"`
	Reproducer string `json:"reproducer,omitempty"`
	Status     string `json:"status"` // known | fixed
	Commit     string `json:"commit,omitempty"`
}

type Report struct {
	Prop        string
	Tier        string
	Start       time.Time
	Obls        []Obligation
	Floors      []Floor
	Info        []string
	Rules       map[string]string // rule id -> one-line statement
	RuleOrder   []string
	Explanation string
	NotDecided  string
	Assumptions []string
	Extra       map[string]any
	known       []KnownFinding
	seen        map[string]bool
}

func NewReport(prop, tier string) *Report {
	return &Report{Prop: prop, Tier: tier, Start: time.Now(), Rules: map[string]string{}, Extra: map[string]any{}, seen: map[string]bool{}}
}

func (r *Report) Rule(id, text string) {
	if _, ok := r.Rules[id]; !ok {
		r.RuleOrder = append(r.RuleOrder, id)
	}
	r.Rules[id] = text
}

func (r *Report) add(o Obligation) {
	k := o.Rule + "|" + o.Key
	if r.seen[k] {
		// keep keys unique: suffix
		for i := 2; ; i++ {
			k2 := fmt.Sprintf("%s#%d", k, i)
			if !r.seen[k2] {
				o.Key = fmt.Sprintf("%s#%d", o.Key, i)
				k = k2
				break
			}
		}
	}
	r.seen[k] = true
	r.Obls = append(r.Obls, o)
}

func (r *Report) OK(rule, key, pos, fact string) {
	r.add(Obligation{Rule: rule, Key: key, Pos: pos, Status: "ok", Fact: fact})
}

func (r *Report) Fail(rule, key, pos, reason string) {
	r.add(Obligation{Rule: rule, Key: key, Pos: pos, Status: "violation", Reason: reason})
}

func (r *Report) Undecided(rule, key, pos, reason string) {
	r.add(Obligation{Rule: rule, Key: key, Pos: pos, Status: "undecided", Reason: reason})
}

// Check is OK if cond else Fail.
func (r *Report) Check(cond bool, rule, key, pos, fact, reason string) bool {
	if cond {
		r.OK(rule, key, pos, fact)
	} else {
		r.Fail(rule, key, pos, reason)
	}
	return cond
}

func (r *Report) Floor(rule, what string, found, min int) {
	r.Floors = append(r.Floors, Floor{rule, what, found, min})
}

func (r *Report) Infof(format string, a ...any) {
	r.Info = append(r.Info, fmt.Sprintf(format, a...))
}

func loadKnown(path string) ([]KnownFinding, error) {
	f, err := os.Open(path)
	if err != nil {
		if os.IsNotExist(err) {
			return nil, nil
		}
		return nil, err
	}
	defer f.Close()
	var out []KnownFinding
	sc := bufio.NewScanner(f)
	sc.Buffer(make([]byte, 1<<20), 1<<20)
	for sc.Scan() {
		line := strings.TrimSpace(sc.Text())
		if line == "" || strings.HasPrefix(line, "#") {
			continue
		}
		var k KnownFinding
		if err := json.Unmarshal([]byte(line), &k); err != nil {
			return nil, fmt.Errorf("%s: %v", path, err)
		}
		out = append(out, k)
	}
	return out, sc.Err()
}

// Finish applies known findings, writes evidence and the violations file,
// prints the protocol lines and returns the exit code.
func (r *Report) Finish(verifDir string, loadInfo map[string]any) int {
	known, err := loadKnown(filepath.Join(verifDir, "known_findings.jsonl"))
	if err != nil {
		fmt.Printf("cannot read known findings: %v\n", err)
		r.Undecided("R00", "known_findings.jsonl", "", err.Error())
	}
	knownIdx := map[string]KnownFinding{}
	for _, k := range known {
		if k.Property == r.Prop && k.Status == "known" {
			knownIdx[k.Rule+"|"+k.Key] = k
		}
	}
	// floors
	for _, f := range r.Floors {
		if f.Found < f.Min {
			r.Fail(f.Rule, "floor:"+f.What, "", fmt.Sprintf("instance floor: found %d < expected minimum %d (%s) — the rule no longer matches what was confirmed by hand", f.Found, f.Min, f.What))
		}
	}
	matchedKnown := []string{}
	usedKnown := map[string]bool{}
	for i := range r.Obls {
		o := &r.Obls[i]
		if o.Status == "violation" {
			if k, ok := knownIdx[o.Rule+"|"+o.Key]; ok {
				o.Status = "known"
				usedKnown[o.Rule+"|"+o.Key] = true
				matchedKnown = append(matchedKnown, fmt.Sprintf("%s %s: %s", o.Rule, o.Key, k.What))
				fmt.Printf("KNOWN-FINDING: property=%s %s %s — %s\n", r.Prop, o.Rule, o.Key, k.What)
			}
		}
	}
	var viol []Obligation
	nOK, nKnown := 0, 0
	for _, o := range r.Obls {
		switch o.Status {
		case "ok":
			nOK++
		case "known":
			nKnown++
		default:
			viol = append(viol, o)
		}
	}
	staleKnown := []string{}
	for k := range knownIdx {
		if !usedKnown[k] {
			staleKnown = append(staleKnown, k)
		}
	}
	sort.Strings(staleKnown)

	evdir := filepath.Join(verifDir, "evidence")
	os.MkdirAll(evdir, 0o755)
	violPath := filepath.Join(evdir, r.Prop+".violations.json")
	if len(viol) > 0 {
		b, _ := json.MarshalIndent(map[string]any{"property": r.Prop, "violations": viol}, "", " ")
		os.WriteFile(violPath, append(b, '\n'), 0o644)
	} else {
		os.Remove(violPath)
	}

	// samples: up to 3 per rule, ok first then known
	perRule := map[string]int{}
	var samples []any
	ruleCounts := map[string]map[string]int{}
	distinct := 0
	for _, o := range r.Obls {
		if ruleCounts[o.Rule] == nil {
			ruleCounts[o.Rule] = map[string]int{}
		}
		ruleCounts[o.Rule][o.Status]++
		if o.Status == "ok" && o.Fact != "" {
			distinct++
		}
		if perRule[o.Rule] < 3 {
			perRule[o.Rule]++
			samples = append(samples, o)
		}
	}
	rulesOut := []map[string]any{}
	for _, id := range r.RuleOrder {
		rulesOut = append(rulesOut, map[string]any{"id": id, "rule": r.Rules[id], "obligations": ruleCounts[id]})
	}
	seed := 0
	fmt.Sscanf(os.Getenv("VERIF_SEED"), "%d", &seed)
	cov := map[string]any{
		"explanation":         r.Explanation + " NOT DECIDED by this check: " + r.NotDecided,
		"obligations":         len(r.Obls),
		"discharged":          nOK,
		"known_findings":      nKnown,
		"evaluations":         len(r.Obls),
		"distinct_nontrivial": distinct,
		"rule":                "one obligation per (rule, construct) enumerated from the loaded program; non-trivial = discharged using at least one fact read from the current tree (recorded in 'fact')",
		"samples":             samples,
		"rules":               rulesOut,
		"instance_floors":     r.Floors,
		"known_matched":       matchedKnown,
		"known_not_matched":   staleKnown,
		"info":                r.Info,
		"exhaustive":          true,
		"checker_cmd":         fmt.Sprintf("./check.sh %s %s", r.Prop, r.Tier),
		"trusted_base":        []string{"go/types, go/ssa, go/cfg, callgraph (x/tools v0.50.0)", "Go 1.26.8 front end", "overlay stub for the emptied generated parser.go"},
	}
	for k, v := range loadInfo {
		cov[k] = v
	}
	for k, v := range r.Extra {
		cov[k] = v
	}
	ev := map[string]any{
		"property_id": r.Prop,
		"tier":        r.Tier,
		"seed":        seed,
		"level":       "other",
		"coverage":    cov,
		"assumptions": append([]string{"static analysis of /repo's working tree only; nothing is executed", "library semantics frozen as stated in DESIGN.md §8"}, r.Assumptions...),
		"wall_s":      time.Since(r.Start).Seconds(),
		"violations":  len(viol),
	}
	b, _ := json.MarshalIndent(ev, "", " ")
	if err := os.WriteFile(filepath.Join(evdir, r.Prop+".json"), append(b, '\n'), 0o644); err != nil {
		fmt.Printf("cannot write evidence: %v\n", err)
		return 1
	}

	fmt.Printf("%s %s: %d obligations, %d discharged, %d known, %d violations (%.1fs)\n", r.Prop, r.Tier, len(r.Obls), nOK, nKnown, len(viol), time.Since(r.Start).Seconds())
	for _, id := range r.RuleOrder {
		fmt.Printf("  %-7s %v  %s\n", id, ruleCounts[id], trunc(r.Rules[id], 110))
	}
	for _, s := range staleKnown {
		fmt.Printf("  note: known finding no longer reported: %s\n", s)
	}
	if len(viol) > 0 {
		for _, o := range viol {
			fmt.Printf("  FAIL %s %s [%s] %s: %s\n", o.Rule, o.Key, o.Status, o.Pos, trunc(o.Reason, 600))
		}
		fmt.Printf("VIOLATION property=%s replay=%s\n", r.Prop, violPath)
		return 1
	}
	return 0
}

func trunc(s string, n int) string {
	if len(s) <= n {
		return s
	}
	return s[:n] + "…"
}

// CountRule: number of obligations recorded so far under a rule.
func (r *Report) CountRule(rule string) int {
	n := 0
	for _, o := range r.Obls {
		if o.Rule == rule {
			n++
		}
	}
	return n
}
