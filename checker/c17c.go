package main

// C17, continued: a consumer of a reader's record channel that also holds the
// reader's error channel (the sorted join's left-file keeper) (R17.16).

import (
	"fmt"
	"go/token"
	"go/types"
	"strings"

	"golang.org/x/tools/go/ssa"
)

func chanOfRecordBatches(t types.Type) bool {
	ch, ok := t.Underlying().(*types.Chan)
	if !ok {
		return false
	}
	s := ch.Elem().String()
	return strings.Contains(s, "types.RecordAndContext") || strings.Contains(s, "container/list.List")
}

// fieldChan: v is a load of a channel field of the method's receiver.
func fieldChanOf(v ssa.Value, fn *ssa.Function) (string, bool) {
	for {
		if ct, ok := v.(*ssa.ChangeType); ok {
			v = ct.X
			continue
		}
		break
	}
	base, name, ok := fieldLoadName(v)
	if !ok || len(fn.Params) == 0 || base != ssa.Value(fn.Params[0]) || fn.Signature.Recv() == nil {
		return "", false
	}
	return name, true
}

func c17ReaderConsumers(c *Ctx, r *Report) {
	r.Rule("R17.16", "a consumer that holds a reader's record channel and its error channel loses no error: in every method whose receiver has both (the sorted join's left-file keeper), (a) each receive from the record channel is a case of a blocking select that also receives from the error channel — a plain blocking receive would sit there while the error arrives and then take the end-of-stream marker — and (b) on the path where the received batch is the end-of-stream marker, a non-blocking receive on the error channel comes before the successful return (the reader posts its error just before the marker, on another channel: select may see the marker first)")
	n := 0
	for _, fn := range c.ModuleFunctions() {
		if fn.Blocks == nil || fn.Signature.Recv() == nil || len(fn.Params) == 0 {
			continue
		}
		pk := ""
		if fn.Pkg != nil {
			pk = fn.Pkg.Pkg.Path()
		}
		if subEntrypointPkg(pk) {
			continue
		}
		// receives in this function
		type recv struct {
			field string
			inSel *ssa.Select
			pos   token.Pos
			blk   *ssa.BasicBlock
		}
		var recRecvs []recv
		errField := ""
		var errSelects []*ssa.Select // non-blocking selects receiving the error channel
		for _, b := range fn.Blocks {
			for _, in := range b.Instrs {
				switch x := in.(type) {
				case *ssa.UnOp:
					if x.Op == token.ARROW && chanOfRecordBatches(x.X.Type()) {
						if f, ok := fieldChanOf(x.X, fn); ok {
							recRecvs = append(recRecvs, recv{f, nil, x.Pos(), b})
						}
					}
				case *ssa.Select:
					for _, st := range x.States {
						if st.Dir != types.RecvOnly {
							continue
						}
						if chanOfRecordBatches(st.Chan.Type()) {
							if f, ok := fieldChanOf(st.Chan, fn); ok {
								recRecvs = append(recRecvs, recv{f, x, x.Pos(), b})
							}
						}
						if chanElemIsError(st.Chan.Type()) {
							if f, ok := fieldChanOf(st.Chan, fn); ok {
								errField = f
								if !x.Blocking {
									errSelects = append(errSelects, x)
								}
							}
						}
					}
				}
			}
		}
		if len(recRecvs) == 0 {
			continue
		}
		// the receiver must have an error channel field at all
		if errField == "" {
			recvT := fn.Signature.Recv().Type()
			if pt, ok := recvT.(*types.Pointer); ok {
				recvT = pt.Elem()
			}
			if st, ok := recvT.Underlying().(*types.Struct); ok {
				for i := 0; i < st.NumFields(); i++ {
					if chanElemIsError(st.Field(i).Type()) {
						errField = st.Field(i).Name()
					}
				}
			}
			if errField == "" {
				continue // this consumer is not given the reader's error channel: someone else watches it
			}
		}
		n++
		for i, rc := range recRecvs {
			key := fmt.Sprintf("%s: receive #%d from %s", SSAName(fn), i+1, rc.field)
			okA := false
			if rc.inSel != nil && rc.inSel.Blocking {
				for _, st := range rc.inSel.States {
					if st.Dir == types.RecvOnly && chanElemIsError(st.Chan.Type()) {
						if f, ok := fieldChanOf(st.Chan, fn); ok && f == errField {
							okA = true
						}
					}
				}
			}
			r.Check(okA, "R17.16", key+" (a)", c.Rel(rc.pos), "a case of a blocking select that also receives from "+errField,
				fmt.Sprintf("%s receives from %s outside a blocking select that also receives from %s: while it waits there the reader's error arrives unseen, and the end-of-stream marker that follows is taken as a clean end (exit status 0)", SSAName(fn), rc.field, errField))
		}
		// (b) every If on an EndOfStream load: the true edge reaches a successful return only through a non-blocking error receive
		nEOS := 0
		for _, b := range fn.Blocks {
			iff, ok := b.Instrs[len(b.Instrs)-1].(*ssa.If)
			if !ok {
				continue
			}
			cond, pol := stripNot(iff.Cond, true)
			_, name, ok := fieldLoadName(cond)
			if !ok || name != "EndOfStream" {
				continue
			}
			nEOS++
			start := b.Succs[0]
			if !pol {
				start = b.Succs[1]
			}
			errBlocks := map[*ssa.BasicBlock]bool{}
			for _, s := range errSelects {
				errBlocks[s.Block()] = true
			}
			// path from start to a success return avoiding errBlocks?
			bad := ""
			seen := map[*ssa.BasicBlock]bool{}
			var walk func(x *ssa.BasicBlock)
			walk = func(x *ssa.BasicBlock) {
				if bad != "" || seen[x] || errBlocks[x] {
					return
				}
				seen[x] = true
				if ret, ok := x.Instrs[len(x.Instrs)-1].(*ssa.Return); ok {
					if n := len(ret.Results); n > 0 && isErrorType(ret.Results[n-1].Type()) && ReturnsNilError(ret) {
						bad = c.Rel(ret.Pos())
					}
					return
				}
				for _, s := range x.Succs {
					walk(s)
				}
			}
			walk(start)
			r.Check(bad == "", "R17.16", fmt.Sprintf("%s: end-of-stream #%d (b)", SSAName(fn), nEOS), c.Rel(iff.Pos()), "a non-blocking receive on "+errField+" precedes the successful return",
				fmt.Sprintf("%s returns success at %s on the end-of-stream path without a non-blocking receive on %s first: the reader posts its error on that channel just before the marker, and it is lost (exit status 0)", SSAName(fn), bad, errField))
		}
	}
	r.Floor("R17.16", "consumers holding a reader's record and error channels", n, 1)
}
