package main

// C17, continued: a consumer of a reader's record channel that also holds the
// reader's error channel (the sorted join's left-file keeper) (R17.16).

import (
	"fmt"
	"go/constant"
	"go/token"
	"go/types"
	"strings"

	"golang.org/x/tools/go/ssa"
)

func chanOfRecordBatches(t types.Type) bool {
	ch, ok := t.Underlying().(*types.Chan)
	if !ok {
		return false
	}
	s := ch.Elem().String()
	return strings.Contains(s, "types.RecordAndContext") || strings.Contains(s, "container/list.List")
}

// fieldChan: v is a load of a channel field of the method's receiver.
func fieldChanOf(v ssa.Value, fn *ssa.Function) (string, bool) {
	for {
		if ct, ok := v.(*ssa.ChangeType); ok {
			v = ct.X
			continue
		}
		break
	}
	base, name, ok := fieldLoadName(v)
	if !ok || len(fn.Params) == 0 || base != ssa.Value(fn.Params[0]) || fn.Signature.Recv() == nil {
		return "", false
	}
	return name, true
}

func c17ReaderConsumers(c *Ctx, r *Report) {
	r.Rule("R17.16", "a consumer that holds a reader's record channel and its error channel loses no error: in every method whose receiver has both (the sorted join's left-file keeper), (a) each receive from the record channel is a case of a blocking select that also receives from the error channel — a plain blocking receive would sit there while the error arrives and then take the end-of-stream marker — and (b) on the path where the received batch is the end-of-stream marker, a non-blocking receive on the error channel comes before the successful return (the reader posts its error just before the marker, on another channel: select may see the marker first)")
	n := 0
	for _, fn := range c.ModuleFunctions() {
		if fn.Blocks == nil || fn.Signature.Recv() == nil || len(fn.Params) == 0 {
			continue
		}
		pk := ""
		if fn.Pkg != nil {
			pk = fn.Pkg.Pkg.Path()
		}
		if subEntrypointPkg(pk) {
			continue
		}
		// receives in this function
		type recv struct {
			field string
			inSel *ssa.Select
			pos   token.Pos
			blk   *ssa.BasicBlock
		}
		var recRecvs []recv
		errField := ""
		var errSelects []*ssa.Select // non-blocking selects receiving the error channel
		for _, b := range fn.Blocks {
			for _, in := range b.Instrs {
				switch x := in.(type) {
				case *ssa.UnOp:
					if x.Op == token.ARROW && chanOfRecordBatches(x.X.Type()) {
						if f, ok := fieldChanOf(x.X, fn); ok {
							recRecvs = append(recRecvs, recv{f, nil, x.Pos(), b})
						}
					}
				case *ssa.Select:
					for _, st := range x.States {
						if st.Dir != types.RecvOnly {
							continue
						}
						if chanOfRecordBatches(st.Chan.Type()) {
							if f, ok := fieldChanOf(st.Chan, fn); ok {
								recRecvs = append(recRecvs, recv{f, x, x.Pos(), b})
							}
						}
						if chanElemIsError(st.Chan.Type()) {
							if f, ok := fieldChanOf(st.Chan, fn); ok {
								errField = f
								if !x.Blocking {
									errSelects = append(errSelects, x)
								}
							}
						}
					}
				}
			}
		}
		if len(recRecvs) == 0 {
			continue
		}
		// the receiver must have an error channel field at all
		if errField == "" {
			recvT := fn.Signature.Recv().Type()
			if pt, ok := recvT.(*types.Pointer); ok {
				recvT = pt.Elem()
			}
			if st, ok := recvT.Underlying().(*types.Struct); ok {
				for i := 0; i < st.NumFields(); i++ {
					if chanElemIsError(st.Field(i).Type()) {
						errField = st.Field(i).Name()
					}
				}
			}
			if errField == "" {
				continue // this consumer is not given the reader's error channel: someone else watches it
			}
		}
		n++
		for i, rc := range recRecvs {
			key := fmt.Sprintf("%s: receive #%d from %s", SSAName(fn), i+1, rc.field)
			okA := false
			if rc.inSel != nil && rc.inSel.Blocking {
				for _, st := range rc.inSel.States {
					if st.Dir == types.RecvOnly && chanElemIsError(st.Chan.Type()) {
						if f, ok := fieldChanOf(st.Chan, fn); ok && f == errField {
							okA = true
						}
					}
				}
			}
			r.Check(okA, "R17.16", key+" (a)", c.Rel(rc.pos), "a case of a blocking select that also receives from "+errField,
				fmt.Sprintf("%s receives from %s outside a blocking select that also receives from %s: while it waits there the reader's error arrives unseen, and the end-of-stream marker that follows is taken as a clean end (exit status 0)", SSAName(fn), rc.field, errField))
		}
		// (b) every If on an EndOfStream load: the true edge reaches a successful return only through a non-blocking error receive
		nEOS := 0
		for _, b := range fn.Blocks {
			iff, ok := b.Instrs[len(b.Instrs)-1].(*ssa.If)
			if !ok {
				continue
			}
			cond, pol := stripNot(iff.Cond, true)
			_, name, ok := fieldLoadName(cond)
			if !ok || name != "EndOfStream" {
				continue
			}
			nEOS++
			start := b.Succs[0]
			if !pol {
				start = b.Succs[1]
			}
			errBlocks := map[*ssa.BasicBlock]bool{}
			for _, s := range errSelects {
				errBlocks[s.Block()] = true
			}
			// path from start to a success return avoiding errBlocks?
			bad := ""
			seen := map[*ssa.BasicBlock]bool{}
			var walk func(x *ssa.BasicBlock)
			walk = func(x *ssa.BasicBlock) {
				if bad != "" || seen[x] || errBlocks[x] {
					return
				}
				seen[x] = true
				if ret, ok := x.Instrs[len(x.Instrs)-1].(*ssa.Return); ok {
					if n := len(ret.Results); n > 0 && isErrorType(ret.Results[n-1].Type()) && ReturnsNilError(ret) {
						bad = c.Rel(ret.Pos())
					}
					return
				}
				for _, s := range x.Succs {
					walk(s)
				}
			}
			walk(start)
			r.Check(bad == "", "R17.16", fmt.Sprintf("%s: end-of-stream #%d (b)", SSAName(fn), nEOS), c.Rel(iff.Pos()), "a non-blocking receive on "+errField+" precedes the successful return",
				fmt.Sprintf("%s returns success at %s on the end-of-stream path without a non-blocking receive on %s first: the reader posts its error on that channel just before the marker, and it is lost (exit status 0)", SSAName(fn), bad, errField))
		}
	}
	r.Floor("R17.16", "consumers holding a reader's record and error channels", n, 1)
}

// c17ReadDataKept (R17.17): what a read returned is not thrown away.
func c17ReadDataKept(c *Ctx, r *Report) {
	r.Rule("R17.17", "what a read returned is not thrown away: for every call of bufio.Reader.ReadString / ReadBytes outside the sub-entry-points, on every path from the call to a return of the function or round to the same call again, the data result is used — returned, stored, concatenated, appended, passed on — or the path lies behind a test that the data is empty (len(data) == 0, data == \"\"). ReadString hands back the last line of a file without a terminator *together with* io.EOF; 'if err == io.EOF { break }' loses that line, and a loop that reads pieces and continues without adding the piece loses the piece")
	n := 0
	for _, fn := range c.ModuleFunctions() {
		if fn.Blocks == nil {
			continue
		}
		pk := ""
		if fn.Pkg != nil {
			pk = fn.Pkg.Pkg.Path()
		}
		if subEntrypointPkg(pk) {
			continue
		}
		idx := 0
		for _, b := range fn.Blocks {
			for i, in := range b.Instrs {
				call, ok := in.(*ssa.Call)
				if !ok {
					continue
				}
				cn := CalleeName(&call.Call)
				if cn != "bufio.Reader.ReadString" && cn != "bufio.Reader.ReadBytes" {
					continue
				}
				var data ssa.Value
				for _, ref := range *call.Referrers() {
					if ex, ok := ref.(*ssa.Extract); ok && ex.Index == 0 {
						data = ex
					}
				}
				idx++
				n++
				key := fmt.Sprintf("%s: %s #%d", flagClosureName(c, fn), cn, idx)
				if data == nil {
					r.Fail("R17.17", key, c.Rel(call.Pos()), "the data result of the read is never looked at")
					continue
				}
				// instructions that use the data (not mere tests of its length / emptiness)
				uses := map[ssa.Instruction]bool{}
				emptyTests := map[ssa.Value]bool{} // conditions meaning: data is empty (when true) / polarity handled below
				var collect func(v ssa.Value, depth int)
				collect = func(v ssa.Value, depth int) {
					if depth > 3 || v.Referrers() == nil {
						return
					}
					for _, ref := range *v.Referrers() {
						switch x := ref.(type) {
						case *ssa.DebugRef:
						case *ssa.Call:
							if bi, ok := x.Call.Value.(*ssa.Builtin); ok && bi.Name() == "len" {
								// len(data) compared with 0 is a test
								for _, r2 := range *x.Referrers() {
									if bo, ok := r2.(*ssa.BinOp); ok {
										emptyTests[bo] = true
									} else if _, isDbg := r2.(*ssa.DebugRef); !isDbg {
										uses[r2] = true
									}
								}
								continue
							}
							// looking at the data (a suffix or substring test) is not keeping it
							if cn := CalleeName(&x.Call); strings.HasPrefix(cn, "strings.Has") || strings.HasPrefix(cn, "strings.Contains") || strings.HasPrefix(cn, "strings.Index") || strings.HasPrefix(cn, "bytes.Has") || strings.HasPrefix(cn, "bytes.Contains") || strings.HasPrefix(cn, "bytes.Index") {
								continue
							}
							uses[x] = true
						case *ssa.BinOp:
							if x.Op == token.EQL || x.Op == token.NEQ {
								emptyTests[x] = true
								continue
							}
							uses[x] = true // concatenation
						case *ssa.Phi:
							uses[x] = true
							collect(x, depth+1)
						default:
							uses[ref] = true
						}
					}
				}
				collect(data, 0)
				// does the path stand behind "data is empty"?
				knownEmpty := func(blk *ssa.BasicBlock) bool {
					for _, g := range GuardsAt(blk) {
						bo, ok := g.Cond.(*ssa.BinOp)
						if !ok || !emptyTests[bo] {
							continue
						}
						isZero := false
						if k, ok := bo.Y.(*ssa.Const); ok && k.Value != nil {
							if k.Value.Kind() == constant.String && constant.StringVal(k.Value) == "" {
								isZero = true
							}
							if k.Value.Kind() == constant.Int {
								if v, ok2 := constant.Int64Val(k.Value); ok2 && v == 0 {
									isZero = true
								}
							}
						}
						if !isZero {
							continue
						}
						if (bo.Op == token.EQL && g.Polarity) || (bo.Op == token.NEQ && !g.Polarity) || (bo.Op == token.GTR && !g.Polarity) || (bo.Op == token.LEQ && g.Polarity) {
							return true
						}
					}
					return false
				}
				// walk from the call: a path that reaches a return or the call again without a use
				bad := ""
				type st struct {
					b    *ssa.BasicBlock
					from int
				}
				seen := map[*ssa.BasicBlock]bool{}
				var walk func(blk *ssa.BasicBlock, from int)
				walk = func(blk *ssa.BasicBlock, from int) {
					if bad != "" {
						return
					}
					if from == 0 {
						if seen[blk] {
							return
						}
						seen[blk] = true
						if knownEmpty(blk) {
							return
						}
					}
					for j := from; j < len(blk.Instrs); j++ {
						x := blk.Instrs[j]
						if uses[x] {
							return
						}
						if x == ssa.Instruction(call) {
							bad = "round to the same read at " + c.Rel(call.Pos())
							return
						}
						if ret, ok := x.(*ssa.Return); ok {
							// an error return that reports a real read error is not a loss of data
							if nres := len(ret.Results); nres > 0 && isErrorType(ret.Results[nres-1].Type()) && !ReturnsNilError(ret) {
								return
							}
							bad = "to the return at " + c.Rel(ret.Pos())
							return
						}
						if _, ok := x.(*ssa.Panic); ok {
							return
						}
					}
					// the edge on which a test at the end of this block says the data is empty is not followed
					skip := -1
					if iff, ok := blk.Instrs[len(blk.Instrs)-1].(*ssa.If); ok {
						cond, pol := stripNot(iff.Cond, true)
						if bo, ok := cond.(*ssa.BinOp); ok && emptyTests[bo] {
							isZero := false
							if k, ok := bo.Y.(*ssa.Const); ok && k.Value != nil {
								if k.Value.Kind() == constant.String && constant.StringVal(k.Value) == "" {
									isZero = true
								}
								if k.Value.Kind() == constant.Int {
									if v, ok2 := constant.Int64Val(k.Value); ok2 && v == 0 {
										isZero = true
									}
								}
							}
							if isZero {
								emptyWhenTrue := bo.Op == token.EQL || bo.Op == token.LEQ
								emptyWhenFalse := bo.Op == token.NEQ || bo.Op == token.GTR
								if emptyWhenTrue == pol && (emptyWhenTrue || emptyWhenFalse) {
									skip = 0
								} else if emptyWhenTrue || emptyWhenFalse {
									skip = 1
								}
							}
						}
					}
					for k, s := range blk.Succs {
						if k == skip {
							continue
						}
						walk(s, 0)
					}
				}
				walk(b, i+1)
				r.Check(bad == "", "R17.17", key, c.Rel(call.Pos()), "the data is used, or known to be empty, on every path",
					fmt.Sprintf("%s: there is a path from the read %s on which the data it returned is neither used nor known to be empty: a last line without a terminator arrives together with io.EOF, and a piece read in a loop must be kept before reading the next", SSAName(fn), bad))
			}
		}
	}
	r.Floor("R17.17", "ReadString / ReadBytes calls", n, 4)
}

// flagClosureName: a parser closure of the flag table is named by its flag,
// not by its position among the closures of the package initialiser.
func flagClosureName(c *Ctx, fn *ssa.Function) string {
	if fn.Parent() != nil {
		if fis, msg := c.FlagTable(); msg == "" {
			for _, fi := range fis {
				if fi.Fn == fn {
					return "flag parser of " + fi.Name
				}
			}
		}
	}
	return SSAName(fn)
}

// c17NoFailureAsData (R17.18): a failed statement does not become a value.
func c17NoFailureAsData(c *Ctx, r *Report) {
	r.Rule("R17.18", "a failed statement does not become data: in the interpreter, the error result of executing a statement block (StatementBlockNode.Execute / ExecuteFrameless, or an IExecutable.Execute) never flows into mlrval.FromError — a statement that fails at run time ends the run with a message wherever it stands; turned into an (error) value inside a function body it would let the run go on and exit 0")
	n := 0
	for _, fn := range c.ModuleFunctions() {
		if fn.Blocks == nil || fn.Pkg == nil || !strings.HasSuffix(fn.Pkg.Pkg.Path(), "/pkg/dsl/cst") {
			continue
		}
		idx := 0
		for _, b := range fn.Blocks {
			for _, in := range b.Instrs {
				call, ok := in.(*ssa.Call)
				if !ok {
					continue
				}
				isExec := false
				if call.Call.IsInvoke() {
					isExec = call.Call.Method.Name() == "Execute"
				} else {
					cn := CalleeName(&call.Call)
					isExec = strings.HasSuffix(cn, "StatementBlockNode.Execute") || strings.HasSuffix(cn, "StatementBlockNode.ExecuteFrameless")
				}
				if !isExec {
					continue
				}
				ev := ErrValueOf(call)
				if ev == nil {
					continue
				}
				n++
				bad := ""
				var follow func(v ssa.Value, depth int)
				follow = func(v ssa.Value, depth int) {
					if depth > 4 || v.Referrers() == nil || bad != "" {
						return
					}
					for _, ref := range *v.Referrers() {
						switch x := ref.(type) {
						case *ssa.Call:
							if strings.HasSuffix(CalleeName(&x.Call), "pkg/mlrval.FromError") {
								bad = c.Rel(x.Pos())
							}
						case *ssa.Phi:
							follow(x, depth+1)
						case *ssa.MakeInterface:
							follow(x, depth+1)
						}
					}
				}
				follow(ev, 0)
				if bad != "" {
					idx++
					r.Fail("R17.18", fmt.Sprintf("%s: execution error turned into a value #%d", SSAName(fn), idx), bad,
						fmt.Sprintf("%s passes the error of executing a statement block to mlrval.FromError at %s: the failed statement becomes an (error) value, the run goes on and can exit 0 with nothing on stderr", SSAName(fn), bad))
				}
			}
		}
	}
	r.OK("R17.18", "executions of statement blocks in the interpreter", "", fmt.Sprintf("%d execution sites examined", n))
	r.Floor("R17.18", "executions of statement blocks", n, 20)
}

// R17.19: a record that comes with an error is kept only for the one error
// the reader handles itself. (*csv.Reader).Read returns the fields read so
// far together with every parse error; the Miller reader checks field counts
// itself and therefore lets ErrFieldCount pass. Decided per path: the record
// result of Read is used only where the error is nil or errors.Is(err,
// ErrFieldCount) holds.
func c17RecordWithError(c *Ctx, r *Report) {
	r.Rule("R17.19", "a record that comes with an error is kept only for the error the reader handles itself: on every path from a call of the CSV library's Reader.Read to a use of its record result, the error result has been found nil or errors.Is(err, ErrFieldCount) true — the library hands back the fields read so far along with a bare-quote or open-quote error, and keeping them loses the rest of the row silently")
	n := 0
	for _, fn := range c.ModuleFunctions() {
		if fn.Pkg == nil || fn.Blocks == nil || !strings.HasSuffix(fn.Pkg.Pkg.Path(), "/pkg/input") {
			continue
		}
		k := 0
		for _, b := range fn.Blocks {
			for _, in := range b.Instrs {
				call, ok := in.(*ssa.Call)
				if !ok || !strings.HasSuffix(CalleeName(&call.Call), "pkg/go-csv.Reader.Read") || call.Referrers() == nil {
					continue
				}
				var rec, errv ssa.Value
				for _, ref := range *call.Referrers() {
					if ex, ok := ref.(*ssa.Extract); ok {
						if ex.Index == 0 {
							rec = ex
						} else {
							errv = ex
						}
					}
				}
				if rec == nil || errv == nil {
					continue
				}
				n++
				k++
				key := fmt.Sprintf("%s: record of Reader.Read #%d", SSAName(fn), k)
				bad := token.NoPos
				pr := &PathRule{Fn: fn, Init: Facts{}}
				pr.Transfer = func(f Facts, in2 ssa.Instruction, deferred bool) []Facts {
					if in2 == ssa.Instruction(call) {
						return []Facts{{"live": true}}
					}
					if !f.Has("live") || f.Has("ok") {
						return nil
					}
					uses := false
					for _, op := range in2.Operands(nil) {
						if *op == rec {
							uses = true
						}
					}
					if !uses {
						return nil
					}
					if bo, ok := in2.(*ssa.BinOp); ok && (bo.Op == token.EQL || bo.Op == token.NEQ) {
						return nil // a nil test of the record
					}
					if _, ok := in2.(*ssa.DebugRef); ok {
						return nil
					}
					if bad == token.NoPos {
						bad = in2.Pos()
						if bad == token.NoPos {
							bad = call.Pos()
						}
					}
					return nil
				}
				pr.Branch = func(f Facts, cond ssa.Value, pol bool, iff *ssa.If) (Facts, bool) {
					if !f.Has("live") || f.Has("ok") {
						return f, true
					}
					cond, pol = stripNot(cond, pol)
					switch x := cond.(type) {
					case *ssa.BinOp:
						if (x.X == errv || x.Y == errv) && isNilConst(x.X, x.Y) {
							if (x.Op == token.EQL && pol) || (x.Op == token.NEQ && !pol) {
								return f.With("ok"), true
							}
						}
					case *ssa.Call:
						if CalleeName(&x.Call) == "errors.Is" && len(x.Call.Args) == 2 && x.Call.Args[0] == errv && pol {
							if ld, ok := x.Call.Args[1].(*ssa.UnOp); ok {
								if g, ok := ld.X.(*ssa.Global); ok && g.Name() == "ErrFieldCount" {
									return f.With("ok"), true
								}
							}
						}
					}
					return f, true
				}
				pr.Run()
				if pr.Overflow {
					r.Undecided("R17.19", key, c.Rel(call.Pos()), "too many path states")
					continue
				}
				r.Check(bad == token.NoPos, "R17.19", key, c.Rel(call.Pos()), "used only with a nil error or the field-count error",
					fmt.Sprintf("%s uses the record returned by the CSV library's Read at %s on a path where the error returned with it is neither nil nor the field-count error: the fields read before a malformed quote are kept and the rest of the row is lost with no message", SSAName(fn), c.Rel(bad)))
			}
		}
	}
	r.Floor("R17.19", "calls of the CSV library's Reader.Read in pkg/input", n, 1)
}

func isNilConst(a, b ssa.Value) bool {
	for _, v := range []ssa.Value{a, b} {
		if k, ok := v.(*ssa.Const); ok && k.IsNil() {
			return true
		}
	}
	return false
}
