package main

// C19 — in-place mode: temp-file typestate, rename ordering, who may touch the
// target. All rules are path rules over entrypoint.processFile(s)InPlace plus
// table agreement for the refusal helpers.

import (
	"fmt"
	"go/ast"
	"go/constant"
	"go/token"
	"go/types"
	"sort"
	"strings"

	"golang.org/x/tools/go/ssa"
)

func init() { register("C19", true, runC19) }

func runC19(c *Ctx, r *Report) {
	r.Explanation = "In-place mode is decided as an ordering/cleanup typestate over every path (including all error paths) of entrypoint.processFileInPlace: the target is only stat'ed, read, renamed-over and chmod'ed; the rename is reached only after the stream returned nil, the recompressor (if any) and the temp handle were closed with their errors checked; every failing exit after the temp file exists removes it; refusal checks precede the temp file; the temp file is created in the target's directory; the per-file function re-parses the command line, processes exactly that file and the outer loop stops at the first error; the mode passed to chmod comes from a stat taken before; no unexpected process exit is reachable inside the stream."
	r.NotDecided = "atomicity of rename(2) and durability (trusted to the file system); that the transformed bytes equal what the command prints without -I; crash points inside library calls."
	fn := c.SSAFunc(c.LookupFunc("pkg/entrypoint", "processFileInPlace"))
	outer := c.SSAFunc(c.LookupFunc("pkg/entrypoint", "processFilesInPlace"))
	if fn == nil || outer == nil {
		r.Undecided("R19.0", "anchors", "", "entrypoint.processFileInPlace / processFilesInPlace not found")
		return
	}
	if len(fn.Params) < 1 || !isStringType(fn.Params[0].Type()) {
		r.Undecided("R19.0", "anchors", c.Rel(fn.Pos()), "processFileInPlace's first parameter is not the file name string")
		return
	}
	fileName := fn.Params[0]

	// locate the key calls
	var createTemp, wrap, streamCall, rename, chmod *ssa.Call
	var stats, parses []*ssa.Call
	var updateable *ssa.Call
	calls := []*ssa.Call{}
	for _, b := range fn.Blocks {
		for _, in := range b.Instrs {
			call, ok := in.(*ssa.Call)
			if !ok {
				continue
			}
			calls = append(calls, call)
			switch CalleeName(&call.Call) {
			case "os.CreateTemp":
				createTemp = call
			case "pkg/lib.WrapOutputHandle":
				wrap = call
			case "pkg/stream.Stream":
				streamCall = call
			case "os.Rename":
				rename = call
			case "os.Chmod":
				chmod = call
			case "os.Stat":
				stats = append(stats, call)
			case "pkg/climain.ParseCommandLine":
				parses = append(parses, call)
			case "pkg/lib.IsUpdateableInPlace":
				updateable = call
			}
		}
	}
	need := map[string]*ssa.Call{"os.CreateTemp": createTemp, "lib.WrapOutputHandle": wrap, "stream.Stream": streamCall, "os.Rename": rename, "os.Chmod": chmod, "lib.IsUpdateableInPlace": updateable}
	names := []string{}
	for k := range need {
		names = append(names, k)
	}
	sort.Strings(names)
	for _, k := range names {
		if need[k] == nil {
			r.Undecided("R19.0", "anchor "+k, c.Rel(fn.Pos()), "processFileInPlace does not call "+k+" directly; the typestate cannot be anchored")
		}
	}
	if createTemp == nil || streamCall == nil || rename == nil {
		return
	}
	extract := func(call *ssa.Call, idx int) ssa.Value {
		if call == nil {
			return nil
		}
		for _, ref := range *call.Referrers() {
			if ex, ok := ref.(*ssa.Extract); ok && ex.Index == idx {
				return ex
			}
		}
		return nil
	}
	tempHandle := extract(createTemp, 0)
	var wrapped, isNew ssa.Value
	if wrap != nil {
		wrapped = extract(wrap, 0)
		isNew = extract(wrap, 1)
	}
	// tempName: handle.Name()
	isTempName := func(v ssa.Value) bool {
		found := false
		var walk func(v ssa.Value, d int)
		walk = func(v ssa.Value, d int) {
			if d > 6 || found {
				return
			}
			switch x := v.(type) {
			case *ssa.Call:
				if CalleeName(&x.Call) == "os.File.Name" && len(x.Call.Args) == 1 && tempHandle != nil && FlowsFrom(x.Call.Args[0], tempHandle, 0) {
					found = true
				}
			case *ssa.Phi:
				for _, e := range x.Edges {
					walk(e, d+1)
				}
			case *ssa.UnOp:
				// the name kept in a local cell (a variable captured by a closure lives in one)
				if a, ok := x.X.(*ssa.Alloc); ok && x.Op == token.MUL {
					for _, ref := range *a.Referrers() {
						if st, ok := ref.(*ssa.Store); ok && st.Addr == a {
							walk(st.Val, d+1)
						}
					}
				}
			}
		}
		walk(v, 0)
		return found
	}
	// closureRemovesTemp: a call of a local closure whose body, on every path,
	// calls os.Remove on the captured temp name.
	closureRemovesTemp := func(com *ssa.CallCommon) bool {
		mc, ok := com.Value.(*ssa.MakeClosure)
		if !ok {
			return false
		}
		cf, ok := mc.Fn.(*ssa.Function)
		if !ok || cf.Blocks == nil {
			return false
		}
		for _, b := range cf.Blocks {
			for _, in := range b.Instrs {
				call, ok := in.(*ssa.Call)
				if !ok || CalleeName(&call.Call) != "os.Remove" || len(call.Call.Args) != 1 {
					continue
				}
				ld, ok := call.Call.Args[0].(*ssa.UnOp)
				if !ok || ld.Op != token.MUL {
					continue
				}
				fv, ok := ld.X.(*ssa.FreeVar)
				if !ok {
					continue
				}
				for i, f := range cf.FreeVars {
					if f != fv || i >= len(mc.Bindings) {
						continue
					}
					al, ok := mc.Bindings[i].(*ssa.Alloc)
					if !ok {
						continue
					}
					isName := false
					for _, ref := range *al.Referrers() {
						if st, ok := ref.(*ssa.Store); ok && st.Addr == al && isTempName(st.Val) {
							isName = true
						}
					}
					if !isName {
						continue
					}
					all := true
					for _, rb := range cf.Blocks {
						if _, isRet := rb.Instrs[len(rb.Instrs)-1].(*ssa.Return); isRet && !b.Dominates(rb) {
							all = false
						}
					}
					if all {
						return true
					}
				}
			}
		}
		return false
	}

	// ---- R19.1 the target is only ever replaced by rename ----------------
	r.Rule("R19.1", "in processFileInPlace the input file name flows only into os.Stat, IsUpdateableInPlace, path.Dir, FindInputEncoding, the one-element file list of stream.Stream, os.Rename's destination and os.Chmod; the stream writes to the temp handle (possibly wrapped) with outputIsStdout=false")
	allowed := map[string]int{"os.Stat": 0, "pkg/lib.IsUpdateableInPlace": 0, "path.Dir": 0, "path/filepath.Dir": 0, "pkg/lib.FindInputEncoding": 0, "os.Rename": 1, "os.Chmod": 0}
	nUses := 0
	var visitUse func(v ssa.Value, depth int)
	visitUse = func(v ssa.Value, depth int) {
		if v.Referrers() == nil || depth > 4 {
			return
		}
		for _, ref := range *v.Referrers() {
			switch x := ref.(type) {
			case *ssa.Call:
				name := CalleeName(&x.Call)
				pos, ok := allowed[name]
				argOK := ok && pos < len(x.Call.Args) && x.Call.Args[pos] == v
				// also flag if it appears at any other position
				for i, a := range x.Call.Args {
					if a == v && !(ok && i == pos) {
						argOK = false
					}
				}
				nUses++
				r.Check(argOK, "R19.1", fmt.Sprintf("fileName → %s", name), c.Rel(x.Pos()), "allowed use",
					fmt.Sprintf("the in-place target's name is passed to %s (argument use not in the allowed list): the file may be opened, truncated or removed other than by the final rename", name))
			case *ssa.Store:
				// element of the []string{fileName} literal
				if ia, ok := x.Addr.(*ssa.IndexAddr); ok && x.Val == v {
					okSlice := false
					if al, ok := ia.X.(*ssa.Alloc); ok {
						for _, r2 := range *al.Referrers() {
							if sl, ok := r2.(*ssa.Slice); ok {
								for _, r3 := range *sl.Referrers() {
									if call, ok := r3.(*ssa.Call); ok && call == streamCall && call.Call.Args[0] == sl {
										okSlice = true
									}
								}
							}
						}
					}
					nUses++
					r.Check(okSlice, "R19.1", "fileName → file list", c.Rel(x.Pos()), "stored into the slice passed as stream.Stream's file list",
						"the target's name is stored into a container that is not the file list of stream.Stream")
				} else {
					nUses++
					r.Fail("R19.1", "fileName → store", c.Rel(x.Pos()), "the target's name is stored to memory; its uses can no longer be enumerated")
				}
			case *ssa.Phi, *ssa.MakeInterface, *ssa.ChangeType, *ssa.Convert:
				visitUse(x.(ssa.Value), depth+1)
			case *ssa.DebugRef:
			case *ssa.BinOp, *ssa.Slice:
				// derived strings (e.g. fileName + ".tmp"): follow
				visitUse(x.(ssa.Value), depth+1)
			default:
				nUses++
				r.Fail("R19.1", "fileName → "+fmt.Sprintf("%T", ref), c.Rel(ref.Pos()), "unrecognised use of the target's name")
			}
		}
	}
	visitUse(fileName, 0)
	r.Floor("R19.1", "uses of the target name", nUses, 6)
	// writer of Stream
	if len(streamCall.Call.Args) >= 5 {
		w := streamCall.Call.Args[3]
		okW := (wrapped != nil && FlowsFrom(w, wrapped, 0) && wrap != nil && FlowsFrom(wrap.Call.Args[0], tempHandle, 0)) || (tempHandle != nil && FlowsFrom(w, tempHandle, 0))
		r.Check(okW, "R19.1", "Stream output handle", c.Rel(streamCall.Pos()), "stream.Stream writes to WrapOutputHandle(os.CreateTemp handle)",
			"the output handle passed to stream.Stream does not derive from the os.CreateTemp handle")
		b, isConst := constBool(streamCall.Call.Args[4])
		r.Check(isConst && !b, "R19.1", "Stream outputIsStdout", c.Rel(streamCall.Pos()), "outputIsStdout=false", "stream.Stream is called with outputIsStdout != false in in-place mode")
	} else {
		r.Undecided("R19.1", "Stream signature", c.Rel(streamCall.Pos()), "stream.Stream no longer has 5 arguments")
	}

	// ---- R19.2 / R19.3 typestate ----------------------------------------
	r.Rule("R19.2", "os.Rename(temp, target) is reached only on paths where stream.Stream returned nil, the recompressor Close() returned nil when one was created, and the temp handle's Close() returned nil; a nil return implies the rename happened")
	r.Rule("R19.3", "after a successful os.CreateTemp every path to a non-nil return before the rename removes the temp file (os.Remove(handle.Name())); no removal after the rename")
	viol2 := map[string]string{}
	viol3 := map[string]string{}
	okExits := map[string]bool{}
	renameChecked := false
	isCloseOf := func(call *ssa.Call, src ssa.Value) bool {
		if src == nil {
			return false
		}
		com := &call.Call
		if com.IsInvoke() {
			return com.Method.Name() == "Close" && FlowsFrom(com.Value, src, 0)
		}
		n := CalleeName(com)
		return strings.HasSuffix(n, ".Close") && len(com.Args) >= 1 && FlowsFrom(com.Args[0], src, 0)
	}
	callLabel := func(call *ssa.Call) string {
		n := CalleeName(&call.Call)
		if call.Call.IsInvoke() {
			n = "invoke " + call.Call.Method.Name()
		}
		if isCloseOf(call, wrapped) && !isCloseOf(call, tempHandle) {
			return "recompressor Close"
		}
		if isCloseOf(call, tempHandle) {
			return "temp handle Close"
		}
		return n
	}
	pr := &PathRule{Fn: fn, Init: Facts{}}
	pr.Transfer = func(f Facts, in ssa.Instruction, deferred bool) []Facts {
		var com *ssa.CallCommon
		var call *ssa.Call
		switch x := in.(type) {
		case *ssa.Call:
			com, call = &x.Call, x
		case *ssa.Defer:
			if !deferred {
				return nil
			}
			com = &x.Call
		default:
			return nil
		}
		name := CalleeName(com)
		switch {
		case call != nil && call == createTemp:
			return []Facts{f.With("temp")}
		case (name == "os.Remove" && len(com.Args) == 1 && isTempName(com.Args[0])) || closureRemovesTemp(com):
			if f.Has("renamed") {
				viol3["remove after rename"] = c.Rel(in.Pos()) + ": os.Remove of the temp name after the rename (the name no longer exists / may be reused)"
			}
			return []Facts{f.Without("temp")}
		case call != nil && call == rename:
			renameChecked = true
			var missing []string
			if !f.Has("ok:pkg/stream.Stream") {
				missing = append(missing, "stream.Stream returned nil")
			}
			if !f.Has("ok:temp handle Close") {
				missing = append(missing, "temp handle Close() returned nil")
			}
			if wrap != nil && !(f.Has("ok:recompressor Close") || f.Has("notNew")) {
				missing = append(missing, "recompressor Close() returned nil (or no recompressor was created)")
			}
			if !(len(com.Args) == 2 && isTempName(com.Args[0]) && FlowsFrom(com.Args[1], fileName, 0)) {
				missing = append(missing, "arguments are (handle.Name(), fileName)")
			}
			if len(missing) > 0 {
				viol2["rename preconditions"] = c.Rel(in.Pos()) + ": os.Rename is reachable on a path where not: " + strings.Join(missing, "; ")
			}
			return nil
		}
		return nil
	}
	pr.Branch = func(f Facts, cond ssa.Value, pol bool, iff *ssa.If) (Facts, bool) {
		if isNew != nil && cond == isNew {
			if pol {
				return f.With("isNew"), true
			}
			return f.With("notNew"), true
		}
		if call, nonNil, ok := ErrCheck(cond); ok {
			failed := nonNil == pol
			lab := callLabel(call)
			g := f.Clone()
			for k := range g {
				if strings.HasPrefix(k, "lastfail:") {
					delete(g, k)
				}
			}
			if failed {
				g["lastfail:"+lab] = true
				if call == createTemp {
					delete(g, "temp")
				}
			} else {
				g["ok:"+lab] = true
				if call == rename {
					g["renamed"] = true
					delete(g, "temp")
				}
			}
			return g, true
		}
		return nil, true
	}
	pr.AtReturn = func(f Facts, ret *ssa.Return) {
		last := "none"
		for k := range f {
			if strings.HasPrefix(k, "lastfail:") {
				last = strings.TrimPrefix(k, "lastfail:")
			}
		}
		if ReturnsNilError(ret) {
			if !f.Has("renamed") {
				viol2["nil return without rename"] = c.Rel(ret.Pos()) + ": a path returns nil (success) without the rename having succeeded"
			}
			if f.Has("temp") {
				viol3["success exit"] = c.Rel(ret.Pos()) + ": a success return leaves the temp file"
			}
			return
		}
		key := "error exit after failed " + last
		if f.Has("temp") {
			viol3[key] = c.Rel(ret.Pos()) + ": error return (after failure of " + last + ") without os.Remove(handle.Name()): the temporary file is left behind"
		} else {
			okExits[key] = true
		}
	}
	pr.Run()
	if pr.Overflow {
		r.Undecided("R19.2", "typestate", c.Rel(fn.Pos()), "state space exceeded")
	}
	if !renameChecked {
		r.Fail("R19.2", "rename preconditions", c.Rel(rename.Pos()), "os.Rename is not reachable in the analysed paths")
	} else if _, bad := viol2["rename preconditions"]; !bad {
		r.OK("R19.2", "rename preconditions", c.Rel(rename.Pos()), "Stream ok ∧ (recompressor closed ok ∨ none) ∧ temp handle closed ok on every path to os.Rename")
	}
	if _, bad := viol2["nil return without rename"]; !bad {
		r.OK("R19.2", "nil return without rename", c.Rel(fn.Pos()), "every nil return follows a successful rename")
	}
	for _, k := range sortedKeys(viol2) {
		r.Fail("R19.2", k, strings.SplitN(viol2[k], ": ", 2)[0], viol2[k])
	}
	for _, k := range sortedKeys(viol3) {
		r.Fail("R19.3", k, strings.SplitN(viol3[k], ": ", 2)[0], viol3[k])
	}
	nOKExits := 0
	for _, k := range sortedKeysB(okExits) {
		if _, bad := viol3[k]; !bad {
			nOKExits++
			r.OK("R19.3", k, c.Rel(fn.Pos()), "temp file removed (or not yet created) on this exit")
		}
	}
	if _, bad := viol3["remove after rename"]; !bad {
		r.OK("R19.3", "remove after rename", c.Rel(fn.Pos()), "no os.Remove of the temp name after a successful rename")
	}
	r.Floor("R19.3", "error exits examined", nOKExits+len(viol3), 5)

	// a nil return of stream.Stream implies its final Flush succeeded
	c17Flush(c, r, "R19.2b")

	// ---- R19.4 refusal before modification --------------------------------
	r.Rule("R19.4", "IsUpdateableInPlace and os.Stat are called, and their errors returned, before os.CreateTemp; IsUpdateableInPlace rejects every URL prefix PathToHandle recognises and a non-empty prepipe; WrapOutputHandle errors for bzip2 and compresses for gzip/zlib")
	dominatesWithErrReturn := func(call *ssa.Call, what string) {
		if call == nil {
			return
		}
		ok := call.Block().Dominates(createTemp.Block()) && call.Block() != createTemp.Block()
		// error returned: the block's If on err != nil leads to a non-nil return
		errRet := false
		ev := ErrValueOf(call)
		if ev != nil {
			for _, ref := range *ev.Referrers() {
				if bo, isBin := ref.(*ssa.BinOp); isBin {
					for _, r2 := range *bo.Referrers() {
						if iff, isIf := r2.(*ssa.If); isIf {
							cc, nonNil, ok2 := ErrCheck(bo)
							if !ok2 || cc != call {
								continue
							}
							idx := 0
							if !nonNil {
								idx = 1
							}
							succ := iff.Block().Succs[idx]
							if ret, isRet := succ.Instrs[len(succ.Instrs)-1].(*ssa.Return); isRet && !ReturnsNilError(ret) && !succ.Dominates(createTemp.Block()) {
								errRet = true
							}
						}
					}
				}
			}
		}
		r.Check(ok && errRet, "R19.4", what+" before CreateTemp", c.Rel(call.Pos()), "dominates os.CreateTemp and its error is returned",
			fmt.Sprintf("%s must be called, and a non-nil error returned, before the temp file is created (dominates=%v, error returned=%v)", what, ok, errRet))
	}
	dominatesWithErrReturn(updateable, "lib.IsUpdateableInPlace")
	var statChecked *ssa.Call
	for _, s := range stats {
		if ev := ErrValueOf(s); ev != nil && len(s.Call.Args) == 1 && FlowsFrom(s.Call.Args[0], fileName, 0) {
			// the one whose FileInfo result is used
			if fi := extract(s, 0); fi != nil && fi.Referrers() != nil && len(*fi.Referrers()) > 0 {
				statChecked = s
			}
		}
	}
	if statChecked == nil {
		r.Fail("R19.4", "os.Stat before CreateTemp", c.Rel(fn.Pos()), "no os.Stat(fileName) whose FileInfo is used")
	} else {
		dominatesWithErrReturn(statChecked, "os.Stat")
	}
	c19Prefixes(c, r)
	c19Wrap(c, r)

	// ---- R19.5 temp in same directory -------------------------------------
	r.Rule("R19.5", "the temp file is created in path.Dir(fileName) of the same fileName, so the rename stays within one directory")
	okDir := false
	if dc, ok := createTemp.Call.Args[0].(*ssa.Call); ok {
		n := CalleeName(&dc.Call)
		if (n == "path.Dir" || n == "path/filepath.Dir") && FlowsFrom(dc.Call.Args[0], fileName, 0) {
			okDir = true
		}
	}
	r.Check(okDir, "R19.5", "CreateTemp directory", c.Rel(createTemp.Pos()), "os.CreateTemp(path.Dir(fileName), …)",
		"os.CreateTemp's directory argument is not path.Dir(fileName): a rename across file systems is not atomic")

	// ---- R19.6 stop at first failure; fresh chain per file -----------------
	r.Rule("R19.6", "processFilesInPlace returns at the first non-nil error of processFileInPlace; the per-file function calls climain.ParseCommandLine itself and passes those fresh options/transformers and exactly []string{fileName} to stream.Stream")
	var innerCall *ssa.Call
	for _, b := range outer.Blocks {
		for _, in := range b.Instrs {
			if call, ok := in.(*ssa.Call); ok && call.Call.StaticCallee() == fn {
				innerCall = call
			}
		}
	}
	if innerCall == nil {
		r.Fail("R19.6", "loop calls per-file function", c.Rel(outer.Pos()), "processFilesInPlace does not call processFileInPlace")
	} else {
		stops := false
		ev := ErrValueOf(innerCall)
		if ev != nil {
			for _, ref := range *ev.Referrers() {
				bo, ok := ref.(*ssa.BinOp)
				if !ok {
					continue
				}
				cc, nonNil, ok2 := ErrCheck(bo)
				if !ok2 || cc != innerCall {
					continue
				}
				for _, r2 := range *bo.Referrers() {
					if iff, ok := r2.(*ssa.If); ok {
						idx := 0
						if !nonNil {
							idx = 1
						}
						succ := iff.Block().Succs[idx]
						if ret, isRet := succ.Instrs[len(succ.Instrs)-1].(*ssa.Return); isRet && !ReturnsNilError(ret) && len(succ.Instrs) <= 2 {
							stops = true
						}
					}
				}
			}
		}
		r.Check(stops, "R19.6", "stop at first failure", c.Rel(innerCall.Pos()), "if err != nil { return err } directly after the per-file call",
			"processFilesInPlace does not return immediately with the error of processFileInPlace: later files would still be modified after a failure")
	}
	if len(parses) == 0 {
		r.Fail("R19.6", "fresh chain per file", c.Rel(fn.Pos()), "processFileInPlace does not call climain.ParseCommandLine: options, verb state (head counts, NR, begin/end) would be shared between files")
	} else {
		p := parses[0]
		opt, tr := extract(p, 0), extract(p, 1)
		ok := len(streamCall.Call.Args) >= 3 && opt != nil && tr != nil && FlowsFrom(streamCall.Call.Args[1], opt, 0) && FlowsFrom(streamCall.Call.Args[2], tr, 0) && p.Block().Dominates(streamCall.Block())
		r.Check(ok, "R19.6", "fresh chain per file", c.Rel(p.Pos()), "stream.Stream receives the options and transformers of the per-file ParseCommandLine",
			"stream.Stream is not given the options/transformers returned by the per-file climain.ParseCommandLine call")
	}
	// slice literal length 1
	if sl, ok := streamCall.Call.Args[0].(*ssa.Slice); ok {
		l := -1
		if al, ok := sl.X.(*ssa.Alloc); ok {
			if arr, ok := al.Type().Underlying().(*types.Pointer).Elem().Underlying().(*types.Array); ok {
				l = int(arr.Len())
			}
		}
		r.Check(l == 1, "R19.6", "one file per stream", c.Rel(streamCall.Pos()), "file list literal has exactly one element", fmt.Sprintf("stream.Stream's file list literal has %d elements", l))
	} else {
		r.Fail("R19.6", "one file per stream", c.Rel(streamCall.Pos()), "stream.Stream's file list is not a one-element literal of fileName")
	}

	// ---- R19.7 mode preserved ---------------------------------------------
	r.Rule("R19.7", "os.Chmod(fileName, m) runs after the successful rename with m = os.Stat(fileName).Mode() taken before the temp file was created")
	if chmod != nil && statChecked != nil {
		okMode := false
		if mc, ok := chmod.Call.Args[1].(*ssa.Call); ok && mc.Call.IsInvoke() && mc.Call.Method.Name() == "Mode" {
			if fi := extract(statChecked, 0); fi != nil && FlowsFrom(mc.Call.Value, fi, 0) && mc.Block().Dominates(createTemp.Block()) {
				okMode = true
			}
		}
		after := rename.Block().Dominates(chmod.Block())
		r.Check(okMode && after && FlowsFrom(chmod.Call.Args[0], fileName, 0), "R19.7", "chmod", c.Rel(chmod.Pos()), "mode from the pre-temp os.Stat, applied to fileName after rename",
			fmt.Sprintf("os.Chmod does not apply the mode of the pre-temp os.Stat(fileName) to fileName after the rename (mode ok=%v, after rename=%v)", okMode, after))
	}

	// ---- R19.8 no unexpected exit inside the stream -------------------------
	r.Rule("R19.8", "no os.Exit site outside the documented keep-list is reachable from stream.Stream (an exit mid-stream skips the temp-file cleanup)")
	checkExitSites(c, r, "R19.8", true)
	c19PerFileState(c, r)
	c19Encodings(c, r)
	c19ParserKeepsNothing(c, r)
	c19RefuseUpFront(c, r)
}

func isStringType(t types.Type) bool {
	b, ok := t.Underlying().(*types.Basic)
	return ok && b.Kind() == types.String
}

func sortedKeys(m map[string]string) []string {
	ks := make([]string, 0, len(m))
	for k := range m {
		ks = append(ks, k)
	}
	sort.Strings(ks)
	return ks
}
func sortedKeysB(m map[string]bool) []string {
	ks := make([]string, 0, len(m))
	for k := range m {
		ks = append(ks, k)
	}
	sort.Strings(ks)
	return ks
}

// stringPrefixConsts collects constant prefixes p of strings.HasPrefix(x, p)
// calls in fn.
func stringPrefixConsts(c *Ctx, f *types.Func) map[string]bool {
	out := map[string]bool{}
	d := c.Decl(f)
	p := c.PkgOfFunc(f)
	if d == nil || d.Body == nil {
		return out
	}
	ast.Inspect(d.Body, func(n ast.Node) bool {
		call, ok := n.(*ast.CallExpr)
		if !ok || len(call.Args) != 2 {
			return true
		}
		if fn := resolveFuncExpr(p.TypesInfo, call.Fun); fn != nil && fn.Pkg() != nil && fn.Pkg().Path() == "strings" && fn.Name() == "HasPrefix" {
			if tv, ok := p.TypesInfo.Types[call.Args[1]]; ok && tv.Value != nil && tv.Value.Kind() == constant.String {
				out[constant.StringVal(tv.Value)] = true
			}
		}
		return true
	})
	return out
}

func c19Prefixes(c *Ctx, r *Report) {
	up := c.LookupFunc("pkg/lib", "IsUpdateableInPlace")
	ph := c.LookupFunc("pkg/lib", "PathToHandle")
	if up == nil || ph == nil {
		r.Undecided("R19.4", "URL prefixes", "", "lib.IsUpdateableInPlace / lib.PathToHandle not found")
		return
	}
	a, b := stringPrefixConsts(c, up), stringPrefixConsts(c, ph)
	r.Floor("R19.4", "URL prefixes recognised by PathToHandle", len(b), 3)
	for _, pfx := range sortedKeysB(b) {
		r.Check(a[pfx], "R19.4", "refuses prefix "+pfx, c.Rel(up.Pos()), "IsUpdateableInPlace tests the prefix PathToHandle opens specially",
			fmt.Sprintf("PathToHandle treats %q as a non-local source but IsUpdateableInPlace does not refuse it: -I would 'update' a URL by renaming over a local path", pfx))
	}
	// every HasPrefix-true path and the prepipe != "" path return non-nil
	sf := c.SSAFunc(up)
	bad := ""
	n := 0
	for _, blk := range sf.Blocks {
		iff, ok := blk.Instrs[len(blk.Instrs)-1].(*ssa.If)
		if !ok {
			continue
		}
		cond, pol := stripNot(iff.Cond, true)
		isRefusal := false
		what := ""
		if call, ok := cond.(*ssa.Call); ok && CalleeName(&call.Call) == "strings.HasPrefix" {
			isRefusal = true
			if s, ok := constString(call.Call.Args[1]); ok {
				what = "prefix " + s
			}
		}
		if bo, ok := cond.(*ssa.BinOp); ok && len(sf.Params) >= 2 && (bo.X == sf.Params[1] || bo.Y == sf.Params[1]) {
			if s, ok := constString(bo.Y); ok && s == "" {
				isRefusal = true
				what = "prepipe"
				if bo.Op.String() == "==" {
					pol = !pol
				}
			}
		}
		if !isRefusal {
			continue
		}
		n++
		idx := 0
		if !pol {
			idx = 1
		}
		// the refusing successor must lead only to non-nil returns before any nil return
		succ := blk.Succs[idx]
		if !leadsOnlyToErrorReturn(succ, map[*ssa.BasicBlock]bool{}) {
			bad += what + "; "
		}
	}
	r.Check(bad == "" && n >= 4, "R19.4", "refusals return an error", c.Rel(up.Pos()), fmt.Sprintf("%d refusal tests all lead to a non-nil return", n),
		fmt.Sprintf("IsUpdateableInPlace: refusal test(s) %s do not lead to an error return (found %d tests, expected 3 prefixes + prepipe)", bad, n))
}

func leadsOnlyToErrorReturn(b *ssa.BasicBlock, seen map[*ssa.BasicBlock]bool) bool {
	if seen[b] {
		return true
	}
	seen[b] = true
	last := b.Instrs[len(b.Instrs)-1]
	switch x := last.(type) {
	case *ssa.Return:
		return !ReturnsNilError(x)
	case *ssa.If:
		// short-circuit || chains: the true edge continues to the same return
		cond, _ := stripNot(x.Cond, true)
		if call, ok := cond.(*ssa.Call); ok && CalleeName(&call.Call) == "strings.HasPrefix" {
			return leadsOnlyToErrorReturn(b.Succs[0], seen)
		}
		return leadsOnlyToErrorReturn(b.Succs[0], seen) && leadsOnlyToErrorReturn(b.Succs[1], seen)
	case *ssa.Jump:
		return leadsOnlyToErrorReturn(b.Succs[0], seen)
	}
	return false
}

func c19Wrap(c *Ctx, r *Report) {
	f := c.LookupFunc("pkg/lib", "WrapOutputHandle")
	if f == nil {
		r.Undecided("R19.4", "WrapOutputHandle", "", "lib.WrapOutputHandle not found")
		return
	}
	p := c.PkgOfFunc(f)
	d := c.Decl(f)
	got := map[string]string{}
	ast.Inspect(d.Body, func(n ast.Node) bool {
		cc, ok := n.(*ast.CaseClause)
		if !ok {
			return true
		}
		desc := "?"
		if len(cc.Body) == 1 {
			if rs, ok := cc.Body[0].(*ast.ReturnStmt); ok && len(rs.Results) == 3 {
				errIsNil := false
				if id, ok := rs.Results[2].(*ast.Ident); ok && id.Name == "nil" {
					errIsNil = true
				}
				if !errIsNil {
					desc = "error"
				} else if call, ok := rs.Results[0].(*ast.CallExpr); ok {
					if fn := resolveFuncExpr(p.TypesInfo, call.Fun); fn != nil && fn.Pkg() != nil {
						desc = fn.Pkg().Path() + "." + fn.Name()
					}
				} else {
					desc = "passthrough"
				}
			}
		}
		if cc.List == nil {
			got["default"] = desc
		}
		for _, l := range cc.List {
			if id := exprObjName(p.TypesInfo, l); id != "" {
				got[id] = desc
			}
		}
		return true
	})
	want := map[string][]string{
		"FileInputEncodingBzip2": {"error"},
		"FileInputEncodingGzip":  {"compress/gzip.NewWriter", "github.com/klauspost/compress/gzip.NewWriter"},
		"FileInputEncodingZlib":  {"compress/zlib.NewWriter", "github.com/klauspost/compress/zlib.NewWriter"},
	}
	for _, k := range []string{"FileInputEncodingBzip2", "FileInputEncodingGzip", "FileInputEncodingZlib"} {
		ok := false
		for _, w := range want[k] {
			if got[k] == w {
				ok = true
			}
		}
		r.Check(ok, "R19.4", "WrapOutputHandle "+k, c.Rel(f.Pos()), got[k], fmt.Sprintf("WrapOutputHandle case %s yields %q, expected one of %v", k, got[k], want[k]))
	}
}

func exprObjName(info *types.Info, e ast.Expr) string {
	switch x := e.(type) {
	case *ast.Ident:
		if o := info.Uses[x]; o != nil {
			return o.Name()
		}
	case *ast.SelectorExpr:
		if o := info.Uses[x.Sel]; o != nil {
			return o.Name()
		}
	}
	return ""
}


// ---- R19.6b -------------------------------------------------------------------
// Process-wide state that a command line sets is set by the per-file re-parse.
func c19PerFileState(c *Ctx, r *Report) {
	r.Rule("R19.6b", "what the command line sets process-wide is set again for every file: lib.SeedRandom (--seed) and lib.SetTZFromEnv (--tz) are called from the call tree of climain.ParseCommandLine — which in-place mode runs once per file — and from nowhere in pkg/entrypoint, so that each file is processed as the same command would process it alone")
	parse := c.SSAFunc(c.LookupFunc("pkg/climain", "ParseCommandLine"))
	if parse == nil {
		r.Undecided("R19.6b", "ParseCommandLine", "", "anchor not found")
		return
	}
	reach := staticReach(c, parse)
	for _, name := range []string{"SeedRandom", "SetTZFromEnv"} {
		target := c.SSAFunc(c.LookupFunc("pkg/lib", name))
		if target == nil {
			r.Undecided("R19.6b", name, "", "lib."+name+" not found")
			continue
		}
		var outside []string
		called := false
		for _, fn := range c.ModuleFunctions() {
			for _, b := range fn.Blocks {
				for _, in := range b.Instrs {
					call, ok := in.(ssa.CallInstruction)
					if !ok || call.Common().StaticCallee() != target {
						continue
					}
					if reach[fn] {
						called = true
						continue
					}
					pk := ""
					if fn.Pkg != nil {
						pk = fn.Pkg.Pkg.Path()
					}
					if strings.HasSuffix(pk, "/pkg/entrypoint") || strings.HasSuffix(pk, "/cmd/mlr") {
						outside = append(outside, SSAName(fn)+" at "+c.Rel(in.Pos()))
					}
				}
			}
		}
		r.Check(called && len(outside) == 0, "R19.6b", "lib."+name+" is applied by the per-file parse", c.Rel(target.Pos()), "called under ParseCommandLine, not from the entry point",
			fmt.Sprintf("lib.%s: called under climain.ParseCommandLine=%v; called from the entry point: %v — with -I only the first file would be processed with the setting freshly applied, so later files differ from what the same command prints for them alone", name, called, outside))
	}
}

// c19Encodings (R19.9): in-place mode writes back in the encoding it read.
func c19Encodings(c *Ctx, r *Report) {
	r.Rule("R19.9", "in-place mode writes back in the encoding it read: (a) WrapOutputHandle has an explicit case — a compressing writer or a refusal — for every decompressing constant of TFileInputEncoding, so that its default arm passes through plain input only; (b) FindInputEncoding recognises the same file-name suffixes, with the same meaning, as the read path (openEncodedHandleForRead). A decompressor the write side does not know leaves plain text under the compressed file's name")
	p := c.Pkg("pkg/lib")
	if p == nil {
		r.Undecided("R19.9", "pkg/lib", "", "package not loaded")
		return
	}
	encT, _ := p.Types.Scope().Lookup("TFileInputEncoding").(*types.TypeName)
	if encT == nil {
		r.Undecided("R19.9", "TFileInputEncoding", "", "type not found")
		return
	}
	consts := map[int64]string{}
	for _, nm := range p.Types.Scope().Names() {
		if k, ok := p.Types.Scope().Lookup(nm).(*types.Const); ok && types.Identical(k.Type(), encT.Type()) {
			if v, ok := constant.Int64Val(k.Val()); ok {
				consts[v] = nm
			}
		}
	}
	// (a) cases of WrapOutputHandle
	wrap := c.SSAFunc(c.LookupFunc("pkg/lib", "WrapOutputHandle"))
	if wrap == nil || wrap.Blocks == nil {
		r.Undecided("R19.9", "WrapOutputHandle", "", "function not found")
	} else {
		var enc *ssa.Parameter
		for _, prm := range wrap.Params {
			if types.Identical(prm.Type(), encT.Type()) {
				enc = prm
			}
		}
		handled := map[int64]bool{}
		for _, b := range wrap.Blocks {
			for _, in := range b.Instrs {
				if cmp, ok := in.(*ssa.BinOp); ok && cmp.Op == token.EQL && enc != nil && cmp.X == ssa.Value(enc) {
					if k, ok := cmp.Y.(*ssa.Const); ok && k.Value != nil {
						if v, ok := constant.Int64Val(k.Value); ok {
							handled[v] = true
						}
					}
				}
			}
		}
		for v, nm := range consts {
			if strings.HasSuffix(nm, "Default") {
				continue
			}
			r.Check(handled[v], "R19.9", "WrapOutputHandle: case "+nm, c.Rel(wrap.Pos()), "explicit case",
				"WrapOutputHandle has no case for "+nm+": input read through that decompressor is written back as plain text under the same (compressed-looking) name")
		}
	}
	// (b) suffix tables of the two siblings
	suffixes := func(fn *ssa.Function) map[string]string {
		out := map[string]string{}
		if fn == nil || fn.Blocks == nil {
			return nil
		}
		for _, b := range fn.Blocks {
			iff, ok := b.Instrs[len(b.Instrs)-1].(*ssa.If)
			if !ok {
				continue
			}
			call, ok := iff.Cond.(*ssa.Call)
			if !ok || CalleeName(&call.Call) != "strings.HasSuffix" {
				continue
			}
			k, ok := call.Call.Args[1].(*ssa.Const)
			if !ok || k.Value == nil || k.Value.Kind() != constant.String {
				continue
			}
			// what the true arm does: the decompressor constructor it calls, or the constant it returns
			what := "?"
			for _, in := range b.Succs[0].Instrs {
				switch x := in.(type) {
				case *ssa.Call:
					cn := CalleeName(&x.Call)
					cn = strings.ToLower(cn)
					for _, z := range []string{"bzip2", "gzip", "zlib", "zstd"} {
						if strings.Contains(cn, z) {
							what = z
						}
					}
				case *ssa.Return:
					if len(x.Results) > 0 {
						if kc, ok := x.Results[0].(*ssa.Const); ok && kc.Value != nil && kc.Value.Kind() == constant.Int {
							if v, ok := constant.Int64Val(kc.Value); ok {
								nm := strings.ToLower(consts[v])
								for _, z := range []string{"bzip2", "gzip", "zlib", "zstd"} {
									if strings.Contains(nm, z) {
										what = z
									}
								}
							}
						}
					}
				}
			}
			out[constant.StringVal(k.Value)] = what
		}
		return out
	}
	var rd *ssa.Function
	for _, fobj := range c.FuncsOfPkg(p) {
		fn := c.SSAFunc(fobj)
		if fn == nil {
			continue
		}
		hasEnc, hasHandle := false, false
		for _, prm := range fn.Params {
			if types.Identical(prm.Type(), encT.Type()) {
				hasEnc = true
			}
			if strings.HasSuffix(prm.Type().String(), "io.ReadCloser") {
				hasHandle = true
			}
		}
		if hasEnc && hasHandle {
			rd = fn
		}
	}
	find := c.SSAFunc(c.LookupFunc("pkg/lib", "FindInputEncoding"))
	a, b := suffixes(rd), suffixes(find)
	// FindInputEncoding may walk a table of (suffix, encoding) pairs instead of testing constants one by one
	if find != nil && len(b) == 0 {
		b = map[string]string{}
		for _, file := range p.Syntax {
			ast.Inspect(file, func(n ast.Node) bool {
				cl, ok := n.(*ast.CompositeLit)
				if !ok || len(cl.Elts) != 2 {
					return true
				}
				sfx, ok1 := constStrOf(p.TypesInfo, cl.Elts[0])
				if kv, isKV := cl.Elts[0].(*ast.KeyValueExpr); isKV {
					sfx, ok1 = constStrOf(p.TypesInfo, kv.Value)
				}
				second := cl.Elts[1]
				if kv, isKV := second.(*ast.KeyValueExpr); isKV {
					second = kv.Value
				}
				tv, ok2 := p.TypesInfo.Types[second]
				if !ok1 || !ok2 || !strings.HasPrefix(sfx, ".") || tv.Value == nil || !types.Identical(tv.Type, encT.Type()) {
					return true
				}
				if v, exact := constant.Int64Val(tv.Value); exact {
					nm := strings.ToLower(consts[v])
					what := "?"
					for _, z := range []string{"bzip2", "gzip", "zlib", "zstd"} {
						if strings.Contains(nm, z) {
							what = z
						}
					}
					b[sfx] = what
				}
				return true
			})
		}
	}
	// the read path may simply ask FindInputEncoding: one table, nothing to disagree
	if rd != nil && find != nil && len(a) == 0 && len(b) >= 3 {
		delegates := false
		for _, bb := range rd.Blocks {
			for _, in := range bb.Instrs {
				if call, ok := in.(*ssa.Call); ok && call.Call.StaticCallee() == find {
					delegates = true
				}
			}
		}
		if delegates {
			r.OK("R19.9", "suffix tables", c.Rel(rd.Pos()), "the read path has no suffix tests of its own: it calls FindInputEncoding")
			r.Floor("R19.9", "file-name suffixes of FindInputEncoding", len(b), 3)
			return
		}
	}
	if a == nil || b == nil || len(a) == 0 {
		r.Undecided("R19.9", "suffix tables", "", "the read path's or FindInputEncoding's suffix tests were not found")
		return
	}
	var keys []string
	for k := range a {
		keys = append(keys, k)
	}
	for k := range b {
		if _, ok := a[k]; !ok {
			keys = append(keys, k)
		}
	}
	sort.Strings(keys)
	for _, k := range keys {
		r.Check(a[k] == b[k] && a[k] != "?", "R19.9", "suffix "+k, c.Rel(find.Pos()), "read path and FindInputEncoding agree: "+a[k],
			fmt.Sprintf("the read path treats a file name ending in %q as %q, FindInputEncoding as %q: in-place mode decompresses such a file while reading and writes it back in another encoding", k, a[k], b[k]))
	}
	r.Floor("R19.9", "file-name suffixes of the read path", len(a), 3)
}

// R19.10: the command-line parser keeps nothing between calls. In-place mode
// parses the command line anew for every file; a package-level variable that
// the parser assigns makes the second file's parse differ from the first's
// (a "loaded already" flag for .mlrrc would give every file after the first
// the built-in defaults).
func c19ParserKeepsNothing(c *Ctx, r *Report) {
	r.Rule("R19.10", "the command-line parser keeps nothing between calls: no function of package climain stores to a package-level variable of that package — mlr -I calls ParseCommandLine once per file, and each call must see what the first saw")
	p := c.Pkg("pkg/climain")
	if p == nil {
		r.Undecided("R19.10", "pkg/climain", "", "package not loaded")
		return
	}
	n, bad := 0, 0
	for _, fn := range c.ModuleFunctions() {
		if fn.Pkg == nil || fn.Blocks == nil || fn.Pkg.Pkg != p.Types || fn.Name() == "init" {
			continue
		}
		n++
		k := 0
		for _, b := range fn.Blocks {
			for _, in := range b.Instrs {
				st, ok := in.(*ssa.Store)
				if !ok {
					continue
				}
				addr := st.Addr
				for {
					switch x := addr.(type) {
					case *ssa.FieldAddr:
						addr = x.X
						continue
					case *ssa.IndexAddr:
						addr = x.X
						continue
					}
					break
				}
				g, ok := addr.(*ssa.Global)
				if !ok || g.Pkg != fn.Pkg {
					continue
				}
				k++
				bad++
				r.Fail("R19.10", fmt.Sprintf("%s: store to package variable %s #%d", SSAName(fn), g.Name(), k), c.Rel(st.Pos()),
					fmt.Sprintf("%s assigns the package-level variable %s: in-place mode parses the command line once per file, and the parse of the second file then depends on what the first left behind", SSAName(fn), g.Name()))
			}
		}
	}
	if bad == 0 {
		r.OK("R19.10", "no store to a package variable in package climain", "", fmt.Sprintf("%d functions examined", n))
	}
	r.Floor("R19.10", "functions of package climain examined", n, 10)
}

// R19.11: what cannot be updated in place is refused before anything is
// modified. The function that processes the files one after the other first
// walks all the names through the refusal tests (URL / prepipe, and the
// encodings that cannot be written back) in a loop of its own.
func c19RefuseUpFront(c *Ctx, r *Report) {
	r.Rule("R19.11", "refusals come before the first modification: in the function whose loop calls processFileInPlace for every file, a separate loop that comes first (its header dominates the other's) calls lib.IsUpdateableInPlace and lib.FindInputEncoding for every name and can return an error — with the tests made only when a file's turn comes, the files before an input that is refused have already been rewritten")
	n := 0
	for _, fn := range c.ModuleFunctions() {
		if fn.Pkg == nil || fn.Blocks == nil || !strings.HasSuffix(fn.Pkg.Pkg.Path(), "/pkg/entrypoint") {
			continue
		}
		loops := naturalLoops(fn)
		for _, l2 := range loops {
			modifies := false
			for b := range l2.Blocks {
				for _, in := range b.Instrs {
					if call, ok := in.(*ssa.Call); ok && strings.HasSuffix(CalleeName(&call.Call), ".processFileInPlace") {
						modifies = true
					}
				}
			}
			if !modifies {
				continue
			}
			n++
			ok := false
			for _, l1 := range loops {
				if l1 == l2 || !l1.Header.Dominates(l2.Header) || l1.Blocks[l2.Header] {
					continue
				}
				upd, enc, ret := false, false, false
				for b := range l1.Blocks {
					for _, in := range b.Instrs {
						if call, ok := in.(*ssa.Call); ok {
							cn := CalleeName(&call.Call)
							if strings.HasSuffix(cn, "lib.IsUpdateableInPlace") {
								upd = true
							}
							if strings.HasSuffix(cn, "lib.FindInputEncoding") || strings.HasSuffix(cn, "lib.WrapOutputHandle") {
								enc = true
							}
						}
					}
					for _, s := range b.Succs {
						if !l1.Blocks[s] && b != l1.Header {
							if _, isRet := s.Instrs[len(s.Instrs)-1].(*ssa.Return); isRet {
								ret = true
							}
						}
					}
					if _, isRet := b.Instrs[len(b.Instrs)-1].(*ssa.Return); isRet {
						ret = true
					}
				}
				if upd && enc && ret {
					ok = true
				}
			}
			r.Check(ok, "R19.11", SSAName(fn)+": per-file loop", c.Rel(fn.Pos()), "preceded by a loop that applies the refusal tests to every name",
				fmt.Sprintf("%s rewrites the files one after the other with no earlier pass over all the names through IsUpdateableInPlace and the encoding test: an input that is refused is found only after the files before it have been modified", SSAName(fn)))
		}
	}
	r.Floor("R19.11", "loops over processFileInPlace", n, 1)
}
