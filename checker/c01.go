package main

// C01 — the writer's escape table and the reader's unescape table of one
// format are inverse tables, every written cell goes through the escape and
// every read cell through the unescape, and the writer protects every byte the
// reader treats as structure.

import (
	"fmt"
	"go/ast"
	"go/constant"
	"go/token"
	"go/types"
	"regexp"
	"sort"
	"strings"

	"golang.org/x/tools/go/packages"
	"golang.org/x/tools/go/ssa"
)

func init() { register("C01", true, runC01) }

func runC01(c *Ctx, r *Report) {
	r.Explanation = "Round-trip equality of arbitrary record streams is a universally quantified equation over strings and is not decided. Decided is the table-agreement clause it rests on: encode and decode are hand-written byte switches, and a mis-escaped character class is a wrong table row. For TSV the escape and unescape tables are extracted from lib.TSVEncodeField / TSVDecodeField, checked to be inverse, to cover exactly the IANA set and to work byte-wise, and every key and value the TSV writer emits / every header and data cell the TSV reader stores is shown to pass through them; for CSV and DKVPX the needs-quoting predicate covers every byte the reader treats as structure and quote doubling is matched on both sides, no quoted special byte is dropped, and the reader does not rewrite bytes inside quotes; the JSON string escape table covers quote, backslash and every control byte with the RFC 8259 pairs and a four-hex-digit \\u form, and keys as well as values pass through it; the PPRINT empty-value token agrees between writer and reader; every constant replacement a writer applies has its inverse in the reader of the same format; no reader materialises fields through an order-destroying Go map."
	r.NotDecided = "round-trip equality on data; widths and padding; ragged / heterogeneous handling; BOM and CR/LF autodetection; what an external RFC-4180 / RFC-8259 reader accepts; csvlite/pprint schema-block separation (keys joined with a comma are compared as one string)."
	c01TSVTables(c, r)
	c01TSVUse(c, r)
	c01CSV(c, r)
	c01CSVWholeFieldWrites(c, r)
	c01SuffixOnPieces(c, r)
	c01ReusedBuffers(c, r)
	c01BOMSiblings(c, r)
	c01DKVPX(c, r)
	c01JSON(c, r)
	c01Void(c, r)
	c01Replacements(c, r)
	c01Order(c, r)
}

// ---- escape-table extraction (AST) -----------------------------------------

type escRow struct {
	out    []byte
	opaque string // non-empty: a statement the extractor does not understand
}

type escTable struct {
	fn          string
	pos         token.Pos
	rows        map[int64]*escRow
	defIdentity bool   // default branch writes the source byte/rune back
	defRangeLT  int64  // default branch: "if x < K" threshold (0 = none)
	defFormat   string // Sprintf format used under that threshold
	defOpaque   string
	runeWise    bool // the scanned text is iterated with `range <string>` (runes)
	byteWise    bool
}

func constIntOf(info *types.Info, e ast.Expr) (int64, bool) {
	tv, ok := info.Types[e]
	if !ok || tv.Value == nil {
		return 0, false
	}
	if tv.Value.Kind() == constant.Int {
		v, ok := constant.Int64Val(tv.Value)
		return v, ok
	}
	return 0, false
}

func constStrOf(info *types.Info, e ast.Expr) (string, bool) {
	tv, ok := info.Types[e]
	if !ok || tv.Value == nil || tv.Value.Kind() != constant.String {
		return "", false
	}
	return constant.StringVal(tv.Value), true
}

// writeCallBytes: buffer.WriteByte(K) / WriteRune(K) / WriteString(K) with a constant.
func writeCallBytes(info *types.Info, st ast.Stmt) (out []byte, arg ast.Expr, isWrite bool) {
	es, ok := st.(*ast.ExprStmt)
	if !ok {
		return nil, nil, false
	}
	call, ok := es.X.(*ast.CallExpr)
	if !ok || len(call.Args) != 1 {
		return nil, nil, false
	}
	sel, ok := call.Fun.(*ast.SelectorExpr)
	if !ok {
		return nil, nil, false
	}
	switch sel.Sel.Name {
	case "WriteByte", "WriteRune":
		if v, ok := constIntOf(info, call.Args[0]); ok {
			return []byte(string(rune(v))), call.Args[0], true
		}
		return nil, call.Args[0], true
	case "WriteString":
		if s, ok := constStrOf(info, call.Args[0]); ok {
			return []byte(s), call.Args[0], true
		}
		return nil, call.Args[0], true
	}
	return nil, nil, false
}

func isCounterStmt(st ast.Stmt) bool {
	switch x := st.(type) {
	case *ast.IncDecStmt:
		return true
	case *ast.AssignStmt:
		return x.Tok == token.ADD_ASSIGN || x.Tok == token.SUB_ASSIGN
	}
	return false
}

// extractEscTable finds the first switch over a byte/rune variable in fn.
func extractEscTable(c *Ctx, pkgRel, fnName string) (*escTable, string) {
	f := c.LookupFunc(pkgRel, fnName)
	if f == nil {
		return nil, "function " + pkgRel + "." + fnName + " not found"
	}
	d := c.Decl(f)
	p := c.PkgOfFunc(f)
	if d == nil || d.Body == nil {
		return nil, "no body for " + fnName
	}
	info := p.TypesInfo
	t := &escTable{fn: fnName, pos: d.Pos(), rows: map[int64]*escRow{}}
	var sw *ast.SwitchStmt
	ast.Inspect(d.Body, func(n ast.Node) bool {
		switch x := n.(type) {
		case *ast.RangeStmt:
			if tv, ok := info.Types[x.X]; ok {
				if b, ok := tv.Type.Underlying().(*types.Basic); ok && b.Info()&types.IsString != 0 {
					t.runeWise = true
				} else {
					t.byteWise = true
				}
			}
		case *ast.ForStmt:
			t.byteWise = true
		case *ast.SwitchStmt:
			if sw == nil && x.Tag != nil {
				if tv, ok := info.Types[x.Tag]; ok {
					if b, ok := tv.Type.Underlying().(*types.Basic); ok && b.Info()&types.IsInteger != 0 {
						sw = x
					}
				}
			}
		}
		return true
	})
	if sw == nil {
		// the table in a function of its own: h(byte) (byte, bool), a switch of "return CONST, true"
		// rows with "return _, false" as default; the caller writes what comes back, and on
		// "not ok" the scanned byte itself
		if t2 := extractEscTableViaHelper(c, p, d, t); t2 != nil {
			return t2, ""
		}
		return nil, fnName + ": no switch over a byte/rune found (table written in a form the extractor does not know)"
	}
	tagName := types.ExprString(sw.Tag)
	sameVar := func(e ast.Expr) bool {
		// the tag itself, or any plain identifier of byte/rune type (the scanned char)
		if types.ExprString(e) == tagName {
			return true
		}
		if id, ok := e.(*ast.Ident); ok {
			if tv, ok := info.Types[id]; ok {
				if b, ok := tv.Type.Underlying().(*types.Basic); ok && b.Info()&types.IsInteger != 0 {
					return true
				}
			}
		}
		if ix, ok := e.(*ast.IndexExpr); ok { // s[i]
			_ = ix
			return true
		}
		return false
	}
	for _, cl := range sw.Body.List {
		cc := cl.(*ast.CaseClause)
		if cc.List == nil { // default
			for _, st := range cc.Body {
				if isCounterStmt(st) {
					continue
				}
				if out, arg, isW := writeCallBytes(info, st); isW {
					if out == nil && sameVar(arg) {
						t.defIdentity = true
						continue
					}
					t.defOpaque = "default writes " + types.ExprString(arg)
					continue
				}
				if ifs, ok := st.(*ast.IfStmt); ok {
					// if x < K { … Sprintf(fmt, x) … } else { WriteByte(x) }
					if be, ok := ifs.Cond.(*ast.BinaryExpr); ok && be.Op == token.LSS {
						if k, ok := constIntOf(info, be.Y); ok {
							t.defRangeLT = k
							ast.Inspect(ifs.Body, func(n ast.Node) bool {
								if call, ok := n.(*ast.CallExpr); ok {
									if fo := resolveFuncExpr(info, call.Fun); fo != nil && fo.Name() == "Sprintf" && len(call.Args) >= 1 {
										if s, ok := constStrOf(info, call.Args[0]); ok {
											t.defFormat = s
										}
									}
								}
								return true
							})
							if eb, ok := ifs.Else.(*ast.BlockStmt); ok {
								for _, st2 := range eb.List {
									if out, arg, isW := writeCallBytes(info, st2); isW && out == nil && sameVar(arg) {
										t.defIdentity = true
									}
								}
							}
							continue
						}
					}
				}
				t.defOpaque = "default contains a statement the extractor does not understand"
			}
			continue
		}
		row := &escRow{}
		for _, st := range cc.Body {
			if isCounterStmt(st) {
				continue
			}
			if out, arg, isW := writeCallBytes(info, st); isW {
				if out == nil {
					row.opaque = "writes non-constant " + types.ExprString(arg)
				}
				row.out = append(row.out, out...)
				continue
			}
			row.opaque = "statement the extractor does not understand"
		}
		for _, e := range cc.List {
			if k, ok := constIntOf(info, e); ok {
				t.rows[k] = row
			} else {
				row.opaque = "non-constant case label"
			}
		}
	}
	return t, ""
}

func showByte(b int64) string { return fmt.Sprintf("%q", rune(b)) }

// ---- R01.1 -----------------------------------------------------------------
func c01TSVTables(c *Ctx, r *Report) {
	r.Rule("R01.1", "TSV codec tables: TSVEncodeField maps exactly TAB, LF, CR and backslash (the IANA-TSV set = the reader's field separator, the line reader's terminators and the escape byte) to backslash + letter and is the identity elsewhere; TSVDecodeField maps each such letter back to its byte and nothing else; both work byte-wise (ranging over runes replaces bytes that are not valid UTF-8)")
	enc, msg := extractEscTable(c, "pkg/lib", "TSVEncodeField")
	if msg != "" {
		r.Undecided("R01.1", "TSVEncodeField table", "", msg)
		return
	}
	dec, msg := extractEscTable(c, "pkg/lib", "TSVDecodeField")
	if msg != "" {
		r.Undecided("R01.1", "TSVDecodeField table", "", msg)
		return
	}
	want := map[int64]byte{'\t': 't', '\n': 'n', '\r': 'r', '\\': '\\'}
	for _, b := range []int64{'\t', '\n', '\r', '\\'} {
		row := enc.rows[b]
		key := "encode " + showByte(b)
		switch {
		case row == nil:
			r.Fail("R01.1", key, c.Rel(enc.pos), fmt.Sprintf("TSVEncodeField has no case for %s: the byte is written raw and the TSV reader takes it as structure (or, for backslash, as the start of an escape)", showByte(b)))
		case row.opaque != "":
			r.Undecided("R01.1", key, c.Rel(enc.pos), row.opaque)
		default:
			okRow := len(row.out) == 2 && row.out[0] == '\\' && row.out[1] == want[b]
			r.Check(okRow, "R01.1", key, c.Rel(enc.pos), fmt.Sprintf("%q", row.out), fmt.Sprintf("TSVEncodeField writes %q for %s; IANA TSV and the decoder expect %q", row.out, showByte(b), []byte{'\\', want[b]}))
			if okRow {
				drow := dec.rows[int64(row.out[1])]
				okD := drow != nil && drow.opaque == "" && len(drow.out) == 1 && int64(drow.out[0]) == b
				got := "no case"
				if drow != nil {
					got = fmt.Sprintf("%q", drow.out)
				}
				r.Check(okD, "R01.1", "decode \\"+string(row.out[1]), c.Rel(dec.pos), showByte(b), fmt.Sprintf("TSVDecodeField maps backslash-%c to %s but the encoder writes that pair for %s: a written cell does not read back", row.out[1], got, showByte(b)))
			}
		}
	}
	var extraE, extraD []string
	for b := range enc.rows {
		if _, ok := want[b]; !ok {
			extraE = append(extraE, showByte(b))
		}
	}
	for x := range dec.rows {
		found := false
		for _, l := range want {
			if int64(l) == x {
				found = true
			}
		}
		if !found {
			extraD = append(extraD, showByte(x))
		}
	}
	sort.Strings(extraE)
	sort.Strings(extraD)
	r.Check(len(extraE) == 0, "R01.1", "encoder escapes only the IANA set", c.Rel(enc.pos), "4 rows", fmt.Sprintf("TSVEncodeField also rewrites %v, which a standard TSV reader does not undo", extraE))
	r.Check(len(extraD) == 0, "R01.1", "decoder undoes only the IANA set", c.Rel(dec.pos), "4 rows", fmt.Sprintf("TSVDecodeField also decodes backslash + %v, which the encoder never writes: text from a standard TSV writer is altered", extraD))
	r.Check(enc.defIdentity && enc.defOpaque == "", "R01.1", "encoder default is the identity", c.Rel(enc.pos), "writes the scanned byte back", "TSVEncodeField's default branch does not write the scanned character back unchanged ("+enc.defOpaque+")")
	r.Check(dec.defIdentity && dec.defOpaque == "", "R01.1", "decoder default is the identity", c.Rel(dec.pos), "writes the scanned byte back", "TSVDecodeField's default branch does not write the scanned character back unchanged ("+dec.defOpaque+")")
	r.Check(!enc.runeWise, "R01.1", "encoder is byte-wise", c.Rel(enc.pos), "indexes bytes", "TSVEncodeField ranges over the runes of its input and writes them back: every byte that is not valid UTF-8 becomes U+FFFD (ef bf bd), so such a cell is not written as it was")
	r.Check(!dec.runeWise, "R01.1", "decoder is byte-wise", c.Rel(dec.pos), "indexes bytes", "TSVDecodeField ranges over the runes of its input: bytes that are not valid UTF-8 are replaced")
}

// ---- string-origin walker (SSA) ---------------------------------------------

type originSet map[string]token.Pos

func (o originSet) add(k string, p token.Pos) {
	if _, ok := o[k]; !ok {
		o[k] = p
	}
}

// strOrigins walks backwards from a string value and classifies where its text
// comes from. through: module functions that return (a decoration of) their
// first argument; named: functions whose result is an origin class by itself.
type originCfg struct {
	through map[string]bool   // callee short name → pass-through of arg 0
	named   map[string]string // callee short name → class
	fields  map[string]string // struct field name loaded → class
}

func shortCallee(com *ssa.CallCommon) string {
	n := CalleeName(com)
	if i := strings.LastIndex(n, "."); i >= 0 {
		return n[i+1:]
	}
	return n
}

func strOrigins(v ssa.Value, cfg *originCfg, out originSet, seen map[ssa.Value]bool, depth int) {
	if v == nil || seen[v] || depth > 30 {
		return
	}
	seen[v] = true
	switch x := v.(type) {
	case *ssa.Const:
		out.add("CONST", x.Pos())
	case *ssa.Phi:
		for _, e := range x.Edges {
			strOrigins(e, cfg, out, seen, depth+1)
		}
	case *ssa.Call:
		name := shortCallee(&x.Call)
		if cls, ok := cfg.named[name]; ok {
			out.add(cls, x.Pos())
			return
		}
		if cfg.through[name] && len(x.Call.Args) > 0 {
			a := x.Call.Args[0]
			if x.Call.IsInvoke() || (x.Call.StaticCallee() != nil && x.Call.StaticCallee().Signature.Recv() != nil && len(x.Call.Args) > 1) {
				a = x.Call.Args[len(x.Call.Args)-len(x.Call.Args)+0]
			}
			strOrigins(a, cfg, out, seen, depth+1)
			return
		}
		out.add("CALL:"+name, x.Pos())
	case *ssa.BinOp:
		if x.Op == token.ADD {
			strOrigins(x.X, cfg, out, seen, depth+1)
			strOrigins(x.Y, cfg, out, seen, depth+1)
			return
		}
		out.add("OTHER:binop", x.Pos())
	case *ssa.Extract:
		strOrigins(x.Tuple, cfg, out, seen, depth+1)
	case *ssa.Next:
		// range over a slice/string/map: elements of the ranged value
		strOrigins(x.Iter, cfg, out, seen, depth+1)
	case *ssa.Range:
		strOrigins(x.X, cfg, out, seen, depth+1)
	case *ssa.Slice:
		strOrigins(x.X, cfg, out, seen, depth+1)
	case *ssa.UnOp:
		if x.Op != token.MUL {
			out.add("OTHER:unop", x.Pos())
			return
		}
		switch a := x.X.(type) {
		case *ssa.FieldAddr:
			st := a.X.Type().Underlying().(*types.Pointer).Elem().Underlying().(*types.Struct)
			fname := st.Field(a.Field).Name()
			if cls, ok := cfg.fields[fname]; ok {
				out.add(cls, x.Pos())
				return
			}
			out.add("FIELD:"+fname, x.Pos())
		case *ssa.IndexAddr:
			// element of a slice: where do the elements come from?
			sliceElemOrigins(a.X, cfg, out, seen, depth+1)
		case *ssa.Alloc:
			for _, ref := range *a.Referrers() {
				if st, ok := ref.(*ssa.Store); ok && st.Addr == a {
					strOrigins(st.Val, cfg, out, seen, depth+1)
				}
			}
		default:
			out.add("OTHER:load", x.Pos())
		}
	case *ssa.Parameter:
		out.add("PARAM:"+x.Name(), x.Pos())
	case *ssa.MakeSlice, *ssa.Alloc:
		sliceElemOrigins(v, cfg, out, seen, depth)
	default:
		out.add(fmt.Sprintf("OTHER:%T", v), v.Pos())
	}
}

// sliceElemOrigins: origins of the elements of a slice value.
func sliceElemOrigins(sl ssa.Value, cfg *originCfg, out originSet, seen map[ssa.Value]bool, depth int) {
	if depth > 30 {
		return
	}
	switch x := sl.(type) {
	case *ssa.MakeSlice:
		n := 0
		for _, ref := range *x.Referrers() {
			if ia, ok := ref.(*ssa.IndexAddr); ok {
				for _, r2 := range *ia.Referrers() {
					if st, ok := r2.(*ssa.Store); ok && st.Addr == ia {
						strOrigins(st.Val, cfg, out, seen, depth+1)
						n++
					}
				}
			}
			if s2, ok := ref.(*ssa.Slice); ok {
				sliceElemOrigins2(s2, cfg, out, seen, depth+1)
			}
		}
		if n == 0 {
			out.add("CONST", x.Pos()) // zero-valued elements
		}
	case *ssa.Slice:
		sliceElemOrigins(x.X, cfg, out, seen, depth+1)
	case *ssa.Phi:
		if seen[x] {
			return
		}
		seen[x] = true
		for _, e := range x.Edges {
			sliceElemOrigins(e, cfg, out, seen, depth+1)
		}
	case *ssa.UnOp:
		if fa, ok := x.X.(*ssa.FieldAddr); ok && x.Op == token.MUL {
			st := fa.X.Type().Underlying().(*types.Pointer).Elem().Underlying().(*types.Struct)
			fname := st.Field(fa.Field).Name()
			if cls, ok := cfg.fields[fname]; ok {
				out.add(cls, x.Pos())
				return
			}
			out.add("FIELD:"+fname, x.Pos())
			return
		}
		out.add("OTHER:sliceload", x.Pos())
	case *ssa.Call:
		name := shortCallee(&x.Call)
		if cls, ok := cfg.named[name]; ok {
			out.add(cls, x.Pos())
			return
		}
		out.add("CALL:"+name, x.Pos())
	case *ssa.Const:
		out.add("CONST", x.Pos())
	case *ssa.Parameter:
		out.add("PARAM:"+x.Name(), x.Pos())
	default:
		out.add(fmt.Sprintf("OTHER:%T", sl), sl.Pos())
	}
}

func sliceElemOrigins2(s *ssa.Slice, cfg *originCfg, out originSet, seen map[ssa.Value]bool, depth int) {
	for _, ref := range *s.Referrers() {
		if ia, ok := ref.(*ssa.IndexAddr); ok {
			for _, r2 := range *ia.Referrers() {
				if st, ok := r2.(*ssa.Store); ok && st.Addr == ia {
					strOrigins(st.Val, cfg, out, seen, depth+1)
				}
			}
		}
	}
}

func originList(o originSet) []string {
	var ks []string
	for k := range o {
		ks = append(ks, k)
	}
	sort.Strings(ks)
	return ks
}

// funcsInFile: SSA functions (incl. methods and closures) declared in a file.
func funcsInFile(c *Ctx, pkgRel, file string) []*ssa.Function {
	var out []*ssa.Function
	for fn := range c.AllFunctions() {
		if fn.Blocks == nil || !IsModuleFunc(fn) || fn.Pos() == token.NoPos {
			continue
		}
		if strings.HasSuffix(c.RelFile(fn.Pos()), pkgRel+"/"+file) {
			out = append(out, fn)
		}
	}
	sort.Slice(out, func(i, j int) bool { return out[i].Pos() < out[j].Pos() })
	return out
}

// ---- R01.2 -----------------------------------------------------------------
func c01TSVUse(c *Ctx, r *Report) {
	r.Rule("R01.2", "TSV use: every string the TSV writer sends to the output stream is a constant, a separator option, or (a colouring of) TSVEncodeField(key or value); every key and value the TSV reader stores in a record is TSVDecodeField(cell), a positional number, or an element of the header list — whose elements are themselves only TSVDecodeField(cell) or positional numbers")
	wcfg := &originCfg{
		through: map[string]bool{"MaybeColorizeKey": true, "MaybeColorizeValue": true},
		named:   map[string]string{"TSVEncodeField": "ENC"},
		fields:  map[string]string{"OFS": "SEP", "ORS": "SEP", "Key": "RAWKEY"},
	}
	nW := 0
	for _, fn := range funcsInFile(c, "pkg/output", "record_writer_tsv.go") {
		for _, b := range fn.Blocks {
			for _, in := range b.Instrs {
				call, ok := in.(*ssa.Call)
				if !ok {
					continue
				}
				name := shortCallee(&call.Call)
				if name != "WriteString" && name != "Write" && name != "WriteByte" && name != "WriteRune" {
					continue
				}
				if call.Call.StaticCallee() == nil || !strings.Contains(CalleeName(&call.Call), "bufio") {
					continue
				}
				nW++
				arg := call.Call.Args[len(call.Call.Args)-1]
				os := originSet{}
				strOrigins(arg, wcfg, os, map[ssa.Value]bool{}, 0)
				var bad []string
				for k := range os {
					if k != "CONST" && k != "SEP" && k != "ENC" {
						bad = append(bad, k)
					}
				}
				sort.Strings(bad)
				key := fmt.Sprintf("%s: output write #%d", SSAName(fn), nW)
				r.Check(len(bad) == 0, "R01.2", key, c.Rel(call.Pos()), strings.Join(originList(os), ","),
					fmt.Sprintf("the TSV writer sends text to the output that did not pass through TSVEncodeField (origin %v): a TAB, newline or backslash in it is written raw and the line no longer reads back as the same cells", bad))
			}
		}
	}
	r.Floor("R01.2", "TSV writer output writes", nW, 5)
	// String() results and keys must not bypass: covered by the sink rule above.

	rcfg := &originCfg{
		through: map[string]bool{},
		named:   map[string]string{"TSVDecodeField": "DEC", "Itoa": "NUM", "FormatInt": "NUM"},
		fields:  map[string]string{"headerStrings": "HDR"},
	}
	nR, nH := 0, 0
	for _, fn := range funcsInFile(c, "pkg/input", "record_reader_tsv.go") {
		for _, b := range fn.Blocks {
			for _, in := range b.Instrs {
				switch x := in.(type) {
				case *ssa.Call:
					name := shortCallee(&x.Call)
					if !strings.HasPrefix(name, "Put") {
						continue
					}
					callee := x.Call.StaticCallee()
					if callee == nil {
						continue
					}
					for i, a := range x.Call.Args {
						bt, ok := a.Type().Underlying().(*types.Basic)
						if !ok || bt.Info()&types.IsString == 0 {
							continue
						}
						nR++
						os := originSet{}
						strOrigins(a, rcfg, os, map[ssa.Value]bool{}, 0)
						var bad []string
						for k := range os {
							if k != "CONST" && k != "DEC" && k != "NUM" && k != "HDR" {
								bad = append(bad, k)
							}
						}
						sort.Strings(bad)
						pname := fmt.Sprint(i)
						if i < len(callee.Params) {
							pname = callee.Params[i].Name()
						}
						key := fmt.Sprintf("%s: %s(%s) #%d", SSAName(fn), name, pname, nR)
						r.Check(len(bad) == 0, "R01.2", key, c.Rel(x.Pos()), strings.Join(originList(os), ","),
							fmt.Sprintf("the TSV reader stores a %s that did not pass through TSVDecodeField (origin %v): the escapes \\t \\n \\r \\\\ the writer produced stay in the data as two characters", pname, bad))
					}
				case *ssa.Store:
					fa, ok := x.Addr.(*ssa.FieldAddr)
					if !ok {
						continue
					}
					st := fa.X.Type().Underlying().(*types.Pointer).Elem().Underlying().(*types.Struct)
					if st.Field(fa.Field).Name() != "headerStrings" {
						continue
					}
					nH++
					os := originSet{}
					if k, ok := x.Val.(*ssa.Const); ok && k.IsNil() {
						os.add("CONST", x.Pos())
					} else {
						sliceElemOrigins(x.Val, rcfg, os, map[ssa.Value]bool{}, 0)
					}
					// elements written in bulk: copy(header, cells)
					for _, b2 := range fn.Blocks {
						for _, in2 := range b2.Instrs {
							cp, ok := in2.(*ssa.Call)
							if !ok {
								continue
							}
							if bi, ok := cp.Call.Value.(*ssa.Builtin); !ok || bi.Name() != "copy" || len(cp.Call.Args) != 2 {
								continue
							}
							dst := cp.Call.Args[0]
							isHeader := dst == x.Val
							if _, fname, ok := fieldLoadName(dst); ok && fname == "headerStrings" {
								isHeader = true
							}
							if !isHeader {
								continue
							}
							before := len(os)
							sliceElemOrigins(cp.Call.Args[1], rcfg, os, map[ssa.Value]bool{}, 0)
							if len(os) == before {
								os.add("COPIED", cp.Pos())
							}
						}
					}
					var bad []string
					for k := range os {
						if k != "CONST" && k != "DEC" && k != "NUM" {
							bad = append(bad, k)
						}
					}
					sort.Strings(bad)
					key := fmt.Sprintf("%s: header store #%d", SSAName(fn), nH)
					r.Check(len(bad) == 0, "R01.2", key, c.Rel(x.Pos()), strings.Join(originList(os), ","),
						fmt.Sprintf("the TSV reader keeps header cells that did not pass through TSVDecodeField (origin %v) while the writer escapes keys: a key with a TAB, newline or backslash does not read back", bad))
				}
			}
		}
	}
	r.Floor("R01.2", "TSV reader record stores", nR, 10)
	r.Floor("R01.2", "TSV reader header stores", nH, 2)
}

// ---- R01.3 CSV ---------------------------------------------------------------

// bytesComparedReturningTrue: constants c such that the function has
// "x == c" feeding a return true, plus ContainsAny / ContainsRune arguments.
func quoteTriggerSets(c *Ctx, pkgRel, fnName string) (ascii map[string]bool, other map[string]bool, pos token.Pos, msg string) {
	f := c.LookupFunc(pkgRel, fnName)
	d := c.Decl(f)
	if d == nil {
		return nil, nil, token.NoPos, fnName + " not found"
	}
	p := c.PkgOfFunc(f)
	info := p.TypesInfo
	ascii, other = map[string]bool{}, map[string]bool{}
	params := map[string]bool{}
	for _, fl := range d.Type.Params.List {
		for _, n := range fl.Names {
			params[n.Name] = true
		}
	}
	// locals that hold a conversion of a parameter: commaByte := byte(comma)
	fromParam := map[string]string{}
	ast.Inspect(d.Body, func(n ast.Node) bool {
		if as, ok := n.(*ast.AssignStmt); ok && len(as.Lhs) == 1 && len(as.Rhs) == 1 {
			if id, ok := as.Lhs[0].(*ast.Ident); ok {
				rs := types.ExprString(as.Rhs[0])
				for pn := range params {
					if strings.Contains(rs, pn) && len(rs) < 40 {
						fromParam[id.Name] = pn
					}
				}
			}
		}
		return true
	})
	byteTest := func(e ast.Expr) {
		if k, ok := constIntOf(info, e); ok {
			ascii[string(rune(k))] = true
			return
		}
		// c == byte(comma), or a local holding that
		es := types.ExprString(e)
		for pn := range params {
			if strings.Contains(es, pn) {
				ascii["<"+pn+">"] = true
			}
		}
		if pn, ok := fromParam[es]; ok {
			ascii["<"+pn+">"] = true
		}
	}
	ast.Inspect(d.Body, func(n ast.Node) bool {
		switch x := n.(type) {
		case *ast.BinaryExpr:
			if x.Op == token.EQL {
				byteTest(x.Y)
			}
		case *ast.CaseClause:
			// switch field[i] { case '\n', '\r', '"': … case commaByte: … }
			for _, e := range x.List {
				byteTest(e)
			}
		case *ast.CallExpr:
			fo := resolveFuncExpr(info, x.Fun)
			if fo == nil || fo.Pkg() == nil || fo.Pkg().Path() != "strings" {
				return true
			}
			switch fo.Name() {
			case "ContainsAny", "IndexAny":
				if s, ok := constStrOf(info, x.Args[1]); ok {
					for _, ch := range s {
						other[string(ch)] = true
					}
				}
			case "ContainsRune", "Contains", "IndexRune", "Index":
				if s, ok := constStrOf(info, x.Args[1]); ok {
					other[s] = true
				} else {
					s := types.ExprString(x.Args[1])
					for pn := range params {
						if strings.Contains(s, pn) {
							other["<"+pn+">"] = true
						}
					}
				}
			}
		}
		return true
	})
	return ascii, other, d.Pos(), ""
}

func setList(m map[string]bool) string {
	var ks []string
	for k := range m {
		ks = append(ks, fmt.Sprintf("%q", k))
	}
	sort.Strings(ks)
	return strings.Join(ks, " ")
}

func c01CSV(c *Ctx, r *Report) {
	r.Rule("R01.3", "CSV quoting covers the reader's structure bytes: fieldNeedsQuotes returns true for a field containing the double quote, CR, LF or the separator, in the single-byte-separator branch and in the multi-byte one; the quoted writer doubles the quote and the reader's quoted state turns a doubled quote into one")
	ascii, other, pos, msg := quoteTriggerSets(c, "pkg/output", "fieldNeedsQuotes")
	if msg != "" {
		r.Undecided("R01.3", "fieldNeedsQuotes", "", msg)
		return
	}
	for _, br := range []struct {
		name string
		set  map[string]bool
	}{{"single-byte separator branch", ascii}, {"multi-byte separator branch", other}} {
		var miss []string
		for _, b := range []string{"\"", "\r", "\n", "<comma>"} {
			if !br.set[b] {
				miss = append(miss, fmt.Sprintf("%q", b))
			}
		}
		r.Check(len(miss) == 0, "R01.3", "fieldNeedsQuotes: "+br.name, c.Rel(pos), setList(br.set),
			fmt.Sprintf("fieldNeedsQuotes (%s) does not ask for quotes when a field contains %v, which the CSV reader treats as structure: the written line splits into different cells when read back", br.name, miss))
	}
	// quoted-field writer: the switch over field[0]
	wf := c.LookupMethod("pkg/output", "RecordWriterCSV", "WriteCSVRecordMaybeColorized")
	d := c.Decl(wf)
	if d == nil {
		r.Undecided("R01.3", "WriteCSVRecordMaybeColorized", "", "method not found")
		return
	}
	info := c.PkgOfFunc(wf).TypesInfo
	var sw *ast.SwitchStmt
	var indexAny string
	ast.Inspect(d.Body, func(n ast.Node) bool {
		switch x := n.(type) {
		case *ast.SwitchStmt:
			if x.Tag != nil && sw == nil {
				if tv, ok := info.Types[x.Tag]; ok {
					if b, ok := tv.Type.Underlying().(*types.Basic); ok && b.Info()&types.IsInteger != 0 {
						sw = x
					}
				}
			}
		case *ast.CallExpr:
			if fo := resolveFuncExpr(info, x.Fun); fo != nil && fo.Name() == "IndexAny" && len(x.Args) == 2 {
				if s, ok := constStrOf(info, x.Args[1]); ok {
					indexAny = s
				}
			}
		}
		return true
	})
	if sw == nil {
		r.Undecided("R01.3", "quoted-field writer", c.Rel(d.Pos()), "no switch over the special byte found")
		return
	}
	r.Rule("R01.3b", "inside quotes nothing is lost: every case of the quoted-field writer's special-byte switch writes, on each of its paths, text that contains the byte it stands for (the quote as its doubled form)")
	cases := map[int64]*ast.CaseClause{}
	for _, cl := range sw.Body.List {
		cc := cl.(*ast.CaseClause)
		for _, e := range cc.List {
			if k, ok := constIntOf(info, e); ok {
				cases[k] = cc
			}
		}
	}
	qc := cases['"']
	doubled := false
	if qc != nil {
		ast.Inspect(qc, func(n ast.Node) bool {
			if bl, ok := n.(*ast.BasicLit); ok && bl.Kind == token.STRING {
				if s, ok := constStrOf(info, bl); ok && s == `""` {
					doubled = true
				}
			}
			return true
		})
	}
	r.Check(doubled, "R01.3", "quoted writer doubles the quote", c.Rel(sw.Pos()), `case '"' writes ""`, "the quoted-field writer does not write a doubled quote for an embedded quote: the reader ends the field at it")
	for _, ch := range indexAny {
		if _, ok := cases[int64(ch)]; !ok {
			r.Fail("R01.3b", "quoted writer case "+showByte(int64(ch)), c.Rel(sw.Pos()), fmt.Sprintf("the quoted-field writer stops at %s (IndexAny) but its switch has no case for it: the byte is skipped and never written", showByte(int64(ch))))
		}
	}
	for _, k := range []int64{'"', '\r', '\n'} {
		cc := cases[k]
		if cc == nil {
			continue
		}
		// enumerate the paths of the case body over its if/else structure
		var lost []string
		var walk func(stmts []ast.Stmt, cond string, wrote bool) bool // returns whether all paths wrote
		walk = func(stmts []ast.Stmt, cond string, wrote bool) bool {
			for _, st := range stmts {
				switch x := st.(type) {
				case *ast.IfStmt:
					// "if _, err := W(...); err != nil {return}" — a write in Init
					if x.Init != nil {
						wroteInit := false
						ast.Inspect(x.Init, func(n ast.Node) bool {
							if call, ok := n.(*ast.CallExpr); ok {
								if sel, ok := call.Fun.(*ast.SelectorExpr); ok && strings.HasPrefix(sel.Sel.Name, "Write") && len(call.Args) == 1 {
									if s, ok := constStrOf(info, call.Args[0]); ok && strings.ContainsRune(s, rune(k)) {
										wroteInit = true
									}
									if v, ok := constIntOf(info, call.Args[0]); ok && v == k {
										wroteInit = true
									}
								}
							}
							return true
						})
						if wroteInit {
							wrote = true
							continue
						}
					}
					cs := types.ExprString(x.Cond)
					t := walk(x.Body.List, cond+" && "+cs, wrote)
					e := wrote
					if x.Else != nil {
						if eb, ok := x.Else.(*ast.BlockStmt); ok {
							e = walk(eb.List, cond+" && !("+cs+")", wrote)
						}
					} else if !wrote {
						lost = append(lost, strings.TrimPrefix(cond+" && !("+cs+")", " && "))
					}
					if t && e {
						wrote = true
					}
				}
			}
			if !wrote && cond != "" {
				// only report leaf conditions once
			}
			return wrote
		}
		all := walk(cc.Body, "", false)
		if all {
			r.OK("R01.3b", "quoted writer case "+showByte(k), c.Rel(cc.Pos()), "every path writes the byte")
		} else {
			if len(lost) == 0 {
				lost = []string{"some path"}
			}
			r.Fail("R01.3b", "quoted writer case "+showByte(k), c.Rel(cc.Pos()), fmt.Sprintf("inside a quoted field the writer writes nothing for %s when %s: the byte is dropped from the data", showByte(k), strings.Join(lost, " or ")))
		}
	}
	// reader: "" → " in the quoted state, and no rewriting inside quotes
	r.Rule("R01.3c", "the CSV reader does not rewrite bytes inside quotes: the line source used to continue a quoted field over a line break does not normalise CR LF to LF")
	rl := c.LookupMethod("pkg/go-csv", "Reader", "readLine")
	rr := c.LookupMethod("pkg/go-csv", "Reader", "readRecord")
	dl, dr := c.Decl(rl), c.Decl(rr)
	if dl == nil || dr == nil {
		r.Undecided("R01.3c", "go-csv reader", "", "readLine/readRecord not found")
		return
	}
	linfo := c.PkgOfFunc(rl).TypesInfo
	rewrites := false
	ast.Inspect(dl.Body, func(n ast.Node) bool {
		if as, ok := n.(*ast.AssignStmt); ok && len(as.Lhs) == 1 {
			if _, isIx := as.Lhs[0].(*ast.IndexExpr); isIx {
				if v, ok := constIntOf(linfo, as.Rhs[0]); ok && v == '\n' {
					rewrites = true
				}
			}
		}
		return true
	})
	// readLine call sites nested in ≥ 2 loops of readRecord = quoted-field continuation
	nested := 0
	var visit func(n ast.Node, depth int)
	visit = func(n ast.Node, depth int) {
		ast.Inspect(n, func(m ast.Node) bool {
			if m == n {
				return true
			}
			switch x := m.(type) {
			case *ast.ForStmt:
				visit(x.Body, depth+1)
				return false
			case *ast.RangeStmt:
				visit(x.Body, depth+1)
				return false
			case *ast.CallExpr:
				if sel, ok := x.Fun.(*ast.SelectorExpr); ok && sel.Sel.Name == "readLine" && depth >= 2 {
					nested++
				}
			}
			return true
		})
	}
	visit(dr.Body, 0)
	// … unless the continuation puts the CR back
	restoresCR := false
	ast.Inspect(dr.Body, func(n ast.Node) bool {
		if call, ok := n.(*ast.CallExpr); ok {
			if id, ok := call.Fun.(*ast.Ident); ok && id.Name == "append" {
				for _, a := range call.Args[1:] {
					if v, ok := constIntOf(linfo, a); ok && v == '\r' {
						restoresCR = true
					}
				}
			}
		}
		return true
	})
	if restoresCR {
		nested = 0
	}
	// the two sides must at least agree with each other: while the quoted writer turns LF into CR LF
	// under --ors crlf, the reader has to turn CR LF inside quotes back into LF
	writerConverts := false
	if cc := cases['\n']; cc != nil {
		ast.Inspect(cc, func(n ast.Node) bool {
			if bl, ok := n.(*ast.BasicLit); ok && bl.Kind == token.STRING {
				if s, ok := constStrOf(info, bl); ok && s == "\r\n" {
					writerConverts = true
				}
			}
			return true
		})
	}
	r.Rule("R01.3e", "CR LF mode is at least self-consistent: as long as the quoted-field writer writes CR LF for an embedded LF under UseCRLF, the reader's quoted-field continuation turns CR LF back into LF (R01.3c asks for neither side to rewrite; this rule asks that one side does not stop alone)")
	if writerConverts {
		r.Check(rewrites && nested > 0, "R01.3e", "reader undoes the writer's LF → CR LF inside quotes", c.Rel(dr.Pos()), "readLine normalises on the quoted continuation path",
			"the quoted-field writer still writes CR LF for an embedded LF under --ors crlf, but the reader no longer turns CR LF inside quotes back into LF: a cell with an embedded newline written with --ors crlf reads back with an extra CR")
	} else {
		r.OK("R01.3e", "reader undoes the writer's LF → CR LF inside quotes", c.Rel(dr.Pos()), "the writer does not convert")
	}
	r.Check(!(rewrites && nested > 0), "R01.3c", "go-csv readRecord: quoted continuation reads through the CRLF-normalising readLine", c.Rel(dr.Pos()), "no rewrite inside quotes",
		"readLine replaces a trailing CR LF by LF and is also the line source for the continuation of a quoted field: a CR LF inside quotes — legal RFC 4180 data, and what Miller's own writer produces for such a value — is read back as LF")
	// doubled quote on read
	dq := false
	ast.Inspect(dr.Body, func(n ast.Node) bool {
		if call, ok := n.(*ast.CallExpr); ok && len(call.Args) >= 2 {
			if id, ok := call.Fun.(*ast.Ident); ok && id.Name == "append" {
				if v, ok := constIntOf(linfo, call.Args[1]); ok && v == '"' {
					dq = true
				}
			}
		}
		return true
	})
	r.Check(dq, "R01.3", "reader undoubles the quote", c.Rel(dr.Pos()), `appends one '"' for ""`, "readRecord never appends a single quote to the field buffer: doubled quotes written by the writer are not turned back into one")
}

// LookupMethod resolves a method by receiver type name.
func (c *Ctx) LookupMethod(pkgRel, typeName, method string) *types.Func {
	p := c.Pkg(pkgRel)
	if p == nil {
		return nil
	}
	obj := p.Types.Scope().Lookup(typeName)
	if obj == nil {
		return nil
	}
	for _, t := range []types.Type{obj.Type(), types.NewPointer(obj.Type())} {
		ms := types.NewMethodSet(t)
		for i := 0; i < ms.Len(); i++ {
			if ms.At(i).Obj().Name() == method {
				if f, ok := ms.At(i).Obj().(*types.Func); ok {
					return f
				}
			}
		}
	}
	return nil
}

// ---- R01.3d DKVPX --------------------------------------------------------------
func c01DKVPX(c *Ctx, r *Report) {
	r.Rule("R01.3d", "DKVPX quoting covers the reader's structure bytes: needsQuoting is true for a string containing the quote, CR, LF, the pair separator or the key-value separator; the formatter doubles the quote")
	_, other, pos, msg := quoteTriggerSets(c, "pkg/dkvpx", "needsQuoting")
	if msg != "" {
		r.Undecided("R01.3d", "needsQuoting", "", msg)
		return
	}
	var miss []string
	for _, b := range []string{"\"", "\r", "\n", "<ofs>", "<ops>"} {
		if !other[b] {
			miss = append(miss, fmt.Sprintf("%q", b))
		}
	}
	r.Check(len(miss) == 0, "R01.3d", "needsQuoting", c.Rel(pos), setList(other), fmt.Sprintf("dkvpx.needsQuoting does not ask for quotes when a key or value contains %v, which the DKVPX reader treats as structure", miss))
	t, msg := extractEscTable(c, "pkg/dkvpx", "FormatFieldWithSeparators")
	if msg != "" {
		r.Undecided("R01.3d", "FormatFieldWithSeparators", "", msg)
		return
	}
	row := t.rows['"']
	r.Check(row != nil && string(row.out) == `""` && t.defIdentity, "R01.3d", "formatter doubles the quote", c.Rel(t.pos), `'"' → ""; identity elsewhere`, "dkvpx.FormatFieldWithSeparators does not write a doubled quote for an embedded quote (or alters other bytes)")
	r.Check(!t.runeWise, "R01.3d", "formatter is byte-wise", c.Rel(t.pos), "indexes bytes", "dkvpx.FormatFieldWithSeparators ranges over runes: bytes that are not valid UTF-8 are replaced")
}

// ---- R01.4 JSON ----------------------------------------------------------------
func c01JSON(c *Ctx, r *Report) {
	r.Rule("R01.4", "JSON string escape: millerJSONEncodeString escapes the quote, the backslash and every byte below 0x20, each two-character escape is the RFC 8259 pair for its byte, the remaining control bytes use backslash-u with exactly four hex digits, everything else is written unchanged, byte-wise; record keys and string values both go through it")
	t, msg := extractEscTable(c, "pkg/mlrval", "millerJSONEncodeString")
	if msg != "" {
		r.Undecided("R01.4", "millerJSONEncodeString", "", msg)
		return
	}
	rfc := map[int64]byte{'"': '"', '\\': '\\', '\b': 'b', '\f': 'f', '\n': 'n', '\r': 'r', '\t': 't'}
	for _, b := range []int64{'"', '\\'} {
		row := t.rows[b]
		r.Check(row != nil && row.opaque == "" && len(row.out) == 2 && row.out[0] == '\\' && row.out[1] == rfc[b], "R01.4", "escape "+showByte(b), c.Rel(t.pos), "backslash pair", fmt.Sprintf("millerJSONEncodeString does not escape %s as the RFC 8259 pair: the string ends early or the output is not valid JSON", showByte(b)))
	}
	for b, row := range t.rows {
		if b == '"' || b == '\\' {
			continue
		}
		want, known := rfc[b]
		ok := row.opaque == "" && len(row.out) == 2 && row.out[0] == '\\' && known && row.out[1] == want
		r.Check(ok, "R01.4", "escape "+showByte(b), c.Rel(t.pos), fmt.Sprintf("%q", row.out), fmt.Sprintf("millerJSONEncodeString writes %q for %s; RFC 8259 defines backslash-%c for it: a JSON reader decodes a different byte", row.out, showByte(b), want))
	}
	// every byte < 0x20 is covered
	uForm := regexp.MustCompile(`^\\u%04[xX]$`)
	if t.defRangeLT >= 0x20 && t.defFormat == "" {
		r.Undecided("R01.4", "control bytes use \\u + four hex digits", c.Rel(t.pos), "the branch for bytes below 0x20 does not format with a constant Sprintf format; the extractor knows only that form, so it cannot show that the escape has exactly four hex digits")
	} else if t.defRangeLT >= 0x20 {
		r.Check(uForm.MatchString(t.defFormat), "R01.4", "control bytes use \\u + four hex digits", c.Rel(t.pos), t.defFormat, fmt.Sprintf("the escape for the remaining control bytes is formatted with %q, not backslash-u followed by exactly four hex digits: a JSON reader decodes a different character sequence", t.defFormat))
	} else {
		var miss []string
		for b := int64(0); b < 0x20; b++ {
			if _, ok := t.rows[b]; !ok {
				miss = append(miss, fmt.Sprintf("0x%02x", b))
			}
		}
		r.Check(len(miss) == 0, "R01.4", "every control byte is escaped", c.Rel(t.pos), "explicit cases", fmt.Sprintf("millerJSONEncodeString writes control bytes %v raw (default range is < 0x%02x): the output is not valid JSON", miss, t.defRangeLT))
	}
	r.Check(t.defIdentity && t.defOpaque == "", "R01.4", "other bytes unchanged", c.Rel(t.pos), "identity", "millerJSONEncodeString does not write ordinary bytes back unchanged ("+t.defOpaque+")")
	r.Check(!t.runeWise, "R01.4", "encoder is byte-wise", c.Rel(t.pos), "ranges over bytes", "millerJSONEncodeString ranges over runes: bytes that are not valid UTF-8 are replaced")
	// keys and values go through the encoder
	enc := c.SSAFunc(c.LookupFunc("pkg/mlrval", "millerJSONEncodeString"))
	n := 0
	for _, fn := range append(funcsInFile(c, "pkg/mlrval", "mlrmap_json.go"), funcsInFile(c, "pkg/mlrval", "mlrval_json.go")...) {
		if fn == enc {
			continue
		}
		for _, b := range fn.Blocks {
			for _, in := range b.Instrs {
				ld, ok := in.(*ssa.UnOp)
				if !ok || ld.Op != token.MUL {
					continue
				}
				fa, ok := ld.X.(*ssa.FieldAddr)
				if !ok {
					continue
				}
				st := fa.X.Type().Underlying().(*types.Pointer).Elem().Underlying().(*types.Struct)
				fname := st.Field(fa.Field).Name()
				if !(fname == "Key" && strings.HasSuffix(fa.X.Type().String(), "MlrmapEntry")) && fname != "printrep" {
					continue
				}
				// only the marshal direction
				if !strings.Contains(strings.ToLower(fn.Name()), "marshal") && !strings.Contains(strings.ToLower(fn.Name()), "json") {
					continue
				}
				if strings.Contains(strings.ToLower(fn.Name()), "decode") || strings.Contains(strings.ToLower(fn.Name()), "unmarshal") {
					continue
				}
				for _, ref := range *ld.Referrers() {
					call, ok := ref.(*ssa.Call)
					if !ok {
						continue
					}
					if fname == "Key" {
						n++
						r.Check(call.Call.StaticCallee() == enc, "R01.4", fmt.Sprintf("%s: key use #%d", SSAName(fn), n), c.Rel(call.Pos()), "millerJSONEncodeString(key)",
							"a record key is passed to "+CalleeName(&call.Call)+" in the JSON writer without millerJSONEncodeString: a quote or backslash in a key produces invalid JSON")
					}
				}
			}
		}
	}
	r.Floor("R01.4", "JSON key encodings", n, 2)
	sm := c.SSAFunc(c.LookupMethod("pkg/mlrval", "Mlrval", "marshalJSONString"))
	if sm == nil {
		r.Undecided("R01.4", "marshalJSONString", "", "method not found")
		return
	}
	calls := false
	for _, b := range sm.Blocks {
		for _, in := range b.Instrs {
			if call, ok := in.(*ssa.Call); ok && call.Call.StaticCallee() == enc {
				calls = true
			}
		}
	}
	r.Check(calls, "R01.4", "string values use the encoder", c.Rel(sm.Pos()), "marshalJSONString calls millerJSONEncodeString", "marshalJSONString does not call millerJSONEncodeString: string values are written unescaped")
}

// ---- R01.5 PPRINT void token ------------------------------------------------------
func c01Void(c *Ctx, r *Report) {
	r.Rule("R01.5", "PPRINT empty-value token: the constant the PPRINT writer substitutes for an empty value is the voidRep the PPRINT reader maps back to empty")
	// writer: if s == "" { s = K }
	wtoks := map[string]token.Pos{}
	p := c.Pkg("pkg/output")
	for _, f := range p.Syntax {
		if !strings.HasSuffix(c.Fset.Position(f.Pos()).Filename, "record_writer_pprint.go") {
			continue
		}
		ast.Inspect(f, func(n ast.Node) bool {
			ifs, ok := n.(*ast.IfStmt)
			if !ok {
				return true
			}
			be, ok := ifs.Cond.(*ast.BinaryExpr)
			if !ok || be.Op != token.EQL {
				return true
			}
			if s, ok := constStrOf(p.TypesInfo, be.Y); !ok || s != "" {
				return true
			}
			for _, st := range ifs.Body.List {
				if as, ok := st.(*ast.AssignStmt); ok && len(as.Lhs) == 1 && len(as.Rhs) == 1 && types.ExprString(as.Lhs[0]) == types.ExprString(be.X) {
					if s, ok := constStrOf(p.TypesInfo, as.Rhs[0]); ok {
						wtoks[s] = as.Pos()
					}
				}
			}
			return true
		})
	}
	// reader: voidRep: K in NewRecordReaderPPRINT
	rtoks := map[string]token.Pos{}
	if d := c.Decl(c.LookupFunc("pkg/input", "NewRecordReaderPPRINT")); d != nil {
		info := c.Pkg("pkg/input").TypesInfo
		ast.Inspect(d.Body, func(n ast.Node) bool {
			if kv, ok := n.(*ast.KeyValueExpr); ok {
				if id, ok := kv.Key.(*ast.Ident); ok && id.Name == "voidRep" {
					if s, ok := constStrOf(info, kv.Value); ok {
						rtoks[s] = kv.Pos()
					}
				}
			}
			return true
		})
	}
	ws, rs := []string{}, []string{}
	for k := range wtoks {
		ws = append(ws, k)
	}
	for k := range rtoks {
		rs = append(rs, k)
	}
	sort.Strings(ws)
	sort.Strings(rs)
	if len(ws) == 0 || len(rs) == 0 {
		r.Undecided("R01.5", "PPRINT void token", "pkg/output/record_writer_pprint.go", fmt.Sprintf("writer tokens %q, reader tokens %q: pattern not found", ws, rs))
		return
	}
	r.Check(len(ws) == 1 && len(rs) == 1 && ws[0] == rs[0], "R01.5", "PPRINT void token", "pkg/output/record_writer_pprint.go", fmt.Sprintf("%q", ws[0]),
		fmt.Sprintf("the PPRINT writer writes %q for an empty value but the PPRINT reader maps %q back to empty: empty values do not survive writing and reading", ws, rs))
}

// ---- R01.7 replacement escapes -------------------------------------------------------
func c01Replacements(c *Ctx, r *Report) {
	r.Rule("R01.7", "every constant replacement a writer applies to keys or values (strings.ReplaceAll(x, A, B)) has its inverse (B → A) somewhere in the code reachable from the reader of the same format")
	use := c.OptUse()
	outCtor := switchStringLabels(c, c.LookupFunc("pkg/output", "Create"))
	inCtor := switchStringLabels(c, c.LookupFunc("pkg/input", "Create"))
	type pair struct{ a, b string }
	collect := func(fns map[*ssa.Function]bool) map[pair]token.Pos {
		out := map[pair]token.Pos{}
		for fn := range fns {
			for _, b := range fn.Blocks {
				for _, in := range b.Instrs {
					call, ok := in.(*ssa.Call)
					if !ok {
						continue
					}
					n := CalleeName(&call.Call)
					if n != "strings.ReplaceAll" && n != "strings.Replace" {
						continue
					}
					a, ok1 := constString(call.Call.Args[1])
					bb, ok2 := constString(call.Call.Args[2])
					if ok1 && ok2 {
						out[pair{a, bb}] = call.Pos()
					}
				}
			}
		}
		return out
	}
	n := 0
	done := map[string]bool{}
	for _, label := range sortedKeys(outCtor) {
		wname := outCtor[label]
		if done[wname] {
			continue
		}
		done[wname] = true
		wfn := c.SSAFunc(c.LookupFunc("pkg/output", wname))
		rname := inCtor[label]
		if wfn == nil {
			continue
		}
		wp := collect(use.reachFrom(wfn))
		if len(wp) == 0 {
			continue
		}
		var rp map[pair]token.Pos
		if rname != "" {
			rp = collect(use.reachFrom(c.SSAFunc(c.LookupFunc("pkg/input", rname))))
		}
		for p, pos := range wp {
			if p.b == "" {
				continue // deletion, not an escape
			}
			n++
			_, ok := rp[pair{p.b, p.a}]
			r.Check(ok, "R01.7", fmt.Sprintf("%s writer escape %q → %q", label, p.a, p.b), c.Rel(pos), "reader applies the inverse",
				fmt.Sprintf("the %s writer rewrites %q to %q in values, but nothing reachable from %s turns %q back into %q (and the reader still splits on %q): a value containing %q does not read back", label, p.a, p.b, rname, p.b, p.a, p.a, p.a))
		}
	}
	r.Floor("R01.7", "writer replacement escapes", n, 1)
}

// ---- R01.8 field order ---------------------------------------------------------------
var orderFrozen = map[string]string{
	"pkg/input.dcfParagraphToRecord": "fallback for an empty para.Order; the control-file parser appends to Order for every key it stores in Values (pault.ag/go/debian control/parse.go)",
}

func c01Order(c *Ctx, r *Report) {
	r.Rule("R01.8", "readers keep field order: no function reachable from a record reader's constructor iterates a built-in Go map (whose order is random, and which even when sorted loses the order of the input text) while building records")
	use := c.OptUse()
	inCtor := switchStringLabels(c, c.LookupFunc("pkg/input", "Create"))
	seenFn := map[*ssa.Function]bool{}
	nReaders, nFns := 0, 0
	done := map[string]bool{}
	for _, label := range sortedKeys(inCtor) {
		name := inCtor[label]
		if done[name] {
			continue
		}
		done[name] = true
		ctor := c.SSAFunc(c.LookupFunc("pkg/input", name))
		if ctor == nil {
			r.Undecided("R01.8", "reader "+name, "", "constructor not found")
			continue
		}
		nReaders++
		bad := 0
		readerPkg := func(pp string) bool {
			return strings.HasSuffix(pp, "/pkg/input") || strings.HasSuffix(pp, "/pkg/dkvpx") || strings.HasSuffix(pp, "/pkg/go-csv")
		}
		for fn := range use.reachFromFiltered(ctor, readerPkg) {
			pkg := ""
			if fn.Pkg != nil {
				pkg = fn.Pkg.Pkg.Path()
			}
			// record-building code: readers and the value decoders
			if !strings.HasSuffix(pkg, "/pkg/input") && !strings.HasSuffix(pkg, "/pkg/mlrval") && !strings.HasSuffix(pkg, "/pkg/dkvpx") && !strings.HasSuffix(pkg, "/pkg/go-csv") {
				continue
			}
			if seenFn[fn] {
				continue
			}
			seenFn[fn] = true
			nFns++
			k := 0
			for _, b := range fn.Blocks {
				for _, in := range b.Instrs {
					rg, ok := in.(*ssa.Range)
					if !ok {
						continue
					}
					if _, isMap := rg.X.Type().Underlying().(*types.Map); !isMap {
						continue
					}
					k++
					if why, ok := orderFrozen[SSAName(fn)]; ok {
						r.OK("R01.8", fmt.Sprintf("%s: range over built-in map #%d", SSAName(fn), k), c.Rel(rg.Pos()), "frozen exception: "+why)
						continue
					}
					bad++
					r.Fail("R01.8", fmt.Sprintf("%s: range over built-in map #%d", SSAName(fn), k), c.Rel(rg.Pos()),
						fmt.Sprintf("%s, reachable from the %s reader, iterates a Go map while building a record: the fields come out in sorted or random order, not in the order of the input text", SSAName(fn), label))
				}
			}
		}
		if bad == 0 {
			r.OK("R01.8", "reader "+name, c.Rel(ctor.Pos()), "no built-in map iteration in record-building code")
		}
	}
	r.Floor("R01.8", "record readers", nReaders, 12)
	r.Floor("R01.8", "record-building functions scanned", nFns, 60)
}

// c01CSVWholeFieldWrites (R01.3f): the CSV writer sends a field's text to the
// output whole only where the field needs no quotes; everywhere else it sends
// special-character-free pieces.
func c01CSVWholeFieldWrites(c *Ctx, r *Report) {
	r.Rule("R01.3f", "a field goes out whole only when it needs no quotes: in the CSV writer's field loop, every write of the field's text is either a piece field[:j] cut at the next special character (j from strings.IndexAny / IndexByte / len of that field) or — the field as a whole, alone or inside a concatenation — lies on the edge where fieldNeedsQuotes(field) is false; a fast path that wraps the whole field in quotes skips the doubling of embedded quotes")
	fn := c.SSAFunc(c.LookupFunc("pkg/output", "RecordWriterCSV.WriteCSVRecordMaybeColorized"))
	need := c.SSAFunc(c.LookupFunc("pkg/output", "fieldNeedsQuotes"))
	if fn == nil || fn.Blocks == nil || need == nil {
		r.Undecided("R01.3f", "WriteCSVRecordMaybeColorized", "", "the CSV writer's field loop or fieldNeedsQuotes was not found")
		return
	}
	// the record parameter ([]string) and values that are (re-slices of) one of its elements
	var rec *ssa.Parameter
	for _, p := range fn.Params {
		if isStrSliceT(p.Type()) {
			rec = p
		}
	}
	if rec == nil {
		r.Undecided("R01.3f", "record parameter", "", "no []string parameter")
		return
	}
	var isField func(v ssa.Value, depth int) bool
	isField = func(v ssa.Value, depth int) bool {
		if depth > 6 {
			return false
		}
		switch x := v.(type) {
		case *ssa.UnOp:
			if x.Op == token.MUL {
				if ia, ok := x.X.(*ssa.IndexAddr); ok && ia.X == ssa.Value(rec) {
					return true
				}
			}
		case *ssa.Phi:
			for _, e := range x.Edges {
				if isField(e, depth+1) {
					return true
				}
			}
		case *ssa.Slice:
			// field[j:] — the remainder is still "the field" for the purposes of whole writes
			if x.High == nil {
				return isField(x.X, depth+1)
			}
		}
		return false
	}
	var containsField func(v ssa.Value, depth int) bool
	containsField = func(v ssa.Value, depth int) bool {
		if isField(v, 0) {
			return true
		}
		if bo, ok := v.(*ssa.BinOp); ok && bo.Op == token.ADD && depth < 6 {
			return containsField(bo.X, depth+1) || containsField(bo.Y, depth+1)
		}
		return false
	}
	n := 0
	for _, b := range fn.Blocks {
		for _, in := range b.Instrs {
			call, ok := in.(*ssa.Call)
			if !ok {
				continue
			}
			cn := CalleeName(&call.Call)
			if !(strings.HasSuffix(cn, "Writer.WriteString") || strings.HasSuffix(cn, "Writer.Write")) || len(call.Call.Args) < 2 {
				continue
			}
			arg := call.Call.Args[1]
			// a piece cut at the next special character
			if sl, ok := arg.(*ssa.Slice); ok && sl.High != nil && isField(sl.X, 0) {
				n++
				okPiece := false
				var fromSearch func(v ssa.Value, depth int) bool
				fromSearch = func(v ssa.Value, depth int) bool {
					if depth > 4 {
						return false
					}
					switch x := v.(type) {
					case *ssa.Call:
						cn := CalleeName(&x.Call)
						if strings.HasPrefix(cn, "strings.Index") {
							return true
						}
						if bi, ok := x.Call.Value.(*ssa.Builtin); ok && bi.Name() == "len" {
							return true
						}
					case *ssa.Phi:
						for _, e := range x.Edges {
							if !fromSearch(e, depth+1) {
								return false
							}
						}
						return true
					}
					return false
				}
				okPiece = fromSearch(sl.High, 0)
				r.Check(okPiece, "R01.3f", fmt.Sprintf("piece write #%d", n), c.Rel(call.Pos()), "cut at the next special character",
					"the CSV writer writes a piece of the field whose end is not the position of the next special character (or the end of the field): a quote inside the piece goes out undoubled")
				continue
			}
			if !containsField(arg, 0) {
				continue
			}
			n++
			// whole field: must lie on the edge where fieldNeedsQuotes(field) is false
			guarded := false
			for _, g := range GuardsAt(b) {
				if g.Polarity {
					continue
				}
				vals := []ssa.Value{g.Cond}
				if phi, ok := g.Cond.(*ssa.Phi); ok {
					vals = phi.Edges
				}
				for _, v := range vals {
					if nc, ok := v.(*ssa.Call); ok && nc.Call.StaticCallee() == need {
						guarded = true
					}
				}
			}
			r.Check(guarded, "R01.3f", fmt.Sprintf("whole-field write #%d", n), c.Rel(call.Pos()), "on the edge where the field needs no quotes",
				"the CSV writer sends the whole text of a field to the output on a path where fieldNeedsQuotes(field) is not known to be false: a quote, separator or line break inside it goes out unprotected (a field wrapped in quotes as a whole keeps its embedded quotes undoubled)")
		}
	}
	r.Floor("R01.3f", "writes of field text in the CSV writer", n, 2)
}

// extractEscTableViaHelper: see extractEscTable.
func extractEscTableViaHelper(c *Ctx, p *packages.Package, d *ast.FuncDecl, t *escTable) *escTable {
	info := p.TypesInfo
	var hd *ast.FuncDecl
	var okName string
	ast.Inspect(d.Body, func(n ast.Node) bool {
		as, ok := n.(*ast.AssignStmt)
		if !ok || len(as.Lhs) != 2 || len(as.Rhs) != 1 {
			return true
		}
		call, ok := as.Rhs[0].(*ast.CallExpr)
		if !ok {
			return true
		}
		fo := resolveFuncExpr(info, call.Fun)
		if fo == nil || fo.Pkg() != p.Types {
			return true
		}
		sig := fo.Type().(*types.Signature)
		if sig.Params().Len() != 1 || sig.Results().Len() != 2 {
			return true
		}
		if b, ok := sig.Results().At(1).Type().Underlying().(*types.Basic); !ok || b.Kind() != types.Bool {
			return true
		}
		if hdecl := c.Decl(fo); hdecl != nil && hdecl.Body != nil {
			hd = hdecl
			if id, ok := as.Lhs[1].(*ast.Ident); ok {
				okName = id.Name
			}
		}
		return true
	})
	if hd == nil || okName == "" {
		return nil
	}
	var sw *ast.SwitchStmt
	for _, st := range hd.Body.List {
		if x, ok := st.(*ast.SwitchStmt); ok && x.Tag != nil {
			sw = x
		}
	}
	if sw == nil {
		return nil
	}
	for _, cl := range sw.Body.List {
		cc := cl.(*ast.CaseClause)
		var ret *ast.ReturnStmt
		for _, st := range cc.Body {
			if r, ok := st.(*ast.ReturnStmt); ok && len(r.Results) == 2 {
				ret = r
			}
		}
		if ret == nil {
			return nil
		}
		found := types.ExprString(ret.Results[1]) == "true"
		if cc.List == nil {
			if found {
				t.defOpaque = "the helper's default answers 'found'"
			}
			continue
		}
		for _, e := range cc.List {
			k, ok := constIntOf(info, e)
			if !ok {
				return nil
			}
			row := &escRow{}
			if !found {
				continue // a listed letter answered 'not found' is the default
			}
			if v, ok := constIntOf(info, ret.Results[0]); ok {
				row.out = []byte{byte(v)}
			} else {
				row.opaque = "the helper returns " + types.ExprString(ret.Results[0])
			}
			t.rows[k] = row
		}
	}
	// the caller's "not ok" branch writes the scanned byte back
	ast.Inspect(d.Body, func(n ast.Node) bool {
		ifs, ok := n.(*ast.IfStmt)
		if !ok {
			return true
		}
		if types.ExprString(ifs.Cond) != "!"+okName {
			return true
		}
		for _, st := range ifs.Body.List {
			if out, arg, isW := writeCallBytes(info, st); isW && out == nil && arg != nil {
				if id, ok := arg.(*ast.Ident); ok {
					if tv, ok := info.Types[id]; ok {
						if b, ok := tv.Type.Underlying().(*types.Basic); ok && b.Info()&types.IsInteger != 0 {
							t.defIdentity = true
						}
					}
				}
			}
		}
		return true
	})
	if !t.defIdentity && t.defOpaque == "" {
		t.defOpaque = "with the table in a helper, no 'not ok' branch that writes the scanned byte back was found"
	}
	return t
}
