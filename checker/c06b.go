package main

// R06.8: number syntax does not depend on letter case. In pkg/scan every
// letter that is part of number syntax (the x/o/b of a base prefix, the e of
// an exponent) is accepted in both cases; the package has no case-sensitive
// syntax at all (inf/NaN are deliberately not numbers in data). So a test of
// a byte against one case of a letter with no sibling test of the same byte
// against the other case, in the same function, is a one-sided comparison.

import (
	"fmt"
	"go/constant"
	"go/token"
	"strings"

	"golang.org/x/tools/go/ssa"
)

func c06BothCases(c *Ctx, r *Report) {
	r.Rule("R06.8", "number syntax is case-blind: in pkg/scan, a byte or rune compared (==, !=) with an ASCII letter constant is compared with the other case of that letter in the same function — 0x/0X, 0o/0O, 0b/0B and e/E are the same syntax, and the package tests no letter whose case matters")
	n := 0
	for _, fn := range c.ModuleFunctions() {
		if fn.Pkg == nil || fn.Blocks == nil || !strings.HasSuffix(fn.Pkg.Pkg.Path(), "/pkg/scan") {
			continue
		}
		type cmpSite struct {
			v   ssa.Value
			ch  int64
			pos token.Pos
		}
		var sites []cmpSite
		for _, b := range fn.Blocks {
			for _, in := range b.Instrs {
				bo, ok := in.(*ssa.BinOp)
				if !ok || (bo.Op != token.EQL && bo.Op != token.NEQ) {
					continue
				}
				v, k := bo.X, bo.Y
				if _, isK := v.(*ssa.Const); isK {
					v, k = k, v
				}
				kc, isK := k.(*ssa.Const)
				if !isK || kc.Value == nil || kc.Value.Kind() != constant.Int || !isIntegerType(kc.Type()) {
					continue
				}
				ch, exact := constant.Int64Val(kc.Value)
				if !exact || !((ch >= 'a' && ch <= 'z') || (ch >= 'A' && ch <= 'Z')) {
					continue
				}
				// only bytes / runes: an int compared with 101 is not a letter test
				if !strings.Contains(kc.Type().String(), "byte") && !strings.Contains(kc.Type().String(), "uint8") && !strings.Contains(kc.Type().String(), "rune") && !strings.Contains(kc.Type().String(), "int32") {
					continue
				}
				sites = append(sites, cmpSite{v, ch, bo.Pos()})
			}
		}
		for i, s := range sites {
			n++
			other := s.ch ^ 0x20
			found := false
			for _, t := range sites {
				if t.ch == other && (t.v == s.v || sameValue(t.v, s.v)) {
					found = true
				}
			}
			key := fmt.Sprintf("%s: test against %q #%d", SSAName(fn), rune(s.ch), i+1)
			r.Check(found, "R06.8", key, c.Rel(s.pos), fmt.Sprintf("also tested against %q", rune(other)),
				fmt.Sprintf("%s tests a character against %q but not against %q: number syntax is the same in both letter cases, so one spelling of the same number is classified differently", SSAName(fn), rune(s.ch), rune(other)))
		}
	}
	r.Floor("R06.8", "letter tests in pkg/scan", n, 6)
}

// R06.9: program text is typed by the program's grammar, not by the data
// flags. -S, -A and -O select how *data* is inferred (R06.4); a literal in a
// DSL program is an int or a float by how it is written. So the functions
// that build the literal leaves of the syntax tree do not reach the
// flag-selected inferrer.
func c06LiteralsNotInferred(c *Ctx, r *Report) {
	r.Rule("R06.9", "program literals are not typed by the data flags: no function of package cst that builds a literal leaf node (RootNode.Build…LiteralNode and what they call inside the module) reaches mlrval.FromInferredType, FromDeferredType or the inferrer variable — with -A every int literal of the program would become a float, and asserting_int(3) would fail")
	n := 0
	for _, fn := range c.ModuleFunctions() {
		if fn.Pkg == nil || fn.Blocks == nil || !strings.HasSuffix(fn.Pkg.Pkg.Path(), "/pkg/dsl/cst") {
			continue
		}
		if !(strings.HasPrefix(fn.Name(), "Build") && strings.Contains(fn.Name(), "Literal")) {
			continue
		}
		n++
		reach := staticReach(c, fn)
		reach[fn] = true
		bad := ""
		for f := range reach {
			nm := SSAName(f)
			if strings.HasSuffix(nm, "mlrval.FromInferredType") || strings.HasSuffix(nm, "mlrval.FromDeferredType") || strings.HasSuffix(nm, "mlrval.inferTypeFromString") || strings.Contains(nm, "mlrval.inferWith") {
				bad = nm
			}
		}
		r.Check(bad == "", "R06.9", SSAName(fn), c.Rel(fn.Pos()), "does not reach the data inferrer",
			fmt.Sprintf("%s reaches %s: the literal's type then depends on -S / -A / -O, which are documented to govern data fields only", SSAName(fn), bad))
	}
	r.Floor("R06.9", "literal node builders in package cst", n, 3)
}
