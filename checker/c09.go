package main

// C09 — sorting: the collation table is a total preorder in the documented
// order, kernels fit their cells, descending comparators mirror ascending
// ones, <=> and the relational operators return the right kinds, sort flags
// select the right comparator.

import (
	"os"
	"fmt"
	"go/ast"
	"go/constant"
	"go/token"
	"go/types"
	"strings"

	"golang.org/x/tools/go/ssa"
)

func init() { register("C09", true, runC09) }

// intCellSummary: "-1","0","1" for constant cells, "kernel" otherwise.
func intCellSummary(c *Ctx, f *types.Func) string {
	sf := c.SSAFunc(f)
	if sf == nil || sf.Blocks == nil {
		return "?"
	}
	val := ""
	for _, b := range sf.Blocks {
		ret, ok := b.Instrs[len(b.Instrs)-1].(*ssa.Return)
		if !ok || len(ret.Results) != 1 {
			continue
		}
		if n, ok := constInt(ret.Results[0]); ok {
			s := fmt.Sprint(n)
			if val != "" && val != s {
				return "kernel"
			}
			val = s
		} else {
			return "kernel"
		}
	}
	if val == "" {
		return "?"
	}
	return val
}

func runC09(c *Ctx, r *Report) {
	r.Explanation = "What sorting needs from its comparison functions is decided on the tables and the mirror structure (values touched only through comparisons): the collation matrix of package mlrval is antisymmetric, transitive, total and in the documented kind order with INT/FLOAT and VOID/STRING forming one class each; its kernels can only sit where their unchecked type assertions fit; every descending comparator is its ascending sibling with swapped arguments or negated; the DSL's <=> returns only ints (or error/absent) and is antisymmetric on constant cells, the six relational operators return only booleans (or error/absent); the sort verb's flags select the comparator family and polarity they name, one comparator per field name."
	r.NotDecided = "that a run of sort.Slice yields an ordered permutation; stability for equal key texts; natural-sort order details and which member of the natural pair is 'ascending'."
	if err := c.MTKinds(); err != nil {
		r.Undecided("R09.0", "MT kinds", "", err.Error())
		return
	}
	rs := NewRetSum(c)
	var ct *DispTable
	for _, t := range rs.tables {
		if t.Name == "cmp_dispositions" && t.Pkg.PkgPath == mlrvalPkg {
			ct = t
		}
	}
	if ct == nil || len(ct.Errs) > 0 {
		r.Undecided("R09.1", "mlrval.cmp_dispositions", "", "collation table not found or not fully resolved")
		return
	}
	r.Rule("R09.9", "the sort verb is stable, as its usage says: every sort call in the sort, top and sort-within-records verbs is a stable sort or a sort of plain strings — records that compare equal under the chosen comparators (also with different key texts, e.g. 1 and 1.0 under -nf) keep their input order")
	checkStableSorts(c, r, "R09.9", []string{"sort.go", "top.go", "sort_within_records.go", "sort_within_records_values.go"}, 2)
	c09Twins(c, r)
	c09WorkingCopy(c, r)
	// ---- R09.1
	r.Rule("R09.1", "the collation matrix mlrval.cmp_dispositions is a total preorder on kinds: constant cells are -1/0/+1; [a][b] = -1 ⇔ [b][a] = +1, 0 ⇔ 0, kernel ⇔ kernel; 'a before b' is transitive and total; the order is numerics < boolean < {empty,string} < bytes < array < map < function < error < JSON-null < absent, with INT/FLOAT and VOID/STRING one class each")
	S := func(i, j int) string { return intCellSummary(c, ct.Cell(i, j)) }
	neg := map[string]string{"-1": "1", "1": "-1", "0": "0", "kernel": "kernel"}
	for a := 0; a < K_DIM; a++ {
		for b := a; b < K_DIM; b++ {
			sa, sb := S(a, b), S(b, a)
			ok := neg[sa] == sb && sa != "?"
			if a == b {
				ok = sa == "0" || sa == "kernel"
			}
			r.Check(ok, "R09.1", fmt.Sprintf("antisymmetry [%s][%s]", kindNames[a], kindNames[b]), c.Rel(ct.Pos), fmt.Sprintf("%s / %s", sa, sb),
				fmt.Sprintf("cmp_dispositions[%s][%s] is %s (%s) but [%s][%s] is %s (%s): the relation is not antisymmetric, so sort order depends on the comparison direction the algorithm happens to use", kindNames[a], kindNames[b], sa, ct.Cell(a, b).Name(), kindNames[b], kindNames[a], sb, ct.Cell(b, a).Name()))
		}
	}
	// documented classes in order
	classes := [][]int{{K_INT, K_FLOAT}, {K_BOOL}, {K_VOID, K_STRING}, {K_BYTES}, {K_ARRAY}, {K_MAP}, {K_FUNC}, {K_ERROR}, {K_NULL}, {K_ABSENT}}
	rank := map[int]int{}
	for ci, cl := range classes {
		for _, k := range cl {
			rank[k] = ci
		}
	}
	for a := 0; a < K_DIM; a++ {
		for b := 0; b < K_DIM; b++ {
			if a == b {
				continue
			}
			want := ""
			switch {
			case rank[a] < rank[b]:
				want = "-1"
			case rank[a] > rank[b]:
				want = "1"
			default:
				want = "kernel"
			}
			got := S(a, b)
			r.Check(got == want, "R09.1", fmt.Sprintf("order [%s][%s]", kindNames[a], kindNames[b]), c.Rel(ct.Pos), got,
				fmt.Sprintf("cmp_dispositions[%s][%s] = %s (%s), the documented collation (numerics < boolean < empty/string < bytes < array < map < function < error < null < absent) requires %s: sort -nf/-nr and the sorting functions mis-place %s relative to %s", kindNames[a], kindNames[b], got, ct.Cell(a, b).Name(), want, kindNames[a], kindNames[b]))
		}
	}
	// ---- R09.2 kernels fit their cells
	r.Rule("R09.2", "kernels match their cell: each kernel of the collation table (unchecked intf.(T) assertions, direct printrep reads) is evaluated abstractly on the kinds of every cell it sits in and cannot abort there")
	ke := NewKindEval(c, rs)
	nk := 0
	for a := 0; a < K_DIM; a++ {
		for b := 0; b < K_DIM; b++ {
			if S(a, b) != "kernel" {
				continue
			}
			nk++
			sf := c.SSAFunc(ct.Cell(a, b))
			res := ke.Eval(sf, []AV{{T: 'm', MK: a}, {T: 'm', MK: b}})
			r.Check(!res.Abort, "R09.2", fmt.Sprintf("%s in [%s][%s]", ct.Cell(a, b).Name(), kindNames[a], kindNames[b]), c.Rel(ct.Pos), "cannot abort on these kinds",
				fmt.Sprintf("kernel %s sits in cell [%s][%s] but aborts there (%s): comparing such values panics", ct.Cell(a, b).Name(), kindNames[a], kindNames[b], res.AbortAt))
		}
	}
	r.Floor("R09.2", "kernel cells", nk, 9)
	// Cmp & friends dispatch through the table with (input1,input2)
	for _, name := range []string{"Cmp", "Equals", "LessThan", "GreaterThan", "LessThanOrEquals", "GreaterThanOrEquals"} {
		f := c.SSAFunc(c.LookupFunc("pkg/mlrval", name))
		if f == nil {
			continue
		}
		idx, args, ok := rs.DispatchShape(f, ct)
		good := ok && len(idx) == 2 && idx[0] == 0 && idx[1] == 1 && len(args) == 2 && args[0] == 0 && args[1] == 1
		r.Check(good, "R09.2", "mlrval."+name+" dispatch", c.Rel(f.Pos()), "cmp_dispositions[input1.Type()][input2.Type()](input1,input2)", fmt.Sprintf("mlrval.%s does not dispatch as [input1.Type()][input2.Type()](input1,input2): index params %v, arg params %v", name, idx, args))
	}

	c09Mirror(c, r)
	c09Spaceship(c, r, rs)
	c09SortFlags(c, r)
	c09Spill(c, r)
	c09NoSubtraction(c, r)
	c09KeptRecordsEmitted(c, r)
}

// ---- R09.3 -------------------------------------------------------------------
func c09Mirror(c *Ctx, r *Report) {
	r.Rule("R09.3", "descending = mirrored ascending: each XDescendingComparator returns XAscendingComparator with swapped arguments, or the negation of the very call its ascending sibling makes")
	for _, fam := range []string{"Lexical", "CaseFold", "Numeric", "Natural"} {
		asc := c.SSAFunc(c.LookupFunc("pkg/mlrval", fam+"AscendingComparator"))
		desc := c.SSAFunc(c.LookupFunc("pkg/mlrval", fam+"DescendingComparator"))
		if asc == nil || desc == nil {
			r.Undecided("R09.3", fam, "", "comparator pair not found")
			continue
		}
		ok, why := false, "unrecognised shape"
		for _, b := range desc.Blocks {
			ret, isRet := b.Instrs[len(b.Instrs)-1].(*ssa.Return)
			if !isRet || len(ret.Results) != 1 {
				continue
			}
			switch v := ret.Results[0].(type) {
			case *ssa.Call:
				if v.Call.StaticCallee() == asc && len(v.Call.Args) == 2 {
					if v.Call.Args[0] == desc.Params[1] && v.Call.Args[1] == desc.Params[0] {
						ok, why = true, "ascending with swapped arguments"
					} else {
						why = "calls the ascending comparator with unswapped arguments"
					}
				}
			case *ssa.UnOp:
				if v.Op == token.SUB {
					if call, isCall := v.X.(*ssa.Call); isCall && len(call.Call.Args) == 2 && call.Call.Args[0] == desc.Params[0] && call.Call.Args[1] == desc.Params[1] {
						// same callee as the ascending one returns
						for _, ab := range asc.Blocks {
							if aret, ok2 := ab.Instrs[len(ab.Instrs)-1].(*ssa.Return); ok2 && len(aret.Results) == 1 {
								if ac, ok3 := aret.Results[0].(*ssa.Call); ok3 && ac.Call.StaticCallee() == call.Call.StaticCallee() && ac.Call.Args[0] == asc.Params[0] && ac.Call.Args[1] == asc.Params[1] {
									ok, why = true, "negation of the ascending comparison"
								}
							}
						}
					}
				}
			}
		}
		r.Check(ok, "R09.3", fam+" pair", c.Rel(desc.Pos()), why, fam+"DescendingComparator is not the mirror of "+fam+"AscendingComparator ("+why+"): -r style flags do not reverse the order")
	}
}

// ---- R09.4 -------------------------------------------------------------------
func c09Spaceship(c *Ctx, r *Report, rs *RetSum) {
	r.Rule("R09.4", "comparator result kinds: every cell of the DSL's <=> table returns only INT (or ERROR/ABSENT) and its constant cells are antisymmetric; every cell of the six relational tables == != < <= > >= returns only booleans (or ERROR/ABSENT)")
	reg, msg := c.BIFRegistry()
	if msg != "" {
		r.Undecided("R09.4", "registry", "", msg)
		return
	}
	ot := operatorTables(c, r, rs, reg, "R09.4", []string{"<=>", "==", "!=", "<", "<=", ">", ">="})
	sum := func(t *DispTable, i, j int) TokSet {
		f := t.Cell(i, j)
		if f == nil {
			return tokset("OTHER")
		}
		return rs.Of(c.SSAFunc(f))
	}
	if o := ot["<=>"]; o != nil {
		t := o.Tab
		for a := 0; a < K_DIM; a++ {
			for b := 0; b < K_DIM; b++ {
				s := sum(t, a, b).Kinds()
				ok := s.SubsetOf("INT", "ERROR", "ABSENT")
				r.Check(ok, "R09.4", cellKey(t, a, b)+" kind", c.Rel(t.Pos), t.Cell(a, b).Name()+" → "+s.String(),
					fmt.Sprintf("the <=> cell for (%s,%s) is %s returning %s: a user comparator 'func(a,b){return a<=>b}' hands the sorting functions a non-number and sort aborts", kindNames[a], kindNames[b], t.Cell(a, b).Name(), s))
			}
		}
		negc := map[string]string{"INT:-1": "INT:1", "INT:1": "INT:-1", "INT:0": "INT:0"}
		for a := 0; a < K_DIM; a++ {
			for b := a + 1; b < K_DIM; b++ {
				sa, sb := sum(t, a, b), sum(t, b, a)
				if len(sa) == 1 && len(sb) == 1 {
					ta, tb := sa.List()[0], sb.List()[0]
					if na, isConst := negc[ta]; isConst {
						if _, isConstB := negc[tb]; isConstB {
							r.Check(na == tb, "R09.4", fmt.Sprintf("%s antisymmetry [%s][%s]", t.Name, kindNames[a], kindNames[b]), c.Rel(t.Pos), ta+" / "+tb,
								fmt.Sprintf("<=> is not antisymmetric on (%s,%s): %s vs %s", kindNames[a], kindNames[b], ta, tb))
						}
					}
				}
			}
		}
	}
	for _, op := range []string{"==", "!=", "<", "<=", ">", ">="} {
		o := ot[op]
		if o == nil {
			continue
		}
		t := o.Tab
		bad := 0
		for a := 0; a < K_DIM; a++ {
			for b := 0; b < K_DIM; b++ {
				s := sum(t, a, b).Kinds()
				if !s.SubsetOf("BOOL", "ERROR", "ABSENT") {
					bad++
					r.Fail("R09.4", cellKey(t, a, b)+" kind", c.Rel(t.Pos), fmt.Sprintf("operator %s on (%s,%s) is %s returning %s, not a boolean", op, kindNames[a], kindNames[b], t.Cell(a, b).Name(), s))
				}
			}
		}
		if bad == 0 {
			r.OK("R09.4", t.Name+" returns booleans", c.Rel(t.Pos), "144 cells ⊆ {BOOL, ERROR, ABSENT}")
		}
	}
}

// ---- R09.5 -------------------------------------------------------------------
func c09SortFlags(c *Ctx, r *Report) {
	r.Rule("R09.5", "sort flags select the comparator they name: in the sort verb's parser each flag spelling (-f -r -c -cr -n -nf -nr -t -tr and their split forms) appends the comparator of its family and polarity — the two natural-sort spellings use the two different members of the natural pair — and every appended comparator is paired with exactly one appended field name")
	fobj := c.LookupFunc("pkg/transformers", "transformerSortParseCLI")
	if fobj == nil {
		r.Undecided("R09.5", "transformerSortParseCLI", "", "anchor not found")
		return
	}
	p := c.PkgOfFunc(fobj)
	decl := c.Decl(fobj)
	want := map[string]string{
		"-f|": "LexicalAscending", "-r|else": "LexicalDescending",
		"-c|-r": "CaseFoldDescending", "-c|else": "CaseFoldAscending",
		"-n|-f": "NumericAscending", "-n|-r": "NumericDescending", "-n|default": "NumericAscending",
		"-nf|": "NumericAscending", "-nr|": "NumericDescending",
		"-t|else": "Natural:A", "-t|-r": "Natural:B", "-r|-t": "Natural:B",
	}
	natural := map[string]string{}
	n := 0
	var visit func(node ast.Node, outer, inner string)
	strConst := func(e ast.Expr) (string, bool) {
		tv, ok := p.TypesInfo.Types[e]
		if ok && tv.Value != nil && tv.Value.Kind() == constant.String {
			return constant.StringVal(tv.Value), true
		}
		return "", false
	}
	visit = func(node ast.Node, outer, inner string) {
		switch x := node.(type) {
		case *ast.SwitchStmt:
			tag := types.ExprString(x.Tag)
			for _, s := range x.Body.List {
				cc := s.(*ast.CaseClause)
				labels := []string{}
				for _, l := range cc.List {
					if sv, ok := strConst(l); ok {
						labels = append(labels, sv)
					}
				}
				for _, st := range cc.Body {
					if tag == "opt" {
						for _, l := range labels {
							visit(st, l, "")
						}
					} else if outer != "" {
						if cc.List == nil {
							visit(st, outer, "default")
						}
						for _, l := range labels {
							visit(st, outer, l)
						}
					}
				}
			}
			return
		case *ast.IfStmt:
			if be, ok := x.Cond.(*ast.BinaryExpr); ok && be.Op == token.EQL && outer != "" {
				if sv, ok := strConst(be.Y); ok && strings.HasPrefix(types.ExprString(be.X), "args[") {
					visit(x.Body, outer, sv)
					if x.Else != nil {
						visit(x.Else, outer, "else")
					}
					return
				}
			}
			visit(x.Body, outer, inner)
			if x.Else != nil {
				visit(x.Else, outer, inner)
			}
			return
		case *ast.BlockStmt:
			for _, s := range x.List {
				visit(s, outer, inner)
			}
			return
		case *ast.ForStmt:
			visit(x.Body, outer, inner)
			return
		case *ast.RangeStmt:
			// pairing: exactly one field-name append and one comparator append
			nField, nCmp := 0, 0
			var cmpName string
			for _, s := range x.Body.List {
				as, ok := s.(*ast.AssignStmt)
				if !ok || len(as.Rhs) != 1 {
					continue
				}
				call, ok := as.Rhs[0].(*ast.CallExpr)
				if !ok || types.ExprString(call.Fun) != "append" || len(call.Args) != 2 {
					continue
				}
				if fo := resolveFuncExpr(p.TypesInfo, call.Args[1]); fo != nil && strings.HasSuffix(fo.Name(), "Comparator") {
					nCmp++
					cmpName = strings.TrimSuffix(fo.Name(), "Comparator")
				} else {
					nField++
				}
			}
			if nCmp == 0 {
				visit(x.Body, outer, inner)
				return
			}
			n++
			key := outer
			if inner != "" {
				key += " " + inner
			}
			w, known := want[outer+"|"+inner]
			r.Check(nField == 1 && nCmp == 1, "R09.5", "sort "+key+": one comparator per field", c.Rel(x.Pos()), "1 field name + 1 comparator per list item", fmt.Sprintf("the loop for flag %s appends %d field names and %d comparators per item: keys and comparators go out of step", key, nField, nCmp))
			if !known {
				r.Undecided("R09.5", "sort "+key, c.Rel(x.Pos()), "flag context not in the documented table of sort flags")
				return
			}
			if strings.HasPrefix(w, "Natural:") {
				if !strings.HasPrefix(cmpName, "Natural") {
					r.Fail("R09.5", "sort "+key, c.Rel(x.Pos()), "flag "+key+" appends "+cmpName+", expected a natural-sort comparator")
					return
				}
				member := strings.TrimPrefix(w, "Natural:")
				if prev, seen := natural[member]; seen && prev != cmpName {
					r.Fail("R09.5", "sort "+key, c.Rel(x.Pos()), fmt.Sprintf("natural-sort spellings of the same direction use different comparators (%s vs %s)", prev, cmpName))
					return
				}
				natural[member] = cmpName
				r.OK("R09.5", "sort "+key, c.Rel(x.Pos()), cmpName)
				return
			}
			r.Check(cmpName == w, "R09.5", "sort "+key, c.Rel(x.Pos()), cmpName, fmt.Sprintf("flag %s appends %sComparator, its documented meaning is %sComparator", key, cmpName, w))
			return
		}
	}
	visit(decl.Body, "", "")
	if a, b := natural["A"], natural["B"]; a != "" && b != "" {
		r.Check(a != b, "R09.5", "sort -t vs -tr use different members", c.Rel(decl.Pos()), a+" / "+b, "-t and -tr append the same natural comparator ("+a+"): -tr does not reverse -t")
	}
	r.Floor("R09.5", "comparator-appending loops", n, 12)
}

// ---- R09.6 -------------------------------------------------------------------
func c09Spill(c *Ctx, r *Report) {
	r.Rule("R09.6", "records lacking a sort key are set aside, not compared: in sort, top and sort-within-records the 'ok' result of the key selector is branched on before the selected values are used")
	checkSelectorResults(c, r, "R09.6", []string{"sort.go", "top.go"}, 2)
}

// ---- R09.7 ------------------------------------------------------------------
// Order kernels compare, they do not subtract.
func c09NoSubtraction(c *Ctx, r *Report) {
	r.Rule("R09.7", "order kernels compare, never subtract: in the comparison kernels and comparators of packages mlrval and bifs (functions returning int whose name ends in _cmp / Comparator or starts with Compare / collate) no integer subtraction of the two compared values is computed — the sign of a-b is not the order of a and b once the difference wraps (|a-b| ≥ 2^63), so the order would not be antisymmetric")
	n := 0
	nameOK := func(s string) bool {
		l := strings.ToLower(s)
		return strings.HasSuffix(l, "_cmp") || strings.HasSuffix(l, "comparator") || strings.HasPrefix(l, "compare") || strings.HasPrefix(l, "collate") || strings.Contains(l, "cmp_")
	}
	fromParam := func(v ssa.Value, fn *ssa.Function) int {
		for d := 0; d < 6; d++ {
			switch x := v.(type) {
			case *ssa.Parameter:
				for i, p := range fn.Params {
					if p == x {
						return i
					}
				}
				return -1
			case *ssa.TypeAssert:
				v = x.X
			case *ssa.UnOp:
				v = x.X
			case *ssa.FieldAddr:
				v = x.X
			case *ssa.Extract:
				v = x.Tuple
			case *ssa.Call:
				if len(x.Call.Args) == 0 {
					return -1
				}
				v = x.Call.Args[0]
			case *ssa.Convert:
				v = x.X
			default:
				return -1
			}
		}
		return -1
	}
	for _, fn := range c.ModuleFunctions() {
		if fn.Pkg == nil {
			continue
		}
		pp := fn.Pkg.Pkg.Path()
		if !(strings.HasSuffix(pp, "/pkg/mlrval") || strings.HasSuffix(pp, "/pkg/bifs")) || !nameOK(fn.Name()) {
			continue
		}
		res := fn.Signature.Results()
		if res.Len() != 1 {
			continue
		}
		if b, ok := res.At(0).Type().Underlying().(*types.Basic); !ok || b.Info()&types.IsInteger == 0 {
			continue
		}
		n++
		bad := ""
		for _, b := range fn.Blocks {
			for _, in := range b.Instrs {
				bo, ok := in.(*ssa.BinOp)
				if !ok || bo.Op != token.SUB {
					continue
				}
				if bt, ok := bo.Type().Underlying().(*types.Basic); !ok || bt.Info()&types.IsInteger == 0 {
					continue
				}
				pi, pj := fromParam(bo.X, fn), fromParam(bo.Y, fn)
				if pi >= 0 && pj >= 0 && pi != pj {
					bad = c.Rel(bo.Pos())
				}
			}
		}
		r.Check(bad == "", "R09.7", SSAName(fn), c.Rel(fn.Pos()), "compares with < and >",
			fmt.Sprintf("%s computes the integer difference of the two values it orders (%s): for operands of opposite sign and large magnitude the difference wraps and the larger value sorts first", SSAName(fn), bad))
	}
	r.Floor("R09.7", "order kernels and comparators", n, 10)
}

// ---- R09.8 ------------------------------------------------------------------
// What a verb keeps, it gives back at end of stream — on every path.
func c09KeptRecordsEmitted(c *Ctx, r *Report) {
	r.Rule("R09.8", "what a verb keeps it gives back: when a verb's record function appends incoming records to a slice field of the verb (records set aside: lacking a key, waiting for the end), then on every path through its end-of-stream branch that field is read before the function returns — an early return ('nothing to sort') that skips it drops those records")
	n := 0
	for _, fn := range c.ModuleFunctions() {
		if fn.Pkg == nil || !strings.HasSuffix(fn.Pkg.Pkg.Path(), "/pkg/transformers") || len(fn.Params) == 0 {
			continue
		}
		recv := fn.Params[0]
		// the receiver, or a reload of it from the cell it lives in when a closure captures it
		isRecv := func(v ssa.Value) bool {
			if v == recv {
				return true
			}
			if ld, ok := v.(*ssa.UnOp); ok && ld.Op == token.MUL {
				if al, ok := ld.X.(*ssa.Alloc); ok {
					for _, ref := range *al.Referrers() {
						if st, ok := ref.(*ssa.Store); ok && st.Addr == al && st.Val != recv {
							return false
						}
					}
					for _, ref := range *al.Referrers() {
						if st, ok := ref.(*ssa.Store); ok && st.Addr == al && st.Val == recv {
							return true
						}
					}
				}
			}
			return false
		}
		// slice fields of the receiver that get a record appended
		kept := map[int]string{}
		for _, b := range fn.Blocks {
			for _, in := range b.Instrs {
				st, ok := in.(*ssa.Store)
				if !ok {
					continue
				}
				fa, ok := st.Addr.(*ssa.FieldAddr)
				if !ok || !isRecv(fa.X) {
					continue
				}
				call, ok := st.Val.(*ssa.Call)
				if !ok {
					continue
				}
				if bi, ok := call.Call.Value.(*ssa.Builtin); !ok || bi.Name() != "append" {
					continue
				}
				ts := call.Type().String()
				if !(strings.Contains(ts, "RecordAndContext") || strings.Contains(ts, "Mlrmap")) {
					continue
				}
				stt := fa.X.Type().Underlying().(*types.Pointer).Elem().Underlying().(*types.Struct)
				kept[fa.Field] = stt.Field(fa.Field).Name()
			}
		}
		if len(kept) == 0 {
			continue
		}
		if os.Getenv("MLRLINT_DEBUG") != "" {
			fmt.Fprintf(os.Stderr, "KEPT %s %v\n", SSAName(fn), kept)
		}
		// the end-of-stream branch
		var eosBlock *ssa.BasicBlock
		for _, b := range fn.Blocks {
			iff, ok := b.Instrs[len(b.Instrs)-1].(*ssa.If)
			if !ok {
				continue
			}
			cond, pol := stripNot(iff.Cond, true)
			// the verb's own input record (a parameter), not a record it reads itself from elsewhere
			if base, name, ok := fieldLoadName(cond); ok && name == "EndOfStream" && isParamOf(base, fn) {
				if pol {
					eosBlock = b.Succs[0]
				} else {
					eosBlock = b.Succs[1]
				}
			}
		}
		if eosBlock == nil {
			continue
		}
		for fi, fname := range kept {
			n++
			key := fmt.Sprintf("%s: field %s", SSAName(fn), fname)
			// every path from eosBlock to a return loads the field
			bad := ""
			var walk func(b *ssa.BasicBlock, seen map[*ssa.BasicBlock]bool)
			walk = func(b *ssa.BasicBlock, seen map[*ssa.BasicBlock]bool) {
				if bad != "" || seen[b] {
					return
				}
				seen2 := map[*ssa.BasicBlock]bool{}
				for k := range seen {
					seen2[k] = true
				}
				seen2[b] = true
				for _, in := range b.Instrs {
					switch x := in.(type) {
					case *ssa.FieldAddr:
						if isRecv(x.X) && x.Field == fi {
							return // read (or reset) here
						}
					case *ssa.Return:
						bad = c.Rel(x.Pos())
						return
					}
				}
				for _, s := range b.Succs {
					walk(s, seen2)
				}
			}
			walk(eosBlock, map[*ssa.BasicBlock]bool{})
			r.Check(bad == "", "R09.8", key, c.Rel(fn.Pos()), "read on every end-of-stream path",
				fmt.Sprintf("%s sets records aside in %s, but its end-of-stream branch has a path to the return at %s that never looks at that field: the records kept there are dropped", SSAName(fn), fname, bad))
		}
	}
	r.Floor("R09.8", "record-holding slice fields with an end-of-stream branch", n, 3)
}

func isParamOf(v ssa.Value, fn *ssa.Function) bool {
	for _, p := range fn.Params {
		if p == v {
			return true
		}
	}
	// reload of a parameter from its cell
	if ld, ok := v.(*ssa.UnOp); ok && ld.Op == token.MUL {
		if al, ok := ld.X.(*ssa.Alloc); ok {
			for _, ref := range *al.Referrers() {
				if st, ok := ref.(*ssa.Store); ok && st.Addr == al {
					if _, isP := st.Val.(*ssa.Parameter); isP {
						return true
					}
				}
			}
		}
	}
	return false
}
