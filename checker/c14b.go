package main

// C14, continued: every turn of a DSL loop re-tests its condition (R14.11).

import (
	"fmt"
	"go/constant"
	"go/token"
	"go/types"
	"sort"
	"strings"

	"golang.org/x/tools/go/ssa"
)

// c14LoopCycles: in the executors of the while, do-while and triple-for
// loops, no path leads from one execution of the body to the next without
// reading the loop's condition node (and, in the triple-for, running the
// update block). A `continue` in the body must not skip them.
func c14LoopCycles(c *Ctx, r *Report) {
	r.Rule("R14.11", "every turn of a loop re-tests its condition: in the Execute method of the node built for the grammar's WhileLoop, DoWhileLoop and TripleForLoop (found through the builder that asserts that AST node type), every control-flow cycle through the call that executes the body block passes through a read of the node's condition (an IEvaluable field of the receiver) and through every frameless block execution that is itself in a cycle with the body (the triple-for's update): a continue handled by jumping back to the top of a body-first loop would skip the test")
	p := c.Pkg("pkg/dsl/cst")
	if p == nil {
		r.Undecided("R14.11", "pkg/dsl/cst", "", "package not loaded")
		return
	}
	// AST node type names, from the package's own constants
	want := map[string]string{}
	for _, cn := range []string{"NodeTypeWhileLoop", "NodeTypeDoWhileLoop", "NodeTypeTripleForLoop"} {
		if k, ok := p.Types.Scope().Lookup(cn).(*types.Const); ok && k.Val().Kind() == constant.String {
			want[constant.StringVal(k.Val())] = cn
		}
	}
	found := 0
	seenType := map[string]bool{}
	for fn := range c.AllFunctions() {
		if fn.Blocks == nil || fn.Pkg == nil || fn.Pkg.Pkg != p.Types || fn.Signature.Results().Len() != 2 {
			continue
		}
		// the builder: asserts astNode.Type against one of the three constants by an
		// InternalCodingErrorIf on the != comparison, and returns (*T, error)
		pt, ok := fn.Signature.Results().At(0).Type().(*types.Pointer)
		if !ok {
			continue
		}
		named, ok := pt.Elem().(*types.Named)
		if !ok {
			continue
		}
		which := ""
		for _, b := range fn.Blocks {
			for _, in := range b.Instrs {
				cmp, ok := in.(*ssa.BinOp)
				if !ok || cmp.Op != token.NEQ {
					continue
				}
				k, ok := cmp.Y.(*ssa.Const)
				if !ok || k.Value == nil || k.Value.Kind() != constant.String {
					continue
				}
				if _, name, ok := fieldLoadName(cmp.X); ok && name == "Type" {
					if cn, ok := want[constant.StringVal(k.Value)]; ok {
						which = cn
					}
				}
			}
		}
		if which == "" || seenType[named.Obj().Name()] {
			continue
		}
		var exec *ssa.Function
		for i := 0; i < named.NumMethods(); i++ {
			if named.Method(i).Name() == "Execute" {
				exec = c.SSAFunc(named.Method(i))
			}
		}
		if exec == nil || exec.Blocks == nil {
			continue
		}
		seenType[named.Obj().Name()] = true
		found++
		key := which + " → " + SSAName(exec)
		recv := exec.Params[0]
		// blocks that read an IEvaluable field of the receiver, body calls, frameless calls
		condBlocks := map[*ssa.BasicBlock]bool{}
		var bodyCalls, frameless []*ssa.Call
		for _, b := range exec.Blocks {
			for _, in := range b.Instrs {
				switch x := in.(type) {
				case *ssa.FieldAddr:
					if x.X == ssa.Value(recv) {
						ft := x.Type().(*types.Pointer).Elem()
						if _, isIface := ft.Underlying().(*types.Interface); isIface && strings.HasSuffix(ft.String(), "IEvaluable") {
							condBlocks[b] = true
						}
					}
				case *ssa.Call:
					// a helper method of the same node that reads the condition
					if callee := x.Call.StaticCallee(); callee != nil && callee.Blocks != nil && len(x.Call.Args) > 0 && x.Call.Args[0] == ssa.Value(recv) && len(callee.Params) > 0 {
						for _, hb := range callee.Blocks {
							for _, hin := range hb.Instrs {
								if fa, ok := hin.(*ssa.FieldAddr); ok && fa.X == ssa.Value(callee.Params[0]) {
									ft := fa.Type().(*types.Pointer).Elem()
									if _, isIface := ft.Underlying().(*types.Interface); isIface && strings.HasSuffix(ft.String(), "IEvaluable") {
										condBlocks[b] = true
									}
								}
							}
						}
					}
					cn := CalleeName(&x.Call)
					if strings.HasSuffix(cn, "StatementBlockNode.Execute") {
						bodyCalls = append(bodyCalls, x)
					}
					if strings.HasSuffix(cn, "StatementBlockNode.ExecuteFrameless") {
						frameless = append(frameless, x)
					}
				}
			}
		}
		// cycle from the body to itself that avoids a given set of blocks
		cycleAvoiding := func(body *ssa.BasicBlock, avoid map[*ssa.BasicBlock]bool) bool {
			if avoid[body] {
				return false
			}
			seen := map[*ssa.BasicBlock]bool{}
			var walk func(b *ssa.BasicBlock) bool
			walk = func(b *ssa.BasicBlock) bool {
				for _, s := range b.Succs {
					if avoid[s] {
						continue
					}
					if s == body {
						return true
					}
					if !seen[s] {
						seen[s] = true
						if walk(s) {
							return true
						}
					}
				}
				return false
			}
			return walk(body)
		}
		nBody := 0
		bad := ""
		for _, bc := range bodyCalls {
			bb := bc.Block()
			if !blockReachesSelf(bb) {
				continue
			}
			nBody++
			if len(condBlocks) == 0 {
				bad = "the node has no condition field read in its Execute"
				break
			}
			if cycleAvoiding(bb, condBlocks) {
				bad = fmt.Sprintf("there is a path from the body execution at %s round to the next body execution that does not read the loop's condition", c.Rel(bc.Pos()))
				break
			}
			for _, fc := range frameless {
				fb := fc.Block()
				if !(blockReaches(bb, fb) && blockReaches(fb, bb)) {
					continue // the start block: not in the cycle
				}
				if cycleAvoiding(bb, map[*ssa.BasicBlock]bool{fb: true}) {
					bad = fmt.Sprintf("there is a path from the body execution at %s round to the next body execution that skips the block executed at %s (the update of the loop)", c.Rel(bc.Pos()), c.Rel(fc.Pos()))
				}
			}
		}
		if nBody == 0 {
			r.Undecided("R14.11", key, c.Rel(exec.Pos()), "no body execution inside a cycle was found in the loop executor")
			continue
		}
		r.Check(bad == "", "R14.11", key, c.Rel(exec.Pos()), "every cycle through the body reads the condition (and runs the update)", SSAName(exec)+": "+bad)
	}
	r.Floor("R14.11", "loop executors found through their AST node type", found, 3)
}

// c14CallBoundary (R14.12): a call site consumes the callee's return.
func c14CallBoundary(c *Ctx, r *Report) {
	r.Rule("R14.12", "a return stops at the call: every interpreter function that opens a new frame set (PushStackFrameSet — the boundary of a user-defined function or subroutine call) and itself has a (*BlockExitPayload, error) result returns a nil payload on every path: the callee's return-payload must not travel on into the caller's block, where it would end that block too")
	n := 0
	for _, fn := range c.ModuleFunctions() {
		if fn.Blocks == nil || fn.Pkg == nil || !strings.HasSuffix(fn.Pkg.Pkg.Path(), "/pkg/dsl/cst") {
			continue
		}
		res := fn.Signature.Results()
		if res.Len() != 2 || !strings.HasSuffix(res.At(0).Type().String(), "BlockExitPayload") {
			continue
		}
		pushes := false
		for _, b := range fn.Blocks {
			for _, in := range b.Instrs {
				if call, ok := in.(ssa.CallInstruction); ok && strings.HasSuffix(CalleeName(call.Common()), "Stack.PushStackFrameSet") {
					pushes = true
				}
			}
		}
		if !pushes {
			continue
		}
		n++
		bad := ""
		for _, b := range fn.Blocks {
			ret, ok := b.Instrs[len(b.Instrs)-1].(*ssa.Return)
			if !ok || len(ret.Results) == 0 || b == fn.Recover {
				continue
			}
			v := unspillResult(ret, ret.Results[0])
			if k, isConst := v.(*ssa.Const); !isConst || !k.IsNil() {
				bad = c.Rel(ret.Pos())
			}
		}
		r.Check(bad == "", "R14.12", SSAName(fn), c.Rel(fn.Pos()), "returns a nil payload on every path",
			fmt.Sprintf("%s opens a frame set for a call and returns a non-nil block-exit payload at %s: the callee's 'return' goes on into the caller's block and ends it (the statements after the call are skipped)", SSAName(fn), bad))
	}
	r.Floor("R14.12", "call boundaries with a block-exit result", n, 1)
}

// c14NoLiveMapWalk (R14.13): the body of a for-loop never runs in the middle
// of a walk over the live entry list of a map.
func c14NoLiveMapWalk(c *Ctx, r *Report) {
	r.Rule("R14.13", "a loop body does not run inside a walk of a live map: in the interpreter no control-flow cycle contains both a step along a map's entry list (a load of MlrmapEntry.Next) and the execution of a statement block (StatementBlockNode.Execute, or a method of the same node that leads to one): the body may add entries to the map it is looping over, and a walk that sees them never ends when each visit adds one — the entries are listed before the loop starts (the reference: loop variables are bound to the map as it was before the loop)")
	n := 0
	execs := map[*ssa.Function]bool{}
	// functions of pkg/dsl/cst that (transitively, within the package, depth 3) execute a statement block
	var leads func(fn *ssa.Function, depth int, seen map[*ssa.Function]bool) bool
	leads = func(fn *ssa.Function, depth int, seen map[*ssa.Function]bool) bool {
		if fn == nil || fn.Blocks == nil || depth > 3 || seen[fn] {
			return false
		}
		seen[fn] = true
		for _, b := range fn.Blocks {
			for _, in := range b.Instrs {
				if call, ok := in.(*ssa.Call); ok {
					cn := CalleeName(&call.Call)
					if strings.HasSuffix(cn, "StatementBlockNode.Execute") || strings.HasSuffix(cn, "StatementBlockNode.ExecuteFrameless") {
						return true
					}
					if callee := call.Call.StaticCallee(); callee != nil && callee.Pkg == fn.Pkg && leads(callee, depth+1, seen) {
						return true
					}
				}
			}
		}
		return false
	}
	for _, fn := range c.ModuleFunctions() {
		if fn.Blocks == nil || fn.Pkg == nil || !strings.HasSuffix(fn.Pkg.Pkg.Path(), "/pkg/dsl/cst") {
			continue
		}
		var nextBlocks, execBlocks []*ssa.BasicBlock
		for _, b := range fn.Blocks {
			for _, in := range b.Instrs {
				switch x := in.(type) {
				case *ssa.FieldAddr:
					if _, name, ok := fieldAddrName(x); ok && name == "Next" && strings.HasSuffix(x.X.Type().String(), "mlrval.MlrmapEntry") {
						nextBlocks = append(nextBlocks, b)
					}
				case *ssa.Call:
					cn := CalleeName(&x.Call)
					isExec := strings.HasSuffix(cn, "StatementBlockNode.Execute") || strings.HasSuffix(cn, "StatementBlockNode.ExecuteFrameless")
					if !isExec {
						if callee := x.Call.StaticCallee(); callee != nil && callee.Pkg == fn.Pkg {
							if _, done := execs[callee]; !done {
								execs[callee] = leads(callee, 0, map[*ssa.Function]bool{})
							}
							isExec = execs[callee]
						}
					}
					if isExec {
						execBlocks = append(execBlocks, b)
					}
				}
			}
		}
		if len(execBlocks) == 0 {
			continue
		}
		n++
		bad := ""
		for _, nb := range nextBlocks {
			for _, eb := range execBlocks {
				if (nb == eb && blockReachesSelf(nb)) || (blockReaches(nb, eb) && blockReaches(eb, nb)) {
					bad = c.Rel(eb.Instrs[0].Pos())
				}
			}
		}
		if len(nextBlocks) == 0 {
			continue
		}
		r.Check(bad == "", "R14.13", SSAName(fn), c.Rel(fn.Pos()), "no statement block runs inside the walk",
			fmt.Sprintf("%s steps along a map's entry list (pe = pe.Next) in the same cycle in which it executes a statement block (near %s): entries the block adds to that map are visited too, and the loop need not end", SSAName(fn), bad))
	}
	r.OK("R14.13", "interpreter functions that execute statement blocks", "", fmt.Sprintf("%d functions examined", n))
	r.Floor("R14.13", "interpreter functions that execute statement blocks", n, 10)
}

// R14.14: indexed assignment does not replace a collection by an empty one.
// On the way down x[i][j]… = v the helpers create a level where there is none
// and turn a scalar into a collection; a slot that already holds a map or an
// array is kept whatever the next index is (a map takes an int index as a
// key), so its contents are not lost.
func c14KeepCollections(c *Ctx, r *Report) {
	r.Rule("R14.14", "indexed assignment does not replace a collection by an empty one: in the functions reachable from Mlrval.PutIndexed, a store of a fresh empty map or array (FromEmptyMap, FromEmptyArray, NewMlrvalForAutoDeepen) into a slot of an existing array is dominated by the false side of IsArrayOrMap() on that slot — a test of IsMap() or IsArray() alone lets the other kind of collection be wiped (x = [{\"a\":1}]; x[1][2] = 5)")
	var root *ssa.Function
	if m := c.LookupMethod("pkg/mlrval", "Mlrval", "PutIndexed"); m != nil {
		root = c.SSAFunc(m)
	}
	if root == nil {
		r.Undecided("R14.14", "PutIndexed", "", "anchor not found")
		return
	}
	n := 0
	reach := staticReach(c, root)
	reach[root] = true
	var fns []*ssa.Function
	for f := range reach {
		if f.Blocks != nil && f.Pkg != nil && strings.HasSuffix(f.Pkg.Pkg.Path(), "/pkg/mlrval") {
			fns = append(fns, f)
		}
	}
	sort.Slice(fns, func(i, j int) bool { return SSAName(fns[i]) < SSAName(fns[j]) })
	for _, fn := range fns {
		k := 0
		for _, b := range fn.Blocks {
			for _, in := range b.Instrs {
				st, ok := in.(*ssa.Store)
				if !ok {
					continue
				}
				ia, ok := st.Addr.(*ssa.IndexAddr)
				if !ok {
					continue
				}
				call, ok := st.Val.(*ssa.Call)
				if !ok {
					continue
				}
				cn := CalleeName(&call.Call)
				if !(strings.HasSuffix(cn, ".FromEmptyMap") || strings.HasSuffix(cn, ".FromEmptyArray") || strings.HasSuffix(cn, ".NewMlrvalForAutoDeepen")) {
					continue
				}
				n++
				k++
				key := fmt.Sprintf("%s: empty collection stored into a slot #%d", SSAName(fn), k)
				guarded := false
				for _, g := range GuardsAt(b) {
					cond, pol := stripNot(g.Cond, g.Polarity)
					gc, ok := cond.(*ssa.Call)
					if !ok || pol || !strings.HasSuffix(CalleeName(&gc.Call), ".IsArrayOrMap") || len(gc.Call.Args) == 0 {
						continue
					}
					// the tested value is a load of the same slot
					if ld, ok := gc.Call.Args[0].(*ssa.UnOp); ok && ld.Op == token.MUL {
						if ia2, ok := ld.X.(*ssa.IndexAddr); ok && sameValue(ia2.X, ia.X) && (ia2.Index == ia.Index || sameValue(ia2.Index, ia.Index)) {
							guarded = true
						}
					}
				}
				r.Check(guarded, "R14.14", key, c.Rel(st.Pos()), "only where the slot holds no collection",
					fmt.Sprintf("%s stores a fresh empty collection into an array slot without having found that the slot holds neither a map nor an array: an existing collection of the other kind is wiped by the assignment", SSAName(fn)))
			}
		}
	}
	r.Floor("R14.14", "stores of empty collections into array slots under PutIndexed", n, 2)
}
