package main

// C03 — unassigned fields pass through byte-for-byte: the retained original
// text of a value (Mlrval.printrep / printrepValid) is never altered by code
// that merely reads the value. Store-effect summaries over SSA.

import (
	"fmt"
	"go/ast"
	"go/token"
	"go/types"
	"sort"
	"strings"

	"golang.org/x/tools/go/ssa"
)

func init() { register("C03", true, runC03) }

// A text effect: calling fn may alter the retained text of the value passed
// as parameter Param, unless the argument passed as parameter Unless is that
// same value's own printrep (Unless = -1: unconditional).
type textFx struct {
	Param  int
	Unless int
	Why    string
	Pos    token.Pos
	// NotColl: the alteration happens only when the value is neither a map nor
	// an array (it sits on the false edges of IsMap()/IsArray()/IsArrayOrMap())
	NotColl bool
}

type textAnalysis struct {
	c       *Ctx
	fx      map[*ssa.Function][]textFx
	done    map[*ssa.Function]bool
	active  map[*ssa.Function]bool
	globFns map[*ssa.Global][]*ssa.Function
	sliceFn map[*ssa.Global][]*ssa.Function
	rs      *RetSum
	// sinks: in-place alterations of values that are neither fresh nor parameters
	sinks []string
}

func mlrvalField(v ssa.Value) (base ssa.Value, name string, ok bool) {
	fa, isFA := v.(*ssa.FieldAddr)
	if !isFA {
		return nil, "", false
	}
	pt, isP := fa.X.Type().Underlying().(*types.Pointer)
	if !isP {
		return nil, "", false
	}
	n, isN := pt.Elem().(*types.Named)
	if !isN || n.Obj().Name() != "Mlrval" || n.Obj().Pkg() == nil || n.Obj().Pkg().Path() != mlrvalPkg {
		return nil, "", false
	}
	st := n.Underlying().(*types.Struct)
	return fa.X, st.Field(fa.Field).Name(), true
}

func isPrintrepLoadOf(v ssa.Value, base ssa.Value) bool {
	u, ok := v.(*ssa.UnOp)
	if !ok || u.Op != token.MUL {
		return false
	}
	b, name, ok := mlrvalField(u.X)
	return ok && name == "printrep" && (b == base || sameValue(b, base))
}

func paramIndex(fn *ssa.Function, v ssa.Value) int {
	for i, p := range fn.Params {
		if p == v {
			return i
		}
	}
	return -1
}

func isFreshMlrval(v ssa.Value, depth int) bool {
	if depth > 4 {
		return false
	}
	switch x := v.(type) {
	case *ssa.Alloc:
		return true
	case *ssa.Call:
		if cal := x.Call.StaticCallee(); cal != nil {
			n := SSAFuncName(cal)
			if strings.HasPrefix(n, "pkg/mlrval.From") || strings.HasPrefix(n, "pkg/mlrval.TryFrom") || strings.HasSuffix(n, "Mlrval.Copy") || strings.HasPrefix(n, "pkg/mlrval.MlrvalFrom") {
				return true
			}
		}
	case *ssa.Extract:
		// first result of a constructor that also returns an error
		if call, ok := x.Tuple.(*ssa.Call); ok && x.Index == 0 {
			if cal := call.Call.StaticCallee(); cal != nil && strings.HasPrefix(SSAFuncName(cal), "pkg/mlrval.NewMlrvalFor") {
				return true
			}
		}
	case *ssa.Phi:
		for _, e := range x.Edges {
			if !isFreshMlrval(e, depth+1) {
				return false
			}
		}
		return true
	}
	return false
}

// funcsInGlobalSliceLits: functions listed in package-level []F / [N]F
// composite literals (inferrer tables), per global.
func (ta *textAnalysis) tableTargets(g *ssa.Global) []*ssa.Function {
	if ta.sliceFn == nil {
		ta.sliceFn = map[*ssa.Global][]*ssa.Function{}
		for _, p := range ta.c.Pkgs {
			sp := ta.c.SSA[p.PkgPath]
			if sp == nil {
				continue
			}
			for _, f := range p.Syntax {
				for _, d := range f.Decls {
					gd, ok := d.(*ast.GenDecl)
					if !ok || gd.Tok != token.VAR {
						continue
					}
					for _, s := range gd.Specs {
						vs := s.(*ast.ValueSpec)
						for i, nm := range vs.Names {
							if i >= len(vs.Values) {
								continue
							}
							lit, ok := vs.Values[i].(*ast.CompositeLit)
							if !ok {
								continue
							}
							gl, ok := sp.Members[nm.Name].(*ssa.Global)
							if !ok {
								continue
							}
							for _, el := range lit.Elts {
								if kv, ok := el.(*ast.KeyValueExpr); ok {
									el = kv.Value
								}
								if fo := resolveFuncExpr(p.TypesInfo, el); fo != nil {
									if sf := ta.c.SSAFunc(fo); sf != nil {
										ta.sliceFn[gl] = append(ta.sliceFn[gl], sf)
									}
								}
							}
						}
					}
				}
			}
		}
	}
	return ta.sliceFn[g]
}

func (ta *textAnalysis) globalFuncTargets(g *ssa.Global) []*ssa.Function {
	if ta.globFns == nil {
		ta.globFns = map[*ssa.Global][]*ssa.Function{}
		for f := range ta.c.AllFunctions() {
			if !IsModuleFunc(f) || f.Blocks == nil {
				continue
			}
			for _, b := range f.Blocks {
				for _, in := range b.Instrs {
					if st, ok := in.(*ssa.Store); ok {
						if gl, ok := st.Addr.(*ssa.Global); ok {
							for _, t := range funcValueTargets(st.Val, 0) {
								ta.globFns[gl] = append(ta.globFns[gl], t)
							}
						}
					}
				}
			}
		}
	}
	return ta.globFns[g]
}

// calleeTargets resolves static callees and the dynamic forms used around
// Mlrval: global func variables, func tables (slices/arrays of funcs,
// disposition tables).
func (ta *textAnalysis) calleeTargets(com *ssa.CallCommon) []*ssa.Function {
	if cal := com.StaticCallee(); cal != nil {
		return []*ssa.Function{cal}
	}
	if com.IsInvoke() {
		return nil
	}
	if u, ok := com.Value.(*ssa.UnOp); ok && u.Op == token.MUL {
		switch x := u.X.(type) {
		case *ssa.Global:
			return ta.globalFuncTargets(x)
		case *ssa.IndexAddr:
			base := x.X
			if ia2, ok := base.(*ssa.IndexAddr); ok {
				base = ia2.X
			}
			if u2, ok := base.(*ssa.UnOp); ok && u2.Op == token.MUL {
				base = u2.X
			}
			if g, ok := base.(*ssa.Global); ok {
				if t := ta.rs.dispatchTable(com.Value); t != nil {
					var out []*ssa.Function
					for i := 0; i < K_DIM; i++ {
						for j := 0; j < K_DIM; j++ {
							if t.Dim == 1 && j > 0 {
								break
							}
							if cf := t.Cell(i, j); cf != nil {
								out = append(out, ta.c.SSAFunc(cf))
							}
						}
					}
					return out
				}
				return ta.tableTargets(g)
			}
		}
	}
	return nil
}

func (ta *textAnalysis) effects(fn *ssa.Function) []textFx {
	if ta.done[fn] {
		return ta.fx[fn]
	}
	if ta.active[fn] || fn == nil || fn.Blocks == nil {
		return nil
	}
	ta.active[fn] = true
	defer delete(ta.active, fn)
	var out []textFx
	add := func(e textFx) {
		for _, o := range out {
			if o.Param == e.Param && o.Unless == e.Unless {
				return
			}
		}
		out = append(out, e)
	}
	guardedByInvalid := func(b *ssa.BasicBlock, base ssa.Value) bool {
		for _, g := range GuardsAt(b) {
			if u, ok := g.Cond.(*ssa.UnOp); ok && u.Op == token.MUL {
				if bb, name, ok := mlrvalField(u.X); ok && name == "printrepValid" && (bb == base || sameValue(bb, base)) && !g.Polarity {
					return true
				}
			}
		}
		return false
	}
	for _, b := range fn.Blocks {
		for _, in := range b.Instrs {
			switch x := in.(type) {
			case *ssa.Store:
				if base, name, ok := mlrvalField(x.Addr); ok {
					pi := paramIndex(fn, base)
					alter, why, unless := false, "", -1
					switch name {
					case "printrep":
						if isPrintrepLoadOf(x.Val, base) {
							break
						}
						if guardedByInvalid(b, base) {
							break // lazily rendering a value that has no valid text yet
						}
						if vp := paramIndex(fn, x.Val); vp >= 0 {
							alter, why, unless = true, "stores its string parameter into printrep", vp
						} else {
							alter, why = true, "stores a computed string into printrep"
						}
					case "printrepValid":
						if bv, ok := constBool(x.Val); ok && !bv {
							// invalidation is text-preserving only for collections (re-rendered as JSON)
							coll := false
							for _, g := range GuardsAt(b) {
								if IsPredCall(g.Cond, "pkg/mlrval.Mlrval.IsArrayOrMap", base) && g.Polarity {
									coll = true
								}
							}
							if !coll {
								alter, why = true, "sets printrepValid=false (the original text will be re-rendered from the number)"
							}
						}
					}
					if alter {
						if pi >= 0 {
							add(textFx{Param: pi, Unless: unless, Why: why, Pos: x.Pos()})
						} else if !isFreshMlrval(base, 0) {
							ta.sinks = append(ta.sinks, fmt.Sprintf("%s|%s|%s", SSAName(fn), ta.c.Rel(x.Pos()), why))
						}
					}
					continue
				}
				// whole-struct store *p = v
				if pi := paramIndex(fn, x.Addr); pi >= 0 && isMlrvalPtr(x.Addr.Type()) {
					add(textFx{Param: pi, Unless: -1, Why: "overwrites the whole value (*mv = ...)", Pos: x.Pos(), NotColl: knownCollection(b, x.Addr, false)})
				}
			case ssa.CallInstruction:
				com := x.Common()
				targets := ta.calleeTargets(com)
				for _, t := range targets {
					if !IsModuleFunc(t) {
						continue
					}
					for _, e := range ta.effects(t) {
						if e.Param >= len(com.Args) {
							continue
						}
						arg := com.Args[e.Param]
						if e.Unless >= 0 && e.Unless < len(com.Args) && isPrintrepLoadOf(com.Args[e.Unless], arg) {
							continue // re-installs the value's own text
						}
						if isFreshMlrval(arg, 0) {
							continue
						}
						if e.NotColl && knownCollection(b, arg, true) {
							continue // the callee alters only non-collections; here the value is known to be one
						}
						if e.NotColl && freshOrCollectionOnEveryEdge(arg) {
							continue // joined from branches each of which gives a fresh value or a known collection
						}
						if pi := paramIndex(fn, arg); pi >= 0 {
							unless := -1
							if e.Unless >= 0 && e.Unless < len(com.Args) {
								unless = paramIndex(fn, com.Args[e.Unless])
							}
							add(textFx{Param: pi, Unless: unless, Why: "calls " + SSAName(t) + " which " + e.Why, Pos: in.Pos(), NotColl: e.NotColl})
						} else {
							ta.sinks = append(ta.sinks, fmt.Sprintf("%s|%s|calls %s which %s", SSAName(fn), ta.c.Rel(in.Pos()), SSAName(t), e.Why))
						}
					}
				}
			}
		}
	}
	ta.fx[fn] = out
	ta.done[fn] = true
	return out
}

// sinkOK: functions that legitimately alter the text of existing values,
// with reason.
// knownCollection: at block b the value v is known to be a map or array
// (want=true: on a true edge of IsMap / IsArray / IsArrayOrMap), or known to be
// neither (want=false: on the false edges of IsMap and IsArray, or of
// IsArrayOrMap).
func knownCollection(b *ssa.BasicBlock, v ssa.Value, want bool) bool {
	notMap, notArr := false, false
	for _, g := range GuardsAt(b) {
		for _, pred := range []string{"IsMap", "IsArray", "IsArrayOrMap"} {
			if IsPredCall(g.Cond, "pkg/mlrval.Mlrval."+pred, v) {
				if want && g.Polarity {
					return true
				}
				if !want && !g.Polarity {
					switch pred {
					case "IsMap":
						notMap = true
					case "IsArray":
						notArr = true
					default:
						return true
					}
				}
			}
		}
	}
	return !want && notMap && notArr
}

// freshOrCollectionOnEveryEdge: v is a phi each of whose incoming values is
// freshly constructed or, on that edge, known to be a map or array.
func freshOrCollectionOnEveryEdge(v ssa.Value) bool {
	phi, ok := v.(*ssa.Phi)
	if !ok {
		return false
	}
	for i, e := range phi.Edges {
		if isFreshMlrval(e, 0) {
			continue
		}
		pred := phi.Block().Preds[i]
		if knownCollection(pred, e, true) {
			continue
		}
		// the edge itself: pred ends in a test of e
		okEdge := false
		if iff, isIf := pred.Instrs[len(pred.Instrs)-1].(*ssa.If); isIf {
			cond, pol := stripNot(iff.Cond, true)
			for _, p := range []string{"IsMap", "IsArray", "IsArrayOrMap"} {
				if IsPredCall(cond, "pkg/mlrval.Mlrval."+p, e) {
					taken := pred.Succs[0] == phi.Block()
					if taken == pol {
						okEdge = true
					}
				}
			}
		}
		if !okEdge {
			return false
		}
	}
	return true
}

var sinkOK = map[string]string{
	"(*pkg/mlrval.Mlrval).StringifyValuesRecursively": "--jvquoteall / json_stringify: documented re-rendering of every value as a string",
	"(*pkg/mlrval.Mlrmap).StringifyValuesRecursively": "--jvquoteall: documented re-rendering of every value as a string on JSON output",
	"(*pkg/mlrval.RecordArena).newValue":              "slab allocation: the slot is a fresh value being initialised with the input text",
}

func runC03(c *Ctx, r *Report) {
	r.Explanation = "Byte-for-byte pass-through rests on one mechanism: the original text of a value (printrep, printrepValid) is retained and nothing that merely reads the value alters it. Decided as a store-effect property: for every function, the set of Mlrval parameters whose retained text it may alter is computed (direct stores to printrep/printrepValid, whole-value overwrites, and calls that alter — through static calls, the inferrer tables, the packageLevelInferrer variable and the disposition tables); re-installing the value's own text (SetFrom…(mv.printrep, …)) and lazily rendering a value without valid text are recognised as text-preserving. Then: nothing reachable from type inference alters text; String()/setPrintRep render lazily; every built-in function, formatter, comparator, accessor and predicate leaves the text of its arguments alone; readers construct values only through text-retaining constructors; writers print only the retained text."
	r.NotDecided = "that no verb or DSL statement assigns a field it should not (semantic); rendering of values that were assigned."
	rs := NewRetSum(c)
	ta := &textAnalysis{c: c, fx: map[*ssa.Function][]textFx{}, done: map[*ssa.Function]bool{}, active: map[*ssa.Function]bool{}, rs: rs}
	mp := c.Pkg("pkg/mlrval")

	// R03.1 inference
	r.Rule("R03.1", "inference keeps text: no function reachable from (*Mlrval).Type() — the packageLevelInferrer variable, both inferrer tables and the setters they call — alters the retained text of the value being inferred (every printrep store re-installs the same value's printrep; printrepValid is only set true; no whole-value overwrite)")
	typeFn := c.SSAFunc(c.LookupFunc("pkg/mlrval", "Mlrval.Type"))
	if typeFn == nil {
		r.Undecided("R03.1", "Mlrval.Type", "", "anchor not found")
	} else {
		// enumerate inferrers for reporting
		var gInf *ssa.Global
		if sp := c.SSA[mlrvalPkg]; sp != nil {
			gInf, _ = sp.Members["packageLevelInferrer"].(*ssa.Global)
		}
		var infs []*ssa.Function
		seen := map[*ssa.Function]bool{}
		if gInf != nil {
			for _, f := range ta.globalFuncTargets(gInf) {
				if !seen[f] {
					seen[f] = true
					infs = append(infs, f)
				}
			}
		}
		if sp := c.SSA[mlrvalPkg]; sp != nil {
			for _, m := range sp.Members {
				if g, ok := m.(*ssa.Global); ok {
					for _, f := range ta.tableTargets(g) {
						if len(f.Params) == 1 && isMlrvalPtr(f.Params[0].Type()) && !seen[f] {
							seen[f] = true
							infs = append(infs, f)
						}
					}
				}
			}
		}
		sortFuncs(infs)
		for _, f := range infs {
			fx := ta.effects(f)
			bad := ""
			for _, e := range fx {
				if e.Param == 0 {
					bad = fmt.Sprintf("%s at %s", e.Why, c.Rel(e.Pos))
				}
			}
			r.Check(bad == "", "R03.1", "inferrer "+f.Name(), c.Rel(f.Pos()), "retained text untouched on every path",
				"type inference alters the original text of the value ("+bad+"): a field that an expression, sort key or type test merely looked at is written back re-rendered (0xff → 255, +5 → 5, 1.500 → 1.5)")
		}
		r.Floor("R03.1", "inferrers", len(infs), 9)
		fx := ta.effects(typeFn)
		r.Check(len(fx) == 0, "R03.1", "Mlrval.Type", c.Rel(typeFn.Pos()), "Type() has no text effect on its receiver", fmt.Sprintf("Type() may alter its receiver's text: %v", fxStrings(c, fx)))
	}

	// R03.2 lazy String
	r.Rule("R03.2", "String() is lazy: setPrintRep stores printrep only under !printrepValid; String() invalidates only collections; the --ofmt path formats without storing")
	for _, name := range []string{"Mlrval.String", "Mlrval.setPrintRep", "Mlrval.OriginalString", "Mlrval.StringMaybeQuoted"} {
		f := c.SSAFunc(c.LookupFunc("pkg/mlrval", name))
		if f == nil {
			r.Undecided("R03.2", name, "", "anchor not found")
			continue
		}
		fx := ta.effects(f)
		r.Check(len(fx) == 0, "R03.2", name, c.Rel(f.Pos()), "no text effect on a value that has valid text", "rendering a value as text alters its retained original text: "+strings.Join(fxStrings(c, fx), "; "))
	}

	// R03.5 readers of values leave text alone
	r.Rule("R03.5", "values merely read keep their text: no built-in function (every registry entry, every Mlrval argument), no formatter (IFormatter.Format), no comparator/collation function, no typed accessor or kind predicate of package mlrval, and no stats accumulator alters the retained text of an argument; in-place alteration of a value that is neither fresh nor a parameter happens only in the frozen, documented sites")
	reg, msg := c.BIFRegistry()
	if msg != "" {
		r.Undecided("R03.5", "registry", "", msg)
	}
	nb := 0
	for _, e := range reg {
		var fields []string
		for k := range e.Funcs {
			fields = append(fields, k)
		}
		sort.Strings(fields)
		for _, k := range fields {
			f := c.SSAFunc(e.Funcs[k])
			if f == nil {
				continue
			}
			nb++
			var bad []string
			for _, fx := range ta.effects(f) {
				if fx.Param < len(f.Params) && isMlrvalPtr(f.Params[fx.Param].Type()) {
					bad = append(bad, fmt.Sprintf("argument %d: %s at %s", fx.Param+1, fx.Why, c.Rel(fx.Pos)))
				}
			}
			if len(bad) > 0 {
				r.Fail("R03.5", "function "+e.Name+" ("+k+")", c.Rel(e.Pos), "a built-in function alters the original text of its argument ("+strings.Join(bad, "; ")+"): the field that was only read is emitted re-rendered")
			}
		}
	}
	r.OK("R03.5", "built-in functions", "pkg/dsl/cst/builtin_function_manager.go", fmt.Sprintf("%d registered implementations leave their arguments' text alone", nb))
	r.Floor("R03.5", "registered implementations", nb, 200)
	// formatters
	if iface := c.LookupInterface("pkg/mlrval", "IFormatter"); iface != nil {
		nf := 0
		for _, named := range c.Implementers(iface) {
			for _, mn := range []string{"Format", "FormatFloat"} {
				f := c.SSAFunc(MethodOf(named, mn))
				if f == nil {
					continue
				}
				nf++
				var bad []string
				for _, fx := range ta.effects(f) {
					if fx.Param < len(f.Params) && isMlrvalPtr(f.Params[fx.Param].Type()) {
						bad = append(bad, fmt.Sprintf("%s at %s", fx.Why, c.Rel(fx.Pos)))
					}
				}
				r.Check(len(bad) == 0, "R03.5", "formatter "+named.Obj().Name()+"."+mn, c.Rel(f.Pos()), "returns a new value; input text untouched",
					"a formatter overwrites the value it was asked to format ("+strings.Join(bad, "; ")+"): $o = fmtnum($n, …) also changes $n")
			}
		}
		r.Floor("R03.5", "formatter methods", nf, 6)
	}
	// mlrval readers: predicates, accessors, comparators
	nr := 0
	for _, fobj := range c.FuncsOfPkg(mp) {
		f := c.SSAFunc(fobj)
		if f == nil || !fobj.Exported() {
			continue
		}
		n := fobj.Name()
		sig := fobj.Type().(*types.Signature)
		reader := strings.HasPrefix(n, "Is") || strings.HasPrefix(n, "Get") || strings.HasPrefix(n, "Acquire") || strings.Contains(n, "Comparator") || strings.HasPrefix(n, "Equals") || strings.HasPrefix(n, "LessThan") || strings.HasPrefix(n, "GreaterThan") || n == "Cmp" || strings.HasSuffix(n, "Collate")
		if !reader {
			continue
		}
		_ = sig
		nr++
		var bad []string
		for _, fx := range ta.effects(f) {
			if fx.Param < len(f.Params) && isMlrvalPtr(f.Params[fx.Param].Type()) {
				bad = append(bad, fmt.Sprintf("%s at %s", fx.Why, c.Rel(fx.Pos)))
			}
		}
		if len(bad) > 0 {
			r.Fail("R03.5", "mlrval."+FuncName(fobj), c.Rel(f.Pos()), "an accessor/predicate/comparator alters the text of the value it inspects: "+strings.Join(bad, "; "))
		}
	}
	r.OK("R03.5", "mlrval accessors, predicates, comparators", "pkg/mlrval", fmt.Sprintf("%d functions leave the inspected value's text alone", nr))
	r.Floor("R03.5", "mlrval reader functions", nr, 60)
	// accumulators
	if up := c.Pkg("pkg/transformers/utils"); up != nil {
		na := 0
		for _, fobj := range c.FuncsOfPkg(up) {
			f := c.SSAFunc(fobj)
			if f == nil || fobj.Name() != "Ingest" {
				continue
			}
			na++
			var bad []string
			for _, fx := range ta.effects(f) {
				if fx.Param < len(f.Params) && isMlrvalPtr(f.Params[fx.Param].Type()) {
					bad = append(bad, fmt.Sprintf("%s at %s", fx.Why, c.Rel(fx.Pos)))
				}
			}
			r.Check(len(bad) == 0, "R03.5", "accumulator "+SSAName(f), c.Rel(f.Pos()), "ingested value untouched", "a statistics accumulator alters the text of the value it ingests: "+strings.Join(bad, "; "))
		}
		r.Floor("R03.5", "accumulator Ingest methods", na, 15)
	}
	// force summaries for every module function so that sinks are complete
	for _, f := range c.ModuleFunctions() {
		top := enclosingNamed(f)
		if top.Pkg != nil && subEntrypointPkg(top.Pkg.Pkg.Path()) {
			continue
		}
		ta.effects(f)
	}
	sinks := map[string][]string{}
	for _, s := range ta.sinks {
		parts := strings.SplitN(s, "|", 3)
		sinks[parts[0]] = append(sinks[parts[0]], parts[1]+": "+parts[2])
	}
	var sk []string
	for k := range sinks {
		sk = append(sk, k)
	}
	sort.Strings(sk)
	for _, k := range sk {
		if why, ok := sinkOK[k]; ok {
			r.OK("R03.5", "in-place alteration in "+k, strings.SplitN(sinks[k][0], ": ", 2)[0], "frozen: "+why)
			continue
		}
		r.Fail("R03.5", "in-place alteration in "+k, strings.SplitN(sinks[k][0], ": ", 2)[0], "alters the retained text of an existing value that is neither freshly constructed nor its own parameter ("+strings.Join(sinks[k], "; ")+")")
	}

	c03Readers(c, r)
	c03Writers(c, r)
	c03NoSingletonInCollections(c, r)
	c03NoArgumentArrayMutation(c, r)
	c03PrintrepReads(c, r)
	c03ResliceClears(c, r)
}

func fxStrings(c *Ctx, fx []textFx) []string {
	var out []string
	for _, e := range fx {
		out = append(out, fmt.Sprintf("param %d: %s at %s", e.Param, e.Why, c.Rel(e.Pos)))
	}
	return out
}

// ---- R03.3 -----------------------------------------------------------------
// constructors that retain input text verbatim without inferring
var textRetainingCtors = map[string]bool{
	"pkg/mlrval.RecordArena.PutDeferred": true, "pkg/mlrval.FromDeferredType": true, "pkg/mlrval.FromString": true,
	"pkg/mlrval.RecordArena.newValue": true, "pkg/mlrval.FromInferredType": true, // JSON numbers (R06.5): keeps the token text
	"pkg/mlrval.FromBool": true, "pkg/mlrval.FromArray": true, "pkg/mlrval.FromMap": true, "pkg/mlrval.FromEmptyMap": true, "pkg/mlrval.FromEmptyArray": true,
	"pkg/mlrval.FromBytes": true,
}

var textLosingCtors = []string{"pkg/mlrval.FromInt", "pkg/mlrval.FromFloat", "pkg/mlrval.FromFloat64", "pkg/mlrval.TryFromIntString", "pkg/mlrval.TryFromFloatString", "pkg/mlrval.FromPrevalidatedIntString", "pkg/mlrval.FromPrevalidatedFloatString", "pkg/mlrval.FromIntShowingOctal"}

func c03Readers(c *Ctx, r *Report) {
	r.Rule("R03.3", "readers retain the text: in the record readers (package input, the JSON/YAML decoders of mlrval, dkvpx) a value that derives from input text is never built with a constructor that parses and re-renders (FromInt, FromFloat, TryFrom…String, FromPrevalidated…): only the deferred/retaining constructors are used")
	n := 0
	reported := map[string]bool{}
	scan := func(fn *ssa.Function) {
		ForEachCall(fn, true, func(site ssa.CallInstruction, in *ssa.Function) {
			name := CalleeName(site.Common())
			for _, l := range textLosingCtors {
				if name == l {
					if reported[SSAName(in)+l] {
						return
					}
					// constants (literal arguments) are not input text
					allConst := true
					for _, a := range site.Common().Args {
						if _, ok := a.(*ssa.Const); !ok {
							allConst = false
						}
					}
					if allConst {
						return
					}
					reported[SSAName(in)+l] = true
					r.Fail("R03.3", SSAName(in)+" uses "+strings.TrimPrefix(l, "pkg/mlrval."), c.Rel(site.Pos()), "a reader builds a field value with a parsing constructor: the number's original spelling is lost before any verb sees it")
				}
			}
			if textRetainingCtors[name] {
				n++
			}
		})
	}
	for _, rel := range []string{"pkg/input", "pkg/dkvpx"} {
		p := c.Pkg(rel)
		if p == nil {
			continue
		}
		for _, fobj := range c.FuncsOfPkg(p) {
			if f := c.SSAFunc(fobj); f != nil {
				scan(f)
			}
		}
	}
	mp := c.Pkg("pkg/mlrval")
	for _, fobj := range c.FuncsOfPkg(mp) {
		file := c.RelFile(fobj.Pos())
		if !strings.HasSuffix(file, "mlrval_json.go") && !strings.HasSuffix(file, "mlrval_yaml.go") {
			continue
		}
		ln := strings.ToLower(fobj.Name())
		if !strings.Contains(ln, "decode") && !strings.Contains(ln, "fromyaml") && !strings.Contains(ln, "fromjson") {
			continue
		}
		if f := c.SSAFunc(fobj); f != nil {
			scan(f)
		}
	}
	r.OK("R03.3", "reader construction sites", "pkg/input", fmt.Sprintf("%d text-retaining constructor calls; no parsing constructor on input text", n))
	r.Floor("R03.3", "text-retaining constructor calls in readers", n, 25)
}

// ---- R03.4 -----------------------------------------------------------------
func c03Writers(c *Ctx, r *Report) {
	r.Rule("R03.4", "writers print the retained text: every record writer obtains a value's text through (*Mlrval).String()/OriginalString() (or the JSON/YAML encoders of package mlrval) — never through a typed accessor followed by its own number formatting")
	iface := c.LookupInterface("pkg/output", "IRecordWriter")
	if iface == nil {
		r.Undecided("R03.4", "IRecordWriter", "", "interface not found")
		return
	}
	n := 0
	for _, named := range c.Implementers(iface) {
		m := MethodOf(named, "Write")
		f := c.SSAFunc(m)
		if f == nil {
			continue
		}
		n++
		bad := ""
		seen := map[*ssa.Function]bool{}
		var walk func(fn *ssa.Function, d int)
		walk = func(fn *ssa.Function, d int) {
			if seen[fn] || d > 3 || fn.Blocks == nil {
				return
			}
			seen[fn] = true
			ForEachCall(fn, true, func(site ssa.CallInstruction, in *ssa.Function) {
				cal := site.Common().StaticCallee()
				if cal == nil {
					return
				}
				name := SSAFuncName(cal)
				if strings.HasPrefix(name, "pkg/mlrval.Mlrval.Acquire") || strings.HasPrefix(name, "pkg/mlrval.Mlrval.GetNumeric") || name == "pkg/mlrval.Mlrval.GetIntValue" || name == "pkg/mlrval.Mlrval.GetFloatValue" {
					bad = name + " at " + c.Rel(site.Pos())
				}
				if cal.Pkg != nil && cal.Pkg.Pkg.Path() == modPath+"/pkg/output" {
					walk(cal, d+1)
				}
			})
		}
		walk(f, 0)
		r.Check(bad == "", "R03.4", named.Obj().Name()+".Write", c.Rel(f.Pos()), "text obtained via String()/encoders only", "the writer reads a typed numeric value ("+bad+") and formats it itself instead of printing the retained text")
	}
	r.Floor("R03.4", "record writers", n, 12)
}
