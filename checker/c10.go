package main

// C10 — aggregating verbs: the structural clauses only (key-less records
// are skipped, ordered grouping state, int-preserving accumulators).

import (
	"go/token"
	"fmt"
	"go/types"
	"sort"
	"strings"

	"golang.org/x/tools/go/ssa"
)

func init() { register("C10", true, runC10) }

var selectorMethods = map[string]bool{
	"pkg/mlrval.Mlrmap.GetSelectedValuesJoined": true, "pkg/mlrval.Mlrmap.GetSelectedValuesAndJoined": true,
	"pkg/mlrval.Mlrmap.ReferenceSelectedValues": true, "pkg/mlrval.Mlrmap.GetSelectedValues": true, "pkg/mlrval.Mlrmap.HasSelectedKeys": true,
}

// selectorIgnoreOK: sites that deliberately ignore the ok result, keyed
// "function → callee", with reason.
var selectorIgnoreOK = map[string]string{
	"(*pkg/transformers/utils.JoinBucketKeeper).prepareForNewJoinBucket → ReferenceSelectedValues": "the peek record's keys were asserted present a few lines above in the same function (InternalCodingErrorIf(!hasAllJoinKeys)) and the record has not changed",
}

// okImplied: v true implies ok true (v is ok, or a phi of ok and constant false).
func okImplied(v, ok ssa.Value, depth int) bool {
	if v == ok {
		return true
	}
	if depth > 4 {
		return false
	}
	if phi, isPhi := v.(*ssa.Phi); isPhi {
		for _, e := range phi.Edges {
			if b, isConst := constBool(e); isConst && !b {
				continue
			}
			if !okImplied(e, ok, depth+1) {
				return false
			}
		}
		return true
	}
	return false
}

// okEstablishedAt: control reaches block blk only with ok true: a dominating
// guard on ok (or on something implying it), or a dominating assertion
// InternalCodingErrorIf(!ok).
func okEstablishedAt(blk *ssa.BasicBlock, okVal ssa.Value) bool {
	for _, g := range GuardsAt(blk) {
		if g.Polarity && okImplied(g.Cond, okVal, 0) {
			return true
		}
	}
	fn := blk.Parent()
	for _, b := range fn.Blocks {
		if !b.Dominates(blk) {
			continue
		}
		for _, in := range b.Instrs {
			if call, ok := in.(*ssa.Call); ok && (CalleeName(&call.Call) == "pkg/lib.InternalCodingErrorIf" || CalleeName(&call.Call) == "pkg/lib.InternalCodingErrorWithMessageIf") {
				if u, isU := call.Call.Args[0].(*ssa.UnOp); isU && u.X == okVal {
					if b != blk {
						return true
					}
					return true
				}
			}
		}
	}
	return false
}

// checkSelectorResults: unchecked-result rule for the key selectors.
// files: restrict to these source file basenames of pkg/transformers (nil = all verbs and the DSL emit code).
func checkSelectorResults(c *Ctx, r *Report, rule string, files []string, floor int) {
	inFiles := func(file string) bool {
		if files == nil {
			return true
		}
		for _, f := range files {
			if strings.HasSuffix(file, "/"+f) {
				return true
			}
		}
		return false
	}
	n := 0
	var fns []*ssa.Function
	for _, rel := range []string{"pkg/transformers", "pkg/transformers/utils", "pkg/dsl/cst"} {
		p := c.Pkg(rel)
		if p == nil {
			continue
		}
		for _, fobj := range c.FuncsOfPkg(p) {
			if !inFiles(c.RelFile(fobj.Pos())) {
				continue
			}
			if f := c.SSAFunc(fobj); f != nil {
				fns = append(fns, f)
				fns = append(fns, f.AnonFuncs...)
			}
		}
	}
	// pass-through wrappers `return rec.GetSelected…(names)` are selectors themselves
	for _, fn := range fns {
		for _, b := range fn.Blocks {
			ret, ok := b.Instrs[len(b.Instrs)-1].(*ssa.Return)
			if !ok || len(ret.Results) != 2 {
				continue
			}
			e0, ok0 := ret.Results[0].(*ssa.Extract)
			e1, ok1 := ret.Results[1].(*ssa.Extract)
			if ok0 && ok1 && e0.Tuple == e1.Tuple {
				if call, isCall := e0.Tuple.(*ssa.Call); isCall && selectorMethods[CalleeName(&call.Call)] && fn.Object() != nil {
					selectorMethods[FuncName(fn.Object().(*types.Func))] = true
				}
			}
		}
	}
	for _, fn := range fns {
		idx := map[string]int{}
		for _, b := range fn.Blocks {
			for _, in := range b.Instrs {
				call, ok := in.(*ssa.Call)
				if !ok {
					continue
				}
				name := CalleeName(&call.Call)
				if !selectorMethods[name] {
					continue
				}
				n++
				short := name[strings.LastIndex(name, ".")+1:]
				idx[short]++
				key := fmt.Sprintf("%s: %s#%d", SSAName(fn), short, idx[short])
				res := call.Call.Signature().Results()
				var okVal ssa.Value
				var dataVals []ssa.Value
				if res.Len() == 1 {
					okVal = call
				} else {
					for _, ref := range *call.Referrers() {
						if ex, isEx := ref.(*ssa.Extract); isEx {
							if ex.Index == res.Len()-1 {
								okVal = ex
							} else {
								dataVals = append(dataVals, ex)
							}
						}
					}
				}
				if okVal == nil || !hasRealReferrer(okVal) {
					if why, frozen := selectorIgnoreOK[SSAName(fn)+" → "+short]; frozen {
						r.OK(rule, key, c.Rel(call.Pos()), "frozen: "+why)
						continue
					}
					// per-element handling: every element taken from the values is tested against nil before any other use
					if len(dataVals) > 0 && perElementNilTested(dataVals) {
						r.OK(rule, key, c.Rel(call.Pos()), "per-element handling: each selected value is individually tested for nil (field absent in this record) before use")
						continue
					}
					// acceptable if the data results are unused too, or a previous check on the same receiver and field list dominates
					if len(dataVals) == 0 || previouslyChecked(call) {
						r.OK(rule, key, c.Rel(call.Pos()), "result unused / an earlier successful check on the same record and field list dominates")
						continue
					}
					r.Fail(rule, key, c.Rel(call.Pos()), "the 'ok' result of "+short+" is ignored while its values are used: a record lacking one of the fields is accumulated/compared with missing (nil or partial) values instead of being left out")
					continue
				}
				// every use of a data result must be under the ok-true edge
				bad := ""
				for _, dv := range dataVals {
					if b2 := unguardedUse(c, dv, okVal, 0); b2 != "" {
						bad = b2
					}
				}
				for _, dv := range dataVals[:0] {
					for _, ref := range *dv.Referrers() {
						if _, isDbg := ref.(*ssa.DebugRef); isDbg {
							continue
						}
						blk := ref.Block()
						guarded := false
						if phi, isPhi := ref.(*ssa.Phi); isPhi {
							// use on the edge from the predecessor
							for i, e := range phi.Edges {
								if e == dv {
									blk = phi.Block().Preds[i]
									// the edge itself may be the ok-true edge of the predecessor's branch
									if iff, isIf := blk.Instrs[len(blk.Instrs)-1].(*ssa.If); isIf {
										cond, pol := stripNot(iff.Cond, true)
										idx := 0
										if !pol {
											idx = 1
										}
										if okImplied(cond, okVal, 0) && blk.Succs[idx] == phi.Block() {
											guarded = true
										}
									}
								}
							}
						}
						if ret, isRet := ref.(*ssa.Return); isRet {
							// pass-through wrapper returning (values, ok) together
							for _, res := range ret.Results {
								if res == okVal {
									guarded = true
								}
							}
						}
						if okEstablishedAt(blk, okVal) {
							guarded = true
						}
						if !guarded {
							bad = c.Rel(ref.Pos())
						}
					}
				}
				r.Check(bad == "", rule, key, c.Rel(call.Pos()), "values used only where ok is true", "a value selected by "+short+" is used at "+bad+" on a path where 'ok' was not established: records lacking the field are not left out")
			}
		}
	}
	r.Floor(rule, "key-selector call sites", n, floor)
}

// unguardedUse returns the position of a use of dv that is not under
// "ok is true", following (value, ok) pairs that are merged by phis in the
// same block.
func unguardedUse(c *Ctx, dv, okVal ssa.Value, depth int) string {
	if depth > 3 || dv.Referrers() == nil {
		return ""
	}
	bad := ""
	for _, ref := range *dv.Referrers() {
		if _, isDbg := ref.(*ssa.DebugRef); isDbg {
			continue
		}
		blk := ref.Block()
		guarded := false
		if phi, isPhi := ref.(*ssa.Phi); isPhi {
			for i, e := range phi.Edges {
				if e != dv {
					continue
				}
				pred := phi.Block().Preds[i]
				blk = pred
				if iff, isIf := pred.Instrs[len(pred.Instrs)-1].(*ssa.If); isIf {
					cond, pol := stripNot(iff.Cond, true)
					idx := 0
					if !pol {
						idx = 1
					}
					if okImplied(cond, okVal, 0) && pred.Succs[idx] == phi.Block() {
						guarded = true
					}
				}
				// a sibling phi merging the ok values from the same predecessors
				for _, in := range phi.Block().Instrs {
					if p2, isP2 := in.(*ssa.Phi); isP2 && p2 != phi && i < len(p2.Edges) && p2.Edges[i] == okVal {
						if unguardedUse(c, phi, p2, depth+1) == "" {
							guarded = true
						}
					}
				}
			}
		}
		if ret, isRet := ref.(*ssa.Return); isRet {
			for _, res := range ret.Results {
				if res == okVal {
					guarded = true
				}
			}
		}
		if okEstablishedAt(blk, okVal) {
			guarded = true
		}
		if !guarded {
			bad = c.Rel(ref.Pos())
		}
	}
	return bad
}

// previouslyChecked: an earlier call of a selector on the same receiver and
// the same field-list argument dominates this call and its ok was tested true.
func previouslyChecked(call *ssa.Call) bool {
	for _, g := range GuardsAt(call.Block()) {
		var prev *ssa.Call
		switch x := g.Cond.(type) {
		case *ssa.Call:
			prev = x
		case *ssa.Extract:
			prev, _ = x.Tuple.(*ssa.Call)
		}
		if prev == nil || !g.Polarity || !selectorMethods[CalleeName(&prev.Call)] {
			continue
		}
		if len(prev.Call.Args) >= 2 && len(call.Call.Args) >= 2 && sameValue(prev.Call.Args[0], call.Call.Args[0]) && sameValue(prev.Call.Args[1], call.Call.Args[1]) {
			return true
		}
	}
	return false
}

var groupingVerbs = []string{"TransformerCount", "TransformerCountDistinct", "TransformerCountSimilar", "TransformerUniq", "TransformerStats1", "TransformerStats2", "TransformerMergeFields", "TransformerStep", "TransformerTop", "TransformerFraction", "TransformerHistogram", "TransformerMostFrequent", "TransformerFillDown", "TransformerGroupBy", "TransformerHead", "TransformerTail", "TransformerNothing"}

func runC10(c *Ctx, r *Report) {
	r.Explanation = "Almost everything in this property is numerical (sums, variances, percentiles, windows) and is not decided. Three clauses of the statement are shapes of the code and are decided for all aggregating verbs: a record lacking a group-by or value field is left out (the boolean result of every key selector is branched on and its values are used only on the true edge); groups are emitted in first-appearance order (all grouping state is lib.OrderedMap/Mlrmap typed — no built-in map is iterated into output, by R04.9); sums/min/max of ints stay ints (the sum/min/max accumulators combine through the int-preserving BIFs, not through float conversion)."
	r.NotDecided = "every numerical result: counts, sums, means, variances, percentiles and their interpolation, sliding windows and EWMA, tie-breaking of top/most-frequent, fractions, histogram bin edges."
	r.Rule("R10.7", "aggregating verbs order groups with stable sorts only: every sort call in the aggregating verbs' files is stable (most-frequent / least-frequent: groups with equal counts stay in first-appearance order), a sort of plain strings or numbers, or a listed exception")
	checkStableSorts(c, r, "R10.7", []string{"most_or_least_frequent.go", "count_distinct.go", "count_similar.go", "count.go", "uniq.go", "stats1.go", "stats2.go", "merge_fields.go", "step.go", "top.go", "fraction.go", "histogram.go", "fill_down.go", "utils/percentile_keeper.go", "utils/stats1_accumulators.go"}, 3)
	c10UnlinkSymmetric(c, r)
	r.Rule("R10.1", "a record lacking a group-by or value field is left out of that accumulation only: for every call of GetSelectedValuesJoined / GetSelectedValuesAndJoined / ReferenceSelectedValues / GetSelectedValues / HasSelectedKeys in the verbs and the DSL emit code, the boolean result is branched on and every use of the selected key/values is dominated by its true edge")
	checkSelectorResults(c, r, "R10.1", nil, 30)

	// R10.2 grouping state types
	r.Rule("R10.2", "groups are emitted in first-appearance order: every map-like field of the aggregating verbs' state that is iterated to produce output is a lib.OrderedMap / mlrval.Mlrmap (built-in maps are used for membership and counters only; their iteration is excluded by R04.9)")
	tp := c.Pkg("pkg/transformers")
	n := 0
	for _, p := range []string{"pkg/transformers", "pkg/transformers/utils"} {
		pk := c.Pkg(p)
		for _, file := range pk.Syntax {
			_ = file
		}
	}
	names := tp.Types.Scope().Names()
	sort.Strings(names)
	for _, nm := range names {
		tn, ok := tp.Types.Scope().Lookup(nm).(*types.TypeName)
		if !ok || !strings.HasPrefix(nm, "Transformer") {
			continue
		}
		st, ok := tn.Type().Underlying().(*types.Struct)
		if !ok {
			continue
		}
		ordered, builtin := 0, []string{}
		for i := 0; i < st.NumFields(); i++ {
			ft := st.Field(i).Type()
			s := ft.String()
			if strings.Contains(s, "lib.OrderedMap") || strings.Contains(s, "mlrval.Mlrmap") {
				ordered++
			}
			if _, isMap := ft.Underlying().(*types.Map); isMap {
				builtin = append(builtin, st.Field(i).Name())
			}
		}
		if ordered == 0 && len(builtin) == 0 {
			continue
		}
		n++
		// built-in maps are fine unless ranged over (R04.9 checks the ranges); here: record the inventory
		bad := rangedBuiltinMapFields(c, tn, builtin)
		r.Check(len(bad) == 0, "R10.2", nm, c.Rel(tn.Pos()), fmt.Sprintf("%d ordered maps; built-in maps %v are never iterated", ordered, builtin),
			fmt.Sprintf("verb state field(s) %v are built-in Go maps that the verb iterates: groups would be emitted in random order instead of first-appearance order", bad))
	}
	r.Floor("R10.2", "verbs with map-like state", n, 25)

	c10WholeRecordKeys(c, r)

	// R10.3 int-preserving accumulators
	r.Rule("R10.3", "sums/min/max of ints stay ints: the sum, min and max accumulators of stats1/merge-fields combine values through bifs.BIF_plus_binary / BIF_min_binary / BIF_max_binary (whose INT×INT cells are int-preserving), never through GetNumericToFloatValue")
	up := c.Pkg("pkg/transformers/utils")
	want := map[string]string{"Stats1SumAccumulator": "BIF_plus_binary", "Stats1MinAccumulator": "BIF_min_binary", "Stats1MaxAccumulator": "BIF_max_binary"}
	found := 0
	for _, accName := range []string{"Stats1SumAccumulator", "Stats1MinAccumulator", "Stats1MaxAccumulator"} {
		tn, ok := up.Types.Scope().Lookup(accName).(*types.TypeName)
		if !ok {
			r.Undecided("R10.3", accName, "", "accumulator type not found")
			continue
		}
		named := tn.Type().(*types.Named)
		ing := c.SSAFunc(MethodOf(named, "Ingest"))
		if ing == nil {
			r.Undecided("R10.3", accName, "", "no Ingest method")
			continue
		}
		found++
		calls, floats := false, ""
		ForEachCall(ing, true, func(site ssa.CallInstruction, in *ssa.Function) {
			n := CalleeName(site.Common())
			if n == "pkg/bifs."+want[accName] {
				calls = true
			}
			if strings.Contains(n, "GetNumericToFloatValue") || n == "pkg/mlrval.FromFloat" {
				floats = n + " at " + c.Rel(site.Pos())
			}
		})
		r.Check(calls && floats == "", "R10.3", accName+".Ingest", c.Rel(ing.Pos()), "combines through bifs."+want[accName], fmt.Sprintf("%s.Ingest does not combine through bifs.%s (found=%v) or converts to float (%s): sums/min/max of integers come out as floats", accName, want[accName], calls, floats))
	}
	r.Floor("R10.3", "sum/min/max accumulators", found, 3)
	// the INT×INT cells of + min max are int(-or-overflow) preserving
	rs := NewRetSum(c)
	reg, msg := c.BIFRegistry()
	if msg == "" {
		ot := operatorTables(c, r, rs, reg, "R10.3", []string{"+", "min", "max"})
		for _, op := range []string{"+", "min", "max"} {
			if o := ot[op]; o != nil {
				s := rs.Of(c.SSAFunc(o.Tab.Cell(K_INT, K_INT))).Kinds()
				allowed := s.SubsetOf("INT", "ARG1", "ARG2")
				if op == "+" {
					allowed = s.SubsetOf("INT", "FLOAT") // auto-overflow to float
				}
				r.Check(allowed, "R10.3", "operator "+op+" INT×INT cell", c.Rel(o.Tab.Pos), o.Tab.Cell(K_INT, K_INT).Name()+" → "+s.String(), "the INT×INT cell of "+op+" returns "+s.String())
			}
		}
	}
	c10InjectiveKeys(c, r)
	c10ResetCoversIngest(c, r)
}

// readsEntryKeys: does fn (or its static mlrval callees, depth 3) load MlrmapEntry.Key?
func readsEntryKeys(fn *ssa.Function, depth int, seen map[*ssa.Function]bool) bool {
	if fn == nil || fn.Blocks == nil || depth > 3 || seen[fn] {
		return false
	}
	seen[fn] = true
	found := false
	for _, b := range fn.Blocks {
		for _, in := range b.Instrs {
			if v, ok := in.(ssa.Value); ok {
				if base, name, ok := fieldLoadName(v); ok && name == "Key" {
					if pt, ok := base.Type().(*types.Pointer); ok {
						if n, ok := pt.Elem().(*types.Named); ok && n.Obj().Name() == "MlrmapEntry" {
							found = true
						}
					}
				}
			}
			if ci, ok := in.(ssa.CallInstruction); ok {
				if cal := ci.Common().StaticCallee(); cal != nil && IsModuleFunc(cal) && readsEntryKeys(cal, depth+1, seen) {
					found = true
				}
			}
		}
	}
	return found
}

// R10.4: whole-record distinctness includes the field names.
func c10WholeRecordKeys(c *Ctx, r *Report) {
	r.Rule("R10.4", "whole-record distinctness (uniq -a, -a -c, -a -n) keys records by names and values: the string used as the distinctness key comes from a Mlrmap method that reads the entries' keys as well as their values")
	n := 0
	for _, name := range []string{"TransformerUniq.transformUniqifyEntireRecords", "TransformerUniq.transformUniqifyEntireRecordsShowCounts", "TransformerUniq.transformUniqifyEntireRecordsShowNumDistinctOnly"} {
		f := c.SSAFunc(c.LookupFunc("pkg/transformers", name))
		if f == nil {
			r.Undecided("R10.4", name, "", "anchor not found")
			continue
		}
		var keyCalls []*ssa.Call
		ForEachCall(f, false, func(site ssa.CallInstruction, in *ssa.Function) {
			call, ok := site.(*ssa.Call)
			if !ok {
				return
			}
			cal := call.Call.StaticCallee()
			if cal == nil || !strings.HasPrefix(SSAFuncName(cal), "pkg/mlrval.Mlrmap.") || !isStringType(call.Type()) {
				return
			}
			keyCalls = append(keyCalls, call)
		})
		n++
		bad := ""
		for _, kc := range keyCalls {
			if !readsEntryKeys(kc.Call.StaticCallee(), 0, map[*ssa.Function]bool{}) {
				bad = SSAFuncName(kc.Call.StaticCallee()) + " at " + c.Rel(kc.Pos())
			}
		}
		r.Check(len(keyCalls) > 0 && bad == "", "R10.4", name, c.Rel(f.Pos()), "distinctness key built from names and values", "the distinctness key of uniq -a is built by "+bad+", which never looks at field names: records with equal values under different names are merged into one group")
	}
	r.Floor("R10.4", "uniq -a mode functions", n, 3)
}

// rangedBuiltinMapFields: which of the named built-in map fields of the verb
// type are ranged over in any method of the type whose loop body appends to
// the output or emits records.
func rangedBuiltinMapFields(c *Ctx, tn *types.TypeName, fields []string) []string {
	if len(fields) == 0 {
		return nil
	}
	named := tn.Type().(*types.Named)
	bad := map[string]bool{}
	for i := 0; i < named.NumMethods(); i++ {
		f := c.SSAFunc(named.Method(i))
		if f == nil {
			continue
		}
		for _, b := range f.Blocks {
			for _, in := range b.Instrs {
				rg, ok := in.(*ssa.Range)
				if !ok {
					continue
				}
				if _, name, ok := fieldLoadName(rg.X); ok {
					for _, fl := range fields {
						if fl == name {
							// tolerated when the loop only deletes / closes / counts: judged by R04.9
							bad[name] = true
						}
					}
				}
			}
		}
	}
	var out []string
	for k := range bad {
		out = append(out, k)
	}
	sort.Strings(out)
	return out
}

// ---- R10.6 ------------------------------------------------------------------
// Keys that stand for a list of values are injective.
func c10InjectiveKeys(c *Ctx, r *Report) {
	r.Rule("R10.6", "grouping and schema keys are injective: a string that stands for a list of a record's keys or values — the result of the Mlrmap …Joined accessors, or a strings.Join that is compared, stored as state or used as a map key in the writers and verbs — is not built by putting a constant separator between the raw elements (('x,y','z') and ('x','y,z') would be the same key); the accessors length-prefix each element")
	r.Rule("R10.6c", "one key, one way of writing: where a …Joined accessor hands each element to a helper together with an element count, or a flag computed from one (which decides whether elements are length-prefixed), that count or flag is the same for every element of the key — a constant, a parameter, or a pure function of values computed outside the loop")
	defer func() { r.Floor("R10.6c", "element counts passed to key-writing helpers in loops", r.CountRule("R10.6c"), 4) }()
	n := 0
	for _, fn := range c.ModuleFunctions() {
		if fn.Pkg == nil {
			continue
		}
		pp := fn.Pkg.Pkg.Path()
		switch {
		case strings.HasSuffix(pp, "/pkg/mlrval") && strings.Contains(fn.Name(), "Joined"):
			n++
			// a constant written inside a loop = a separator between raw elements
			sep := ""
			prefixed := false
			var visit func(f *ssa.Function, depth int)
			visit = func(f *ssa.Function, depth int) {
				if f == nil || f.Blocks == nil || depth > 2 {
					return
				}
				for _, b := range f.Blocks {
					for _, in := range b.Instrs {
						call, ok := in.(*ssa.Call)
						if !ok {
							continue
						}
						name := CalleeName(&call.Call)
						if name == "strconv.Itoa" || name == "strconv.FormatInt" {
							prefixed = true
						}
						if (strings.HasSuffix(name, ".WriteString") || strings.HasSuffix(name, ".WriteByte")) && len(call.Call.Args) == 2 && depth == 0 && blockReachesSelf(b) {
							if k, ok := call.Call.Args[1].(*ssa.Const); ok {
								sep = k.Value.String()
							}
						}
						if sc := call.Call.StaticCallee(); sc != nil && IsModuleFunc(sc) && sc.Pkg == f.Pkg && !strings.Contains(sc.Name(), "String") {
							visit(sc, depth+1)
						}
					}
				}
			}
			visit(fn, 0)
			c10JoinCountInvariant(c, r, fn)
			r.Check(sep == "" || prefixed, "R10.6", SSAName(fn), c.Rel(fn.Pos()), "elements are length-prefixed",
				fmt.Sprintf("%s joins raw elements with the constant separator %s: two different lists whose elements contain the separator give the same key, so distinct groups / schemas are merged", SSAName(fn), sep))
		case strings.HasSuffix(pp, "/pkg/output") || strings.HasSuffix(pp, "/pkg/transformers"):
			for _, b := range fn.Blocks {
				for _, in := range b.Instrs {
					call, ok := in.(*ssa.Call)
					if !ok || CalleeName(&call.Call) != "strings.Join" || call.Referrers() == nil {
						continue
					}
					if _, isConst := call.Call.Args[1].(*ssa.Const); !isConst {
						continue
					}
					// only joins of a record's keys / values (directly, or passed through a helper such as a sort)
					var fromRecord func(v ssa.Value, depth int) bool
					fromRecord = func(v ssa.Value, depth int) bool {
						src, ok := v.(*ssa.Call)
						if !ok || depth > 2 {
							return false
						}
						if strings.HasSuffix(CalleeName(&src.Call), ".GetKeys") || (strings.HasPrefix(CalleeName(&src.Call), "pkg/mlrval.Mlrmap.") && strings.Contains(CalleeName(&src.Call), "Values")) {
							return true
						}
						for _, a := range src.Call.Args {
							if fromRecord(a, depth+1) {
								return true
							}
						}
						return false
					}
					if !fromRecord(call.Call.Args[0], 0) {
						continue
					}
					usedAsKey := ""
					var follow func(v ssa.Value, depth int)
					follow = func(v ssa.Value, depth int) {
						if depth > 3 || v.Referrers() == nil {
							return
						}
						for _, ref := range *v.Referrers() {
							switch x := ref.(type) {
							case *ssa.BinOp:
								if x.Op == token.EQL || x.Op == token.NEQ {
									usedAsKey = "compared"
								}
							case *ssa.Lookup:
								if x.Index == v {
									usedAsKey = "map key"
								}
							case *ssa.MapUpdate:
								if x.Key == v {
									usedAsKey = "map key"
								}
							case *ssa.Store:
								if x.Val == v {
									if al, ok := x.Addr.(*ssa.Alloc); ok {
										// a local cell (often &joined stored into a field): follow its loads and its address
										for _, r2 := range *al.Referrers() {
											if ld, ok := r2.(*ssa.UnOp); ok {
												follow(ld, depth+1)
											}
											if st2, ok := r2.(*ssa.Store); ok && st2.Val == ssa.Value(al) {
												usedAsKey = "kept as state"
											}
										}
									} else {
										usedAsKey = "kept as state"
									}
								}
							case *ssa.Phi:
								follow(x, depth+1)
							}
						}
					}
					follow(call, 0)
					if usedAsKey == "" {
						continue // printed in a message
					}
					n++
					r.Fail("R10.6", fmt.Sprintf("%s: joined key list (%s)", SSAName(fn), usedAsKey), c.Rel(call.Pos()),
						fmt.Sprintf("%s joins a record's keys or values with a constant separator and uses the result as an identity (%s): different lists can give the same string — use the length-prefixed Mlrmap.GetKeysJoined / GetSelectedValuesJoined", SSAName(fn), usedAsKey))
				}
			}
			// a key joined by hand: a buffer written in a loop with a constant separator between
			// the texts of a record's keys or values, with no length prefix, whose String() is a key
			if strings.HasSuffix(pp, "/pkg/transformers") {
				if how, pos := handJoinedKey(c, fn); how != "" {
					n++
					r.Fail("R10.6", fmt.Sprintf("%s: key joined by hand (%s)", SSAName(fn), how), c.Rel(pos),
						fmt.Sprintf("%s builds a string by writing a record's keys or values into a buffer with a constant separator between them and no length prefix, and the result is used as an identity (%s): different lists can give the same string, so distinct groups are merged", SSAName(fn), how))
				}
			}
		}
	}
	r.Floor("R10.6", "joined-key builders", n, 5)
}

// ---- R10.5 ------------------------------------------------------------------
// Reset gives back the state the constructor gives: every field Ingest writes
// is written by Reset.
func c10ResetCoversIngest(c *Ctx, r *Report) {
	r.Rule("R10.5", "Reset covers Ingest: for every accumulator type that has both an Ingest and a Reset method, each field of the receiver that Ingest (or a method it calls on the receiver) stores to is also stored by Reset (or Reset delegates to the Reset / constructor of the sub-accumulators holding it) — a field left out carries the previous window's or record's data into the next")
	n := 0
	type tinfo struct {
		ingest, reset *ssa.Function
	}
	byType := map[string]*tinfo{}
	for _, fn := range c.ModuleFunctions() {
		if fn.Pkg == nil || fn.Signature.Recv() == nil {
			continue
		}
		pp := fn.Pkg.Pkg.Path()
		if !(strings.Contains(pp, "/pkg/transformers")) {
			continue
		}
		tn := fn.Signature.Recv().Type().String()
		if byType[tn] == nil {
			byType[tn] = &tinfo{}
		}
		switch fn.Name() {
		case "Ingest":
			byType[tn].ingest = fn
		case "Reset":
			byType[tn].reset = fn
		}
	}
	storedFields := func(fn *ssa.Function) (map[string]bool, bool) {
		out := map[string]bool{}
		delegates := false
		seen := map[*ssa.Function]bool{}
		var visit func(f *ssa.Function, depth int)
		visit = func(f *ssa.Function, depth int) {
			if f == nil || f.Blocks == nil || seen[f] || depth > 2 || len(f.Params) == 0 {
				return
			}
			seen[f] = true
			recv := f.Params[0]
			for _, b := range f.Blocks {
				for _, in := range b.Instrs {
					switch x := in.(type) {
					case *ssa.Store:
						if fa, ok := x.Addr.(*ssa.FieldAddr); ok && fa.X == recv {
							st := fa.X.Type().Underlying().(*types.Pointer).Elem().Underlying().(*types.Struct)
							out[st.Field(fa.Field).Name()] = true
						}
						// *recv = T{…}: every field at once
						if x.Addr == recv {
							if st, ok := recv.Type().Underlying().(*types.Pointer).Elem().Underlying().(*types.Struct); ok {
								for i := 0; i < st.NumFields(); i++ {
									out[st.Field(i).Name()] = true
								}
							}
						}
					case ssa.CallInstruction:
						com := x.Common()
						// methods called on the receiver itself
						if sc := com.StaticCallee(); sc != nil && len(com.Args) > 0 && com.Args[0] == recv {
							visit(sc, depth+1)
						}
						// delegation to a field's own Reset/Ingest (sub-accumulator): counts as covering that field
						var target ssa.Value
						if com.IsInvoke() {
							target = com.Value
						} else if len(com.Args) > 0 {
							target = com.Args[0]
						}
						if ld, ok := target.(*ssa.UnOp); ok {
							if fa, ok := ld.X.(*ssa.FieldAddr); ok && fa.X == recv {
								st := fa.X.Type().Underlying().(*types.Pointer).Elem().Underlying().(*types.Struct)
								out[st.Field(fa.Field).Name()] = true
								delegates = true
							}
						}
					}
				}
			}
		}
		visit(fn, 0)
		return out, delegates
	}
	var names []string
	for tn := range byType {
		names = append(names, tn)
	}
	sort.Strings(names)
	for _, tn := range names {
		ti := byType[tn]
		if ti.ingest == nil || ti.reset == nil {
			continue
		}
		n++
		ing, _ := storedFields(ti.ingest)
		res, _ := storedFields(ti.reset)
		var miss []string
		for f := range ing {
			if !res[f] {
				miss = append(miss, f)
			}
		}
		sort.Strings(miss)
		r.Check(len(miss) == 0, "R10.5", SSAName(ti.reset), c.Rel(ti.reset.Pos()), fmt.Sprintf("resets %d field(s) written by Ingest", len(ing)),
			fmt.Sprintf("%s does not reset %v, which Ingest writes: when the accumulator is reused (merge-fields, stats1 -w windows) the previous data leaks into the next result", SSAName(ti.reset), miss))
	}
	r.Floor("R10.5", "accumulator types with Ingest and Reset", n, 15)
}

// handJoinedKey: fn writes, inside a loop over a record's entries, a constant
// separator and non-constant texts into a bytes.Buffer / strings.Builder, never
// calls strconv.Itoa / FormatInt (a length prefix), and the buffer's String()
// is used as a map key, compared, kept, or returned to a caller that does so.
func handJoinedKey(c *Ctx, fn *ssa.Function) (string, token.Pos) {
	sepInLoop, textInLoop, prefixed := false, false, false
	var strCalls []*ssa.Call
	for _, b := range fn.Blocks {
		inLoop := blockReachesSelf(b)
		for _, in := range b.Instrs {
			call, ok := in.(*ssa.Call)
			if !ok {
				continue
			}
			name := CalleeName(&call.Call)
			switch {
			case name == "strconv.Itoa" || name == "strconv.FormatInt":
				prefixed = true
			case (strings.HasSuffix(name, "Buffer.WriteString") || strings.HasSuffix(name, "Builder.WriteString") || strings.HasSuffix(name, "Buffer.WriteByte") || strings.HasSuffix(name, "Builder.WriteByte")) && len(call.Call.Args) == 2 && inLoop:
				if _, isConst := call.Call.Args[1].(*ssa.Const); isConst {
					sepInLoop = true
				} else {
					textInLoop = true
				}
			case strings.HasSuffix(name, "Buffer.String") || strings.HasSuffix(name, "Builder.String"):
				strCalls = append(strCalls, call)
			}
		}
	}
	if !sepInLoop || !textInLoop || prefixed || len(strCalls) == 0 {
		return "", token.NoPos
	}
	// the loop walks a record (loads MlrmapEntry fields)
	walksRecord := false
	for _, b := range fn.Blocks {
		for _, in := range b.Instrs {
			if fa, ok := in.(*ssa.FieldAddr); ok && strings.HasSuffix(fa.X.Type().String(), "mlrval.MlrmapEntry") {
				walksRecord = true
			}
		}
	}
	if !walksRecord {
		return "", token.NoPos
	}
	isKeyUse := func(v ssa.Value) string {
		how := ""
		var follow func(v ssa.Value, depth int)
		follow = func(v ssa.Value, depth int) {
			if depth > 3 || v.Referrers() == nil {
				return
			}
			for _, ref := range *v.Referrers() {
				switch x := ref.(type) {
				case *ssa.BinOp:
					if x.Op == token.EQL || x.Op == token.NEQ {
						how = "compared"
					}
				case *ssa.Lookup:
					if x.Index == v {
						how = "map key"
					}
				case *ssa.MapUpdate:
					if x.Key == v {
						how = "map key"
					}
				case *ssa.Phi:
					follow(x, depth+1)
				case *ssa.Call:
					cn := CalleeName(&x.Call)
					if strings.Contains(cn, "OrderedMap") && (strings.HasSuffix(cn, ".Get") || strings.HasSuffix(cn, ".Put") || strings.HasSuffix(cn, ".Has")) {
						how = "ordered-map key"
					}
				}
			}
		}
		follow(v, 0)
		return how
	}
	for _, sc := range strCalls {
		if how := isKeyUse(sc); how != "" {
			return how, sc.Pos()
		}
		// returned: look at the callers' use of that result
		for _, ref := range *sc.Referrers() {
			ret, ok := ref.(*ssa.Return)
			if !ok {
				continue
			}
			idx := -1
			for i, rv := range ret.Results {
				if rv == ssa.Value(sc) {
					idx = i
				}
			}
			if idx < 0 {
				continue
			}
			for _, caller := range c.ModuleFunctions() {
				if caller.Blocks == nil {
					continue
				}
				for _, b := range caller.Blocks {
					for _, in := range b.Instrs {
						call, ok := in.(*ssa.Call)
						if !ok || call.Call.StaticCallee() != fn {
							continue
						}
						var res ssa.Value = call
						if fn.Signature.Results().Len() > 1 {
							res = nil
							for _, r2 := range *call.Referrers() {
								if ex, ok := r2.(*ssa.Extract); ok && ex.Index == idx {
									res = ex
								}
							}
						}
						if res != nil {
							if how := isKeyUse(res); how != "" {
								return how + " in " + SSAName(caller), sc.Pos()
							}
						}
					}
				}
			}
		}
	}
	return "", token.NoPos
}

// perElementNilTested: the values are only indexed, and every element so
// obtained is used either in a comparison with nil or at a place dominated by
// the element != nil edge of such a comparison.
func perElementNilTested(vals []ssa.Value) bool {
	isNilCmp := func(in ssa.Instruction, e ssa.Value) bool {
		bo, ok := in.(*ssa.BinOp)
		if !ok || (bo.Op != token.EQL && bo.Op != token.NEQ) {
			return false
		}
		k, ok := bo.Y.(*ssa.Const)
		return ok && k.IsNil() && bo.X == e
	}
	n := 0
	for _, v := range vals {
		if v.Referrers() == nil {
			continue
		}
		for _, ref := range *v.Referrers() {
			if _, isDbg := ref.(*ssa.DebugRef); isDbg {
				continue
			}
			if call, isCall := ref.(*ssa.Call); isCall {
				if bi, ok := call.Call.Value.(*ssa.Builtin); ok && bi.Name() == "len" {
					continue // the number of values says nothing about their presence
				}
			}
			ia, ok := ref.(*ssa.IndexAddr)
			if !ok || ia.X != v {
				return false
			}
			for _, r2 := range *ia.Referrers() {
				ld, ok := r2.(*ssa.UnOp)
				if !ok || ld.Op != token.MUL {
					return false
				}
				n++
				for _, use := range *ld.Referrers() {
					if _, isDbg := use.(*ssa.DebugRef); isDbg {
						continue
					}
					if isNilCmp(use, ld) {
						continue
					}
					guarded := false
					for _, g := range GuardsAt(use.Block()) {
						if bo, ok := g.Cond.(*ssa.BinOp); ok && isNilCmp(bo, ld) {
							if (bo.Op == token.NEQ && g.Polarity) || (bo.Op == token.EQL && !g.Polarity) {
								guarded = true
							}
						}
					}
					if !guarded {
						return false
					}
				}
			}
		}
	}
	return n > 0
}

// R10.6c: the element count that decides how the elements of a key are
// written is the same for every element of that key.
func c10JoinCountInvariant(c *Ctx, r *Report, fn *ssa.Function) {
	k := 0
	for _, b := range fn.Blocks {
		if !blockReachesSelf(b) {
			continue
		}
		for _, in := range b.Instrs {
			call, ok := in.(*ssa.Call)
			if !ok {
				continue
			}
			sc := call.Call.StaticCallee()
			if sc == nil || !IsModuleFunc(sc) || sc.Pkg != fn.Pkg || sc.Signature.Recv() != nil {
				continue
			}
			// a helper that takes the buffer and an element count
			hasBuf := false
			for _, a := range call.Call.Args {
				if strings.HasSuffix(a.Type().String(), "bytes.Buffer") || strings.HasSuffix(a.Type().String(), "strings.Builder") {
					hasBuf = true
				}
			}
			if !hasBuf {
				continue
			}
			for ai, a := range call.Call.Args {
				// the argument that decides how an element is written: a count, or a flag computed from one
				if bt, isB := a.Type().Underlying().(*types.Basic); !isIntegerType(a.Type()) && !(isB && bt.Info()&types.IsBoolean != 0) {
					continue
				}
				k++
				key := fmt.Sprintf("%s: element count #%d passed to %s", SSAName(fn), k, sc.Name())
				inv := loopInvariant(a, b, map[ssa.Value]bool{}, 0)
				r.Check(inv, "R10.6c", key, c.Rel(call.Pos()), fmt.Sprintf("argument %d is the same for every element", ai),
					fmt.Sprintf("%s passes %s an element count that changes from one element of the key to the next: the elements of one key are then written in different ways (some length-prefixed, some raw), and two different lists can give the same key", SSAName(fn), sc.Name()))
			}
		}
	}
}

// loopInvariant: v has the same value on every turn of the loop that block b
// is in — a constant, a parameter, something computed outside that loop, or
// a pure computation (len, arithmetic, conversion, field read) on such values.
func loopInvariant(v ssa.Value, b *ssa.BasicBlock, seen map[ssa.Value]bool, depth int) bool {
	if depth > 8 {
		return false
	}
	switch x := v.(type) {
	case *ssa.Const, *ssa.Parameter, *ssa.Global, *ssa.FreeVar, *ssa.Function:
		return true
	case ssa.Instruction:
		vb := x.Block()
		if vb != nil && !(blockReaches(vb, b) && blockReaches(b, vb)) {
			return true // defined outside the loop
		}
		if seen[v] {
			return false
		}
		seen[v] = true
		switch y := v.(type) {
		case *ssa.Phi:
			return false
		case *ssa.BinOp:
			return loopInvariant(y.X, b, seen, depth+1) && loopInvariant(y.Y, b, seen, depth+1)
		case *ssa.Convert:
			return loopInvariant(y.X, b, seen, depth+1)
		case *ssa.ChangeType:
			return loopInvariant(y.X, b, seen, depth+1)
		case *ssa.UnOp:
			if y.Op == token.MUL {
				if fa, ok := y.X.(*ssa.FieldAddr); ok {
					return loopInvariant(fa.X, b, seen, depth+1)
				}
				return false
			}
			return loopInvariant(y.X, b, seen, depth+1)
		case *ssa.Call:
			if bi, ok := y.Call.Value.(*ssa.Builtin); ok && (bi.Name() == "len" || bi.Name() == "cap") {
				return loopInvariant(y.Call.Args[0], b, seen, depth+1)
			}
		}
	}
	return false
}
