package main

// R18.4: look-ahead slicing — s[i : i+k] (k a constant or the length of another
// string) needs a test against len(s).

import (
	"fmt"
	"go/token"
	"go/types"
	"os"
	"strings"

	"golang.org/x/tools/go/ssa"
)

func isStringOrBytes(t types.Type) bool {
	switch u := t.Underlying().(type) {
	case *types.Basic:
		return u.Info()&types.IsString != 0
	case *types.Slice:
		if b, ok := u.Elem().Underlying().(*types.Basic); ok {
			return b.Kind() == types.Byte || b.Kind() == types.Uint8 || b.Kind() == types.Rune || b.Kind() == types.Int32
		}
	}
	return false
}

// lenOf: v is len(x)
func lenOf(v ssa.Value, x ssa.Value) bool {
	call, ok := v.(*ssa.Call)
	if !ok {
		return false
	}
	b, ok := call.Call.Value.(*ssa.Builtin)
	if !ok || (b.Name() != "len" && b.Name() != "cap") {
		return false
	}
	return x == nil || sameStr(call.Call.Args[0], x)
}

func sameStr(a, b ssa.Value) bool {
	if a == b {
		return true
	}
	// reloads of the same alloc / param copies
	la, ok1 := a.(*ssa.UnOp)
	lb, ok2 := b.(*ssa.UnOp)
	if ok1 && ok2 && la.X == lb.X {
		return true
	}
	// two loads of the same field of the same object
	if ok1 && ok2 {
		fa, okA := la.X.(*ssa.FieldAddr)
		fb, okB := lb.X.(*ssa.FieldAddr)
		if okA && okB && fa.Field == fb.Field && (fa.X == fb.X || sameStr(fa.X, fb.X)) {
			return true
		}
	}
	return false
}

// mentionsLen: the expression tree of v contains len(x) (or a value n := len(x))
func mentionsLen(v ssa.Value, x ssa.Value, depth int) bool {
	if v == nil || depth > 6 {
		return false
	}
	if lenOf(v, x) {
		return true
	}
	switch t := v.(type) {
	case *ssa.BinOp:
		return mentionsLen(t.X, x, depth+1) || mentionsLen(t.Y, x, depth+1)
	case *ssa.UnOp:
		return mentionsLen(t.X, x, depth+1)
	case *ssa.Convert:
		return mentionsLen(t.X, x, depth+1)
	case *ssa.Phi:
		for _, e := range t.Edges {
			if mentionsLen(e, x, depth+1) {
				return true
			}
		}
	case *ssa.Call:
		// min(a, len(x)-i), IntMin2(…)
		for _, a := range t.Call.Args {
			if mentionsLen(a, x, depth+1) {
				return true
			}
		}
	}
	return false
}

// lenTested: some test on the way to b (terminators of dominators, incl. loop
// headers) mentions len(x).
func lenTested(b *ssa.BasicBlock, x ssa.Value) bool {
	for d := b; d != nil; d = d.Idom() {
		if d != b || true {
			if iff, ok := d.Instrs[len(d.Instrs)-1].(*ssa.If); ok && d != b {
				c, _ := stripNot(iff.Cond, true)
				if mentionsLen(c, x, 0) {
					return true
				}
				// strings.HasPrefix(x, y) / HasSuffix: len(y) <= len(x) where it holds
				if call, ok := c.(*ssa.Call); ok {
					n := CalleeName(&call.Call)
					if (n == "strings.HasPrefix" || n == "strings.HasSuffix" || n == "bytes.HasPrefix" || n == "bytes.HasSuffix") && sameStr(call.Call.Args[0], x) {
						return true
					}
				}
			}
		}
	}
	return false
}

// boundFromSearch: the bound derives from an index search in x (strings.Index…), a
// range over x, or len(x) itself — in range by construction.
func boundFromSearch(v ssa.Value, x ssa.Value, depth int) bool {
	if v == nil || depth > 6 {
		return false
	}
	if mentionsLen(v, x, 0) {
		return true
	}
	switch t := v.(type) {
	case *ssa.Call:
		n := CalleeName(&t.Call)
		if strings.HasPrefix(n, "strings.Index") || strings.HasPrefix(n, "strings.LastIndex") || strings.HasPrefix(n, "bytes.Index") || strings.HasPrefix(n, "bytes.LastIndex") {
			return true
		}
		if calleeSearchesParam(t, x) {
			return true
		}
	case *ssa.Extract:
		if _, ok := t.Tuple.(*ssa.Next); ok {
			return true
		}
	case *ssa.BinOp:
		if t.Op == token.ADD || t.Op == token.SUB {
			_, lc := t.X.(*ssa.Const)
			_, rc := t.Y.(*ssa.Const)
			if rc {
				return boundFromSearch(t.X, x, depth+1)
			}
			if lc {
				return boundFromSearch(t.Y, x, depth+1)
			}
		}
	case *ssa.Phi:
		for _, e := range t.Edges {
			if !boundFromSearch(e, x, depth+1) {
				return false
			}
		}
		return len(t.Edges) > 0
	}
	return false
}

// calleeSearchesParam: the call hands the sliced value x to a module function
// with one integer result, and every result of that function is a constant
// or a position in the corresponding parameter: found by a search in it, or a
// counter returned under the test counter < len(parameter).
func calleeSearchesParam(call *ssa.Call, x ssa.Value) bool {
	sc := call.Call.StaticCallee()
	if sc == nil || !IsModuleFunc(sc) || sc.Blocks == nil || sc.Signature.Results().Len() != 1 || sc.Signature.Recv() != nil {
		return false
	}
	j := -1
	for i, a := range call.Call.Args {
		if a == x || sameValue(a, x) {
			j = i
		}
	}
	if j < 0 || j >= len(sc.Params) {
		return false
	}
	p := sc.Params[j]
	nret := 0
	for _, b := range sc.Blocks {
		ret, ok := b.Instrs[len(b.Instrs)-1].(*ssa.Return)
		if !ok {
			continue
		}
		nret++
		res := ret.Results[0]
		if _, isK := res.(*ssa.Const); isK {
			continue
		}
		if boundFromSearch(res, p, 1) {
			continue
		}
		guarded := false
		for _, g := range GuardsAt(b) {
			cond, pol := stripNot(g.Cond, g.Polarity)
			cmp, ok := cond.(*ssa.BinOp)
			if !ok || !pol || cmp.Op != token.LSS || cmp.X != res {
				continue
			}
			if ln, ok := cmp.Y.(*ssa.Call); ok {
				if bi, ok := ln.Call.Value.(*ssa.Builtin); ok && bi.Name() == "len" && ln.Call.Args[0] == ssa.Value(p) {
					guarded = true
				}
			}
		}
		if !guarded {
			return false
		}
	}
	return nret > 0
}

func c18LookAhead(c *Ctx, r *Report) {
	r.Rule("R18.4", "look-ahead slicing is length-tested: in the data-facing scanners (strptime, TSV/CSV/DKVPX codecs, number scanner, library string helpers) a slice s[i : i+k] whose upper bound is the lower bound plus a constant or plus the length of another string is reached only after some test that mentions len(s) (or the bound comes from a search in s); comparing a fixed-width window this way without a length test panics on short input — strings.HasPrefix is the safe form")
	n, examined := 0, 0
	for fn := range c.AllFunctions() {
		if !IsModuleFunc(fn) || fn.Blocks == nil || fn.Pkg == nil {
			continue
		}
		pp := fn.Pkg.Pkg.Path()
		if !(strings.HasSuffix(pp, "/pkg/pbnjay-strptime") || strings.HasSuffix(pp, "/pkg/lib") || strings.HasSuffix(pp, "/pkg/scan") || strings.HasSuffix(pp, "/pkg/bifs") || strings.HasSuffix(pp, "/pkg/dkvpx") || strings.HasSuffix(pp, "/pkg/input")) {
			continue
		}
		k := 0
		for _, b := range fn.Blocks {
			for _, in := range b.Instrs {
				sl, ok := in.(*ssa.Slice)
				if !ok || !isStringOrBytes(sl.X.Type()) {
					continue
				}
				examined++
				if sl.High == nil || sl.Low == nil {
					continue
				}
				hb, ok := sl.High.(*ssa.BinOp)
				if !ok || hb.Op != token.ADD {
					continue
				}
				// high = low + k
				var kv ssa.Value
				if hb.X == sl.Low {
					kv = hb.Y
				} else if hb.Y == sl.Low {
					kv = hb.X
				} else {
					continue
				}
				_, isConst := kv.(*ssa.Const)
				isOtherLen := lenOf(kv, nil) && !lenOf(kv, sl.X)
				if !isConst && !isOtherLen {
					continue
				}
				n++
				k++
				key := fmt.Sprintf("%s: window slice #%d", SSAName(fn), k)
				ok2 := lenTested(b, sl.X)
				if os.Getenv("MLRLINT_DEBUG") != "" {
					fmt.Fprintf(os.Stderr, "WINDOW %s %s tested=%v\n", key, c.Rel(sl.Pos()), ok2)
				}
				r.Check(ok2, "R18.4", key, c.Rel(sl.Pos()), "after a test that mentions len of the sliced string",
					fmt.Sprintf("%s slices a fixed-width window [i : i+k] out of a string with no test of the string's length on the way: an input shorter than the window makes the process panic with 'slice bounds out of range'", SSAName(fn)))
			}
		}
	}
	if n == 0 {
		r.OK("R18.4", "no fixed-width window slice", "", fmt.Sprintf("%d string/byte slice expressions examined, none of the form s[i : i+k]", examined))
	}
	r.Floor("R18.4", "string slice expressions examined", examined, 80)
}

// ---- R18.4b: run-time slice bounds ------------------------------------------------

var indexProducers = map[string]string{
	"MillerSliceAccess":       "validates and clamps both indices against the length it is given",
	"UnaliasArrayLengthIndex": "returns ok=false for an index outside 1..n / -n..-1",
	"UnaliasArrayIndex":       "returns ok=false for an index outside the array",
	"unaliasArrayLengthIndex": "as UnaliasArrayLengthIndex",
}

// fromRegexpIndices: v is an element of the []int / [][]int returned by a
// regexp Find…Index call (in range of the searched string by the API's contract).
func fromRegexpIndices(v ssa.Value, depth int) bool {
	if v == nil || depth > 10 {
		return false
	}
	switch x := v.(type) {
	case *ssa.UnOp:
		if x.Op == token.MUL {
			return fromRegexpIndices(x.X, depth+1)
		}
	case *ssa.IndexAddr:
		return fromRegexpIndices(x.X, depth+1)
	case *ssa.Index:
		return fromRegexpIndices(x.X, depth+1)
	case *ssa.Extract:
		return fromRegexpIndices(x.Tuple, depth+1)
	case *ssa.Next:
		return fromRegexpIndices(x.Iter, depth+1)
	case *ssa.Range:
		return fromRegexpIndices(x.X, depth+1)
	case *ssa.Phi:
		for _, e := range x.Edges {
			if _, isC := e.(*ssa.Const); isC {
				continue
			}
			if !fromRegexpIndices(e, depth+1) {
				return false
			}
		}
		return true
	case *ssa.Slice:
		return fromRegexpIndices(x.X, depth+1)
	case *ssa.Call:
		n := CalleeName(&x.Call)
		return strings.HasPrefix(n, "regexp.Regexp.Find") && strings.Contains(n, "Index")
	case *ssa.Parameter:
		// a matrix of regexp indices handed down (e.g. replacementCaptureMatrix, matrix [][]int)
		t := x.Type().String()
		return t == "[][]int" || t == "[]int"
	}
	return false
}

// trustedBound: the bound is in range of x by construction.
func trustedBound(v ssa.Value, x ssa.Value, depth int) (bool, string) {
	if v == nil {
		return true, "absent"
	}
	if depth > 8 {
		return false, ""
	}
	if _, ok := v.(*ssa.Const); ok {
		return true, "constant"
	}
	if boundFromSearch(v, x, 0) {
		return true, "len / search in the sliced value"
	}
	if fromRegexpIndices(v, 0) {
		return true, "regexp match indices"
	}
	switch t := v.(type) {
	case *ssa.Extract:
		if call, ok := t.Tuple.(*ssa.Call); ok {
			if _, ok := indexProducers[shortCallee(&call.Call)]; ok {
				return true, "validated by " + shortCallee(&call.Call)
			}
		}
	case *ssa.BinOp:
		if t.Op == token.ADD || t.Op == token.SUB {
			if _, rc := t.Y.(*ssa.Const); rc {
				return trustedBound(t.X, x, depth+1)
			}
			if _, lc := t.X.(*ssa.Const); lc {
				return trustedBound(t.Y, x, depth+1)
			}
		}
	case *ssa.Phi:
		why := ""
		for _, e := range t.Edges {
			ok, w := trustedBound(e, x, depth+1)
			if !ok {
				return false, ""
			}
			why = w
		}
		return true, why
	case *ssa.Convert:
		return trustedBound(t.X, x, depth+1)
	}
	return false, ""
}

var sliceBoundOK = map[string]string{}

func c18SliceBounds(c *Ctx, r *Report) {
	r.Rule("R18.4b", "run-time slice bounds are justified: in the built-in functions, library string helpers, scanners and the value model, every slice expression on a string / byte / rune / value slice has bounds that are constants, derived from the length of or a search in the sliced value, regexp match indices, or the results of the index validators (MillerSliceAccess, UnaliasArrayLengthIndex); any other bound (e.g. a user-supplied integer) is reached only after a test that mentions the length of the very value being sliced")
	r.Rule("R18.4c", "slab cursors are refilled before use: an element access slab[cursor] where slab and cursor are fields of one object and the cursor is advanced in the same function is preceded by a test that mentions len(slab)")
	n, nb, nc := 0, 0, 0
	for fn := range c.AllFunctions() {
		if !IsModuleFunc(fn) || fn.Blocks == nil || fn.Pkg == nil {
			continue
		}
		pp := fn.Pkg.Pkg.Path()
		if !(strings.HasSuffix(pp, "/pkg/pbnjay-strptime") || strings.HasSuffix(pp, "/pkg/lib") || strings.HasSuffix(pp, "/pkg/scan") || strings.HasSuffix(pp, "/pkg/bifs") || strings.HasSuffix(pp, "/pkg/dkvpx") || strings.HasSuffix(pp, "/pkg/input") || strings.HasSuffix(pp, "/pkg/mlrval")) {
			continue
		}
		k, kc := 0, 0
		for _, b := range fn.Blocks {
			for _, in := range b.Instrs {
				switch sl := in.(type) {
				case *ssa.Slice:
					n++
					for bi, bd := range []ssa.Value{sl.Low, sl.High} {
						ok, _ := trustedBound(bd, sl.X, 0)
						// a positive constant *upper* bound (s[:7], s[i:7]) is in range only of an array of
						// known size: for a string or slice it needs a length test like any other bound.
						// (A constant lower bound, s[1:], usually follows an idiom — s[0] was just read,
						// s != "" — that this rule does not model; it is not checked.)
						if k, isK := bd.(*ssa.Const); isK && bi == 1 {
							if n, isInt := constInt(k); isInt && n > 0 {
								t := sl.X.Type()
								if p, isP := t.Underlying().(*types.Pointer); isP {
									t = p.Elem()
								}
								if _, isArr := t.Underlying().(*types.Array); !isArr {
									ok = false
								}
							}
						}
						if ok {
							continue
						}
						nb++
						k++
						key := fmt.Sprintf("%s: slice bound #%d", SSAName(fn), k)
						if why, ok := sliceBoundOK[key]; ok {
							r.OK("R18.4b", key, c.Rel(sl.Pos()), "frozen: "+why)
							continue
						}
						if os.Getenv("MLRLINT_DEBUG_BOUNDS") != "" {
							fmt.Fprintf(os.Stderr, "BOUND %s %s bound=%s\n", key, c.Rel(sl.Pos()), bd.String())
						}
						r.Check(lenTested(b, sl.X), "R18.4b", key, c.Rel(sl.Pos()), "bound "+bd.Name()+" is length-tested",
							fmt.Sprintf("%s slices with the run-time bound %s, which is neither derived from the sliced value nor produced by an index validator, and no test on the way mentions the length of the value being sliced: a bound beyond its length makes the process panic", SSAName(fn), bd.String()))
					}
				case *ssa.IndexAddr:
					// slab[cursor]: both fields of one object, cursor stored in this function
					ld, ok := sl.Index.(*ssa.UnOp)
					if !ok || ld.Op != token.MUL {
						continue
					}
					cf, ok := ld.X.(*ssa.FieldAddr)
					if !ok {
						continue
					}
					xl, ok := sl.X.(*ssa.UnOp)
					if !ok || xl.Op != token.MUL {
						continue
					}
					sf, ok := xl.X.(*ssa.FieldAddr)
					if !ok || sf.X != cf.X {
						continue
					}
					stored := false
					for _, b2 := range fn.Blocks {
						for _, in2 := range b2.Instrs {
							if st, ok := in2.(*ssa.Store); ok {
								if fa, ok := st.Addr.(*ssa.FieldAddr); ok && fa.X == cf.X && fa.Field == cf.Field {
									stored = true
								}
							}
						}
					}
					if !stored {
						continue
					}
					nc++
					kc++
					key := fmt.Sprintf("%s: slab access #%d", SSAName(fn), kc)
					r.Check(lenTested(b, xl), "R18.4c", key, c.Rel(sl.Pos()), "after a refill test",
						fmt.Sprintf("%s takes slab[cursor] and advances the cursor with no test of the cursor against the slab's length on the way: when the slab is used up the access panics with 'index out of range'", SSAName(fn)))
				}
			}
		}
	}
	r.Floor("R18.4b", "slice expressions examined", n, 150)
	r.Floor("R18.4b", "run-time bounds needing a length test", nb, 1)
	r.Floor("R18.4c", "slab cursor accesses", nc, 2)
}
