package main

// R07.9: no integer result is produced by converting an int64 to float64 and
// the (transformed) float back to int64 without a magnitude guard.

import (
	"fmt"
	"go/token"
	"go/types"
	"strings"

	"golang.org/x/tools/go/ssa"
)

func isInt64(t types.Type) bool {
	b, ok := t.Underlying().(*types.Basic)
	return ok && (b.Kind() == types.Int64 || b.Kind() == types.Int)
}
func isFloat64(t types.Type) bool {
	b, ok := t.Underlying().(*types.Basic)
	return ok && b.Kind() == types.Float64
}

// floatFromInt: does float value v derive from a Convert(int64→float64)? Returns the int source.
func floatFromInt(v ssa.Value, seen map[ssa.Value]bool, depth int) ssa.Value {
	if v == nil || seen[v] || depth > 10 {
		return nil
	}
	seen[v] = true
	switch x := v.(type) {
	case *ssa.Convert:
		if isFloat64(x.Type()) && isInt64(x.X.Type()) {
			return x.X
		}
		return floatFromInt(x.X, seen, depth+1)
	case *ssa.Call:
		for _, a := range x.Call.Args {
			if isFloat64(a.Type()) {
				if s := floatFromInt(a, seen, depth+1); s != nil {
					return s
				}
			}
		}
	case *ssa.BinOp:
		if s := floatFromInt(x.X, seen, depth+1); s != nil {
			return s
		}
		return floatFromInt(x.Y, seen, depth+1)
	case *ssa.UnOp:
		return floatFromInt(x.X, seen, depth+1)
	case *ssa.Phi:
		for _, e := range x.Edges {
			if s := floatFromInt(e, seen, depth+1); s != nil {
				return s
			}
		}
	case *ssa.Extract:
		return floatFromInt(x.Tuple, seen, depth+1)
	}
	return nil
}

// magnitudeGuarded: the block is dominated by a comparison of src (or of the
// float being converted) with a constant or with a converted copy of itself.
func magnitudeGuarded(b *ssa.BasicBlock, src ssa.Value, fl ssa.Value) bool {
	// every test on the way: the terminators of all dominators (a guarded
	// early return leaves the conversion at the join, not inside a branch)
	var conds []ssa.Value
	for d := b.Idom(); d != nil; d = d.Idom() {
		if iff, ok := d.Instrs[len(d.Instrs)-1].(*ssa.If); ok {
			c, _ := stripNot(iff.Cond, true)
			conds = append(conds, c)
		}
	}
	for _, cnd := range conds {
		bo, ok := cnd.(*ssa.BinOp)
		if !ok {
			continue
		}
		switch bo.Op {
		case token.LSS, token.LEQ, token.GTR, token.GEQ, token.EQL, token.NEQ:
		default:
			continue
		}
		for _, side := range []ssa.Value{bo.X, bo.Y} {
			if side == src || side == fl {
				return true
			}
			if cv, ok := side.(*ssa.Convert); ok && (cv.X == src || cv.X == fl) {
				return true
			}
		}
	}
	return false
}

// flowsToFromInt: the converted integer becomes the payload of a new int Mlrval.
func flowsToFromInt(v ssa.Value, seen map[ssa.Value]bool, depth int) bool {
	if seen[v] || depth > 6 {
		return false
	}
	seen[v] = true
	refs := v.Referrers()
	if refs == nil {
		return false
	}
	for _, ref := range *refs {
		switch x := ref.(type) {
		case *ssa.Call:
			n := CalleeName(&x.Call)
			if strings.HasSuffix(n, ".FromInt") || strings.HasSuffix(n, ".SetFromInt") {
				return true
			}
		case *ssa.Phi:
			if flowsToFromInt(x, seen, depth+1) {
				return true
			}
		case *ssa.BinOp:
			if isInt64(x.Type()) && flowsToFromInt(x, seen, depth+1) {
				return true
			}
		case *ssa.Convert:
			if isInt64(x.Type()) && flowsToFromInt(x, seen, depth+1) {
				return true
			}
		}
	}
	return false
}

var roundTripOK = map[string]string{
	"pkg/bifs.BIF_urandint": "a uniform random draw scaled to the range: beyond 2^53 only the granularity of the draw suffers, there is no exact value to preserve",
}

// anyIntGuard: some dominating comparison involves one of the int operands the float was computed from.
func anyIntGuard(b *ssa.BasicBlock, fl ssa.Value) bool {
	srcs := map[ssa.Value]bool{}
	var walk func(v ssa.Value, d int)
	walk = func(v ssa.Value, d int) {
		if v == nil || d > 10 {
			return
		}
		switch x := v.(type) {
		case *ssa.Convert:
			if isFloat64(x.Type()) && isInt64(x.X.Type()) {
				srcs[x.X] = true
				return
			}
			walk(x.X, d+1)
		case *ssa.Call:
			for _, a := range x.Call.Args {
				walk(a, d+1)
			}
		case *ssa.BinOp:
			walk(x.X, d+1)
			walk(x.Y, d+1)
		case *ssa.UnOp:
			walk(x.X, d+1)
		case *ssa.Extract:
			walk(x.Tuple, d+1)
		}
	}
	walk(fl, 0)
	for s := range srcs {
		if magnitudeGuarded(b, s, fl) {
			return true
		}
	}
	return false
}

func c07RoundTrips(c *Ctx, r *Report) {
	r.Rule("R07.9", "no lossy int→float→int round trip: in the arithmetic and math kernels, an int64 obtained by converting a float64 that was itself computed from float64(an int64 operand) and that becomes the payload of an int value, is produced only under some test of an operand or of the float (a float64 holds integers exactly only up to 2^53, and the conversion back wraps at 2^63). The absence of any test is decided to be lossy; whether a test that is present is the right one is value-level and is not decided")
	n := 0
	for fn := range c.AllFunctions() {
		if !IsModuleFunc(fn) || fn.Blocks == nil || fn.Pkg == nil {
			continue
		}
		pp := fn.Pkg.Pkg.Path()
		if !strings.HasSuffix(pp, "/pkg/bifs") {
			continue
		}
		k := 0
		for _, b := range fn.Blocks {
			for _, in := range b.Instrs {
				cv, ok := in.(*ssa.Convert)
				if !ok || !isInt64(cv.Type()) || !isFloat64(cv.X.Type()) {
					continue
				}
				src := floatFromInt(cv.X, map[ssa.Value]bool{}, 0)
				if src == nil || !flowsToFromInt(cv, map[ssa.Value]bool{}, 0) {
					continue
				}
				n++
				k++
				key := fmt.Sprintf("%s: int(float(int)) #%d", SSAName(fn), k)
				if why, ok := roundTripOK[SSAName(fn)]; ok {
					r.OK("R07.9", key, c.Rel(cv.Pos()), "frozen exception: "+why)
					continue
				}
				r.Check(magnitudeGuarded(b, src, cv.X) || anyIntGuard(b, cv.X) || roundTripTested(cv), "R07.9", key, c.Rel(cv.Pos()), "under a magnitude test",
					fmt.Sprintf("%s converts an integer operand to float64, computes on it and converts the result back to an integer with no test of its magnitude: beyond 2^53 the result is rounded, and at 2^63 the conversion wraps", SSAName(fn)))
			}
		}
	}
	r.Floor("R07.9", "int→float→int conversions in pkg/bifs", n, 1)
}

// R07.9b: an int value read through a numeric-to-float accessor and converted
// back to an integer.
func c07NumericToFloatBack(c *Ctx, r *Report) {
	r.Rule("R07.9b", "an integer is not read as a float and converted back: where the result of (*Mlrval).GetNumericToFloatValue (which converts an int payload to float64) is converted to an integer type, the int case has been handled separately on the way (a dominating test fed by GetIntValue / IsInt / Type() on the same value) — otherwise integers beyond 2^53 are rounded (fmtnum %d, integer-valued verbs)")
	n := 0
	for _, fn := range c.ModuleFunctions() {
		if fn.Pkg == nil {
			continue
		}
		pp := fn.Pkg.Pkg.Path()
		if !(strings.HasSuffix(pp, "/pkg/mlrval") || strings.HasSuffix(pp, "/pkg/bifs") || strings.Contains(pp, "/pkg/transformers")) {
			continue
		}
		k := 0
		for _, b := range fn.Blocks {
			for _, in := range b.Instrs {
				cv, ok := in.(*ssa.Convert)
				if !ok || !isFloat64(cv.X.Type()) {
					continue
				}
				if bt, ok := cv.Type().Underlying().(*types.Basic); !ok || bt.Info()&types.IsInteger == 0 {
					continue
				}
				ex, ok := cv.X.(*ssa.Extract)
				if !ok {
					continue
				}
				call, ok := ex.Tuple.(*ssa.Call)
				if !ok || !strings.HasSuffix(CalleeName(&call.Call), ".GetNumericToFloatValue") || len(call.Call.Args) == 0 {
					continue
				}
				mv := call.Call.Args[0]
				n++
				k++
				key := fmt.Sprintf("%s: int(numeric-to-float) #%d", SSAName(fn), k)
				handled := false
				for d := b.Idom(); d != nil; d = d.Idom() {
					iff, ok := d.Instrs[len(d.Instrs)-1].(*ssa.If)
					if !ok {
						continue
					}
					cond, _ := stripNot(iff.Cond, true)
					var src ssa.Value = cond
					if e2, ok := cond.(*ssa.Extract); ok {
						src = e2.Tuple
					}
					if bo, ok := cond.(*ssa.BinOp); ok {
						src = bo.X
					}
					if c2, ok := src.(*ssa.Call); ok && len(c2.Call.Args) > 0 && c2.Call.Args[0] == mv {
						nm := CalleeName(&c2.Call)
						if strings.HasSuffix(nm, ".GetIntValue") || strings.HasSuffix(nm, ".IsInt") || strings.HasSuffix(nm, ".Type") || strings.HasSuffix(nm, ".IsFloat") || strings.HasSuffix(nm, ".GetFloatValue") {
							handled = true
						}
					}
				}
				r.Check(handled, "R07.9b", key, c.Rel(cv.Pos()), "the int case is handled separately",
					fmt.Sprintf("%s converts the float64 result of GetNumericToFloatValue back to an integer without having treated integers separately: an int payload beyond 2^53 is rounded on the way", SSAName(fn)))
			}
		}
	}
	if n == 0 {
		r.OK("R07.9b", "no int(GetNumericToFloatValue()) conversion", "", "none in pkg/mlrval, pkg/bifs, pkg/transformers")
	}
}

// roundTripTested: the integer made from the float reaches FromInt only where
// float64(integer) == float has been found true — the conversion lost nothing
// (and did not wrap: float64(int64(2^63)) is -2^63).
func roundTripTested(cv *ssa.Convert) bool {
	if cv.Referrers() == nil {
		return false
	}
	var tests []*ssa.BinOp
	for _, ref := range *cv.Referrers() {
		back, ok := ref.(*ssa.Convert)
		if !ok || !isFloat64(back.Type()) || back.Referrers() == nil {
			continue
		}
		for _, r2 := range *back.Referrers() {
			if cmp, ok := r2.(*ssa.BinOp); ok && cmp.Op == token.EQL && ((cmp.X == ssa.Value(back) && cmp.Y == cv.X) || (cmp.Y == ssa.Value(back) && cmp.X == cv.X)) {
				tests = append(tests, cmp)
			}
		}
	}
	if len(tests) == 0 {
		return false
	}
	n := 0
	for _, ref := range *cv.Referrers() {
		call, ok := ref.(*ssa.Call)
		if !ok {
			continue
		}
		nm := CalleeName(&call.Call)
		if !(strings.HasSuffix(nm, ".FromInt") || strings.HasSuffix(nm, ".SetFromInt")) {
			continue
		}
		n++
		ok2 := false
		for _, g := range GuardsAt(call.Block()) {
			for _, t := range tests {
				if g.Cond == ssa.Value(t) && g.Polarity {
					ok2 = true
				}
			}
		}
		if !ok2 {
			return false
		}
	}
	return n > 0
}
