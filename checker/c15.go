package main

// C15 — registry and wrapper agreement: the name a user types reaches the
// implementation of that name.

import (
	"fmt"
	"go/token"
	"os"
	"sort"
	"strings"

	"golang.org/x/tools/go/ssa"
)

func init() { register("C15", true, runC15) }

func runC15(c *Ctx, r *Report) {
	r.Explanation = "UTF-8 index arithmetic, regex and capture semantics, printf rendering, digests' values and the inverse-pair laws are value-level and are not decided. Decided is only registry and wrapper agreement — that the name a user types reaches the implementation of that name: every entry of the 266-row built-in function table points at the function whose own name, normalised, is the entry's name (operators and a short alias list frozen in the checker), two entries share an implementation only when listed as aliases; the verbs that wrap functions (sub/gsub/ssub, clean-whitespace, sec2gmt, sec2gmtdate, utf8-to-latin1, latin1-to-utf8, format-values, case) reach the function of the same name (or the same library routine the function uses) and none of its siblings, and guard it with a kind test that is not narrower than the function's own domain; each digest function calls the crypto package of its own name and hex-encodes the whole sum; each math-library function passes the math routine of its own name, through the int-preserving vector exactly for abs/ceil/floor/round/sgn; every run-time regex is compiled through the one entry point that implements the \"...\"i form."
	r.NotDecided = "everything value-level in the statement: character counting, index bounds, regex/capture results, printf rendering, inverse pairs, digest values. This is a thin claim; it exists because a swapped function pointer in a 2 900-line registry is invisible to every other check."
	reg, msg := c.BIFRegistry()
	if msg != "" {
		r.Undecided("R15.0", "registry", "", msg)
		return
	}
	if os.Getenv("MLRLINT_DEBUG") != "" {
		for _, e := range reg {
			var fs []string
			for k, f := range e.Funcs {
				fs = append(fs, k+"="+f.Name())
			}
			sort.Strings(fs)
			fmt.Fprintf(os.Stderr, "REG %s [%s] %v\n", e.Name, e.Class, fs)
		}
	}
	c15Names(c, r, reg)
	c15Wrappers(c, r)
	c15Digests(c, r, reg)
	c15Math(c, r, reg)
	c15Regex(c, r)
	c15FormatterVerbs(c, r)
	c15ByteOffsets(c, r)
}

// ---- R15.1 -------------------------------------------------------------------
var bifNameAliases = map[string]string{
	"+": "plus", "-": "minus", "*": "times", "/": "divide", "//": "intdivide", "**": "pow",
	".+": "dotplus", ".-": "dotminus", ".*": "dottimes", "./": "dotdivide", "%": "modulus",
	"~": "bitwisenot", "&": "bitwiseand", "|": "bitwiseor", "^": "bitwisexor",
	"<<": "leftshift", ">>": "signedrightshift", ">>>": "unsignedrightshift",
	"!": "logicalnot", "==": "equals", "!=": "notequals", ">": "greaterthan", ">=": "greaterthanorequals",
	"<=>": "cmp", "<": "lessthan", "<=": "lessthanorequals",
	"=~": "stringmatchesregexp", "!=~": "stringdoesnotmatchregexp",
	"&&": "binaryshortcircuitplaceholder", "||": "binaryshortcircuitplaceholder", "??": "binaryshortcircuitplaceholder", "???": "binaryshortcircuitplaceholder",
	"?:": "ternaryshortcircuitplaceholder", "^^": "logicalxor", ".": "dot",
	"madd": "modadd", "msub": "modsub", "mmul": "modmul", "mexp": "modexp",
	"substr0": "substr0up", "substr1": "substr1up", "substr": "substr0up",
}

// entries allowed to share one implementation
var bifSharedImpl = map[string]string{
	"BIF_pow":                        "** and pow are documented synonyms",
	"BIF_substr_0_up":                "substr is the documented alias of substr0",
	"BinaryShortCircuitPlaceholder":  "&&, ||, ??, ??? are evaluated by dedicated short-circuit nodes; the table entry is a placeholder",
	"TernaryShortCircuitPlaceholder": "?: likewise",
}

func normBIFName(s string) string {
	return strings.ToLower(strings.ReplaceAll(s, "_", ""))
}

func normImplName(fn string) string {
	s := strings.TrimPrefix(fn, "BIF_")
	for _, suf := range []string{"_unary", "_binary", "_ternary", "_variadic", "_with_options", "_with_base", "HOF"} {
		s = strings.TrimSuffix(s, suf)
	}
	return normBIFName(s)
}

func c15Names(c *Ctx, r *Report, reg []*BIFEntry) {
	r.Rule("R15.1", "name ↔ implementation: for every entry of the built-in function table and every function slot it fills, the function's own name (without BIF_ and the arity / _with_options / _variadic / HOF suffix, case and underscores dropped) is the entry's name; operators and eight renamed functions come from a frozen alias table; the slot matches an arity suffix (unaryFunc never holds a *_binary function)")
	r.Rule("R15.1b", "two entries never share one implementation unless documented as aliases")
	n := 0
	impl := map[string][]string{}
	for _, e := range reg {
		want := normBIFName(e.Name)
		if a, ok := bifNameAliases[e.Name]; ok {
			want = a
		}
		for _, slot := range sortedFuncSlots(e) {
			f := e.Funcs[slot]
			n++
			got := normImplName(f.Name())
			key := fmt.Sprintf("%s (%s)", e.Name, slot)
			r.Check(got == want, "R15.1", key, c.Rel(e.Pos), f.Name(),
				fmt.Sprintf("the function table maps %q (%s) to %s, whose name says it implements %q: calling %s runs a different function", e.Name, slot, f.Name(), got, e.Name))
			// slot ↔ suffix
			for suf, okSlots := range map[string][]string{"_unary": {"unaryFunc", "unaryFuncWithContext"}, "_binary": {"binaryFunc", "regexCaptureBinaryFunc", "binaryFuncWithState"}, "_ternary": {"ternaryFunc", "ternaryFuncWithState"}, "_variadic": {"variadicFunc", "variadicFuncWithState"}} {
				if strings.HasSuffix(f.Name(), suf) {
					found := false
					for _, s := range okSlots {
						if s == slot {
							found = true
						}
					}
					r.Check(found, "R15.1", key+" slot", c.Rel(e.Pos), slot, fmt.Sprintf("%s is stored in slot %s of %q", f.Name(), slot, e.Name))
				}
			}
			impl[f.Name()] = append(impl[f.Name()], e.Name)
		}
		for slot := range e.FuncLits {
			r.Undecided("R15.1", fmt.Sprintf("%s (%s)", e.Name, slot), c.Rel(e.Pos), "slot holds something that is not a named function")
		}
	}
	r.Floor("R15.1", "function slots", n, 280)
	var names []string
	for k := range impl {
		names = append(names, k)
	}
	sort.Strings(names)
	for _, fn := range names {
		users := uniqStrings(impl[fn])
		if len(users) < 2 {
			continue
		}
		why, ok := bifSharedImpl[fn]
		r.Check(ok, "R15.1b", fn+" shared by "+strings.Join(users, ", "), "pkg/dsl/cst/builtin_function_manager.go", "frozen: "+why,
			fmt.Sprintf("%s is registered under %v, which are not documented synonyms: one of the names runs the wrong function", fn, users))
	}
}

func sortedFuncSlots(e *BIFEntry) []string {
	var ks []string
	for k := range e.Funcs {
		ks = append(ks, k)
	}
	sort.Strings(ks)
	return ks
}

// ---- R15.2 wrappers -------------------------------------------------------------

// staticReach: functions reachable through static calls and function-value
// references (no interface dispatch, no method-set expansion).
func staticReach(c *Ctx, root *ssa.Function) map[*ssa.Function]bool {
	u := &OptUse{c: c, loads: nil, reach: map[*ssa.Function]map[*ssa.Function]bool{}}
	return u.reachFromFiltered(root, func(string) bool { return false })
}

func namesWithPrefix(fns map[*ssa.Function]bool, pkgSuffix, prefix string) []string {
	var out []string
	for fn := range fns {
		if fn.Pkg == nil || !strings.HasSuffix(fn.Pkg.Pkg.Path(), pkgSuffix) {
			continue
		}
		if strings.HasPrefix(fn.Name(), prefix) {
			out = append(out, fn.Name())
		}
	}
	sort.Strings(out)
	return out
}

func containsStr(xs []string, s string) bool {
	for _, x := range xs {
		if x == s {
			return true
		}
	}
	return false
}

func c15Wrappers(c *Ctx, r *Report) {
	r.Rule("R15.2", "wrapper verbs reach the function of the same name and none of its siblings: sub→BIF_sub (not gsub/ssub), gsub→BIF_gsub, ssub→BIF_ssub, clean-whitespace→BIF_clean_whitespace, sec2gmtdate→BIF_sec2gmtdate; sec2gmt, utf8-to-latin1, latin1-to-utf8 and format-values reach the same library routine as the function of that name (lib.Sec2GMT, lib.TryUTF8ToLatin1, lib.TryLatin1ToUTF8, mlrval.GetFormatter)")
	type wr struct {
		verb, ctorPkg, ctor string
		family              []string // sibling set among which exactly `own` must be reached
		own                 string
	}
	subs := []string{"BIF_sub", "BIF_gsub", "BIF_ssub", "BIF_gssub"}
	for _, w := range []wr{
		{"sub", "pkg/transformers", "NewTransformerSub", subs, "BIF_sub"},
		{"gsub", "pkg/transformers", "NewTransformerGsub", subs, "BIF_gsub"},
		{"ssub", "pkg/transformers", "NewTransformerSsub", subs, "BIF_ssub"},
	} {
		fn := c.SSAFunc(c.LookupFunc(w.ctorPkg, w.ctor))
		if fn == nil {
			r.Undecided("R15.2", "verb "+w.verb, "", w.ctor+" not found")
			continue
		}
		got := namesWithPrefix(staticReach(c, fn), "/pkg/bifs", "BIF_")
		var fam []string
		for _, g := range got {
			if containsStr(w.family, g) {
				fam = append(fam, g)
			}
		}
		r.Check(len(fam) == 1 && fam[0] == w.own, "R15.2", "verb "+w.verb, c.Rel(fn.Pos()), w.own,
			fmt.Sprintf("the %s verb's constructor reaches %v of the sub/gsub/ssub family; it must reach exactly %s — the verb is documented as that function applied per field", w.verb, fam, w.own))
	}
	// verbs whose Transform-side code calls the BIF directly: all functions of the verb's file
	for _, w := range []struct{ verb, file, own, prefix string }{
		{"clean-whitespace", "clean_whitespace.go", "BIF_clean_whitespace", "BIF_"},
		{"sec2gmtdate", "sec2gmtdate.go", "BIF_sec2gmtdate", "BIF_"},
	} {
		seen := map[string]bool{}
		for _, fn := range funcsInFile(c, "pkg/transformers", w.file) {
			for _, b := range fn.Blocks {
				for _, in := range b.Instrs {
					if call, ok := in.(ssa.CallInstruction); ok {
						if sc := call.Common().StaticCallee(); sc != nil && sc.Pkg != nil && strings.HasSuffix(sc.Pkg.Pkg.Path(), "/pkg/bifs") && strings.HasPrefix(sc.Name(), w.prefix) {
							seen[sc.Name()] = true
						}
					}
				}
			}
		}
		got := sortedKeysB(seen)
		r.Check(len(got) == 1 && got[0] == w.own, "R15.2", "verb "+w.verb, "pkg/transformers/"+w.file, w.own,
			fmt.Sprintf("the %s verb calls %v; it must call exactly %s", w.verb, got, w.own))
	}
	// verbs and functions that share a library routine
	rsW := NewRetSum(c)
	for _, w := range []struct {
		verb, file string
		bifs       []string
		libPkg     string
		routine    string
	}{
		{"sec2gmt", "sec2gmt.go", []string{"BIF_sec2gmt_unary", "BIF_sec2gmt_binary"}, "pkg/lib", "Sec2GMT"},
		{"utf8-to-latin1", "utf8_to_latin1.go", []string{"BIF_utf8_to_latin1"}, "pkg/lib", "TryUTF8ToLatin1"},
		{"latin1-to-utf8", "latin1_to_utf8.go", []string{"BIF_latin1_to_utf8"}, "pkg/lib", "TryLatin1ToUTF8"},
		{"format-values", "format_values.go", []string{"BIF_fmtnum", "BIF_fmtifnum"}, "pkg/mlrval", "GetFormatter"},
	} {
		target := c.SSAFunc(c.LookupFunc(w.libPkg, w.routine))
		if target == nil {
			r.Undecided("R15.2", "verb "+w.verb, "", w.routine+" not found")
			continue
		}
		verbReaches := false
		for _, fn := range funcsInFile(c, "pkg/transformers", w.file) {
			if staticReach(c, fn)[target] {
				verbReaches = true
			}
		}
		r.Check(verbReaches, "R15.2", "verb "+w.verb+" → "+w.routine, "pkg/transformers/"+w.file, "reaches "+w.routine,
			fmt.Sprintf("the %s verb does not reach %s.%s, the routine the function of the same name is built on", w.verb, w.libPkg, w.routine))
		for _, b := range w.bifs {
			bf := c.SSAFunc(c.LookupFunc("pkg/bifs", b))
			if bf == nil {
				r.Undecided("R15.2", b+" → "+w.routine, "", b+" not found")
				continue
			}
			reached := staticReach(c, bf)[target]
			for _, t := range rsW.DispatchTablesOf(bf, 2) {
				for _, row := range t.Cells {
					for _, cell := range row {
						if cf := c.SSAFunc(cell); cf != nil && staticReach(c, cf)[target] {
							reached = true
						}
					}
				}
			}
			r.Check(reached, "R15.2", b+" → "+w.routine, c.Rel(bf.Pos()), "reaches "+w.routine,
				fmt.Sprintf("%s does not reach %s.%s while the %s verb does: verb and function are built on different routines", b, w.libPkg, w.routine, w.verb))
		}
	}

	// R15.2b guard domain
	r.Rule("R15.2b", "a wrapper's kind guard is not narrower than the wrapped function's domain: for every kind of the first argument on which BIF_sub/BIF_gsub/BIF_ssub produce a non-error result that is not simply their argument, the verb-side wrapper (safe_sub …) calls the function rather than returning its input unchanged")
	rs := NewRetSum(c)
	ke := NewKindEval(c, rs)
	for _, pr := range [][2]string{{"safe_sub", "BIF_sub"}, {"safe_gsub", "BIF_gsub"}, {"safe_ssub", "BIF_ssub"}} {
		wf := c.SSAFunc(c.LookupFunc("pkg/transformers", pr[0]))
		bf := c.SSAFunc(c.LookupFunc("pkg/bifs", pr[1]))
		if wf == nil || bf == nil {
			r.Undecided("R15.2b", pr[0], "", "function not found")
			continue
		}
		for _, kv := range AllKindVariants(true) {
			args := []AV{{T: 'm', MK: kv.Kind, Pend: kv.Pend}, {T: 'm', MK: K_STRING}, {T: 'm', MK: K_STRING}}
			rb := ke.Eval(bf, args)
			rw := ke.Eval(wf, args)
			key := fmt.Sprintf("%s on %s", pr[0], kv)
			if rb.Bailed || rw.Bailed || len(rb.Results) == 0 || len(rw.Results) == 0 {
				r.Undecided("R15.2b", key, c.Rel(wf.Pos()), "kind evaluation gave up")
				continue
			}
			bt, wt := rb.Results[0].Toks, rw.Results[0].Toks
			if os.Getenv("MLRLINT_DEBUG") != "" {
				fmt.Fprintf(os.Stderr, "GUARD %s %s: bif=%s mk=%d wrapper=%s mk=%d\n", pr[0], kv, bt, rb.Results[0].MK, wt, rw.Results[0].MK)
			}
			transforms := !bt.Has("ERROR") && !bt.SubsetOf("ARG1", "ABSENT") && len(bt) > 0
			passthru := wt.SubsetOf("ARG1") && len(wt) > 0
			r.Check(!(transforms && passthru), "R15.2b", key, c.Rel(wf.Pos()), fmt.Sprintf("function %s, wrapper %s", bt, wt),
				fmt.Sprintf("%s returns its input unchanged for a %s value, while %s accepts it and computes a result (%s): the verb silently skips fields the function of the same name would change", pr[0], kv, pr[1], bt))
		}
	}

	// R15.2c case verb
	r.Rule("R15.2c", "the case verb and the toupper/tolower functions use the same case mapper (both strings.ToUpper/ToLower or both golang.org/x/text/cases)")
	ct := c.SSAFunc(c.LookupFunc("pkg/transformers", "NewTransformerCase"))
	if ct == nil {
		r.Undecided("R15.2c", "case verb", "", "NewTransformerCase not found")
		return
	}
	mapperOf := func(fn *ssa.Function) []string {
		seen := map[string]bool{}
		for f := range map[*ssa.Function]bool{fn: true} {
			for _, b := range f.Blocks {
				for _, in := range b.Instrs {
					if call, ok := in.(ssa.CallInstruction); ok {
						n := CalleeName(call.Common())
						if n == "strings.ToUpper" || n == "strings.ToLower" || strings.Contains(n, "text/cases.Upper") || strings.Contains(n, "text/cases.Lower") {
							seen[n] = true
						}
					}
				}
			}
		}
		return sortedKeysB(seen)
	}
	verbM := mapperOf(ct)
	fnM := append(mapperOf(c.SSAFunc(c.LookupFunc("pkg/bifs", "BIF_toupper"))), mapperOf(c.SSAFunc(c.LookupFunc("pkg/bifs", "BIF_tolower")))...)
	lib := func(xs []string) string {
		s := map[string]bool{}
		for _, x := range xs {
			if strings.HasPrefix(x, "strings.") {
				s["strings"] = true
			} else {
				s["x/text/cases"] = true
			}
		}
		return strings.Join(sortedKeysB(s), "+")
	}
	if len(verbM) == 0 || len(fnM) == 0 {
		r.Undecided("R15.2c", "case verb vs toupper/tolower", c.Rel(ct.Pos()), fmt.Sprintf("mapper calls not found (verb %v, functions %v)", verbM, fnM))
		return
	}
	r.Check(lib(verbM) == lib(fnM), "R15.2c", "case verb vs toupper/tolower", c.Rel(ct.Pos()), lib(verbM),
		fmt.Sprintf("the case verb upper/lower-cases with %s (%v) while toupper/tolower use %s (%v): they differ on ß (SS vs ß) and on final sigma, so 'case -u/-l' is not the function applied per field", lib(verbM), verbM, lib(fnM), fnM))
}

// ---- R15.3 digests -----------------------------------------------------------------
func c15Digests(c *Ctx, r *Report, reg []*BIFEntry) {
	r.Rule("R15.3", "digests: md5, sha1, sha256, sha512 (and crc32) each call the Sum function of the crypto/hash package of their own name on the payload and format the whole result with %x / hex.EncodeToString")
	want := map[string]string{"md5": "crypto/md5.Sum", "sha1": "crypto/sha1.Sum", "sha256": "crypto/sha256.Sum256", "sha512": "crypto/sha512.Sum512", "crc32": "hash/crc32.ChecksumIEEE"}
	n := 0
	for _, e := range reg {
		w, ok := want[e.Name]
		if !ok {
			continue
		}
		f := e.Funcs["unaryFunc"]
		fn := c.SSAFunc(f)
		if fn == nil {
			r.Undecided("R15.3", e.Name, c.Rel(e.Pos), "implementation not found")
			continue
		}
		n++
		var sums []string
		hexed := false
		for _, b := range fn.Blocks {
			for _, in := range b.Instrs {
				call, ok := in.(*ssa.Call)
				if !ok {
					continue
				}
				name := CalleeName(&call.Call)
				if strings.HasPrefix(name, "crypto/") || strings.HasPrefix(name, "hash/") {
					sums = append(sums, name)
				}
				if name == "fmt.Sprintf" {
					if s, ok := constString(call.Call.Args[0]); ok && (s == "%x" || s == "%08x") {
						hexed = true
					}
				}
				if name == "encoding/hex.EncodeToString" {
					hexed = true
				}
			}
		}
		r.Check(len(sums) == 1 && sums[0] == w && hexed, "R15.3", e.Name, c.Rel(fn.Pos()), w+" + hex",
			fmt.Sprintf("%s calls %v (hex formatting of the whole sum: %v); the standard digest of that name is %s", f.Name(), sums, hexed, w))
	}
	r.Floor("R15.3", "digest functions", n, 4)
}

// ---- R15.5 math wiring ------------------------------------------------------------------
func c15Math(c *Ctx, r *Report, reg []*BIFEntry) {
	r.Rule("R15.5", "math-library wiring: each function dispatched through the mudispo / imudispo vectors passes the math (or lib) routine whose lower-cased name is the function's registry name, and goes through the int-preserving vector exactly when it is one of abs, ceil, floor, round, sgn")
	intPreserving := map[string]bool{"abs": true, "ceil": true, "floor": true, "round": true, "sgn": true}
	n := 0
	for _, e := range reg {
		f := e.Funcs["unaryFunc"]
		if f == nil || e.Class != "math" {
			continue
		}
		fn := c.SSAFunc(f)
		if fn == nil {
			continue
		}
		for _, b := range fn.Blocks {
			for _, in := range b.Instrs {
				call, ok := in.(*ssa.Call)
				if !ok || call.Call.IsInvoke() || call.Call.StaticCallee() != nil {
					continue
				}
				ld, ok := call.Call.Value.(*ssa.UnOp)
				if !ok {
					continue
				}
				ia, ok := ld.X.(*ssa.IndexAddr)
				if !ok {
					continue
				}
				g, ok := ia.X.(*ssa.Global)
				if !ok || (g.Name() != "mudispo" && g.Name() != "imudispo") {
					continue
				}
				if len(call.Call.Args) < 2 {
					continue
				}
				n++
				routine := ""
				v := call.Call.Args[1]
				for i := 0; i < 3; i++ {
					switch x := v.(type) {
					case *ssa.ChangeType:
						v = x.X
					case *ssa.MakeClosure:
						v = x.Fn
					}
				}
				if rf, ok := v.(*ssa.Function); ok {
					routine = rf.Name()
				}
				key := "math function " + e.Name
				r.Check(strings.ToLower(routine) == e.Name, "R15.5", key, c.Rel(call.Pos()), routine,
					fmt.Sprintf("%s passes the routine %q to the dispatch vector; the function is registered as %q: it computes a different function", f.Name(), routine, e.Name))
				r.Check((g.Name() == "imudispo") == intPreserving[e.Name], "R15.5", key+" vector", c.Rel(call.Pos()), g.Name(),
					fmt.Sprintf("%s dispatches through %s; int-preserving functions (abs ceil floor round sgn) use imudispo and all others mudispo", f.Name(), g.Name()))
			}
		}
	}
	r.Floor("R15.5", "math functions dispatched through the vectors", n, 28)
}

// ---- R15.4 regex entry point -----------------------------------------------------------
var regexCompileOK = map[string]string{
	"pkg/lib.regexpCompileCached": "the cache behind CompileMillerRegex",
	"pkg/transformers.transformerGrepParseCLI": "the grep verb takes a plain Go regex and has its own -i flag; the \"...\"i form is not documented for it",
}

func c15Regex(c *Ctx, r *Report) {
	r.Rule("R15.4", "one regex entry point: every regexp.Compile / MustCompile of a non-constant pattern is inside lib.regexpCompileCached, reached only from CompileMillerRegex — so the \"...\"i case-insensitive form means the same for every function and verb; CompileMillerRegex adds (?i) exactly when it strips a trailing i")
	n := 0
	for fn := range c.AllFunctions() {
		if !IsModuleFunc(fn) || fn.Blocks == nil {
			continue
		}
		if fn.Pkg != nil && strings.Contains(fn.Pkg.Pkg.Path(), "/pkg/parsing") {
			continue
		}
		for _, b := range fn.Blocks {
			for _, in := range b.Instrs {
				call, ok := in.(*ssa.Call)
				if !ok {
					continue
				}
				name := CalleeName(&call.Call)
				if name != "regexp.Compile" && name != "regexp.MustCompile" {
					continue
				}
				if _, isConst := call.Call.Args[0].(*ssa.Const); isConst {
					continue
				}
				n++
				owner := fn
				for owner.Parent() != nil {
					owner = owner.Parent()
				}
				why, ok := regexCompileOK[SSAName(owner)]
				r.Check(ok, "R15.4", SSAName(owner)+" compiles a run-time pattern", c.Rel(call.Pos()), "frozen: "+why,
					fmt.Sprintf("%s compiles a run-time regex with %s directly instead of lib.CompileMillerRegex: the \"...\"i form and the compile cache do not apply there", SSAName(owner), name))
			}
		}
	}
	r.Floor("R15.4", "run-time regex compiles", n, 2)
	// cache has one caller
	cache := c.SSAFunc(c.LookupFunc("pkg/lib", "regexpCompileCached"))
	cm := c.SSAFunc(c.LookupFunc("pkg/lib", "CompileMillerRegex"))
	if cache == nil || cm == nil {
		r.Undecided("R15.4", "CompileMillerRegex", "", "anchors not found")
		return
	}
	var callers []string
	for fn := range c.AllFunctions() {
		if fn.Blocks == nil {
			continue
		}
		for _, b := range fn.Blocks {
			for _, in := range b.Instrs {
				if call, ok := in.(ssa.CallInstruction); ok && call.Common().StaticCallee() == cache && fn != cm {
					callers = append(callers, SSAName(fn))
				}
			}
		}
	}
	r.Check(len(callers) == 0, "R15.4", "regexpCompileCached has one caller", c.Rel(cache.Pos()), "CompileMillerRegex only", fmt.Sprintf("%v call the regex cache directly, bypassing the \"...\"i handling", uniqStrings(callers)))
	// (?i) ⇔ suffix i: each call of the cache whose argument is "(?i)"+… is control-dependent on HasSuffix(…,"\"i") or "/i"
	okI := true
	detail := ""
	for _, b := range cm.Blocks {
		for _, in := range b.Instrs {
			call, ok := in.(*ssa.Call)
			if !ok || call.Call.StaticCallee() != cache {
				continue
			}
			bo, isCat := call.Call.Args[0].(*ssa.BinOp)
			addsI := false
			if isCat && bo.Op == token.ADD {
				if s, ok := constString(bo.X); ok && s == "(?i)" {
					addsI = true
				}
			}
			underI := false
			for _, g := range GuardsAt(b) {
				if gc, ok := g.Cond.(*ssa.Call); ok && g.Polarity && CalleeName(&gc.Call) == "strings.HasSuffix" {
					if s, ok := constString(gc.Call.Args[1]); ok && strings.HasSuffix(s, "i") {
						underI = true
					}
				}
			}
			if addsI != underI {
				okI = false
				detail = c.Rel(call.Pos())
			}
		}
	}
	r.Check(okI, "R15.4", "(?i) added exactly under the i suffix", c.Rel(cm.Pos()), "consistent", "CompileMillerRegex at "+detail+" adds (?i) without a trailing-i test or strips the i without adding (?i)")
}
