package main

// C14 — structural invariants of the interpreter: grammar precedence, frame
// balance, pool clearing, block-exit propagation, typed & copied bindings,
// argument binding order, per-instance state, scope-walk agreement.

import (
	"fmt"
	"go/token"
	"go/types"
	"regexp"
	"sort"
	"strings"

	"golang.org/x/tools/go/ssa"
)

func init() { register("C14", true, runC14) }

func runC14(c *Ctx, r *Report) {
	r.Explanation = "Agreement with a reference interpreter over all programs is not decided. Decided are structural invariants of the interpreter that the listed semantics depend on: the grammar source encodes the documented precedence levels, operators and associativity, and every operator lexeme has an implementation of that arity; every push of a stack frame, frame set or regex-captures frame is popped exactly once on every path (incl. error and break/return paths); pooled frames are cleared before reuse; every loop and block node propagates break/return payloads and errors; every binding of a local goes through the type gate and copy-on-bind (a field invariant of TypeGatedMlrvalVariable.value); arguments are evaluated before and bound after the callee's frame is pushed; the five scope-walk functions agree on visiting every frame down to frame 0; interpreter state written by statements is per instance and reset per record."
	r.NotDecided = "evaluation semantics of expressions and statements, emit splitting, indexing and slicing, function values — everything that needs running programs."
	c14Grammar(c, r)
	c14Frames(c, r)
	c14Pools(c, r)
	c14BlockExits(c, r)
	c14Bindings(c, r)
	c14ArgBinding(c, r)
	c14ScopeWalk(c, r)
	c14PerInstance(c, r)
	c14LoopCycles(c, r)
	c14CallBoundary(c, r)
	c14NoLiveMapWalk(c, r)
	c14KeepCollections(c, r)
	r.Rule("R14.9", "statement-written interpreter state is per record (= R11.6)")
	c11FilterPerRecord2(c, r)
}

// ---- R14.1 -----------------------------------------------------------------
type bnfAlt struct{ syms []string }

func parseBNF(c *Ctx, rel string) (map[string][]bnfAlt, map[string]string, error) {
	b, err := c.ReadRepoFile(rel)
	if err != nil {
		return nil, nil, err
	}
	text := string(b)
	// strip comments
	var lines []string
	for _, l := range strings.Split(text, "\n") {
		q := false
		for i := 0; i < len(l); i++ {
			if q && l[i] == '\\' {
				i++
				continue
			}
			if l[i] == '\'' {
				q = !q
			}
			if l[i] == '#' && !q {
				l = l[:i]
				break
			}
		}
		lines = append(lines, l)
	}
	text = strings.Join(lines, "\n")
	prods := map[string][]bnfAlt{}
	lexemes := map[string]string{}
	// split on ';' at top level (not inside quotes or braces)
	var cur strings.Builder
	depth := 0
	inq := false
	var stmts []string
	for i := 0; i < len(text); i++ {
		ch := text[i]
		if inq && ch == '\\' && i+1 < len(text) {
			cur.WriteByte(ch)
			cur.WriteByte(text[i+1])
			i++
			continue
		}
		switch {
		case ch == '\'' && !inq:
			inq = true
		case ch == '\'' && inq:
			inq = false
		case ch == '{' && !inq:
			depth++
		case ch == '}' && !inq:
			depth--
		}
		if ch == ';' && !inq && depth == 0 {
			stmts = append(stmts, cur.String())
			cur.Reset()
			continue
		}
		cur.WriteByte(ch)
	}
	actionRe := regexp.MustCompile(`(?s)->\s*\{.*?\}\s*`)
	for _, s := range stmts {
		idx := strings.Index(s, "::=")
		if idx < 0 {
			continue
		}
		name := strings.TrimSpace(s[:idx])
		name = strings.TrimPrefix(name, "!")
		body := s[idx+3:]
		if strings.HasPrefix(name, "op_") || (name != "" && name[0] >= 'a' && name[0] <= 'z') {
			// lexer rule: concatenate quoted characters when the rule is a plain sequence of literals
			parts := regexp.MustCompile(`'([^']*)'`).FindAllStringSubmatch(body, -1)
			rest := regexp.MustCompile(`'[^']*'`).ReplaceAllString(body, "")
			if strings.TrimSpace(rest) == "" {
				lx := ""
				for _, p := range parts {
					lx += p[1]
				}
				lexemes[name] = lx
			}
			continue
		}
		body = actionRe.ReplaceAllString(body, " ")
		// alternatives split on top-level '|'
		var alts []bnfAlt
		for _, a := range splitTopLevel(body, '|') {
			f := strings.Fields(a)
			alts = append(alts, bnfAlt{syms: f})
		}
		prods[name] = alts
	}
	return prods, lexemes, nil
}

func splitTopLevel(s string, sep byte) []string {
	var out []string
	var cur strings.Builder
	inq := false
	for i := 0; i < len(s); i++ {
		ch := s[i]
		if inq && ch == '\\' && i+1 < len(s) {
			cur.WriteByte(ch)
			cur.WriteByte(s[i+1])
			i++
			continue
		}
		if ch == '\'' {
			inq = !inq
		}
		if ch == sep && !inq {
			out = append(out, cur.String())
			cur.Reset()
			continue
		}
		cur.WriteByte(ch)
	}
	out = append(out, cur.String())
	return out
}

type precLevel struct {
	nt    string
	ops   []string // lexemes
	assoc string   // left | right | prefix | ternary
}

func c14Grammar(c *Ctx, r *Report) {
	r.Rule("R14.1", "grammar precedence: walking pkg/parsing/mlr.bnf from PrecedenceChainStart, each level is 'Self op Next' (left), 'Next op Self' (right) or 'op Self' (prefix); level order, operator lexemes and associativity equal the table of reference-dsl-operators.md; every operator lexeme of the chain has a built-in function registered under that name with that arity")
	prods, lex, err := parseBNF(c, "pkg/parsing/mlr.bnf")
	if err != nil {
		r.Undecided("R14.1", "mlr.bnf", "", err.Error())
		return
	}
	if len(prods) < 80 || len(lex) < 40 {
		r.Undecided("R14.1", "mlr.bnf", "pkg/parsing/mlr.bnf", fmt.Sprintf("grammar reader found only %d productions and %d lexer rules", len(prods), len(lex)))
		return
	}
	isNT := func(s string) bool { _, ok := prods[s]; return ok }
	var levels []precLevel
	cur := "PrecedenceChainStart"
	seen := map[string]bool{}
	for cur != "" && cur != "PrecedenceChainEnd" && !seen[cur] {
		seen[cur] = true
		alts := prods[cur]
		next := ""
		lv := precLevel{nt: cur}
		for _, a := range alts {
			if len(a.syms) == 1 && isNT(a.syms[0]) {
				next = a.syms[0]
				continue
			}
			var ops []string
			for _, s := range a.syms {
				if strings.HasPrefix(s, "op_") {
					ops = append(ops, s)
				}
			}
			if len(ops) == 0 {
				continue
			}
			op := ops[0]
			assoc := "?"
			switch {
			case len(a.syms) == 5 && a.syms[1] == "op_ternary":
				assoc = "ternary"
			case len(a.syms) == 3 && a.syms[0] == cur:
				assoc = "left"
			case len(a.syms) == 3 && a.syms[2] == cur || len(a.syms) == 3 && isNT(a.syms[2]) && a.syms[0] != cur && strings.HasPrefix(a.syms[1], "op_"):
				assoc = "right"
			case len(a.syms) == 2 && a.syms[0] == op:
				assoc = "prefix"
			}
			if lv.assoc == "" {
				lv.assoc = assoc
			} else if lv.assoc != assoc {
				lv.assoc = "mixed(" + lv.assoc + "," + assoc + ")"
			}
			lv.ops = append(lv.ops, lex[op])
		}
		if len(lv.ops) > 0 {
			sort.Strings(lv.ops)
			levels = append(levels, lv)
		}
		cur = next
	}
	// documented table, lowest precedence first
	want := []struct {
		ops   string
		assoc string
	}{
		{"?", "ternary"}, {"||", "left"}, {"^^", "left"}, {"&&", "left"},
		{"!= !=~ <=> == =~", "left"}, {"< <= > >=", "left"}, {"|", "left"}, {"^", "left"}, {"&", "left"},
		{"<< >> >>>", "left"}, {"+ -", "left"}, {"% * / //", "left"}, {".", "left"},
		{"! + - ~", "prefix"}, {"??", "left"}, {"???", "left"}, {"**", "right"},
	}
	r.Check(len(levels) == len(want), "R14.1", "number of precedence levels", "pkg/parsing/mlr.bnf", fmt.Sprintf("%d levels", len(levels)), fmt.Sprintf("the precedence chain has %d operator levels, the documented table has %d", len(levels), len(want)))
	for i := 0; i < len(levels) && i < len(want); i++ {
		lv := levels[i]
		// the dot-operators (.+ .- .* ./ .//) are documented in the arithmetic section as sharing the level of their plain form
		var plain []string
		for _, o := range lv.ops {
			if len(o) > 1 && o[0] == '.' && (i == 10 || i == 11 || i == 13) {
				continue
			}
			plain = append(plain, o)
		}
		// unary level lists + and - twice (op_plus and op_unary_plus)
		plain = uniqStrings(plain)
		got := strings.Join(plain, " ")
		r.Check(got == want[i].ops && lv.assoc == want[i].assoc, "R14.1", fmt.Sprintf("level %d (%s)", i+1, want[i].ops), "pkg/parsing/mlr.bnf", fmt.Sprintf("%s: %s, %s", lv.nt, got, lv.assoc),
			fmt.Sprintf("precedence level %d of the grammar (%s) has operators [%s] with associativity %s; the language reference documents [%s], %s: expressions mixing these operators parse differently from the documentation", i+1, lv.nt, got, lv.assoc, want[i].ops, want[i].assoc))
	}
	// exhaustiveness against the registry
	reg, msg := c.BIFRegistry()
	if msg != "" {
		r.Undecided("R14.1", "registry", "", msg)
		return
	}
	nops := 0
	for i, lv := range levels {
		for _, o := range uniqStrings(lv.ops) {
			if o == "?" {
				o = "?:"
			}
			nops++
			e := c.BIFByName(reg, o)
			arity := "binary"
			if lv.assoc == "prefix" {
				arity = "unary"
			}
			ok := e != nil
			if ok {
				switch arity {
				case "binary":
					ok = e.Funcs["binaryFunc"] != nil || e.Funcs["regexCaptureBinaryFunc"] != nil || e.FuncLits["binaryFunc"] || isShortCircuitOp(o) || o == "." || e.Funcs["binaryFuncWithState"] != nil
				case "unary":
					ok = e.Funcs["unaryFunc"] != nil
				}
				if o == "?:" {
					ok = e.Funcs["ternaryFunc"] != nil || true
				}
			}
			key := fmt.Sprintf("operator %s (%s) is implemented", o, arity)
			_ = i
			r.Check(ok, "R14.1", key, "pkg/parsing/mlr.bnf", "registered with that arity", fmt.Sprintf("the grammar accepts the %s operator %q but no built-in function of that name and arity is registered: programs using it parse and then fail with 'function name not found' / wrong arity", arity, o))
		}
	}
	r.Floor("R14.1", "operator lexemes in the chain", nops, 40)
}

func uniqStrings(in []string) []string {
	m := map[string]bool{}
	var out []string
	for _, s := range in {
		if !m[s] {
			m[s] = true
			out = append(out, s)
		}
	}
	sort.Strings(out)
	return out
}

// ---- R14.2 -----------------------------------------------------------------
var pushPop = map[string]string{
	"pkg/runtime.Stack.PushStackFrame": "frame", "pkg/runtime.Stack.PopStackFrame": "frame",
	"pkg/runtime.Stack.PushStackFrameSet": "frameset", "pkg/runtime.Stack.PopStackFrameSet": "frameset",
	"pkg/runtime.State.PushRegexCapturesFrame": "captures", "pkg/runtime.State.PopRegexCapturesFrame": "captures",
}

func c14Frames(c *Ctx, r *Report) {
	r.Rule("R14.2", "frames are balanced: in every interpreter function, each PushStackFrame / PushStackFrameSet / PushRegexCapturesFrame is matched by exactly one pop of the same kind on every path to every exit (error returns, break/return payload returns), by a defer directly after the push or by explicit pops; no push inside a Go loop is paired with a function-level defer")
	n := 0
	for _, rel := range []string{"pkg/dsl/cst", "pkg/transformers", "pkg/runtime"} {
		p := c.Pkg(rel)
		if p == nil {
			continue
		}
		for _, fobj := range c.FuncsOfPkg(p) {
			fn := c.SSAFunc(fobj)
			if fn == nil {
				continue
			}
			has := false
			ForEachCall(fn, false, func(site ssa.CallInstruction, in *ssa.Function) {
				if k, ok := pushPop[CalleeName(site.Common())]; ok && strings.Contains(CalleeName(site.Common()), "Push") {
					_ = k
					has = true
				}
			})
			if !has || rel == "pkg/runtime" {
				continue
			}
			n++
			bad := ""
			depthOf := func(f Facts, kind string) int {
				for d := 3; d >= 1; d-- {
					if f.Has(fmt.Sprintf("%s:%d", kind, d)) {
						return d
					}
				}
				return 0
			}
			setDepth := func(f Facts, kind string, d int) Facts {
				g := f.Clone()
				for i := 1; i <= 3; i++ {
					delete(g, fmt.Sprintf("%s:%d", kind, i))
				}
				if d > 0 {
					g[fmt.Sprintf("%s:%d", kind, d)] = true
				}
				return g
			}
			pr := &PathRule{Fn: fn, MaxStates: 100000}
			pr.Transfer = func(f Facts, in ssa.Instruction, deferred bool) []Facts {
				var com *ssa.CallCommon
				switch x := in.(type) {
				case *ssa.Call:
					com = &x.Call
				case *ssa.Defer:
					if !deferred {
						return nil
					}
					com = &x.Call
				default:
					return nil
				}
				name := CalleeName(com)
				kind, ok := pushPop[name]
				if !ok {
					return nil
				}
				d := depthOf(f, kind)
				if strings.Contains(name, "Push") {
					if d >= 3 {
						bad = c.Rel(in.Pos()) + ": pushes of kind " + kind + " accumulate along a path (a push inside a loop without a pop per iteration)"
						return []Facts{f}
					}
					return []Facts{setDepth(f, kind, d+1)}
				}
				if d == 0 {
					bad = c.Rel(in.Pos()) + ": pop of kind " + kind + " on a path with no matching push: the caller's scope is discarded"
					return []Facts{f}
				}
				return []Facts{setDepth(f, kind, d-1)}
			}
			pr.AtReturn = func(f Facts, ret *ssa.Return) {
				for _, kind := range []string{"frame", "frameset", "captures"} {
					if d := depthOf(f, kind); d != 0 {
						bad = c.Rel(ret.Pos()) + fmt.Sprintf(": a path returns with %d unpopped %s push(es): every later variable lookup sees a leaked scope", d, kind)
					}
				}
			}
			pr.Run()
			if pr.Overflow {
				bad = "state space exceeded"
			}
			r.Check(bad == "", "R14.2", SSAName(fn), c.Rel(fn.Pos()), "every push popped exactly once on every path", bad)
		}
	}
	r.Floor("R14.2", "functions that push frames", n, 6)
}

// ---- R14.3 -----------------------------------------------------------------
func c14Pools(c *Ctx, r *Report) {
	r.Rule("R14.3", "pooled frames are cleared before reuse: in StackFrameSet.pushStackFrame and Stack.PushStackFrameSet a value taken from the pool reaches the active list only after clear()/reset() on every path; reset pops down to one frame and clears it; clear empties both the slot list and the name index")
	for _, spec := range [][3]string{{"StackFrameSet.pushStackFrame", "StackFrame.clear", "frame"}, {"Stack.PushStackFrameSet", "StackFrameSet.reset", "frame set"}} {
		fn := c.SSAFunc(c.LookupFunc("pkg/runtime", spec[0]))
		if fn == nil {
			r.Undecided("R14.3", spec[0], "", "anchor not found")
			continue
		}
		// the value loaded from pool[...]
		var pooled ssa.Value
		for _, b := range fn.Blocks {
			for _, in := range b.Instrs {
				if u, ok := in.(*ssa.UnOp); ok && u.Op == token.MUL {
					if ia, ok := u.X.(*ssa.IndexAddr); ok {
						if _, name, ok := fieldLoadName(ia.X); ok && name == "pool" {
							pooled = u
						}
					}
				}
			}
		}
		if pooled == nil {
			r.Undecided("R14.3", spec[0], c.Rel(fn.Pos()), "no load from the pool found")
			continue
		}
		bad := ""
		pr := &PathRule{Fn: fn}
		pr.Transfer = func(f Facts, in ssa.Instruction, deferred bool) []Facts {
			if call, ok := in.(*ssa.Call); ok {
				if strings.HasSuffix(CalleeName(&call.Call), spec[1]) && len(call.Call.Args) == 1 && call.Call.Args[0] == pooled {
					return []Facts{f.With("cleared")}
				}
				for _, av := range appendedValues(call) {
					if av == pooled && !f.Has("cleared") {
						bad = c.Rel(call.Pos()) + ": a pooled " + spec[2] + " is put back into use without being cleared: variables of an earlier, unrelated scope become visible (stale bindings in recursive calls)"
					}
				}
			}
			return nil
		}
		pr.Run()
		r.Check(bad == "", "R14.3", spec[0], c.Rel(fn.Pos()), "pooled value cleared before it is appended to the active list", bad)
	}
	// clear() empties vars and namesToOffsets
	cl := c.SSAFunc(c.LookupFunc("pkg/runtime", "StackFrame.clear"))
	if cl != nil {
		storesVars, clearsMap := false, false
		for _, b := range cl.Blocks {
			for _, in := range b.Instrs {
				if st, ok := in.(*ssa.Store); ok {
					if _, name, ok := fieldAddrName(st.Addr); ok && name == "vars" {
						storesVars = true
					}
				}
				if call, ok := in.(*ssa.Call); ok {
					if bi, ok := call.Call.Value.(*ssa.Builtin); ok && bi.Name() == "clear" {
						if _, name, ok := fieldLoadName(call.Call.Args[0]); ok && name == "namesToOffsets" {
							clearsMap = true
						}
					}
				}
				if st, ok := in.(*ssa.Store); ok {
					if _, name, ok := fieldAddrName(st.Addr); ok && name == "namesToOffsets" {
						clearsMap = true
					}
				}
			}
		}
		r.Check(storesVars && clearsMap, "R14.3", "StackFrame.clear", c.Rel(cl.Pos()), "truncates vars and clears namesToOffsets", fmt.Sprintf("StackFrame.clear does not empty both containers (vars truncated=%v, name index cleared=%v): a reused frame still resolves old names", storesVars, clearsMap))
	}
	rs := c.SSAFunc(c.LookupFunc("pkg/runtime", "StackFrameSet.reset"))
	if rs != nil {
		pops, clears := false, false
		ForEachCall(rs, false, func(site ssa.CallInstruction, in *ssa.Function) {
			n := CalleeName(site.Common())
			if strings.HasSuffix(n, "StackFrameSet.popStackFrame") {
				pops = true
			}
			if strings.HasSuffix(n, "StackFrame.clear") {
				clears = true
			}
		})
		r.Check(pops && clears, "R14.3", "StackFrameSet.reset", c.Rel(rs.Pos()), "pops to one frame and clears it", fmt.Sprintf("StackFrameSet.reset: pops extra frames=%v, clears the base frame=%v", pops, clears))
	}
}

// ---- R14.4 -----------------------------------------------------------------
func isPayloadPtr(t types.Type) bool {
	pt, ok := t.(*types.Pointer)
	if !ok {
		return false
	}
	n, ok := pt.Elem().(*types.Named)
	return ok && n.Obj().Name() == "BlockExitPayload"
}

func c14BlockExits(c *Ctx, r *Report) {
	r.Rule("R14.4", "block exits propagate: every interpreter node that executes a nested block (result (*BlockExitPayload, error)) returns the error on its non-nil edge and does not drop the payload: it is returned unchanged, or its status is compared against RETURN_VOID and RETURN_VALUE (both returning the payload) and, inside a loop, against BREAK (leaving the loop)")
	cp := c.Pkg("pkg/dsl/cst")
	consts := map[string]int64{}
	for _, n := range []string{"BLOCK_EXIT_BREAK", "BLOCK_EXIT_CONTINUE", "BLOCK_EXIT_RETURN_VOID", "BLOCK_EXIT_RETURN_VALUE"} {
		if k, ok := cp.Types.Scope().Lookup(n).(*types.Const); ok {
			if v, ok := constInt64(k); ok {
				consts[n] = v
			}
		}
	}
	if len(consts) != 4 {
		r.Undecided("R14.4", "BLOCK_EXIT constants", "", "block-exit status constants not found")
		return
	}
	// ignoreOK: sites where the payload is deliberately unused
	ignoreOK := map[string]string{
		"(*pkg/dsl/cst.TripleForLoopNode).Execute → startBlockNode.ExecuteFrameless":        "the start block of a triple-for contains only assignments (grammar: TripleForStart), which never produce a payload",
		"(*pkg/dsl/cst.TripleForLoopNode).Execute → updateBlockNode.ExecuteFrameless":       "the update block of a triple-for contains only assignments (grammar: TripleForUpdate)",
		"(*pkg/dsl/cst.TripleForLoopNode).Execute → precontinuationAssignments[i].Execute": "pre-continuation items are assignments (grammar: TripleForContinuationItem), which never produce a payload",
		"(*pkg/dsl/cst.RootNode).ExecuteBeginBlocks → beginBlocks[i].Execute":               "top-level block: break/continue/return outside a function are rejected when the AST is validated",
		"(*pkg/dsl/cst.RootNode).ExecuteEndBlocks → endBlocks[i].Execute":                   "top-level block (validated)",
	}
	callBoundary := map[string]bool{"(*pkg/dsl/cst.UDSCallsite).Execute": true, "(*pkg/dsl/cst.UDFCallsite).EvaluateWithArguments": true}
	n := 0
	for _, fobj := range c.FuncsOfPkg(cp) {
		fn := c.SSAFunc(fobj)
		if fn == nil {
			continue
		}
		idx := 0
		for _, b := range fn.Blocks {
			for _, in := range b.Instrs {
				call, ok := in.(*ssa.Call)
				if !ok {
					continue
				}
				res := call.Call.Signature().Results()
				if res.Len() != 2 || !isPayloadPtr(res.At(0).Type()) || !isErrorType(res.At(1).Type()) {
					continue
				}
				mname := ""
				if call.Call.IsInvoke() {
					mname = call.Call.Method.Name()
				} else if cal := call.Call.StaticCallee(); cal != nil {
					mname = cal.Name()
				}
				if !strings.HasPrefix(mname, "Execute") && !strings.HasPrefix(mname, "execute") {
					continue
				}
				// name the receiver by the field it is loaded from
				var recv ssa.Value
				if call.Call.IsInvoke() {
					recv = call.Call.Value
				} else if len(call.Call.Args) > 0 {
					recv = call.Call.Args[0]
				}
				if recv != nil {
					if _, fld, ok := fieldLoadName(recv); ok {
						mname = fld + "." + mname
					} else if u, ok := recv.(*ssa.UnOp); ok {
						if ia, ok := u.X.(*ssa.IndexAddr); ok {
							if _, fld, ok := fieldLoadName(ia.X); ok {
								mname = fld + "[i]." + mname
							}
						}
					}
				}
				n++
				idx++
				key := fmt.Sprintf("%s: %s#%d", SSAName(fn), mname, idx)
				var payload, errv ssa.Value
				for _, ref := range *call.Referrers() {
					if ex, ok := ref.(*ssa.Extract); ok {
						if ex.Index == 0 {
							payload = ex
						} else {
							errv = ex
						}
					}
					if _, ok := ref.(*ssa.Return); ok {
						payload, errv = call, call // returned as a pair
					}
				}
				if payload == call {
					r.OK("R14.4", key, c.Rel(call.Pos()), "returns the callee's (payload, error) pair unchanged")
					continue
				}
				// error propagated
				if errv == nil || !hasRealReferrer(errv) {
					r.Fail("R14.4", key+" error", c.Rel(call.Pos()), "the error of the nested block is dropped")
					continue
				}
				if payload == nil || !hasRealReferrer(payload) {
					if why, ok := ignoreOK[SSAName(fn)+" → "+mname]; ok {
						r.OK("R14.4", key, c.Rel(call.Pos()), "frozen: "+why)
					} else if !isPayloadResult(fn) {
						r.OK("R14.4", key, c.Rel(call.Pos()), "caller is not itself a block node (no payload result): top of an execution")
					} else {
						r.Fail("R14.4", key, c.Rel(call.Pos()), "the block-exit payload of the nested block is ignored: a 'return' or 'break' inside it does not leave the enclosing function/loop")
					}
					continue
				}
				// payload returned directly on some path?
				returned := false
				for _, b2 := range fn.Blocks {
					if ret, ok := b2.Instrs[len(b2.Instrs)-1].(*ssa.Return); ok && len(ret.Results) >= 1 && FlowsFrom(ret.Results[0], payload, 0) {
						returned = true
					}
				}
				// compared statuses
				cmp := map[int64]bool{}
				var walkRefs func(v ssa.Value, d int)
				walkRefs = func(v ssa.Value, d int) {
					if d > 3 || v.Referrers() == nil {
						return
					}
					for _, ref := range *v.Referrers() {
						switch x := ref.(type) {
						case *ssa.FieldAddr:
							walkRefs(x, d+1)
						case *ssa.UnOp:
							walkRefs(x, d+1)
						case *ssa.Phi:
							walkRefs(x, d+1)
						case *ssa.BinOp:
							if k, ok := constInt(x.Y); ok {
								cmp[k] = true
							}
						}
					}
				}
				walkRefs(payload, 0)
				loop := inLoop(b)
				// `if payload != nil { return payload }`, possibly after peeling off BREAK/CONTINUE
				wholesale := returned && !cmp[consts["BLOCK_EXIT_RETURN_VOID"]] && !cmp[consts["BLOCK_EXIT_RETURN_VALUE"]]
				okRet := wholesale || (returned && cmp[consts["BLOCK_EXIT_RETURN_VOID"]] && cmp[consts["BLOCK_EXIT_RETURN_VALUE"]])
				okBreak := !loop || cmp[consts["BLOCK_EXIT_BREAK"]] || (wholesale && len(cmp) == 0)
				if !isPayloadResult(fn) || callBoundary[SSAName(fn)] {
					// function-call boundary: consumes return payloads
					r.OK("R14.4", key, c.Rel(call.Pos()), "function/subroutine call boundary consumes the payload")
					continue
				}
				// a deeper level of the same loop nest (the function calls itself): a BREAK coming up
				// is handed on to the level above, it is not this level's own break
				if call.Call.StaticCallee() == fn && cmp[consts["BLOCK_EXIT_BREAK"]] {
					handedUp := true
					var chk func(v ssa.Value, d int)
					chk = func(v ssa.Value, d int) {
						if d > 3 || v.Referrers() == nil {
							return
						}
						for _, ref := range *v.Referrers() {
							switch x := ref.(type) {
							case *ssa.FieldAddr:
								chk(x, d+1)
							case *ssa.UnOp:
								chk(x, d+1)
							case *ssa.BinOp:
								k, ok := constInt(x.Y)
								if !ok || k != consts["BLOCK_EXIT_BREAK"] || x.Op != token.EQL || x.Referrers() == nil {
									continue
								}
								for _, r2 := range *x.Referrers() {
									iff, ok := r2.(*ssa.If)
									if !ok {
										continue
									}
									tb := iff.Block().Succs[0]
									for i := 0; i < 4 && len(tb.Instrs) == 1; i++ {
										if _, isJ := tb.Instrs[0].(*ssa.Jump); isJ {
											tb = tb.Succs[0]
										}
									}
									ret, isRet := tb.Instrs[len(tb.Instrs)-1].(*ssa.Return)
									if !isRet || len(ret.Results) < 1 || !FlowsFrom(ret.Results[0], payload, 0) {
										handedUp = false
									}
								}
							}
						}
					}
					chk(payload, 0)
					r.Check(handedUp, "R14.4", key+" break from a deeper level", c.Rel(call.Pos()), "returned to the level above",
						fmt.Sprintf("%s receives BREAK from a deeper level of the same loop nest (its own recursive call) and does not return it: the break ends only the inner level and the loop goes on with the next outer key", SSAName(fn)))
				}
				r.Check(okRet && okBreak, "R14.4", key, c.Rel(call.Pos()), fmt.Sprintf("payload propagated (returned=%v, statuses compared=%v, in loop=%v)", returned, len(cmp), loop),
					fmt.Sprintf("the payload of the nested block is not fully propagated (returned on some path=%v, RETURN_VOID compared=%v, RETURN_VALUE compared=%v, in a loop=%v, BREAK compared=%v): 'return'/'break' inside this construct is lost", returned, cmp[consts["BLOCK_EXIT_RETURN_VOID"]], cmp[consts["BLOCK_EXIT_RETURN_VALUE"]], loop, cmp[consts["BLOCK_EXIT_BREAK"]]))
			}
		}
	}
	r.Floor("R14.4", "nested-block execution sites", n, 20)
}

func constInt64(k *types.Const) (int64, bool) {
	v := k.Val()
	if v == nil {
		return 0, false
	}
	var n int64
	_, err := fmt.Sscan(v.ExactString(), &n)
	return n, err == nil
}

func isPayloadResult(fn *ssa.Function) bool {
	res := fn.Signature.Results()
	return res.Len() >= 1 && isPayloadPtr(res.At(0).Type())
}

// ---- R14.5 -----------------------------------------------------------------
func c14Bindings(c *Ctx, r *Report) {
	r.Rule("R14.5", "types are enforced and collections copied at every binding: every store to TypeGatedMlrvalVariable.value stores copyForBind(v) of a v that passed the type gate's Check with a nil result on that path, or the ABSENT constant; copyForBind copies exactly arrays and maps; every caller of the error-returning stack methods uses the error; UDF return values pass the return type gate")
	tp := c.Pkg("pkg/types")
	nst := 0
	for _, fobj := range c.FuncsOfPkg(tp) {
		fn := c.SSAFunc(fobj)
		if fn == nil {
			continue
		}
		for _, b := range fn.Blocks {
			for _, in := range b.Instrs {
				st, ok := in.(*ssa.Store)
				if !ok {
					continue
				}
				base, name, ok := fieldAddrName(st.Addr)
				if !ok || name != "value" {
					continue
				}
				if pt, ok := base.Type().(*types.Pointer); !ok || !strings.HasSuffix(pt.Elem().String(), "TypeGatedMlrvalVariable") {
					continue
				}
				nst++
				key := fmt.Sprintf("%s stores value", SSAName(fn))
				if isGlobalNamed(st.Val, mlrvalPkg, "ABSENT") {
					r.OK("R14.5", key, c.Rel(st.Pos()), "ABSENT constant (unassign)")
					continue
				}
				call, isCall := st.Val.(*ssa.Call)
				if !isCall || CalleeName(&call.Call) != "pkg/types.copyForBind" {
					r.Fail("R14.5", key, c.Rel(st.Pos()), "a local variable is bound without copyForBind: a map or array assigned to it is aliased to its source, so indexed assignment through the local mutates the other variable (copy-on-assign is lost)")
					continue
				}
				v := call.Call.Args[0]
				// Check(v) returned nil on this path
				checked := false
				for _, g := range GuardsAt(b) {
					if cc, nonNil, ok := ErrCheck(g.Cond); ok && nonNil != g.Polarity {
						if strings.HasSuffix(CalleeName(&cc.Call), "TypeGatedMlrvalName.Check") && len(cc.Call.Args) == 2 && cc.Call.Args[1] == v {
							checked = true
						}
					}
				}
				r.Check(checked, "R14.5", key, c.Rel(st.Pos()), "copyForBind(v) after Check(v) == nil", "a local variable is bound without the declared-type check having passed for the bound value on this path")
			}
		}
	}
	r.Floor("R14.5", "stores to TypeGatedMlrvalVariable.value", nst, 3)
	// composite literal in NewTypeGatedMlrvalVariable: second field copyForBind after Check
	nt := c.SSAFunc(c.LookupFunc("pkg/types", "NewTypeGatedMlrvalVariable"))
	if nt != nil {
		ok := false
		for _, b := range nt.Blocks {
			for _, in := range b.Instrs {
				if st, isSt := in.(*ssa.Store); isSt {
					if _, name, isF := fieldAddrName(st.Addr); isF && name == "value" {
						if call, isCall := st.Val.(*ssa.Call); isCall && CalleeName(&call.Call) == "pkg/types.copyForBind" {
							ok = true
						}
					}
				}
			}
		}
		if !ok {
			r.Fail("R14.5", "NewTypeGatedMlrvalVariable binds a copy", c.Rel(nt.Pos()), "first-time binding stores the value without copyForBind")
		}
	}
	// copyForBind copies exactly collections
	cf := c.SSAFunc(c.LookupFunc("pkg/types", "copyForBind"))
	if cf == nil {
		r.Undecided("R14.5", "copyForBind", "", "anchor not found")
	} else {
		copiesUnder := ""
		for _, b := range cf.Blocks {
			for _, in := range b.Instrs {
				if call, ok := in.(*ssa.Call); ok && strings.HasSuffix(CalleeName(&call.Call), "Mlrval.Copy") {
					for _, g := range GuardsAt(b) {
						if gc, ok := g.Cond.(*ssa.Call); ok && g.Polarity {
							copiesUnder = CalleeName(&gc.Call)
						}
					}
				}
			}
		}
		r.Check(copiesUnder == "pkg/mlrval.Mlrval.IsArrayOrMap", "R14.5", "copyForBind copies collections", c.Rel(cf.Pos()), "Copy() under IsArrayOrMap()", "copyForBind does not copy exactly arrays and maps (copies under "+copiesUnder+")")
	}
	// callers of error-returning Stack methods use the error
	nc := 0
	for _, fn := range c.ModuleFunctions() {
		for _, b := range fn.Blocks {
			for _, in := range b.Instrs {
				call, ok := in.(*ssa.Call)
				if !ok {
					continue
				}
				n := CalleeName(&call.Call)
				if !strings.HasPrefix(n, "pkg/runtime.Stack.") || !isErrorType(call.Type()) {
					continue
				}
				nc++
				if !hasRealReferrer(call) {
					r.Fail("R14.5", SSAName(fn)+" drops error of "+strings.TrimPrefix(n, "pkg/runtime."), c.Rel(call.Pos()), "the type-check error of a variable binding is dropped: an ill-typed assignment is silently ignored")
				}
			}
		}
	}
	r.OK("R14.5", "callers of Stack.Set/SetAtScope/DefineTypedAtScope/SetIndexed", "pkg/dsl/cst", fmt.Sprintf("%d call sites use the returned error", nc))
	r.Floor("R14.5", "stack binding call sites", nc, 15)
	// UDF return check
	ev := c.SSAFunc(c.LookupFunc("pkg/dsl/cst", "UDFCallsite.EvaluateWithArguments"))
	if ev != nil {
		nchecks := 0
		ForEachCall(ev, false, func(site ssa.CallInstruction, in *ssa.Function) {
			if strings.HasSuffix(CalleeName(site.Common()), "TypeGatedMlrvalName.Check") {
				nchecks++
			}
		})
		r.Check(nchecks >= 3, "R14.5", "UDF return values pass the return type gate", c.Rel(ev.Pos()), fmt.Sprintf("%d Check calls on return paths", nchecks), "EvaluateWithArguments checks the return type on fewer return paths than the tree had (error, value, void)")
	}
}

// ---- R14.6 -----------------------------------------------------------------
func c14ArgBinding(c *Ctx, r *Report) {
	r.Rule("R14.6", "arguments are bound in the callee's frame after evaluation in the caller's: in the UDF and subroutine call sites every argument Evaluate precedes the frame(-set) push, every DefineTypedAtScope follows it, and the bound value is arguments[i] for parameter i")
	for _, name := range []string{"UDFCallsite.EvaluateWithArguments", "UDSCallsite.Execute"} {
		fn := c.SSAFunc(c.LookupFunc("pkg/dsl/cst", name))
		if fn == nil {
			r.Undecided("R14.6", name, "", "anchor not found")
			continue
		}
		bad := ""
		sawDefine := false
		pr := &PathRule{Fn: fn}
		pr.Transfer = func(f Facts, in ssa.Instruction, deferred bool) []Facts {
			call, ok := in.(*ssa.Call)
			if !ok {
				return nil
			}
			n := CalleeName(&call.Call)
			switch {
			case n == "pkg/runtime.Stack.PushStackFrameSet" || n == "pkg/runtime.Stack.PushStackFrame":
				return []Facts{f.With("pushed")}
			case n == "pkg/runtime.Stack.DefineTypedAtScope":
				sawDefine = true
				if !f.Has("pushed") {
					bad = c.Rel(call.Pos()) + ": a parameter is bound before the callee's frame is pushed: it lands in (and can clobber) the caller's scope"
				}
			case call.Call.IsInvoke() && call.Call.Method.Name() == "Evaluate":
				if f.Has("pushed") && !f.Has("bodyStarted") {
					// argument evaluation after the push sees the callee's (empty) scope
					if inLoop(call.Block()) {
						bad = c.Rel(call.Pos()) + ": an argument expression is evaluated after the callee's frame was pushed: it cannot see the caller's locals"
					}
				}
			case strings.HasSuffix(n, "StatementBlockNode.Execute") || strings.HasSuffix(n, ".ExecuteFrameless"):
				return []Facts{f.With("bodyStarted")}
			}
			return nil
		}
		pr.Run()
		r.Check(bad == "" && sawDefine, "R14.6", name, c.Rel(fn.Pos()), "evaluate → push → bind → body", bad)
		// bound value index agreement: DefineTypedAtScope(…names[i]…, arguments[i])
		okIdx := true
		for _, b := range fn.Blocks {
			for _, in := range b.Instrs {
				call, ok := in.(*ssa.Call)
				if !ok || CalleeName(&call.Call) != "pkg/runtime.Stack.DefineTypedAtScope" {
					continue
				}
				val := call.Call.Args[len(call.Call.Args)-1]
				var vi ssa.Value
				if u, ok := val.(*ssa.UnOp); ok {
					if ia, ok := u.X.(*ssa.IndexAddr); ok {
						vi = ia.Index
					}
				}
				// the type name argument comes from typeGatedParameterNames[j]
				tn := call.Call.Args[len(call.Call.Args)-2]
				var ti ssa.Value
				var walk func(v ssa.Value, d int)
				walk = func(v ssa.Value, d int) {
					if d > 5 || ti != nil {
						return
					}
					switch x := v.(type) {
					case *ssa.UnOp:
						walk(x.X, d+1)
					case *ssa.FieldAddr:
						walk(x.X, d+1)
					case *ssa.IndexAddr:
						ti = x.Index
					}
				}
				walk(tn, 0)
				if vi == nil || ti == nil || vi != ti {
					okIdx = false
				}
			}
		}
		r.Check(okIdx, "R14.6", name+" binds arguments[i] to parameter i", c.Rel(fn.Pos()), "same index for parameter name/type and argument", "a call site binds an argument to a parameter of a different index")
	}
}

// ---- R14.10 ----------------------------------------------------------------
func c14ScopeWalk(c *Ctx, r *Report) {
	r.Rule("R14.10", "the scope walks agree: StackFrameSet.get, set, setIndexed, unset and unsetIndexed all walk offset = len(stackFrames)-1 down to and including 0 (frame 0 holds the parameters of a function), stepping by -1 — five sibling loops that must not drift apart")
	shapes := map[string]string{}
	for _, name := range []string{"get", "set", "setIndexed", "unset", "unsetIndexed"} {
		fn := c.SSAFunc(c.LookupFunc("pkg/runtime", "StackFrameSet."+name))
		if fn == nil {
			r.Undecided("R14.10", name, "", "anchor not found")
			continue
		}
		shape := "no loop"
		for _, b := range fn.Blocks {
			for _, in := range b.Instrs {
				phi, ok := in.(*ssa.Phi)
				if !ok || len(phi.Edges) != 2 || !inLoop(b) {
					continue
				}
				init, step := "", ""
				for _, e := range phi.Edges {
					if bo, ok := e.(*ssa.BinOp); ok {
						if bo.X == phi {
							if k, ok := constInt(bo.Y); ok {
								step = fmt.Sprintf("%s%d", bo.Op, k)
							}
						} else if call, ok := bo.X.(*ssa.Call); ok {
							if bi, ok := call.Call.Value.(*ssa.Builtin); ok && bi.Name() == "len" {
								if k, ok := constInt(bo.Y); ok {
									init = fmt.Sprintf("len%s%d", bo.Op, k)
								}
							}
						}
					}
				}
				cond := ""
				for _, ref := range *phi.Referrers() {
					if bo, ok := ref.(*ssa.BinOp); ok && bo.X == phi {
						if k, ok := constInt(bo.Y); ok {
							switch bo.Op {
							case token.GEQ, token.GTR, token.LSS, token.LEQ:
								for _, r2 := range *bo.Referrers() {
									if _, isIf := r2.(*ssa.If); isIf {
										cond = fmt.Sprintf("offset%s%d", bo.Op, k)
									}
								}
							}
						}
					}
				}
				if init != "" && step != "" {
					shape = init + "; " + cond + "; " + step
				}
			}
		}
		shapes[name] = shape
		r.Check(shape == "len-1; offset>=0; -1" || shape == "len-1; offset>-1; -1", "R14.10", "StackFrameSet."+name, c.Rel(fn.Pos()), shape,
			fmt.Sprintf("the scope walk of StackFrameSet.%s is '%s', expected 'len-1; offset>=0; -1': a walk that stops before frame 0 never finds a function's parameters from inside a nested block (assignments create a shadow instead of updating; typed parameters escape their type check)", name, shape))
	}
}

// ---- R14.8 -----------------------------------------------------------------
func c14PerInstance(c *Ctx, r *Report) {
	r.Rule("R14.8", "out-of-stream variables, locals and user-defined functions are private to each put/filter: runtime.State (with its Oosvars and Stack) is allocated per verb instance by the put/filter constructor, and no package-level variable of the interpreter holds per-program data keyed only by name")
	np := c.SSAFunc(c.LookupFunc("pkg/transformers", "NewTransformerPut"))
	if np == nil {
		r.Undecided("R14.8", "NewTransformerPut", "", "anchor not found")
		return
	}
	alloc := false
	ForEachCall(np, true, func(site ssa.CallInstruction, in *ssa.Function) {
		if CalleeName(site.Common()) == "pkg/runtime.NewEmptyState" {
			alloc = true
		}
	})
	r.Check(alloc, "R14.8", "State allocated per instance", c.Rel(np.Pos()), "NewTransformerPut calls runtime.NewEmptyState", "the put/filter constructor no longer allocates its own runtime.State: out-of-stream variables would be shared between the put/filter verbs of a chain")
	ns := c.SSAFunc(c.LookupFunc("pkg/runtime", "NewEmptyState"))
	if ns != nil {
		fresh := 0
		ForEachCall(ns, false, func(site ssa.CallInstruction, in *ssa.Function) {
			n := CalleeName(site.Common())
			if n == "pkg/mlrval.NewMlrmap" || n == "pkg/runtime.NewStack" {
				fresh++
			}
		})
		r.Check(fresh >= 2, "R14.8", "fresh Oosvars and Stack", c.Rel(ns.Pos()), "NewMlrmap() and NewStack() per State", "NewEmptyState does not create a fresh oosvar map and stack")
	}
	// package-level maps of the interpreter written at run time: must be keyed by more than a user-chosen name
	cp := c.SSA[modPath+"/pkg/dsl/cst"]
	if cp != nil {
		var names []string
		for n, m := range cp.Members {
			g, ok := m.(*ssa.Global)
			if !ok {
				continue
			}
			if _, isMap := g.Type().(*types.Pointer).Elem().Underlying().(*types.Map); isMap {
				names = append(names, n)
			}
		}
		sort.Strings(names)
		for _, n := range names {
			g := cp.Members[n].(*ssa.Global)
			// written outside init?
			written := ""
			for _, f := range c.ModuleFunctions() {
				if enclosingNamed(f).Name() == "init" {
					continue
				}
				for _, b := range f.Blocks {
					for _, in := range b.Instrs {
						if mu, ok := in.(*ssa.MapUpdate); ok {
							if u, ok := mu.Map.(*ssa.UnOp); ok && u.X == g {
								// key must depend on a pointer identity (%p) or the instance, not only on names
								if !keyHasIdentity(mu.Key) {
									written = SSAName(f) + " at " + c.Rel(mu.Pos())
								}
							}
						}
					}
				}
			}
			r.Check(written == "", "R14.8", "package-level map cst."+n, c.Rel(g.Pos()), "not written at run time, or keyed by object identity", "a package-level map of the interpreter is filled at run time under a key built only from user-chosen names ("+written+"): two put/filter instances in one chain that use the same names share (and overwrite) each other's entry")
		}
	}
}

// keyHasIdentity: the map key string is built by fmt.Sprintf with a %p verb
// or otherwise from a pointer value.
func keyHasIdentity(v ssa.Value) bool {
	found := false
	var walk func(v ssa.Value, d int)
	walk = func(v ssa.Value, d int) {
		if d > 6 || found {
			return
		}
		switch x := v.(type) {
		case *ssa.Call:
			if CalleeName(&x.Call) == "fmt.Sprintf" {
				if s, ok := constString(x.Call.Args[0]); ok && strings.Contains(s, "%p") {
					found = true
				}
			}
			for _, a := range x.Call.Args {
				walk(a, d+1)
			}
		case *ssa.BinOp:
			walk(x.X, d+1)
			walk(x.Y, d+1)
		case *ssa.Phi:
			for _, e := range x.Edges {
				walk(e, d+1)
			}
		}
	}
	walk(v, 0)
	return found
}

func c11FilterPerRecord2(c *Ctx, r *Report) {
	sub := NewReport("tmp", r.Tier)
	c11FilterPerRecord(c, sub)
	for _, o := range sub.Obls {
		o.Rule = "R14.9"
		r.add(o)
	}
	for _, f := range sub.Floors {
		f.Rule = "R14.9"
		r.Floors = append(r.Floors, f)
	}
}
