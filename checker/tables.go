package main

// Analysis C: read disposition vectors/matrices (arrays of function values
// indexed by mlrval.MVType) from their composite literals.

import (
	"fmt"
	"go/ast"
	"go/constant"
	"go/token"
	"go/types"
	"sort"

	"golang.org/x/tools/go/packages"
)

var kindNames = []string{"INT", "FLOAT", "BOOL", "VOID", "STRING", "BYTES", "ARRAY", "MAP", "FUNC", "ERROR", "NULL", "ABSENT"}

const (
	K_INT = iota
	K_FLOAT
	K_BOOL
	K_VOID
	K_STRING
	K_BYTES
	K_ARRAY
	K_MAP
	K_FUNC
	K_ERROR
	K_NULL
	K_ABSENT
	K_DIM
)

type DispTable struct {
	Name  string
	Var   *types.Var
	Pkg   *packages.Package
	Dim   int // 1 = vector, 2 = matrix
	Arity int // params of the cell function type
	Cells [][]*types.Func
	Pos   token.Pos
	Lit   *ast.CompositeLit
	Errs  []string
}

func (t *DispTable) Cell(i, j int) *types.Func {
	if t.Dim == 1 {
		return t.Cells[i][0]
	}
	return t.Cells[i][j]
}

// MTKinds verifies that mlrval.MT_* constants are the 12 kinds 0..11 in the
// order of kindNames and MT_DIM == 12. Everything table-related relies on it.
func (c *Ctx) MTKinds() error {
	p := c.Pkg("pkg/mlrval")
	if p == nil {
		return fmt.Errorf("package mlrval not loaded")
	}
	names := []string{"MT_INT", "MT_FLOAT", "MT_BOOL", "MT_VOID", "MT_STRING", "MT_BYTES", "MT_ARRAY", "MT_MAP", "MT_FUNC", "MT_ERROR", "MT_NULL", "MT_ABSENT", "MT_DIM"}
	for i, n := range names {
		obj, ok := p.Types.Scope().Lookup(n).(*types.Const)
		if !ok {
			return fmt.Errorf("mlrval.%s not found", n)
		}
		v, ok := constant.Int64Val(obj.Val())
		if !ok || int(v) != i {
			return fmt.Errorf("mlrval.%s = %v, expected %d", n, obj.Val(), i)
		}
	}
	if obj, ok := p.Types.Scope().Lookup("MT_PENDING").(*types.Const); !ok {
		return fmt.Errorf("mlrval.MT_PENDING not found")
	} else if v, _ := constant.Int64Val(obj.Val()); v != -1 {
		return fmt.Errorf("mlrval.MT_PENDING = %v, expected -1", obj.Val())
	}
	return nil
}

func isMlrvalPtr(t types.Type) bool {
	pt, ok := t.(*types.Pointer)
	if !ok {
		return false
	}
	n, ok := pt.Elem().(*types.Named)
	if !ok {
		return false
	}
	return n.Obj().Name() == "Mlrval" && n.Obj().Pkg() != nil && n.Obj().Pkg().Path() == modPath+"/pkg/mlrval"
}

// dispShape: is t [12]F or [12][12]F with F a func type over *Mlrval?
func dispShape(t types.Type) (dim int, arity int, ok bool) {
	a, isArr := t.Underlying().(*types.Array)
	if !isArr || a.Len() != K_DIM {
		return 0, 0, false
	}
	el := a.Elem()
	dim = 1
	if a2, isArr2 := el.Underlying().(*types.Array); isArr2 && a2.Len() == K_DIM {
		el = a2.Elem()
		dim = 2
	}
	sig, isSig := el.Underlying().(*types.Signature)
	if !isSig {
		return 0, 0, false
	}
	if sig.Params().Len() == 0 || !isMlrvalPtr(sig.Params().At(0).Type()) {
		return 0, 0, false
	}
	return dim, sig.Params().Len(), true
}

func resolveFuncExpr(info *types.Info, e ast.Expr) *types.Func {
	switch x := e.(type) {
	case *ast.Ident:
		if f, ok := info.Uses[x].(*types.Func); ok {
			return f
		}
	case *ast.SelectorExpr:
		if f, ok := info.Uses[x.Sel].(*types.Func); ok {
			return f
		}
	case *ast.ParenExpr:
		return resolveFuncExpr(info, x.X)
	}
	return nil
}

func constIndex(info *types.Info, e ast.Expr) (int, bool) {
	tv, ok := info.Types[e]
	if !ok || tv.Value == nil {
		return 0, false
	}
	v, ok := constant.Int64Val(tv.Value)
	return int(v), ok
}

// readRow reads one [12]F literal.
func readRow(info *types.Info, lit *ast.CompositeLit, errs *[]string, what string) []*types.Func {
	row := make([]*types.Func, K_DIM)
	idx := 0
	for _, el := range lit.Elts {
		var v ast.Expr = el
		if kv, ok := el.(*ast.KeyValueExpr); ok {
			k, ok := constIndex(info, kv.Key)
			if !ok {
				*errs = append(*errs, what+": non-constant key")
				continue
			}
			idx = k
			v = kv.Value
		}
		if idx < 0 || idx >= K_DIM {
			*errs = append(*errs, fmt.Sprintf("%s: index %d out of range", what, idx))
			idx++
			continue
		}
		f := resolveFuncExpr(info, v)
		if f == nil {
			if id, ok := v.(*ast.Ident); ok && id.Name == "nil" {
				*errs = append(*errs, fmt.Sprintf("%s[%s]: nil cell", what, kindNames[idx]))
			} else {
				*errs = append(*errs, fmt.Sprintf("%s[%s]: cell is not a named function", what, kindNames[idx]))
			}
		}
		row[idx] = f
		idx++
	}
	return row
}

func (c *Ctx) readDispLit(p *packages.Package, v *types.Var, lit *ast.CompositeLit, dim, arity int) *DispTable {
	t := &DispTable{Name: v.Name(), Var: v, Pkg: p, Dim: dim, Arity: arity, Pos: lit.Pos(), Lit: lit}
	t.Cells = make([][]*types.Func, K_DIM)
	if dim == 1 {
		row := readRow(p.TypesInfo, lit, &t.Errs, v.Name())
		for i := range row {
			t.Cells[i] = []*types.Func{row[i]}
			if row[i] == nil {
				t.Errs = append(t.Errs, fmt.Sprintf("%s[%s]: empty cell", v.Name(), kindNames[i]))
			}
		}
		return t
	}
	idx := 0
	for _, el := range lit.Elts {
		var val ast.Expr = el
		if kv, ok := el.(*ast.KeyValueExpr); ok {
			k, ok := constIndex(p.TypesInfo, kv.Key)
			if !ok {
				t.Errs = append(t.Errs, v.Name()+": non-constant row key")
				continue
			}
			idx = k
			val = kv.Value
		}
		rl, ok := val.(*ast.CompositeLit)
		if !ok || idx < 0 || idx >= K_DIM {
			t.Errs = append(t.Errs, fmt.Sprintf("%s: row %d is not a literal", v.Name(), idx))
			idx++
			continue
		}
		t.Cells[idx] = readRow(p.TypesInfo, rl, &t.Errs, fmt.Sprintf("%s[%s]", v.Name(), kindNames[idx]))
		idx++
	}
	for i := 0; i < K_DIM; i++ {
		if t.Cells[i] == nil {
			t.Cells[i] = make([]*types.Func, K_DIM)
			t.Errs = append(t.Errs, fmt.Sprintf("%s[%s]: missing row", v.Name(), kindNames[i]))
			continue
		}
		for j := 0; j < K_DIM; j++ {
			if t.Cells[i][j] == nil {
				t.Errs = append(t.Errs, fmt.Sprintf("%s[%s][%s]: empty cell", v.Name(), kindNames[i], kindNames[j]))
			}
		}
	}
	return t
}

// DispTables returns every package-level disposition table of package p, read
// from its declaration literal or, when that is empty, from the assignment in
// an init function.
func (c *Ctx) DispTables(p *packages.Package) []*DispTable {
	var out []*DispTable
	cands := map[*types.Var]*DispTable{}
	shape := map[*types.Var][2]int{}
	var order []*types.Var
	for _, f := range p.Syntax {
		for _, d := range f.Decls {
			gd, ok := d.(*ast.GenDecl)
			if !ok || gd.Tok != token.VAR {
				continue
			}
			for _, sp := range gd.Specs {
				vs := sp.(*ast.ValueSpec)
				for i, nm := range vs.Names {
					v, ok := p.TypesInfo.Defs[nm].(*types.Var)
					if !ok {
						continue
					}
					dim, ar, ok := dispShape(v.Type())
					if !ok {
						continue
					}
					shape[v] = [2]int{dim, ar}
					order = append(order, v)
					if i < len(vs.Values) {
						if lit, ok := vs.Values[i].(*ast.CompositeLit); ok && len(lit.Elts) > 0 {
							cands[v] = c.readDispLit(p, v, lit, dim, ar)
						}
					}
				}
			}
		}
	}
	// assignments anywhere in the package (init functions): v = [..]F{...}
	for _, f := range p.Syntax {
		ast.Inspect(f, func(n ast.Node) bool {
			as, ok := n.(*ast.AssignStmt)
			if !ok || len(as.Lhs) != len(as.Rhs) {
				return true
			}
			for i, l := range as.Lhs {
				id, ok := l.(*ast.Ident)
				if !ok {
					continue
				}
				v, ok := p.TypesInfo.Uses[id].(*types.Var)
				if !ok {
					continue
				}
				sh, ok := shape[v]
				if !ok {
					continue
				}
				lit, ok := as.Rhs[i].(*ast.CompositeLit)
				if !ok {
					t := &DispTable{Name: v.Name(), Var: v, Pkg: p, Dim: sh[0], Arity: sh[1], Pos: as.Pos()}
					t.Errs = append(t.Errs, v.Name()+": assigned from a non-literal")
					cands[v] = t
					continue
				}
				if prev, dup := cands[v]; dup && prev.Lit != nil && len(prev.Lit.Elts) > 0 && prev.Lit != lit {
					t := c.readDispLit(p, v, lit, sh[0], sh[1])
					t.Errs = append(t.Errs, v.Name()+": table is assigned more than once")
					cands[v] = t
					continue
				}
				cands[v] = c.readDispLit(p, v, lit, sh[0], sh[1])
			}
			return true
		})
	}
	for _, v := range order {
		if t, ok := cands[v]; ok {
			out = append(out, t)
		} else {
			t := &DispTable{Name: v.Name(), Var: v, Pkg: p, Dim: shape[v][0], Arity: shape[v][1], Pos: v.Pos()}
			t.Errs = append(t.Errs, v.Name()+": no literal found for table")
			t.Cells = make([][]*types.Func, K_DIM)
			for i := range t.Cells {
				t.Cells[i] = make([]*types.Func, K_DIM)
			}
			out = append(out, t)
		}
	}
	sort.SliceStable(out, func(i, j int) bool { return out[i].Pos < out[j].Pos })
	return out
}

func (c *Ctx) TableByName(tabs []*DispTable, name string) *DispTable {
	for _, t := range tabs {
		if t.Name == name {
			return t
		}
	}
	return nil
}
